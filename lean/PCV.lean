import PCV.Props.C26
