import PCV.Registry
open PCV

def chomp (s : String) : String :=
  String.ofList (s.toList.reverse.dropWhile (fun c => c == '\n' || c == '\r')).reverse

def engines : List (String × Engine) := PCV.engineTable

partial def loopModel (e : Engine) (h : IO.FS.Stream) (out : IO.FS.Stream) (s : e.σ) : IO Unit := do
  let line ← h.getLine
  if line.isEmpty then return ()
  let l := chomp line
  let (s', ans) := if l == "reset" then (e.init, "ok") else e.step s l
  out.putStrLn ans
  loopModel e h out s'

partial def loopSpec (e : Engine) (h : IO.FS.Stream) (out : IO.FS.Stream) (s : e.τ) : IO Unit := do
  let line ← h.getLine
  if line.isEmpty then return ()
  let l := chomp line
  match l.splitOn "\t" with
  | [op, ans] =>
    let (s', v) := if op == "reset" then (e.specInit, "skip") else e.spec s op ans
    out.putStrLn v
    loopSpec e h out s'
  | _ =>
    out.putStrLn "bad-line"
    loopSpec e h out s

def main (args : List String) : IO UInt32 := do
  let stdin ← IO.getStdin
  let stdout ← IO.getStdout
  match args with
  | [name] =>
    match engines.lookup name with
    | some e => loopModel e stdin stdout e.init; return 0
    | none => IO.eprintln s!"unknown engine {name}"; return 2
  | [name, "--spec"] =>
    match engines.lookup name with
    | some e => loopSpec e stdin stdout e.specInit; return 0
    | none => IO.eprintln s!"unknown engine {name}"; return 2
  | _ => IO.eprintln "usage: pcvdriver <engine> [--spec]"; return 2
