/-
An engine is a state machine over op lines. `step` is the executable model;
`spec` consumes "op<TAB>implAnswer" and returns a verdict line
("holds" / "fails <why>" / "skip").
-/
namespace PCV

structure Engine where
  σ : Type
  init : σ
  /-- model step: op line ↦ answer line -/
  step : σ → String → σ × String
  τ : Type
  specInit : τ
  /-- property oracle evaluated on the implementation's own answer -/
  spec : τ → String → String → τ × String

def Engine.pure (f : String → String) (s : String → String → String) : Engine :=
  { σ := Unit, init := (), step := fun _ l => ((), f l),
    τ := Unit, specInit := (), spec := fun _ l a => ((), s l a) }

end PCV
