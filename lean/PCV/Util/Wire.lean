/-
Line-protocol helpers shared by all engines (core Lean only).
Byte strings travel hex-encoded; the empty byte string is "-".
-/
namespace PCV.Wire

def hexDigit (n : Nat) : Char :=
  if n < 10 then Char.ofNat (48 + n) else Char.ofNat (87 + n)

def hexOfByte (b : UInt8) : String :=
  String.ofList [hexDigit (b.toNat / 16), hexDigit (b.toNat % 16)]

def hexOfBytes (bs : List UInt8) : String :=
  if bs.isEmpty then "-" else String.join (bs.map hexOfByte)

def hexVal (c : Char) : Option Nat :=
  if '0' ≤ c ∧ c ≤ '9' then some (c.toNat - 48)
  else if 'a' ≤ c ∧ c ≤ 'f' then some (c.toNat - 87)
  else if 'A' ≤ c ∧ c ≤ 'F' then some (c.toNat - 55)
  else none

def bytesOfHexChars : List Char → Option (List UInt8)
  | [] => some []
  | [_] => none
  | a :: b :: rest => do
    let x ← hexVal a
    let y ← hexVal b
    let r ← bytesOfHexChars rest
    pure (UInt8.ofNat (x * 16 + y) :: r)

def bytesOfHex (s : String) : Option (List UInt8) :=
  if s == "-" then some [] else bytesOfHexChars s.toList

/-- Split an op line into words (single spaces). -/
def words (s : String) : List String :=
  (s.splitOn " ").filter (· ≠ "")

def natList (ws : List String) : Option (List Nat) :=
  ws.mapM String.toNat?

def intList (ws : List String) : Option (List Int) :=
  ws.mapM String.toInt?

def showNats (ns : List Nat) : String :=
  " ".intercalate (ns.map toString)

def showInts (ns : List Int) : String :=
  " ".intercalate (ns.map toString)

end PCV.Wire
