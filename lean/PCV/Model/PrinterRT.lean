/-
Model of the round-trip (Format == false) half of `experimental/ast/printer/printer.go`:
`printTokenAs`, `emitTrailing`, `emitCommaTrivia`, `appendPending`, `emitTriviaSlot`,
`emitRemainingTrivia`, `emitGap`, `emitTrivia`, `withIndent`, `withGroup`, and the
`emitCloseComments` / `emitComment` / `emitBlockComment` path that `printBody` takes even in
round-trip mode.  The AST walk (decl.go, expr.go, path.go, type.go) is NOT modelled: the order in
which it calls these primitives arrives as a `Plan` (transcribed by the harness from the real
AST, see harness/engines/printer.go).  `execPlan` runs a plan against the modelled trivia index
and produces the dom that the real printer hands to `dom.Render`.
-/
import PCV.Model.Trivia
import PCV.Model.Dom
namespace PCV.PrinterRT
open PCV.Trivia PCV.Dom

inductive Gap where
  | none | space | newline | softline | blankline
  deriving DecidableEq, Repr, Inhabited

inductive Plan where
  | tok (id : Nat) (gap : Gap)          -- printToken / printTokenAs with the token's own text
  | slot (scope i : Nat)                -- emitTriviaSlot
  | remain (scope i : Nat)              -- emitRemainingTrivia
  | comma (id : Nat)                    -- emitCommaTrivia
  | flush                               -- emitTrivia (round-trip mode ignores the gap)
  | softbreak                           -- push(tagSoftbreak)
  | closeComments                       -- printBody: `if pendingHasComments() { emitCloseComments(nil, _) }`
  | indent (kids : List Plan)           -- withIndent
  | group (kids : List Plan)            -- withGroup
  | ifNonEmpty (scope : Nat) (a b : List Plan)  -- printBody's `!trivia.isEmpty()` test
  deriving Repr, Inhabited

/-- printer configuration in round-trip mode: `Options{}.withDefaults()` -/
def rtMaxWidth : Nat := 100
def rtIndent : Bytes := [32, 32]
def rtOptions (omitNL : Bool) : Dom.Options := { maxWidth := 100, tabstop := 2, omitTrailingNewline := omitNL }

def textOf (ts : List Skip) : Bytes := ts.flatMap (·.text)

/-- `dom.Text(s)`: the empty string pushes nothing -/
def domText (s : Bytes) : List Tag := if s.isEmpty then [] else [.text .always s]

/-- `emitGap` -/
def gapTags : Gap → List Tag
  | .none => []
  | .space => [.text .always [32]]
  | .newline => [.text .always [10]]
  | .softline => [.text .flat [32], .text .broken [10]]
  | .blankline => [.text .always [10, 10]]

/-- `strings.TrimRight(s, " \t")` -/
def trimRight (s : Bytes) : Bytes := (s.reverse.dropWhile (fun b => b == 32 || b == 9)).reverse

/-- `strings.TrimLeft(s, " \t")` -/
def trimLeft (s : Bytes) : Bytes := s.dropWhile (fun b => b == 32 || b == 9)

/-- `strings.Split(text, "\n")` -/
def splitLines : Bytes → List Bytes
  | [] => [[]]
  | b :: bs =>
    match splitLines bs with
    | [] => [[b]]
    | l :: ls => if b = 10 then [] :: l :: ls else (b :: l) :: ls

/-- `computeVisualIndent` (ASCII) -/
def visualIndent : Bytes → Nat → Nat
  | [], n => n
  | b :: bs, n =>
    if b = 32 then visualIndent bs (n + 1)
    else if b = 9 then visualIndent bs (n + (8 - n % 8))
    else n

/-- `unindent(line, n)` -/
def unindent : Bytes → Nat → Nat → Bytes
  | [], _, _ => []
  | b :: bs, pos, n =>
    if pos = n then b :: bs
    else if pos > n then List.replicate (pos - n) 32 ++ (b :: bs)
    else if b = 32 then unindent bs (pos + 1) n
    else if b = 9 then unindent bs (pos + (8 - pos % 8)) n
    else b :: bs

/-- `emitBlockComment` with `NormalizeBlockComments == false` -/
def blockCommentTags (text : Bytes) : List Tag :=
  match splitLines text with
  | [] => domText text
  | [_] => domText text
  | l0 :: rest =>
    let inds := (rest.filter (fun l => !(trimLeft l).isEmpty)).map (fun l => visualIndent l 0)
    let minIndent := match inds with
      | [] => 0
      | i :: is => is.foldl min i
    domText (trimRight l0) ++
      rest.flatMap (fun l => domText [10] ++ domText (trimRight (unindent l 0 minIndent)))

/-- `emitComment` -/
def commentTags (s : Skip) : List Tag :=
  let text := trimRight s.text
  if text.take 2 == [47, 42] then blockCommentTags text else domText text

structure Env where
  ix : Index
  texts : List (Nat × Bytes)      -- text of every natural token (open and close tokens separately)

def Env.text (e : Env) (id : Nat) : Bytes := (e.texts.lookup id).getD []

def slotOf (e : Env) (scope i : Nat) : List Skip := ((e.ix.det scope).slots[i]?).getD []

mutual
/-- one printer primitive: (pending, pushed tags) -/
def execOne (e : Env) : List Skip → Plan → List Skip × List Tag
  | pending, .tok id gap =>
    match e.ix.att? id with
    | some a =>
      let p1 := pending ++ a.leading
      (a.trailing, domText (textOf p1) ++ domText (e.text id))
    | none => (pending, gapTags gap ++ domText (e.text id))
  | pending, .slot scope i => (pending ++ slotOf e scope i, [])
  | pending, .remain scope i => (pending ++ ((e.ix.det scope).slots.drop i).flatten, [])
  | pending, .comma id =>
    match e.ix.att? id with
    | some a => (pending ++ a.trailing, [])
    | none => (pending, [])
  | pending, .flush => ([], domText (textOf pending))
  | pending, .softbreak => (pending, [.text .broken [10]])
  | pending, .closeComments =>
    if hasComment pending then
      ([], (pending.filter (·.comment)).flatMap (fun c => [.text .always [10]] ++ commentTags c))
    else (pending, [])
  | pending, .indent kids =>
    let (p1, tags) := execList e pending kids
    (p1, [.indent rtIndent tags])
  | pending, .group kids =>
    let (p1, tags) := execList e pending kids
    (p1, [.group .always rtMaxWidth tags])
  | pending, .ifNonEmpty scope a b =>
    if !(e.ix.det scope).isEmpty then execList e pending a else execList e pending b
def execList (e : Env) : List Skip → List Plan → List Skip × List Tag
  | pending, [] => (pending, [])
  | pending, p :: ps =>
    let (p1, t1) := execOne e pending p
    let (p2, t2) := execList e p1 ps
    (p2, t1 ++ t2)
end

/-- the dom of one `dom.Render` call driven by `plan` -/
def execPlan (e : Env) (plan : List Plan) : List Tag := (execList e [] plan).2

/-- `PrintFile(Options{}, file)` given the file plan -/
def printFile (e : Env) (plan : List Plan) : Bytes := render (rtOptions false) (execPlan e plan)

/-- `Print(Options{}, decl)` given the plan of that declaration -/
def printDecl (e : Env) (plan : List Plan) : Bytes := render (rtOptions true) (execPlan e plan)

/-! ### token texts of a tree -/

mutual
def textsOfItem : Item → List (Nat × Bytes)
  | .skip _ => []
  | .leaf id _ t => [(id, t)]
  | .fused id _ ot kids cid ct => (id, ot) :: (textsOf kids ++ [(cid, ct)])
def textsOf : List Item → List (Nat × Bytes)
  | [] => []
  | it :: r => textsOfItem it ++ textsOf r
end

mutual
def sourceOfItem : Item → Bytes
  | .skip s => s.text
  | .leaf _ _ t => t
  | .fused _ _ ot kids _ ct => ot ++ (sourceOf kids ++ ct)
/-- the source text the tree was lexed from -/
def sourceOf : List Item → Bytes
  | [] => []
  | it :: r => sourceOfItem it ++ sourceOf r
end

def Env.ofItems (items : List Item) : Env := { ix := Index.ofItems items, texts := textsOf items }

end PCV.PrinterRT
