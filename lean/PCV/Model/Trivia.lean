/-
Model of `experimental/ast/printer/trivia.go` (`buildTriviaIndex`: `walkScope`, `walkDecl`,
`walkFused`, `splitDetached`, `firstNewlineIndex`, `nextNonSkippableIsSemi`) over the token tree
of a file: natural tokens with fused bracket pairs, skippable tokens (spaces, comments) in place.

The Go code walks a `token.Cursor` and "pushes back" tokens with `PrevSkippable`; every push-back
re-queues a suffix of what was just consumed, so the model threads the *remaining item list*
instead (`pushed back ++ unread`).  One cursor quirk is mirrored explicitly (`closeView`): when
exactly one `PrevSkippable` lands on a fused token, the cursor rests on its CLOSE token in
backwards mode and the next `NextSkippable` returns the close token; `walkScope` then registers
the leading trivia under the close token's ID, `walkFused` overwrites that entry, and the open
token is left without an entry.

What the Go code drops (puts into no bucket) is kept in the model output as `dropped`, so that
the accounting identity `emitScope (walkScope ..) = piecesOf items` holds for every input
(proved in `PCV.Lemmas.Trivia`).
-/
namespace PCV.Trivia

abbrev TBytes := List UInt8

structure Skip where
  id : Nat
  comment : Bool          -- token.Comment (else token.Space)
  text : TBytes
  deriving DecidableEq, Repr, Inhabited

/-- `tok.Kind() == token.Space && strings.Contains(tok.Text(), "\n")` -/
def Skip.isNewline (s : Skip) : Bool := !s.comment && s.text.contains 10

inductive Kw where
  | semi | comma | assign | other
  deriving DecidableEq, Repr, Inhabited

inductive Br where
  | braces | brackets | parens | angles | other
  deriving DecidableEq, Repr, Inhabited

inductive Item where
  | skip (s : Skip)
  | leaf (id : Nat) (kw : Kw) (text : TBytes)
  | fused (id : Nat) (br : Br) (otext : TBytes) (kids : List Item) (cid : Nat) (ctext : TBytes)
  deriving Repr, Inhabited

def Item.isFused : Item → Bool
  | .fused .. => true
  | _ => false

inductive Mode where
  | decl | literal
  deriving DecidableEq, Repr, Inhabited

def hasComment (ts : List Skip) : Bool := ts.any (·.comment)

/-- `firstNewlineIndex` -/
def firstNewlineIndex (ts : List Skip) : Nat := ts.findIdx (·.isNewline)

/-- backwards scan of `splitDetached`; the argument is the reversed token list, the index of
    its head is the length of its tail -/
def sdScan : List Skip → Option Nat → Option Nat
  | [], lbe => lbe
  | t :: rest, lbe =>
    if t.comment then sdScan rest none
    else if t.isNewline then
      match lbe with
      | some _ => lbe
      | none => sdScan rest (some rest.length)
    else sdScan rest lbe

/-- `splitDetached(tokens)` -/
def splitDetached (ts : List Skip) : List Skip × List Skip :=
  match sdScan ts.reverse none with
  | none => ([], ts)
  | some k => (ts.take k, ts.drop k)

/-- a block comment: text starts with `/*` -/
def Skip.isBlock (s : Skip) : Bool := s.comment && (s.text.take 2 == [47, 42])

/-! ### per-scope output -/

structure NatOut where
  openId : Nat
  closeId : Nat              -- = openId for a leaf
  fusedBr : Option Br        -- `none` for a leaf
  viaClose : Bool            -- registered through the close token (cursor quirk): `leading` is lost
  leading : List Skip
  childMode : Mode           -- scope mode `walkFused` picks for the children
  trailing : List Skip       -- attached to the end token (`closeId`)
  dropped : List Skip        -- consumed after this token and stored nowhere
  deriving Repr, Inhabited

structure DeclOut where
  slot : List Skip
  blank : Bool
  toks : List NatOut
  deriving Repr, Inhabited

structure ScopeOut where
  openTrailing : List Skip   -- trailing trivia put on the scope's open token
  decls : List DeclOut
  lastSlot : List Skip       -- before `walkFused` splits off the close token's leading trivia
  blankBeforeClose : Bool
  deriving Repr, Inhabited

/-- what `walkDecl` needs to know about a natural token -/
structure NatInfo where
  openId : Nat
  closeId : Nat
  fusedBr : Option Br
  kw : Kw
  deriving Repr, Inhabited

def natInfo : Item → NatInfo
  | .skip s => ⟨s.id, s.id, none, .other⟩       -- not used
  | .leaf id kw _ => ⟨id, id, none, kw⟩
  | .fused id br _ _ cid _ => ⟨id, cid, some br, .other⟩

def mkNat (n : NatInfo) (leading : List Skip) (viaClose : Bool) : NatOut :=
  { openId := n.openId, closeId := n.closeId, fusedBr := n.fusedBr, viaClose := viaClose,
    leading := leading, childMode := .decl, trailing := [], dropped := [] }

/-- `walkFused`'s choice of the child scope mode -/
def childModeOf (br : Option Br) (sawAssign : Bool) : Mode :=
  match br with
  | some .brackets => .literal
  | some .braces => if sawAssign then .literal else .decl
  | some .angles => if sawAssign then .literal else .decl
  | _ => .decl

/-- `nextNonSkippableIsSemi`: (isSemi, cursor left on the close token of a fused item) -/
def peekSemi : List Item → Bool × Bool
  | [] => (false, false)
  | .skip _ :: r => ((peekSemi r).1, false)
  | .leaf _ kw _ :: _ => (kw == .semi, false)
  | .fused .. :: _ => (false, true)

/-- result of the trailing-trivia part of `walkDecl` -/
structure TrailRes where
  trailing : List Skip
  dropped : List Skip
  remaining : List Item
  closeView : Bool
  hasBlank : Bool
  deriving Repr, Inhabited

/-- "comment or natural token after a newline" branch of the trailing loop -/
def stopAfterNL (trailing : List Skip) (rem : List Item) : TrailRes :=
  let fn := firstNewlineIndex trailing
  let rest := trailing.drop fn
  let (det, att) := splitDetached rest
  { trailing := trailing.take (fn + det.length), dropped := [],
    remaining := att.map Item.skip ++ rem, closeView := false, hasBlank := !det.isEmpty }

/-- end-of-scope post-processing of the trailing loop (`atEndOfScope`) -/
def endOfScopeTrail (trailing : List Skip) (afterNL endIsSemi : Bool) : TrailRes :=
  if afterNL then
    let fn := firstNewlineIndex trailing
    { trailing := trailing.take fn, dropped := [], remaining := (trailing.drop fn).map Item.skip,
      closeView := false, hasBlank := false }
  else if !trailing.isEmpty && endIsSemi && trailing.any (·.isBlock) then
    { trailing := [], dropped := [], remaining := trailing.map Item.skip, closeView := false,
      hasBlank := false }
  else
    { trailing := trailing, dropped := [], remaining := [], closeView := false, hasBlank := false }

/-- the `for tok := cursor.NextSkippable(); …` loop after a declaration boundary -/
def trailLoop (endIsSemi : Bool) : Bool → List Skip → List Item → TrailRes
  | afterNL, trailing, [] => endOfScopeTrail trailing afterNL endIsSemi
  | afterNL, trailing, .skip s :: r =>
    if afterNL && s.comment then stopAfterNL trailing (.skip s :: r)
    else trailLoop endIsSemi (afterNL || s.isNewline) (trailing ++ [s]) r
  | afterNL, trailing, it :: r =>
    if !afterNL then
      { trailing := trailing, dropped := [], remaining := it :: r, closeView := it.isFused,
        hasBlank := false }
    else stopAfterNL trailing (it :: r)

/-- the declaration ran to the end of the scope without a boundary: `pending` is what followed
    the last natural token -/
def exhausted (pending : List Skip) : TrailRes :=
  if pending.isEmpty then
    { trailing := [], dropped := [], remaining := [], closeView := false, hasBlank := false }
  else
    let fn := firstNewlineIndex pending
    let head := pending.take fn
    let rest := pending.drop fn
    let tr := if hasComment head then head else []
    let dr := if hasComment head then [] else head
    if hasComment rest then
      let (_, att) := splitDetached rest
      { trailing := tr, dropped := dr, remaining := rest.map Item.skip, closeView := false,
        hasBlank := decide (rest.length > att.length) }
    else
      { trailing := tr, dropped := dr ++ rest, remaining := [], closeView := false, hasBlank := false }

/-- result of `walkDecl` -/
structure DeclRes where
  toks : List NatOut
  remaining : List Item
  closeView : Bool
  hasBlank : Bool
  deriving Repr, Inhabited

def finishWith (acc : List NatOut) (cur : NatOut) (t : TrailRes) : DeclRes :=
  { toks := acc ++ [{ cur with trailing := t.trailing, dropped := t.dropped }],
    remaining := t.remaining, closeView := t.closeView, hasBlank := t.hasBlank }

/-- The main loop of `walkDecl`.  `cur` is the current end token (its trailing trivia is still
    open), `info` describes it, `pending` is the skippable run read since. `fresh` says that
    `cur` was just read and its boundary check is still to be done. -/
def declLoop (mode : Mode) : (fresh : Bool) → NatInfo → NatOut → Bool → List Skip → List NatOut →
    List Item → DeclRes
  | true, info, cur, sawAssign, _, acc, rest =>
    -- sawAssign, walkFused, boundary check for the token just registered
    let sawAssign' := sawAssign || info.kw == .assign
    let cur' := { cur with childMode := childModeOf info.fusedBr sawAssign' }
    let isBraces := info.fusedBr == some .braces
    let needPeek := isBraces && sawAssign'
    let isSemi := needPeek && (peekSemi rest).1
    let boundary := info.kw == .semi || (isBraces && (!sawAssign' || !isSemi)) ||
      (mode == .literal && info.kw == .comma)
    if boundary then
      let t := trailLoop (info.kw == .semi) false [] rest
      -- (a peek that left the cursor on a close token is seen again by the trailing loop,
      -- which pushes it back the same way: `t.closeView`)
      finishWith acc cur' t
    else
      match rest with
      | [] => finishWith acc cur' (exhausted [])
      | .skip s :: r => declLoop mode false info cur' sawAssign' [s] acc r
      | it :: r =>
        let n := natInfo it
        declLoop mode true n (mkNat n [] false) sawAssign' [] (acc ++ [cur']) r
  | false, info, cur, sawAssign, pending, acc, rest =>
    match rest with
    | [] => finishWith acc cur (exhausted pending)
    | .skip s :: r => declLoop mode false info cur sawAssign (pending ++ [s]) acc r
    | it :: r =>
      let fn := firstNewlineIndex pending
      let ext := hasComment (pending.take fn) && decide (fn < pending.length)
      let cur' := if ext then { cur with trailing := pending.take fn } else cur
      let leading := if ext then pending.drop fn else pending
      let n := natInfo it
      declLoop mode true n (mkNat n leading false) sawAssign [] (acc ++ [cur']) r

/-- `walkDecl(cursor, startToken, mode)` -/
def walkDecl (mode : Mode) (start : NatOut) (info : NatInfo) (rest : List Item) : DeclRes :=
  declLoop mode true info start false [] [] rest

/-- one iteration of the `walkScope` loop at a natural token `it` (`first`: no slot recorded
    yet): the new open-token trailing trivia, the declaration record, and `walkDecl`'s result -/
def scopeStep (isFile : Bool) (mode : Mode) (pending : List Skip) (hadBlank closeView first : Bool)
    (openTr : List Skip) (it : Item) (r : List Item) : List Skip × DeclOut × DeclRes :=
  let fn := firstNewlineIndex pending
  let ext := first && !isFile && decide (fn < pending.length) && hasComment (pending.take fn)
  let openTr' := if ext then pending.take fn else openTr
  let pending1 := if ext then pending.drop fn else pending
  let sd := splitDetached pending1
  let blank := hadBlank || (first && hasComment sd.1)
  let n := natInfo it
  let res := walkDecl mode (mkNat n sd.2 (closeView && it.isFused)) n r
  (openTr', { slot := sd.1, blank := blank, toks := res.toks }, res)

/-- the loop of `walkScope`; `fuel` bounds the number of iterations -/
def scopeLoop (isFile : Bool) (mode : Mode) : Nat → List Skip → Bool → Bool → List DeclOut →
    List Skip → List Item → ScopeOut
  | 0, pending, hadBlank, _, decls, openTr, _ =>
    { openTrailing := openTr, decls := decls, lastSlot := pending, blankBeforeClose := hadBlank }
  | _+1, pending, hadBlank, _, decls, openTr, [] =>
    let hb := if !hadBlank && !isFile && !pending.isEmpty then
        let (det, att) := splitDetached pending
        hasComment det && hasComment att
      else hadBlank
    { openTrailing := openTr, decls := decls, lastSlot := pending, blankBeforeClose := hb }
  | fuel+1, pending, hadBlank, closeView, decls, openTr, .skip s :: r =>
    scopeLoop isFile mode fuel (pending ++ [s]) hadBlank closeView decls openTr r
  | fuel+1, pending, hadBlank, closeView, decls, openTr, it :: r =>
    let st := scopeStep isFile mode pending hadBlank closeView decls.isEmpty openTr it r
    scopeLoop isFile mode fuel [] st.2.2.hasBlank st.2.2.closeView (decls ++ [st.2.1]) st.1 st.2.2.remaining

/-- `walkScope(cursor, scopeID, mode)` on the items of one scope -/
def walkScope (isFile : Bool) (mode : Mode) (items : List Item) : ScopeOut :=
  scopeLoop isFile mode (2 * items.length + 2) [] false false [] [] items

/-! ### whole-tree index -/

structure ScopeRec where
  scopeId : Nat            -- 0 for the file, else the fused pair's open token ID
  closeId : Nat            -- 0 for the file
  out : ScopeOut
  deriving Repr, Inhabited

def modesOf (o : ScopeOut) : List (Nat × Mode) :=
  o.decls.flatMap (fun d => d.toks.map (fun t => (t.openId, t.childMode)))

mutual
def indexItem (modes : List (Nat × Mode)) : Item → List ScopeRec
  | .fused id _ _ kids cid _ =>
    let out := walkScope false ((modes.lookup id).getD .decl) kids
    ⟨id, cid, out⟩ :: indexKids (modesOf out) kids
  | _ => []
/-- all bracket scopes below `items`, outermost first (document order) -/
def indexKids (modes : List (Nat × Mode)) : List Item → List ScopeRec
  | [] => []
  | it :: rest => indexItem modes it ++ indexKids modes rest
end

/-- `buildTriviaIndex(stream)` as the list of walked scopes -/
def buildIndex (items : List Item) : List ScopeRec :=
  let out := walkScope true .decl items
  ⟨0, 0, out⟩ :: indexKids (modesOf out) items

/-! ### the two maps of `triviaIndex` -/

structure Att where
  leading : List Skip
  trailing : List Skip
  deriving Repr, Inhabited

structure Det where
  slots : List (List Skip)
  blankBefore : List Bool
  blankBeforeClose : Bool
  deriving Repr, Inhabited

def findScope (recs : List ScopeRec) (id : Nat) : Option ScopeRec := recs.find? (·.scopeId == id)

/-- `walkFused`: the last slot loses the close token's leading trivia -/
def closeSplit (r : ScopeRec) : List Skip × List Skip := splitDetached r.out.lastSlot

/-- entries of `attached` produced for one natural token (unsorted) -/
def attOfTok (recs : List ScopeRec) (t : NatOut) : List (Nat × Att) :=
  match t.fusedBr with
  | none => [(t.openId, ⟨t.leading, t.trailing⟩)]
  | some _ =>
    let child := findScope recs t.openId
    let openTr := (child.map (·.out.openTrailing)).getD []
    let closeLd := (child.map (fun c => (closeSplit c).2)).getD []
    let openEntry : List (Nat × Att) :=
      if t.viaClose then (if openTr.isEmpty then [] else [(t.openId, ⟨[], openTr⟩)])
      else [(t.openId, ⟨t.leading, openTr⟩)]
    openEntry ++ [(t.closeId, ⟨closeLd, t.trailing⟩)]

def attachedOf (recs : List ScopeRec) : List (Nat × Att) :=
  recs.flatMap (fun r => r.out.decls.flatMap (fun d => d.toks.flatMap (attOfTok recs)))

def detOf (r : ScopeRec) : Nat × Det :=
  let last := if r.scopeId == 0 then r.out.lastSlot else (closeSplit r).1
  (r.scopeId, ⟨r.out.decls.map (·.slot) ++ [last], r.out.decls.map (·.blank), r.out.blankBeforeClose⟩)

structure Index where
  attached : List (Nat × Att)
  detached : List (Nat × Det)
  deriving Repr, Inhabited

def Index.ofItems (items : List Item) : Index :=
  let recs := buildIndex items
  { attached := attachedOf recs, detached := recs.map detOf }

def Index.att? (ix : Index) (id : Nat) : Option Att := ix.attached.lookup id
def Index.det (ix : Index) (id : Nat) : Det := (ix.detached.lookup id).getD ⟨[], [], false⟩

/-- `detachedTrivia.isEmpty` -/
def Det.isEmpty (d : Det) : Bool :=
  d.slots.length == 0 || (d.slots.length == 1 && (d.slots.headD []).isEmpty)

end PCV.Trivia
