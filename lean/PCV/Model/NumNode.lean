/-
Model of what the parser and the option interpreter do with a (possibly negated) numeric literal:
* `numLit`: the grammar action of `numLit` in parser/proto.y — which AST node a numeric token becomes
  (`'-' _INT_LIT` is an int64 node up to 2^63, a float node above);
* `negWrap`: `ast.NewNegativeIntLiteralNode`, `Val: -int64(i.Val)` — what the grammar rule
  `enumValueNumber : '-' _INT_LIT` (enum value numbers, enum reserved ranges) builds WITHOUT a guard (AsInt64 of the node rejects magnitudes above 2^63 since the repair);
* `scalarValue`: `options.scalarFieldValue` for the numeric target types (default values, option
  values, message-literal fields);
* `enumNumber`, `fieldTag`, `reservedStart`: `ast.AsInt32` + `checkTag` / `getRangeBounds` of parser/result.go.
-/
namespace PCV.NumNode

inductive Node where
  | uint (n : Nat)      -- *ast.UintLiteralNode, Value() is a uint64
  | int (i : Int)       -- *ast.NegativeIntLiteralNode, Value() is an int64
  | float               -- a float literal node (FloatLiteralNode / SignedFloatLiteralNode)
deriving Repr, DecidableEq

/-- `numLit`: `neg` = a leading `-`; `isFloatTok` = the lexer produced a float token;
    `n` = the value of an int token -/
def numLit (neg isFloatTok : Bool) (n : Nat) : Node :=
  if isFloatTok then .float
  else if !neg then .uint n
  else if n > 2 ^ 63 then .float          -- `$2.Val > math.MaxInt64 + 1`: can't represent as int
  else .int (-(n : Int))

/-- `-int64(uint64 n)` in two's complement -/
def negWrap (n : Nat) : Int := if n ≤ 2 ^ 63 then -(n : Int) else ((2 ^ 64 - n : Nat) : Int)

inductive STy where
  | int32 | int64 | uint32 | uint64 | float | double | bool
deriving Repr, DecidableEq

def styOf (s : String) : Option STy :=
  if s == "int32" || s == "sint32" || s == "sfixed32" then some .int32
  else if s == "int64" || s == "sint64" || s == "sfixed64" then some .int64
  else if s == "uint32" || s == "fixed32" then some .uint32
  else if s == "uint64" || s == "fixed64" then some .uint64
  else if s == "float" then some .float
  else if s == "double" then some .double
  else if s == "bool" then some .bool
  else none

/-- `scalarFieldValue`: `none` = rejected, `some none` = accepted as a floating point value,
    `some (some v)` = accepted with the integer value `v` -/
def scalarValue (t : STy) (nd : Node) : Option (Option Int) :=
  match t, nd with
  | .bool, _ => none
  | .float, _ => some none
  | .double, _ => some none
  | _, .float => none
  | .int32, .int i => if i > 2 ^ 31 - 1 ∨ i < -(2 ^ 31) then none else some (some i)
  | .int32, .uint u => if u > 2 ^ 31 - 1 then none else some (some u)
  | .uint32, .int i => if i > 2 ^ 32 - 1 ∨ i < 0 then none else some (some i)
  | .uint32, .uint u => if u > 2 ^ 32 - 1 then none else some (some u)
  | .int64, .int i => some (some i)
  | .int64, .uint u => if u > 2 ^ 63 - 1 then none else some (some u)
  | .uint64, .int i => if i < 0 then none else some (some i)
  | .uint64, .uint u => some (some u)

/-- `ast.AsInt32(node, lo, hi)` on the node of `enumValueNumber` / a range bound -/
def asInt32 (neg : Bool) (n : Nat) (lo hi : Int) : Option Int :=
  -- NegativeIntLiteralNode.AsInt64 answers (0, false) when the magnitude exceeds 2^63 (the wrapped Val is not used)
  let v? : Option Int := if neg then (if n ≤ 2 ^ 63 then some (negWrap n) else none) else if n ≤ 2 ^ 63 - 1 then some (n : Int) else none
  match v? with
  | some v => if v < lo ∨ v > hi then none else some v
  | none => none

/-- enum value number (also a single enum reserved number): int32 range -/
def enumNumber (neg : Bool) (n : Nat) : Option Int := asInt32 neg n (-(2 ^ 31)) (2 ^ 31 - 1)

def maxTag : Nat := 536870911

/-- `checkTag` on a field number (the grammar admits no sign there) -/
def fieldTag (n : Nat) : Bool := decide (1 ≤ n) && decide (n ≤ maxTag) && !(decide (19000 ≤ n) && decide (n ≤ 19999))

/-- start of a message reserved range `n to max` -/
def reservedStart (n : Nat) : Bool := (asInt32 false n 1 maxTag).isSome

end PCV.NumNode
