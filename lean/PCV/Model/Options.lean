/-
Model of the option interpreter of `options/options.go` (C20, C21).

What is modelled, function by function (Go name → Lean name):
  scalarFieldValue → `scalarFieldValue`, enumFieldValue → `enumFieldValue`, fieldValue → `fieldValue`,
  messageLiteralValue → `msgLit` (incl. the expanded-Any branch), setOptionField → `setOptionField`
  (= `setOptionFieldCore` + `setOne`, `setItems` for the array loop), setMapEntry → `setMapEntry`,
  checkFieldUsage → `checkFieldUsage`, interpretField → `interpField` (+ `resolvePart`),
  interpretOptions (the loop → `optLoop`; validateRecursive → `reqV` / `featuresOK`; the lenient
  clone-then-replace) → `interpOptions`, interpretElementOptions → `interpElem`,
  interpretFieldOptions → `interpFieldElem`, interpretFieldPseudoOptions + processDefaultOption +
  defaultValue → `pseudoOptions` / `defaultText`, internal.FindOption / RemoveOption → `findOption` /
  `removeAt` / `removeInPlaceLeak`, the package function interpretOptions (two passes) → `runElem`.

Error handling.  Every error goes through `interp.handleError*`.  In strict mode (default reporter)
the handler returns the error and *every* call site returns it at once; in lenient mode, inside the
`enableLenience(true)` window, the handler returns nil, sets `lenientErrReported`, and the code
*continues as written*.  The model therefore runs the continue-after-error control flow once and
records the first error (`err`): a strict run is that run cut at its first error (its message
state is never observed after an error), a lenient run is the whole run — including what the
continued code does to the message after an error (values of a message literal that are set after
a bad field, intermediate messages created by a name-path walk that fails further down).
No run of the model panics: the two panics of the original code (dynamicpb called with an extension
of another message inside a message literal; `ffld.Message()` of a scalar field reached through the
lower-cased-name fallback) were fixed in /repo (47c63915, 28d6433e) and are ordinary errors now
(`Err.extendee`, `Err.msgfield`); a panic of the implementation is a disagreement.

Values.  An options message is a `PM` (field number ↦ value, insertion order); a field without
presence that is set to its zero value is not stored (dynamicpb: `Has` is false, `Range` skips it).
Map entries are kept in key order (only the printed form observes a Go map's order).
Floats are carried as IEEE bit patterns; NaNs are canonicalised where they are produced.
Float rounding (`float32(x)`, `float64(int)`) is computed exactly by the pure functions of
PCV.Model.OptionsFloat (round to nearest even on bit patterns).

Not modelled: the `…FromProto` twins used when no AST is present, message-set wire format,
`WithOverrideDescriptorProto`, source-info bookkeeping, warnings, feature-support checks of enum
values and `edition_deprecated` (warnings only), "feature used in the file that defines it", the
sanity checks of a hand-written `google.protobuf.Any`, the text of float defaults other than
inf/nan (compared by value), failures of the final `cloneInto` (invalid UTF-8).
-/
import PCV.Model.Escape
import PCV.Model.OptionsFloat
import PCV.Model.Utf8
namespace PCV.Options

/-! ## Schema -/

inductive Kind where
  | i32 | i64 | u32 | u64 | s32 | s64 | fx32 | fx64 | sfx32 | sfx64 | flt | dbl | bool | str | bytes
  | enum (e : Nat) | msg (m : Nat) | group (m : Nat)
deriving DecidableEq, Repr, Inhabited

inductive Card where | opt | req | rep
deriving DecidableEq, Repr, Inhabited

structure FieldS where
  name : String
  num : Nat
  kind : Kind
  card : Card
  isMap : Bool
  presence : Bool
  oneof : Option Nat
  targets : List Nat
  intro : Nat
  removed : Nat
  full : String
  extendee : String
  /-- string field whose UTF-8 validity the protobuf runtime enforces (declared in a proto3 file) -/
  utf8 : Bool := false
  /-- declared in the very file whose options are interpreted -/
  ownFile : Bool := false
deriving Repr, Inhabited

structure MsgS where
  full : String
  short : String
  parent : String
  fields : List FieldS
  /-- option message_set_wire_format = true -/
  msgSet : Bool := false
deriving Repr, Inhabited

structure EnumS where
  full : String
  closed : Bool
  vals : List (String × Int)
  /-- feature_support of the values: (number, edition_introduced, edition_removed), 0 = unset -/
  life : List (Int × Nat × Nat) := []
deriving Repr, Inhabited

structure Schema where
  enums : List EnumS
  msgs : List MsgS
  exts : List FieldS
  /-- indexes of File/Message/Field/Oneof/ExtensionRange/Enum/EnumValue/Service/MethodOptions -/
  optIdx : List Nat
  /-- descriptor.proto was linked from a descriptor proto: the interpreter's working message and the
      generated options struct have different descriptors, so `cloneInto` goes through
      Marshal/Unmarshal (and notices strings that are not UTF-8) instead of proto.Merge -/
  dynDescriptor : Bool := false
deriving Repr, Inhabited

def Schema.msg (s : Schema) (i : Nat) : MsgS := s.msgs.getD i default
def Schema.enum (s : Schema) (i : Nat) : EnumS := s.enums.getD i default

def Kind.isMessage : Kind → Bool
  | .msg _ => true | .group _ => true | _ => false

def Kind.msgIdx : Kind → Nat
  | .msg m => m | .group m => m | _ => 0

def findByName (fs : List FieldS) (n : String) : Option FieldS := fs.find? (·.name == n)
def findByNum (fs : List FieldS) (n : Nat) : Option FieldS := fs.find? (·.num == n)

/-- `resolver.FindExtensionByName` on the linked file (fully-qualified name, no leading dot) -/
def Schema.findExt (s : Schema) (fqn : String) : Option FieldS := s.exts.find? (·.full == fqn)

def findIdx {α} (p : α → Bool) : List α → Nat → Option Nat
  | [], _ => none
  | a :: r, i => if p a then some i else findIdx p r (i + 1)

def Schema.findMsg (s : Schema) (full : String) : Option Nat := findIdx (·.full == full) s.msgs 0

/-- the field of message `mi` (declared field or extension of that message) with number `n` -/
def Schema.fieldByNum (s : Schema) (mi n : Nat) : Option FieldS :=
  match findByNum (s.msg mi).fields n with
  | some f => some f
  | none => s.exts.find? (fun x => x.num == n && x.extendee == (s.msg mi).full)

/-! ## AST values (what `ast.ValueNode.Value()` yields) -/

inductive FName where
  | plain (s : String)
  | ext (fqn : String)
  | any (host name : String)
deriving Repr, DecidableEq, Inhabited

mutual
inductive AV where
  | uint (n : Nat)           -- uint64
  | sint (i : Int)           -- int64 (a literal written with a minus sign)
  | flt (bits : Nat)         -- float64
  | ident (s : String)
  | str (b : List UInt8)
  | msg (fs : AFs)
  | arr (vs : AVs)
inductive AFs where
  | nil
  | cons (name : FName) (sep : Bool) (val : AV) (rest : AFs)
inductive AVs where
  | nil
  | cons (v : AV) (rest : AVs)
end

def AFs.length : AFs → Nat
  | .nil => 0
  | .cons _ _ _ r => r.length + 1

structure NamePart where
  isExt : Bool
  name : String
deriving Repr, DecidableEq, Inhabited

structure Stmt where
  parts : List NamePart
  val : AV

/-! ## Interpreted values -/

inductive PV where
  | num (n : Int)
  | bytes (b : List UInt8)
  | msg (fs : List (Nat × PV))
  | many (vs : List PV)
deriving Inhabited

abbrev PM := List (Nat × PV)

def pmGet : PM → Nat → Option PV
  | [], _ => none
  | (k, v) :: r, n => if k = n then some v else pmGet r n

def pmSet : PM → Nat → PV → PM
  | [], n, v => [(n, v)]
  | (k, w) :: r, n, v => if k = n then (n, v) :: r else (k, w) :: pmSet r n v

def pmDel : PM → Nat → PM
  | [], _ => []
  | (k, w) :: r, n => if k = n then r else (k, w) :: pmDel r n

def PV.isZero : PV → Bool
  | .num n => n == 0
  | .bytes b => b.isEmpty
  | _ => false

/-- `msg.Set(fld, v)` as observed through `Has`/`Range`: an implicit-presence scalar equal to its
    zero value is absent. -/
def pmStore (m : PM) (f : FieldS) (v : PV) : PM :=
  if !f.presence && f.card != .rep && v.isZero then pmDel m f.num else pmSet m f.num v

def pmHas (m : PM) (f : FieldS) : Bool := (pmGet m f.num).isSome

/-! ## Errors -/

inductive Err where
  | uninterp | pseudodup | jsontype | jsonext | jsonbrackets | defrepeated | defmsg | defmsglit | defenumtype
  | unkext | extendee | nofield | target | notmsg | reppath | oneof | dup | notrep | range
  | enumname | enumnum | enumneedname | type | anymix | anynotany | anyurl | anylit | anyser
  | msgfield | colon | validate | msgset | utf8 | anyschema
deriving DecidableEq, Repr, Inhabited

def Err.toString : Err → String
  | .uninterp => "uninterp" | .pseudodup => "pseudodup" | .jsontype => "jsontype" | .jsonext => "jsonext"
  | .jsonbrackets => "jsonbrackets" | .defrepeated => "defrepeated" | .defmsg => "defmsg"
  | .defmsglit => "defmsglit" | .defenumtype => "defenumtype" | .unkext => "unkext" | .extendee => "extendee"
  | .nofield => "nofield" | .target => "target" | .notmsg => "notmsg" | .reppath => "reppath"
  | .oneof => "oneof" | .dup => "dup" | .notrep => "notrep" | .range => "range" | .enumname => "enumname"
  | .enumnum => "enumnum" | .enumneedname => "enumneedname" | .type => "type" | .anymix => "anymix"
  | .anynotany => "anynotany" | .anyurl => "anyurl" | .anylit => "anylit" | .anyser => "anyser"
  | .msgfield => "msgfield" | .colon => "colon" | .validate => "validate" | .msgset => "msgset" | .utf8 => "utf8" | .anyschema => "anyschema"

/-- keep the first error -/
def firstErr (a b : Option Err) : Option Err := match a with | some e => some e | none => b

/-! ## Float helpers -/

def isNaN64 (b : Nat) : Bool := (b / 4503599627370496) % 2048 == 2047 && b % 4503599627370496 != 0
def isNaN32 (b : Nat) : Bool := (b / 8388608) % 256 == 255 && b % 8388608 != 0
def nan64 : Nat := 0x7ff8000000000001
def nan32 : Nat := 0x7fc00000
def inf64 : Nat := 0x7ff0000000000000
def inf32 : Nat := 0x7f800000
def canon64 (b : Nat) : Nat := if isNaN64 b then nan64 else b
def canon32 (b : Nat) : Nat := if isNaN32 b then nan32 else b

/-- `float32(f)` for a float64 given by its bits -/
def f32OfF64 (b : Nat) : Nat := canon32 (f64ToF32 b)
/-- `float64(u)` for a uint64 -/
def f64OfNat (n : Nat) : Nat := natToF64 n
/-- `float64(i)` for an int64 -/
def f64OfInt (i : Int) : Nat := intToF64 i
/-- `float32(u)` / `float32(i)`: ONE rounding step from the integer (not via float64) -/
def f32OfNat (n : Nat) : Nat := natToF32 n
def f32OfInt (i : Int) : Nat := intToF32 i

/-! ## scalarFieldValue, enumFieldValue -/

def maxI32 : Int := 2147483647
def minI32 : Int := -2147483648
def maxU32 : Int := 4294967295
def maxI64 : Int := 9223372036854775807

def scalarFieldValue (k : Kind) (v : AV) (inside : Bool) : Except Err PV :=
  match k with
  | .bool =>
    match v with
    | .ident s =>
      if inside then
        if s == "t" || s == "true" || s == "True" then .ok (.num 1)
        else if s == "f" || s == "false" || s == "False" then .ok (.num 0)
        else .error .type
      else
        if s == "true" then .ok (.num 1)
        else if s == "false" then .ok (.num 0)
        else .error .type
    | _ => .error .type
  | .bytes => match v with | .str b => .ok (.bytes b) | _ => .error .type
  | .str => match v with | .str b => .ok (.bytes b) | _ => .error .type
  | .i32 | .s32 | .sfx32 =>
    match v with
    | .sint i => if i > maxI32 ∨ i < minI32 then .error .range else .ok (.num i)
    | .uint n => if (n : Int) > maxI32 then .error .range else .ok (.num n)
    | _ => .error .type
  | .u32 | .fx32 =>
    match v with
    | .sint i => if i > maxU32 ∨ i < 0 then .error .range else .ok (.num i)
    | .uint n => if (n : Int) > maxU32 then .error .range else .ok (.num n)
    | _ => .error .type
  | .i64 | .s64 | .sfx64 =>
    match v with
    | .sint i => .ok (.num i)
    | .uint n => if (n : Int) > maxI64 then .error .range else .ok (.num n)
    | _ => .error .type
  | .u64 | .fx64 =>
    match v with
    | .sint i => if i < 0 then .error .range else .ok (.num i)
    | .uint n => .ok (.num n)
    | _ => .error .type
  | .dbl =>
    match v with
    | .ident s => if s == "inf" then .ok (.num inf64) else if s == "nan" then .ok (.num nan64) else .error .type
    | .flt b => .ok (.num (canon64 b))
    | .sint i => .ok (.num (f64OfInt i))
    | .uint n => .ok (.num (f64OfNat n))
    | _ => .error .type
  | .flt =>
    match v with
    | .ident s => if s == "inf" then .ok (.num inf32) else if s == "nan" then .ok (.num nan32) else .error .type
    | .flt b => .ok (.num (f32OfF64 b))
    | .sint i => .ok (.num (f32OfInt i))
    | .uint n => .ok (.num (f32OfNat n))
    | _ => .error .type
  | _ => .error .type

def EnumS.byName (e : EnumS) (n : String) : Option Int := (e.vals.find? (·.1 == n)).map (·.2)
def EnumS.hasNum (e : EnumS) (n : Int) : Bool := e.vals.any (·.2 == n)

def enumByNumber (e : EnumS) (n : Int) : Except Err Int :=
  if e.hasNum n then .ok n else if e.closed then .error .enumnum else .ok n

def enumFieldValue (e : EnumS) (v : AV) (allowNumber : Bool) : Except Err Int :=
  match v with
  | .ident s => match e.byName s with | some n => .ok n | none => .error .enumname
  | .sint i =>
    if !allowNumber then .error .enumneedname
    else if i > maxI32 ∨ i < minI32 then .error .range
    else enumByNumber e i
  | .uint n =>
    if !allowNumber then .error .enumneedname
    else if (n : Int) > maxI32 then .error .range
    else enumByNumber e n
  | _ => .error .type

/-! ## checkFieldUsage -/

def checkFieldUsage (target : Nat) (f : FieldS) : Option Err :=
  if f.targets.isEmpty then none
  else if f.targets.contains target then none
  else some .target

/-- the gate in checkFieldUsage for fields of (= extensions of) a message with message-set wire
    format, which this build of the Go protobuf runtime does not support -/
def msgSetGate (s : Schema) (f : FieldS) : Option Err :=
  -- a message-set message has no fields of its own, so only its extensions can be concerned
  match (if f.extendee != "" then s.findMsg f.extendee else none) with
  | some i => if (s.msg i).msgSet then some .msgset else none
  | none => none

/-! ## Interpreter context and results -/

structure Cx where
  sch : Schema
  /-- FieldOptions.OptionTargetType number of the element -/
  target : Nat
  /-- a resolver is present (linked file); false for InterpretUnlinkedOptions -/
  linked : Bool
deriving Inhabited

/-- checkFieldUsage: the message-set gate, then the target types -/
def fieldUsage (cx : Cx) (f : FieldS) : Option Err :=
  firstErr (msgSetGate cx.sch f) (checkFieldUsage cx.target f)

/-- result of computing a value: `val = none` is Go's invalid `protoreflect.Value` -/
structure VR where
  val : Option PV
  err : Option Err
deriving Inhabited

/-- result of setOptionField / interpretField: the (possibly partially) mutated message,
    whether source info was returned (`ok`), first error -/
structure SR where
  pm : PM
  ok : Bool
  err : Option Err
deriving Inhabited

/-- `msg.WhichOneof(ood)`: the set member of oneof `o` of message `mi`, if any -/
def whichOneof (s : Schema) (mi : Nat) (pm : PM) (o : Nat) : Option FieldS :=
  (s.msg mi).fields.find? (fun f => f.oneof == some o && pmHas pm f)

def oneofConflict (s : Schema) (mi : Nat) (pm : PM) (f : FieldS) : Bool :=
  if f.extendee != "" then false else
  match f.oneof with
  | none => false
  | some o => match whichOneof s mi pm o with
    | some g => g.num != f.num
    | none => false

def defaultOf (s : Schema) (k : Kind) : PV :=
  match k with
  | .str | .bytes => .bytes []
  | .enum e => .num (match (s.enum e).vals with | (_, n) :: _ => n | [] => 0)
  | .msg _ | .group _ => .msg []
  | _ => .num 0

def keyEq : PV → PV → Bool
  | .num a, .num b => a == b
  | .bytes a, .bytes b => a == b
  | _, _ => false

def entryKey (e : PV) : PV :=
  match e with
  | .msg fs => (pmGet fs 1).getD (.num 0)
  | _ => .num 0

def bytesLt : List UInt8 → List UInt8 → Bool
  | [], [] => false
  | [], _ :: _ => true
  | _ :: _, [] => false
  | a :: r, b :: q => if a < b then true else if b < a then false else bytesLt r q

def keyLt (a b : PV) : Bool :=
  match a, b with
  | .num x, .num y => x < y
  | .bytes x, .bytes y => bytesLt x y
  | _, _ => false

/-- map entries are kept in key order (only the dump observes the order of a Go map) -/
def replaceEntry (k : PV) (e : PV) : List PV → List PV
  | [] => [e]
  | x :: r =>
    if keyEq (entryKey x) k then e :: r
    else if keyLt k (entryKey x) then e :: x :: r
    else x :: replaceEntry k e r

/-- `setMapEntry`: key and value are read with `entry.Get` (defaults when unset), the map entry is
    replaced when the key exists. `f` is the map field, `entry` the parsed entry message. -/
def setMapEntry (s : Schema) (pm : PM) (f : FieldS) (entry : PV) : PM :=
  let efs := (s.msg f.kind.msgIdx).fields
  let kf := (findByNum efs 1).getD default
  let vf := (findByNum efs 2).getD default
  let em : PM := match entry with | .msg fs => fs | _ => []
  let k := (pmGet em 1).getD (defaultOf s kf.kind)
  let v := (pmGet em 2).getD (defaultOf s vf.kind)
  let e := PV.msg [(1, k), (2, v)]
  let cur := match pmGet pm f.num with | some (.many es) => es | _ => []
  pmSet pm f.num (.many (replaceEntry k e cur))

def appendList (pm : PM) (f : FieldS) (v : PV) : PM :=
  let cur := match pmGet pm f.num with | some (.many es) => es | _ => []
  pmSet pm f.num (.many (cur ++ [v]))

/- required fields of message `mi` all present (recursively), as `proto.CheckInitialized` /
    `validateRecursive(validateRequiredFields)` see it -/
mutual
def reqV (s : Schema) (mi : Nat) : PV → Bool
  | .msg fs => (s.msg mi).fields.all (fun f => f.card != .req || (pmGet fs f.num).isSome) && reqF s mi fs
  | .many vs => reqL s mi vs
  | _ => true
def reqF (s : Schema) (mi : Nat) : List (Nat × PV) → Bool
  | [] => true
  | (n, v) :: r =>
    (match s.fieldByNum mi n with
     | some f => if f.kind.isMessage then reqV s f.kind.msgIdx v else true
     | none => true) && reqF s mi r
def reqL (s : Schema) (mi : Nat) : List PV → Bool
  | [] => true
  | v :: r => reqV s mi v && reqL s mi r
end

def validUtf8Aux : Nat → List UInt8 → Bool
  | 0, _ => true
  | _, [] => true
  | fuel + 1, bs =>
    let rw := PCV.Utf8.decodeRune bs
    if rw.2 == 0 || (rw.1 == PCV.Utf8.runeError && rw.2 == 1) then false else validUtf8Aux fuel (bs.drop rw.2)

def validUtf8 (bs : List UInt8) : Bool := validUtf8Aux bs.length bs

/- what proto.Marshal / Unmarshal check when cloneInto converts the working message: strings of
   fields that enforce UTF-8 -/
mutual
def utf8V (s : Schema) (mi : Nat) : PV → Bool
  | .msg fs => utf8F s mi fs
  | .many vs => utf8L s mi vs
  | _ => true
def utf8F (s : Schema) (mi : Nat) : List (Nat × PV) → Bool
  | [] => true
  | (n, v) :: r =>
    (match s.fieldByNum mi n with
     | some f =>
       if f.kind.isMessage then utf8V s f.kind.msgIdx v
       else if f.utf8 then (match v with
         | .bytes b => validUtf8 b
         | .many vs => vs.all (fun x => match x with | .bytes b => validUtf8 b | _ => true)
         | _ => true)
       else true
     | none => true) && utf8F s mi r
def utf8L (s : Schema) (mi : Nat) : List PV → Bool
  | [] => true
  | v :: r => utf8V s mi v && utf8L s mi r
end

/-- field lookup of messageLiteralValue with the lower-cased group name fallback (only a field
    that looks like a proto2 group may be named by its type name) -/
def lookupLiteralField (s : Schema) (mi : Nat) (name : String) : Option FieldS :=
  let m := s.msg mi
  match findByName m.fields name with
  | some f => some f
  | none =>
    match findByName m.fields name.toLower with
    | none => none
    | some f =>
      match f.kind with
      | .group g =>
        -- text format uses the type name; message and field declared in the same scope
        if name == (s.msg g).short && (s.msg g).parent == m.full then some f else none
      | _ => none

/-- the extension `f` does not belong to message `mi` -/
def foreignExt (s : Schema) (mi : Nat) (f : FieldS) : Bool :=
  f.extendee != "" && f.extendee != (s.msg mi).full

/-- `[fqn]` inside a message literal of type `mi`: unknown (or no resolver) → "field … not found";
    an extension of another message → "extension … should extend … but instead extends …" (47c63915) -/
def resolveLiteralExt (cx : Cx) (mi : Nat) (fqn : String) : Except Err FieldS :=
  match (if cx.linked then cx.sch.findExt fqn else none) with
  | none => .error .msgfield
  | some f => if foreignExt cx.sch mi f then .error .extendee else .ok f

/-- the checks on a message named google.protobuf.Any before its expanded form is accepted:
    singular string type_url = 1 and singular bytes value = 2 -/
def anySchemaOK (m : MsgS) : Bool :=
  (match findByNum m.fields 1 with
   | some f => f.card != .rep && f.kind == .str
   | none => false) &&
  (match findByNum m.fields 2 with
   | some f => f.card != .rep && f.kind == .bytes
   | none => false)

/-- the part of setOptionField after the value has been computed -/
def setOne (cx : Cx) (mi : Nat) (pm : PM) (f : FieldS) (r : VR) : SR :=
  match r.val with
  | none => ⟨pm, false, r.err⟩
  | some pv =>
    if oneofConflict cx.sch mi pm f then ⟨pm, false, firstErr r.err (some .oneof)⟩
    else if f.isMap then ⟨setMapEntry cx.sch pm f pv, true, r.err⟩
    else if f.card == .rep then ⟨appendList pm f pv, true, r.err⟩
    else if pmHas pm f then ⟨pm, false, firstErr r.err (some .dup)⟩
    else ⟨pmStore pm f pv, true, r.err⟩

/-- setOptionField once the recursive calls have been made: `fv` is `fieldValue` of the value
    (used when the value is not an array), `items` the array loop (used when it is) -/
def setOptionFieldCore (cx : Cx) (mi : Nat) (pm : PM) (f : FieldS) (isArr : Bool) (fv : VR) (items : SR) : SR :=
  if isArr then
    if f.card != .rep then ⟨pm, false, some .notrep⟩ else items
  else setOne cx mi pm f fv

def AV.isArr : AV → Bool | .arr _ => true | _ => false
def AV.isMsg : AV → Bool | .msg _ => true | _ => false

mutual

def fieldValue (cx : Cx) (f : FieldS) (v : AV) (inside : Bool) : VR :=
  match f.kind with
  | .enum e =>
    match enumFieldValue (cx.sch.enum e) v inside with
    | .ok n => ⟨some (.num n), none⟩
    | .error er => ⟨none, some er⟩
  | .msg m =>
    match v with
    | .msg fs => msgLit cx m fs fs.length [] false none
    | _ => ⟨none, some .type⟩
  | .group m =>
    match v with
    | .msg fs => msgLit cx m fs fs.length [] false none
    | _ => ⟨none, some .type⟩
  | k =>
    match scalarFieldValue k v inside with
    | .ok pv => ⟨some pv, none⟩
    | .error er => ⟨none, some er⟩

/-- the loop of messageLiteralValue over the remaining field nodes `fs`; `n` is the total number of
    field nodes of the literal, `pm` the message built so far -/
def msgLit (cx : Cx) (mi : Nat) (fs : AFs) (n : Nat) (pm : PM) (hadErr : Bool) (err : Option Err) : VR :=
  match fs with
  | .nil => if hadErr then ⟨none, err⟩ else ⟨some (.msg pm), err⟩
  | .cons name sep val rest =>
    match name with
    | .any host nm =>
      let hadErr1 := if n > 1 then true else hadErr
      let err := if n > 1 then firstErr err (some .anymix) else err
      if (cx.sch.msg mi).full != "google.protobuf.Any" then
        msgLit cx mi rest n pm true (firstErr err (some .anynotany))
      else if !anySchemaOK (cx.sch.msg mi) then
        msgLit cx mi rest n pm true (firstErr err (some .anyschema))
      else if host != "type.googleapis.com" && host != "type.googleprod.com" then
        msgLit cx mi rest n pm true (firstErr err (some .anyurl))
      else
        match val with
        | .msg anyFields =>
          match (if cx.linked then cx.sch.findMsg nm else none) with
          | none => msgLit cx mi rest n pm true (firstErr err (some .anyurl))
          | some ami =>
            let r := msgLit cx ami anyFields anyFields.length [] false none
            let err := firstErr err r.err
            match r.val with
            | none => msgLit cx mi rest n pm true err
            | some inner =>
              if !reqV cx.sch ami inner || !utf8V cx.sch ami inner then
                msgLit cx mi rest n pm true (firstErr err (some .anyser))
              else if !hadErr1 then
                -- Any.value has no presence: an inner message that serializes to nothing is absent
                let pm1 := pmSet pm 1 (.bytes (host ++ "/" ++ nm).toUTF8.toList)
                let pm2 := match inner with | .msg [] => pmDel pm1 2 | _ => pmSet pm1 2 inner
                msgLit cx mi rest n pm2 hadErr1 err
              else msgLit cx mi rest n pm hadErr1 err
        | _ => msgLit cx mi rest n pm true (firstErr err (some .anylit))
    | .ext fqn =>
      match resolveLiteralExt cx mi fqn with
      | .error e => msgLit cx mi rest n pm true (firstErr err (some e))
      | .ok f =>
        let err := firstErr err (fieldUsage cx f)
        if !sep && !f.kind.isMessage then
          msgLit cx mi rest n pm true (firstErr err (some .colon))
        else
          let r := match val with
            | .arr vs => setOptionFieldCore cx mi pm f true default (setItems cx mi pm f vs true)
            | v => setOptionFieldCore cx mi pm f false (fieldValue cx f v true) default
          msgLit cx mi rest n r.pm hadErr (firstErr err r.err)
    | .plain nm =>
      match lookupLiteralField cx.sch mi nm with
      | none => msgLit cx mi rest n pm true (firstErr err (some .msgfield))
      | some f =>
        let err := firstErr err (fieldUsage cx f)
        if !sep && !f.kind.isMessage then
          msgLit cx mi rest n pm true (firstErr err (some .colon))
        else
          let r := match val with
            | .arr vs => setOptionFieldCore cx mi pm f true default (setItems cx mi pm f vs true)
            | v => setOptionFieldCore cx mi pm f false (fieldValue cx f v true) default
          msgLit cx mi rest n r.pm hadErr (firstErr err r.err)

/-- the array loop of setOptionField -/
def setItems (cx : Cx) (mi : Nat) (pm : PM) (f : FieldS) (vs : AVs) (inside : Bool) : SR :=
  match vs with
  | .nil => ⟨pm, true, none⟩
  | .cons item rest =>
    let r := fieldValue cx f item inside
    match r.val with
    | none => ⟨pm, false, r.err⟩
    | some pv =>
      let pm := if f.isMap then setMapEntry cx.sch pm f pv else appendList pm f pv
      let r2 := setItems cx mi pm f rest inside
      ⟨r2.pm, r2.ok, firstErr r.err r2.err⟩

end

/-- setOptionField on message `pm` of type `mi` -/
def setOptionField (cx : Cx) (mi : Nat) (pm : PM) (f : FieldS) (v : AV) (inside : Bool) : SR :=
  match v with
  | .arr vs => setOptionFieldCore cx mi pm f true default (setItems cx mi pm f vs inside)
  | v => setOptionFieldCore cx mi pm f false (fieldValue cx f v inside) default

/-! ## interpretField: the name-path walk -/

def resolvePart (cx : Cx) (mi : Nat) (p : NamePart) : Except Err FieldS :=
  if p.isExt then
    match (if cx.linked then cx.sch.findExt p.name else none) with
    | none => .error .unkext
    | some f => if f.extendee != (cx.sch.msg mi).full then .error .extendee else .ok f
  else
    match findByName (cx.sch.msg mi).fields p.name with
    | none => .error .nofield
    | some f => .ok f

def interpField (cx : Cx) (mi : Nat) (pm : PM) (parts : List NamePart) (v : AV) : SR :=
  match parts with
  | [] => ⟨pm, false, some .nofield⟩
  | p :: rest =>
    match resolvePart cx mi p with
    | .error e => ⟨pm, false, some e⟩
    | .ok f =>
      let uerr := fieldUsage cx f
      match rest with
      | [] =>
        let r := setOptionField cx mi pm f v false
        ⟨r.pm, r.ok, firstErr uerr r.err⟩
      | _ :: _ =>
        if !f.kind.isMessage then ⟨pm, false, firstErr uerr (some .notmsg)⟩
        else if f.card == .rep then ⟨pm, false, firstErr uerr (some .reppath)⟩
        else
          match pmGet pm f.num with
          | some (.msg sub) =>
            let r := interpField cx f.kind.msgIdx sub rest v
            ⟨pmSet pm f.num (.msg r.pm), r.ok, firstErr uerr r.err⟩
          | _ =>
            if oneofConflict cx.sch mi pm f then ⟨pm, false, firstErr uerr (some .oneof)⟩
            else
              let r := interpField cx f.kind.msgIdx [] rest v
              ⟨pmSet pm f.num (.msg r.pm), r.ok, firstErr uerr r.err⟩

/-! ## feature validation (validateRecursive, the part that can fail) -/

def featureFieldOK (edition : Nat) (f : FieldS) : Bool :=
  !(f.intro != 0 && edition < f.intro) && !(f.removed != 0 && edition ≥ f.removed)

/-- validateEnumValueFeatureSupport: a known value with feature_support must be alive in `edition` -/
def enumValueOK (e : EnumS) (edition : Nat) (n : Int) : Bool :=
  match e.life.find? (·.1 == n) with
  | some (_, intro, removed) => !(intro != 0 && edition < intro) && !(removed != 0 && edition ≥ removed)
  | none => true

def enumValuesOK (e : EnumS) (edition : Nat) : PV → Bool
  | .num n => enumValueOK e edition n
  | .many vs => vs.all (fun v => match v with | .num n => enumValueOK e edition n | _ => true)
  | _ => true

/-- values of a map field whose value type is enum `e` -/
def mapEnumValuesOK (e : EnumS) (edition : Nat) : PV → Bool
  | .many es => es.all (fun en => match en with
      | .msg fs => (match pmGet fs 2 with | some (.num n) => enumValueOK e edition n | _ => true)
      | _ => true)
  | _ => true

/-- the enum-value part of the per-field check inside `features` -/
def featureEnumOK (s : Schema) (edition : Nat) (f : FieldS) (v : PV) : Bool :=
  match f.kind with
  | .enum e => enumValuesOK (s.enum e) edition v
  | .msg m =>
    if f.isMap then
      match findByNum (s.msg m).fields 2 with
      | some vf => (match vf.kind with
        | .enum e => mapEnumValuesOK (s.enum e) edition v
        | _ => true)
      | none => true
    else true
  | _ => true

/- fields set inside a `features` message (and inside custom feature messages) must be supported in
   the file's edition, their enum values too, and must not be defined in the file itself -/
mutual
def featV (s : Schema) (edition : Nat) (mi : Nat) : PV → Bool
  | .msg fs => featF s edition mi fs
  | .many vs => featL s edition mi vs
  | _ => true
def featF (s : Schema) (edition : Nat) (mi : Nat) : List (Nat × PV) → Bool
  | [] => true
  | (n, v) :: r =>
    (match s.fieldByNum mi n with
     | some f => !f.ownFile && featureFieldOK edition f && featureEnumOK s edition f v &&
                 (if f.kind.isMessage then featV s edition f.kind.msgIdx v else true)
     | none => true) && featF s edition mi r
def featL (s : Schema) (edition : Nat) (mi : Nat) : List PV → Bool
  | [] => true
  | v :: r => featV s edition mi v && featL s edition mi r
end

/-- validateRecursive without required-field checking: only the top-level field named `features` -/
def featuresOK (s : Schema) (edition : Nat) (mi : Nat) (pm : PM) : Bool :=
  match findByName (s.msg mi).fields "features" with
  | none => true
  | some f => match pmGet pm f.num with
    | some v => featV s edition f.kind.msgIdx v
    | none => true

/-! ## interpretOptions (one phase on one options message) -/

structure Mode where
  lenient : Bool
  linked : Bool
deriving Repr, DecidableEq, Inhabited

/-- outcome of a phase: `fatal` = the error InterpretOptions returns -/
structure PhaseR where
  opts : PM
  remain : List (Nat × Stmt)
  fatal : Option Err

/-- the loop's skip of the field pseudo-options: a one-part name `default` / `json_name`
    (3b5d7843; before, any name that merely started with one of them was skipped) -/
def isPseudo (isField : Bool) (st : Stmt) : Bool :=
  match st.parts with
  | [p] => isField && !p.isExt && (p.name == "default" || p.name == "json_name")
  | _ => false

def firstIsExt (st : Stmt) : Bool := match st.parts with | p :: _ => p.isExt | [] => false
def firstName (st : Stmt) : String := match st.parts with | p :: _ => p.name | [] => ""

/-- the loop over the uninterpreted options: (working message, remaining statements, error returned).
    Strict: the first error is returned. Lenient: an error puts the statement into `remain`
    (the message keeps whatever the failed statement did to it). -/
def optLoop (cx : Cx) (lenient isField custom : Bool) (mi : Nat) :
    List (Nat × Stmt) → PM → List (Nat × Stmt) → PM × List (Nat × Stmt) × Option Err
  | [], msg, remain => (msg, remain, none)
  | (i, st) :: rest, msg, remain =>
    if firstIsExt st != custom then optLoop cx lenient isField custom mi rest msg (remain ++ [(i, st)])
    else if isPseudo isField st then optLoop cx lenient isField custom mi rest msg (remain ++ [(i, st)])
    else if !custom && firstName st == "uninterpreted_option" && lenient then
      optLoop cx lenient isField custom mi rest msg (remain ++ [(i, st)])
    else
      let uerr : Option Err := if !custom && firstName st == "uninterpreted_option" then some .uninterp else none
      let r := interpField cx mi msg st.parts st.val
      let e := firstErr uerr r.err
      if lenient then
        match e with
        | some _ => optLoop cx lenient isField custom mi rest r.pm (remain ++ [(i, st)])
        | none => optLoop cx lenient isField custom mi rest r.pm remain
      else
        match e with
        | some er => (r.pm, remain, some er)
        | none => optLoop cx lenient isField custom mi rest r.pm remain

def interpOptions (s : Schema) (m : Mode) (target edition : Nat) (isField custom : Bool) (mi : Nat)
    (opts : PM) (uninterpreted : List (Nat × Stmt)) : PhaseR :=
  let cx : Cx := ⟨s, target, m.linked⟩
  let (msg, remain, fatal) := optLoop cx m.lenient isField custom mi uninterpreted opts []
  match fatal with
  | some e => ⟨opts, uninterpreted, some e⟩
  | none =>
    -- validateRecursive runs in the second pass only; required fields only when strict
    let vfail : Bool := custom && ((!m.lenient && !reqV s mi (.msg msg)) || !featuresOK s edition mi msg)
    if vfail then ⟨opts, uninterpreted, some .validate⟩
    else if m.lenient then
      -- clone-then-replace: a clone that is not initialized discards the whole pass.
      -- (cloneInto itself was never seen to fail: with the standard descriptor.proto it is a plain
      -- proto.Merge, and with a descriptor.proto linked from a descriptor proto — `dynDescriptor`,
      -- Marshal + Unmarshal — the runtime does not reject strings that are not UTF-8 inside the
      -- dynamic extension values either; see `serializable`)
      if custom && !reqV s mi (.msg msg) then ⟨opts, uninterpreted, none⟩
      else ⟨msg, remain, none⟩
    else ⟨msg, remain, none⟩

/-- whether the resulting options message can be serialized at all (proto3 strings must be UTF-8) -/
def serializable (s : Schema) (mi : Nat) (pm : PM) : Bool := utf8V s mi (.msg pm)

/-- interpretElementOptions -/
def interpElem (s : Schema) (m : Mode) (target edition : Nat) (isField custom : Bool) (mi : Nat)
    (opts : PM) (un : List (Nat × Stmt)) : PhaseR :=
  if !un.isEmpty then interpOptions s m target edition isField custom mi opts un
  else if custom then
    if featuresOK s edition mi opts then ⟨opts, un, none⟩ else ⟨opts, un, some .validate⟩
  else ⟨opts, un, none⟩

/-! ## Field pseudo-options -/

/-- description of the field that carries the options (for `default` / `json_name`) -/
structure FieldCtx where
  kind : Kind
  repeated : Bool
  isExtension : Bool
  name : String
deriving Inhabited

instance : Inhabited Stmt := ⟨⟨[], .uint 0⟩⟩

def findOptionIdxs (name : String) : List (Nat × Stmt) → Nat → List Nat
  | [], _ => []
  | (_, st) :: r, i =>
    if st.parts.length == 1 && !firstIsExt st && firstName st == name then i :: findOptionIdxs name r (i + 1)
    else findOptionIdxs name r (i + 1)

/-- `internal.FindOption`: position (in the list) of the unique statement `name = …`; `.error`
    when it occurs more than once -/
def findOption (un : List (Nat × Stmt)) (name : String) : Except Unit (Option Nat) :=
  match findOptionIdxs name un 0 with
  | [] => .ok none
  | [i] => .ok (some i)
  | _ => .error ()

def jsonNameGo : List Char → Bool → List Char
  | [], _ => []
  | c :: r, up => if c == '_' then jsonNameGo r true else (if up then c.toUpper else c) :: jsonNameGo r false

/-- internal.JSONName: drop underscores, upper-case the following letter -/
def jsonName (name : String) : String := String.ofList (jsonNameGo name.toList false)

def decimalBytes (i : Int) : List UInt8 := (toString i).toUTF8.toList

/-- the text stored in `default_value` (defaultValue + the formatting in processDefaultOption) -/
def defaultText (s : Schema) (k : Kind) (v : AV) (linked : Bool) : Except Err (List UInt8) :=
  match v with
  | .msg _ => .error .defmsglit
  | v =>
    match k with
    | .enum e =>
      if !linked then .error .defenumtype
      else match enumFieldValue (s.enum e) v false with
        | .error er => .error er
        | .ok _ => match v with | .ident nm => .ok nm.toUTF8.toList | _ => .error .type
    | k =>
      match scalarFieldValue k v false with
      | .error e => .error e
      | .ok pv =>
        match k, pv with
        | .str, .bytes b => .ok b
        | .bytes, .bytes b => .ok (PCV.Escape.escapeBytes b)
        | .bool, .num n => .ok (if n == 0 then "false" else "true").toUTF8.toList
        | .dbl, .num n =>
          if n == inf64 then .ok "inf".toUTF8.toList
          else if n == inf64 + 9223372036854775808 then .ok "-inf".toUTF8.toList
          else if isNaN64 n.toNat then .ok "nan".toUTF8.toList
          else .ok ("float:" ++ toString n).toUTF8.toList
        | .flt, .num n =>
          if n == inf32 then .ok "inf".toUTF8.toList
          else if n == inf32 + 2147483648 then .ok "-inf".toUTF8.toList
          else if isNaN32 n.toNat then .ok "nan".toUTF8.toList
          else .ok ("float:" ++ toString n).toUTF8.toList
        | _, .num n => .ok (decimalBytes n)
        | _, _ => .error .type

def removeAt {α} : List α → Nat → List α
  | [], _ => []
  | _ :: r, 0 => r
  | a :: r, n + 1 => a :: removeAt r n

/-- what `opts.UninterpretedOption` holds after `internal.RemoveOption(uo, i)` mutated the backing
    array but the shortened slice was never stored (lenient early return): removing a middle
    element shifts the tail left and leaves the old last element in place twice -/
def removeInPlaceLeak {α} (l : List α) (i : Nat) : List α :=
  if i == 0 || i + 1 == l.length then l
  else match l.getLast? with
    | some z => removeAt l i ++ [z]
    | none => l

structure PseudoR where
  un : List (Nat × Stmt)
  dflt : Option (List UInt8)
  json : Option (List UInt8)
  /-- first error (strict mode returns it) -/
  err : Option Err

/-- the json_name half of interpretFieldPseudoOptions: (list afterwards, json_name, first error,
    whether the function returns here). A duplicate makes FindOption report an error and answer -1. -/
def jsonStep (fc : FieldCtx) (un : List (Nat × Stmt)) : List (Nat × Stmt) × Option (List UInt8) × Option Err × Bool :=
  match findOption un "json_name" with
  | .error _ => (un, none, some .pseudodup, false)
  | .ok none => (un, none, none, false)
  | .ok (some i) =>
    match (un.getD i default).2.val with
    | .str b =>
      if fc.isExtension && !b.isEmpty && b != (jsonName fc.name).toUTF8.toList then (un, none, some .jsonext, true)
      else if b.head? == some 91 && b.getLast? == some 93 then (removeInPlaceLeak un i, none, some .jsonbrackets, true)
      else (removeAt un i, some b, none, false)
    | _ => (un, none, some .jsontype, true)

/-- the default half (processDefaultOption): (list afterwards, default_value, first error) -/
def defaultStep (s : Schema) (linked : Bool) (fc : FieldCtx) (un1 : List (Nat × Stmt)) :
    List (Nat × Stmt) × Option (List UInt8) × Option Err :=
  match findOption un1 "default" with
  | .error _ => (un1, none, some .pseudodup)
  | .ok none => (un1, none, none)
  | .ok (some i) =>
    if fc.repeated then (un1, none, some .defrepeated)
    else if fc.kind.isMessage then (un1, none, some .defmsg)
    else match defaultText s fc.kind (un1.getD i default).2.val linked with
      | .error e => (un1, none, some e)
      | .ok txt => (removeAt un1 i, some txt, none)

/-- before linking, a field with a named type has no `type` yet: GetType() answers TYPE_DOUBLE
    (a group field is TYPE_GROUP from the parser on) -/
def unlinkedFieldCtx (linked : Bool) (fc0 : FieldCtx) : FieldCtx :=
  if linked then fc0 else
    match fc0.kind with
    | .enum _ => { fc0 with kind := .dbl }
    | .msg _ => { fc0 with kind := .dbl }
    | _ => fc0

/-- interpretFieldPseudoOptions as it runs with lenience enabled (errors are recorded and the code
    continues as written); the strict result is this run cut at `err`. -/
def pseudoOptions (s : Schema) (linked : Bool) (fc0 : FieldCtx) (un : List (Nat × Stmt)) : PseudoR :=
  let fc := unlinkedFieldCtx linked fc0
  let j := jsonStep fc un
  if j.2.2.2 then ⟨j.1, none, j.2.1, j.2.2.1⟩
  else
    let d := defaultStep s linked fc j.1
    ⟨d.1, d.2.1, j.2.1, firstErr j.2.2.1 d.2.2⟩

/-! ## Whole element, two phases -/

structure ElemR where
  opts : PM
  remain : List Nat
  dflt : Option (List UInt8)
  json : Option (List UInt8)
  fatal : Option Err

def zipIdxFrom {α} : List α → Nat → List (Nat × α)
  | [], _ => []
  | a :: r, i => (i, a) :: zipIdxFrom r (i + 1)

/-- interpretFieldOptions for one pass: pseudo-options (first pass only), then — only if options
    remain — interpretElementOptions -/
def interpFieldElem (s : Schema) (m : Mode) (target edition : Nat) (custom : Bool) (mi : Nat) (fc : FieldCtx)
    (opts : PM) (un : List (Nat × Stmt)) (dflt json : Option (List UInt8)) :
    PhaseR × Option (List UInt8) × Option (List UInt8) :=
  let p : PseudoR := if !un.isEmpty && !custom then pseudoOptions s m.linked fc un else ⟨un, none, none, none⟩
  match (if m.lenient then none else p.err) with
  | some e => (⟨opts, un, some e⟩, dflt, json)
  | none =>
    let dflt := match p.dflt with | some d => some d | none => dflt
    let json := match p.json with | some d => some d | none => json
    if p.un.isEmpty then (⟨opts, p.un, none⟩, dflt, json)
    else (interpElem s m target edition true custom mi opts p.un, dflt, json)

/-- both passes for one element; `fc = some _` for fields -/
def runElem (s : Schema) (m : Mode) (target edition : Nat) (mi : Nat) (fc : Option FieldCtx)
    (stmts : List Stmt) : ElemR :=
  let un0 := zipIdxFrom stmts 0
  match fc with
  | none =>
    let p1 := interpElem s m target edition false false mi [] un0
    match p1.fatal with
    | some e => ⟨[], [], none, none, some e⟩
    | none =>
      let p2 := interpElem s m target edition false true mi p1.opts p1.remain
      match p2.fatal with
      | some e => ⟨[], [], none, none, some e⟩
      | none => ⟨p2.opts, p2.remain.map (·.1), none, none, none⟩
  | some f =>
    let (p1, d1, j1) := interpFieldElem s m target edition false mi f [] un0 none none
    match p1.fatal with
    | some e => ⟨[], [], none, none, some e⟩
    | none =>
      let (p2, d2, j2) := interpFieldElem s m target edition true mi f p1.opts p1.remain d1 j1
      match p2.fatal with
      | some e => ⟨[], [], none, none, some e⟩
      | none => ⟨p2.opts, p2.remain.map (·.1), d2, j2, none⟩

/-! ## Canonical dump -/

def insertBy {α} (lt : α → α → Bool) (a : α) : List α → List α
  | [] => [a]
  | b :: r => if lt a b then a :: b :: r else b :: insertBy lt a r

def sortBy {α} (lt : α → α → Bool) (l : List α) : List α := l.foldr (fun a acc => insertBy lt a acc) []

def hexDigit (n : Nat) : Char := if n < 10 then Char.ofNat (48 + n) else Char.ofNat (87 + n)
def hexBytes (bs : List UInt8) : String :=
  String.ofList (bs.flatMap (fun b => [hexDigit (b.toNat / 16), hexDigit (b.toNat % 16)]))

/- fields in number order at every level -/
mutual
def normV : PV → PV
  | .msg fs => .msg (sortBy (fun a b => a.1 < b.1) (normF fs))
  | .many vs => .many (normL vs)
  | v => v
def normF : List (Nat × PV) → List (Nat × PV)
  | [] => []
  | (n, v) :: r => (n, normV v) :: normF r
def normL : List PV → List PV
  | [] => []
  | v :: r => normV v :: normL r
end

mutual
def dumpV : PV → String
  | .num n => toString n
  | .bytes b => "x" ++ hexBytes b
  | .msg fs => "{" ++ dumpF fs true ++ "}"
  | .many vs => "[" ++ dumpL vs true ++ "]"
def dumpF : List (Nat × PV) → Bool → String
  | [], _ => ""
  | (n, v) :: r, first => (if first then "" else ";") ++ toString n ++ "=" ++ dumpV v ++ dumpF r false
def dumpL : List PV → Bool → String
  | [], _ => ""
  | v :: r, first => (if first then "" else ",") ++ dumpV v ++ dumpL r false
end

def dumpPM (pm : PM) : String := dumpV (normV (.msg pm))

end PCV.Options
