/-
Model of the `ok` computation at the end of `parser.Parse`
(/repo/experimental/parser/parse.go, as of commit de66908c):

    ok = true
    for _, d := range r.Diagnostics[prior:] {
        if d.Level() <= report.Error { ok = false; break }
    }

Levels are the numeric values of `report.Level` (experimental/report/diagnostic.go:
`ICE Level = 1 + iota; Error; Warning; Remark` — more severe is numerically smaller), passed in by
the harness from the compiled constants so that a renumbering is seen.

`okLoopPrefix` is the loop as it was before de66908c (`d.Level() >= report.Error`), kept as
documentation of the defect that was fixed.
-/
namespace PCV.XParse

/-- numeric values of report.ICE, report.Error, report.Warning, report.Remark -/
structure Levels where
  ice : Int
  err : Int
  warn : Int
  remark : Int
deriving Repr, DecidableEq

/-- the values in the pinned tree -/
def goLevels : Levels := ⟨1, 2, 3, 4⟩

/-- the loop as written: `d.Level() <= report.Error` -/
def okLoop (errorLevel : Int) : List Int → Bool
  | [] => true
  | l :: ls => if l ≤ errorLevel then false else okLoop errorLevel ls

/-- the loop before the fix de66908c: `d.Level() >= report.Error` -/
def okLoopPrefix (errorLevel : Int) : List Int → Bool
  | [] => true
  | l :: ls => if l ≥ errorLevel then false else okLoopPrefix errorLevel ls

/-- `Parse` appends to the caller's report and looks only at what it appended:
    `prior := len(r.Diagnostics)` on entry, the loop runs over `r.Diagnostics[prior:]`. -/
def okShared (errorLevel : Int) (prior new : List Int) : Bool :=
  okLoop errorLevel ((prior ++ new).drop prior.length)

/-- the variant that looks at the whole report (seeded change c28d) -/
def okWholeReport (errorLevel : Int) (prior new : List Int) : Bool :=
  okLoop errorLevel (prior ++ new)

/-- what the documentation of Parse promises ("whether parsing succeeded without errors"):
    no diagnostic is an error or an internal compiler error -/
def noErrors (L : Levels) (ls : List Int) : Bool := ls.all (fun l => l != L.err && l != L.ice)

end PCV.XParse
