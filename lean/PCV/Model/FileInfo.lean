/-
Model of `ast.FileInfo` (ast/file_info.go): the line table, the item table, the comment
table, `SourcePos`, `NodeInfo.Start/End`, `Comment.End`, `LeadingWhitespace`, `RawText`,
`LeadingComments`, `TrailingComments`, and the printing loop of the repository's own
round-trip test (`printAST` in ast/ast_roundtrip_test.go).

Go panics are modelled explicitly: `addLine/addToken/addComment` return `none` where the Go
function panics; `sourcePos` returns `none` where Go indexes out of range.
`sort.Search` over a monotone predicate is modelled by its meaning (`dropWhile`/count of the
false prefix); the tables it is applied to are sorted by the `Add*` checks.
-/
namespace PCV.FileInfo

structure Item where
  off : Nat
  len : Nat
deriving Repr, DecidableEq

structure CommentInfo where
  index : Nat
  attr : Nat
deriving Repr, DecidableEq

structure FI where
  data : List UInt8
  lines : List Nat := [0]
  comments : List CommentInfo := []
  items : List Item := []
deriving Repr, DecidableEq

def new (data : List UInt8) : FI := { data := data }

/-- `AddLine` -/
def addLine (f : FI) (offset : Nat) : Option FI :=
  if offset > f.data.length then none
  else match f.lines.getLast? with
    | some last => if offset ≤ last then none else some { f with lines := f.lines ++ [offset] }
    | none => some { f with lines := f.lines ++ [offset] }

/-- `AddToken`: returns the new table and the token id -/
def addToken (f : FI) (offset length : Nat) : Option (FI × Nat) :=
  if offset + length > f.data.length then none
  else match f.items.getLast? with
    | some last =>
      -- Go: lastEnd := off+len-1 (an int, may be off-1); panic if offset <= lastEnd
      if offset + 1 ≤ last.off + last.len then none
      else some ({ f with items := f.items ++ [⟨offset, length⟩] }, f.items.length)
    | none => some ({ f with items := f.items ++ [⟨offset, length⟩] }, f.items.length)

/-- `AddComment` -/
def addComment (f : FI) (comment attributedTo : Nat) : Option FI :=
  match f.comments.getLast? with
  | some last =>
    if comment ≤ last.index then none
    else if attributedTo < last.attr then none
    else some { f with comments := f.comments ++ [⟨comment, attributedTo⟩] }
  | none => some { f with comments := f.comments ++ [⟨comment, attributedTo⟩] }

def isRuneStart (b : UInt8) : Bool := b.toNat / 64 != 2

/-- one step of the column loop of `SourcePos` -/
def colStep (col : Nat) (b : UInt8) : Nat :=
  if b = 9 then col + (8 - col % 8)
  else if isRuneStart b then col + 1
  else col

/-- `SourcePos(offset)` → (line, col); `none` where Go panics (index out of range).
    `offset` is an `Int` because the lexer computes `pos - len(badEscape)`. -/
def sourcePos (f : FI) (offset : Int) : Option (Nat × Nat) :=
  if offset < 0 then none                      -- lineNumber = 0, f.lines[-1]
  else
    let off := offset.toNat
    let lineNumber := (f.lines.filter (fun l => l ≤ off)).length
    if lineNumber = 0 then none
    else
      let start := f.lines.getD (lineNumber - 1) 0
      if off > f.data.length then none         -- f.data[i] out of range
      else
        let col := ((f.data.drop start).take (off - start)).foldl colStep 0
        some (lineNumber, col + 1)

/-- `NodeInfo.Start()` of the item span [s, e] -/
def nodeStart (f : FI) (s : Nat) : Option (Nat × Nat × Nat) :=
  match f.items[s]? with
  | none => none
  | some it => (sourcePos f it.off).map (fun (l, c) => (it.off, l, c))

/-- `NodeInfo.End()`: position of the last byte, column + 1 (offset stays the last byte's). -/
def nodeEnd (f : FI) (e : Nat) : Option (Nat × Nat × Nat) :=
  match f.items[e]? with
  | none => none
  | some it =>
    let off := if it.len > 0 then it.off + it.len - 1 else it.off
    (sourcePos f off).map (fun (l, c) => (off, l, if it.len > 0 then c + 1 else c))

/-- `Comment.End()`: `SourcePos(offset+length-1)`, no adjustment. -/
def commentEnd (f : FI) (i : Nat) : Option (Nat × Nat × Nat) :=
  match f.items[i]? with
  | none => none
  | some it => (sourcePos f ((it.off + it.len : Nat) - 1 : Int)).map (fun (l, c) => (it.off + it.len - 1, l, c))

def slice (d : List UInt8) (a b : Nat) : List UInt8 := (d.drop a).take (b - a)

/-- end offset of the item before `i` (0 for the first item) -/
def prevEnd (f : FI) (i : Nat) : Nat :=
  if i = 0 then 0 else match f.items[i - 1]? with
    | some p => p.off + p.len
    | none => 0

/-- `LeadingWhitespace()` of item `i` -/
def leadingWS (f : FI) (i : Nat) : List UInt8 :=
  match f.items[i]? with
  | some it => slice f.data (prevEnd f i) it.off
  | none => []

/-- `RawText()` of item `i` -/
def rawText (f : FI) (i : Nat) : List UInt8 :=
  match f.items[i]? with
  | some it => slice f.data it.off (it.off + it.len)
  | none => []

/-- `isComment(i)` -/
def isComment (f : FI) (i : Nat) : Bool :=
  match f.items[i]? with
  | some it =>
    if it.len < 2 then false
    else if f.data.getD it.off 0 != 47 then false
    else let c := f.data.getD (it.off + 1) 0; c == 47 || c == 42
  | none => false

/-- `LeadingComments()` of the node starting at item `t`: indexes into `f.comments`. -/
def leadingComments (f : FI) (t : Nat) : List CommentInfo :=
  let rest := f.comments.dropWhile (fun c => c.attr < t)
  match rest with
  | [] => []
  | c0 :: _ => if c0.attr != t then [] else rest.takeWhile (fun c => c.attr == t && c.index < t)

/-- `TrailingComments()` of the node ending at item `t`. -/
def trailingComments (f : FI) (t : Nat) : List CommentInfo :=
  let rest := f.comments.dropWhile (fun c => !(c.attr ≥ t && c.index > t))
  match rest with
  | [] => []
  | c0 :: _ => if c0.attr != t then [] else rest.takeWhile (fun c => c.attr == t)

def printComments (f : FI) (cs : List CommentInfo) : List UInt8 :=
  cs.flatMap (fun c => leadingWS f c.index ++ rawText f c.index)

/-- what the visitor of `printAST` writes for the terminal node with token `t` -/
def printToken (f : FI) (t : Nat) : List UInt8 :=
  printComments f (leadingComments f t) ++ leadingWS f t ++ rawText f t
    ++ printComments f (trailingComments f t)

/-- `printAST` over the terminal nodes in walk order -/
def printAST (f : FI) (toks : List Nat) : List UInt8 := toks.flatMap (printToken f)

/-- the sequence of item indexes that `printAST` visits -/
def visitOrder (f : FI) (toks : List Nat) : List Nat :=
  toks.flatMap (fun t => (leadingComments f t).map (·.index) ++ [t] ++ (trailingComments f t).map (·.index))

/-- what is printed for one item: its `LeadingWhitespace()` then its `RawText()` -/
def printItem (f : FI) (i : Nat) : List UInt8 := leadingWS f i ++ rawText f i

/-- printing every item (tokens and comments alike) in item order -/
def printItems (f : FI) : List UInt8 := (List.range f.items.length).flatMap (printItem f)

/-- token items (non-comment items) in order -/
def tokenItems (f : FI) : List Nat := (List.range f.items.length).filter (fun i => !isComment f i)

end PCV.FileInfo
