/-
E-INCR, concurrent layer: transition system for ONE task object of the incremental executor
(`task.run` / `task.waitUntilDone` / deferred recover, experimental/incremental/task.go) with any
number of goroutines, each belonging to some `Run` (its context).  Atomic steps are the atomics
of the Go code: `result.Load`, `result.CompareAndSwap`, `close(done)`, `cancel`, and the wake-up
of the `select` in `waitUntilDone`.

result objects (`*result`) are numbered in allocation order.
Core Lean only.
-/
namespace PCV.IncrLts

inductive Pc where
  /-- about to execute `output = t.result.Load()` at the top of `task.run` -/
  | start
  /-- loaded nil; about to `CompareAndSwap(nil, output)` -/
  | tryCas
  /-- the CAS failed; about to reload (`output := t.result.Load()`) -/
  | casFailed
  /-- leader: inside `Query.Execute` for result object `o` -/
  | leader (o : Nat)
  /-- in `waitUntilDone`, blocked in `select { <-output.done; <-ctx.Done() }` on object `o` -/
  | waiting (o : Nat)
  /-- `task.run` returned this `*result` (`none` = nil) -/
  | returned (r : Option Nat)
deriving DecidableEq, Repr

structure State where
  /-- `task.result` -/
  result : Option Nat := none
  /-- `close(output.done)` happened for object `o` -/
  closed : Nat → Bool := fun _ => false
  /-- next fresh object number -/
  next : Nat := 0
  pc : Nat → Pc := fun _ => .start
  /-- context of Run `r` cancelled -/
  cancelled : Nat → Bool := fun _ => false
  /-- number of `Query.Execute` calls started -/
  execs : Nat := 0
  /-- number of panics recovered -/
  panics : Nat := 0

def setPc (s : State) (i : Nat) (p : Pc) : State := { s with pc := fun j => if j = i then p else s.pc j }

/-- one atomic step of goroutine `i`; `run i` is the Run (context) goroutine `i` belongs to -/
inductive Step (run : Nat → Nat) : State → State → Prop
  /-- `output = t.result.Load()`: nil -/
  | loadNil (s : State) (i : Nat) : s.pc i = .start → s.result = none → Step run s (setPc s i .tryCas)
  /-- … non-nil and `closed(output.done)`: return it -/
  | loadDone (s : State) (i o : Nat) : s.pc i = .start → s.result = some o → s.closed o = true →
      Step run s (setPc s i (.returned (some o)))
  /-- … non-nil, pending: `waitUntilDone` -/
  | loadPending (s : State) (i o : Nat) : s.pc i = .start → s.result = some o → s.closed o = false →
      Step run s (setPc s i (.waiting o))
  /-- `CompareAndSwap(nil, output)` succeeds: leader, `Execute` starts -/
  | casOk (s : State) (i : Nat) : s.pc i = .tryCas → s.result = none →
      Step run s (setPc { s with result := some s.next, next := s.next + 1, execs := s.execs + 1 } i (.leader s.next))
  | casFail (s : State) (i o : Nat) : s.pc i = .tryCas → s.result = some o → Step run s (setPc s i .casFailed)
  /-- reload after a failed CAS: nil ("leader panicked") -/
  | reloadNil (s : State) (i : Nat) : s.pc i = .casFailed → s.result = none → Step run s (setPc s i (.returned none))
  | reloadSome (s : State) (i o : Nat) : s.pc i = .casFailed → s.result = some o → Step run s (setPc s i (.waiting o))
  /-- `Execute` returned: value and runID are written, then `close(output.done)` -/
  | finish (s : State) (i o : Nat) : s.pc i = .leader o →
      Step run s (setPc { s with closed := fun x => if x = o then true else s.closed x } i (.returned (some o)))
  /-- `Execute` panicked: `CompareAndSwap(output, nil)`, `cancel(ErrPanic)` of the leader's Run;
      `done` is not closed -/
  | panic (s : State) (i o : Nat) : s.pc i = .leader o →
      Step run s (setPc { s with result := if s.result = some o then none else s.result,
                                  cancelled := fun r => if r = run i then true else s.cancelled r,
                                  panics := s.panics + 1 } i (.returned none))
  /-- the `select` in `waitUntilDone` fires (done closed, or the waiter's own context
      cancelled); the waiter reloads `t.result` and returns it -/
  | wake (s : State) (i o : Nat) : s.pc i = .waiting o → (s.closed o = true ∨ s.cancelled (run i) = true) →
      Step run s (setPc s i (.returned s.result))

inductive Reachable (run : Nat → Nat) : State → Prop
  | init : Reachable run {}
  | step {s s' : State} : Reachable run s → Step run s s' → Reachable run s'

end PCV.IncrLts
