/-
Facts about `PCV.Utf8.decodeRune` (Go's `utf8.DecodeRune`) used by the source-location proofs:
width bounds, stability under truncation after the decoded rune, ASCII bytes are never interior
bytes of a rune, and the decoded value is always a Unicode scalar value.
-/
import PCV.Model.Utf8
namespace PCV.Utf8

theorem decodeRune_width_le (bs : List UInt8) : (decodeRune bs).2 ≤ bs.length := by
  unfold decodeRune
  split
  · simp
  · simp only []
    repeat' split
    all_goals simp_all <;> omega

theorem decodeRune_width_pos (bs : List UInt8) (h : bs ≠ []) : 1 ≤ (decodeRune bs).2 := by
  unfold decodeRune
  split
  · contradiction
  · simp only []
    repeat' split
    all_goals simp

theorem decodeRune_width_le4 (bs : List UInt8) : (decodeRune bs).2 ≤ 4 := by
  unfold decodeRune
  split
  · simp
  · simp only []
    repeat' split
    all_goals simp

/-- The decoded rune is a Unicode scalar value (never a surrogate, never above U+10FFFF). -/
theorem decodeRune_scalar (bs : List UInt8) :
    (decodeRune bs).1 < 0xD800 ∨ (0xE000 ≤ (decodeRune bs).1 ∧ (decodeRune bs).1 ≤ 0x10FFFF) := by
  unfold decodeRune
  split
  · simp [runeError]
  · next b0 rest =>
    have h0 := b0.toNat_lt
    simp only []
    repeat' split
    all_goals simp_all [runeError]
    all_goals omega

/-- Decoding looks at no byte beyond the decoded rune. -/
theorem decodeRune_take (bs : List UInt8) (k : Nat) (h : (decodeRune bs).2 ≤ k) :
    decodeRune (bs.take k) = decodeRune bs := by
  match bs, k with
  | [], _ => simp
  | b0 :: rest, 0 =>
    exfalso
    have := decodeRune_width_pos (b0 :: rest) (by simp)
    omega
  | [b0], k+1 => simp
  | b0 :: b1 :: rest, 1 =>
    revert h
    simp only [List.take_succ_cons, List.take_zero]
    unfold decodeRune
    simp only []
    repeat' split
    all_goals simp_all
  | [b0, b1], k+2 => simp
  | b0 :: b1 :: b2 :: rest, 2 =>
    revert h
    simp only [List.take_succ_cons, List.take_zero]
    unfold decodeRune
    simp only []
    repeat' split
    all_goals simp_all
  | [b0, b1, b2], k+3 => simp
  | b0 :: b1 :: b2 :: b3 :: rest, 3 =>
    revert h
    simp only [List.take_succ_cons, List.take_zero]
    unfold decodeRune
    simp only []
    repeat' split
    all_goals simp_all
  | b0 :: b1 :: b2 :: b3 :: rest, k+4 =>
    simp only [List.take_succ_cons]
    unfold decodeRune
    simp only []
    repeat' split
    all_goals simp_all

/-- An ASCII byte decodes to itself with width 1. -/
theorem decodeRune_ascii (b : UInt8) (hb : b.toNat < 0x80) (B : List UInt8) :
    decodeRune (b :: B) = (b.toNat, 1) := by
  simp [decodeRune, hb]

/-- An ASCII byte is never an interior or trailing byte of a decoded rune: the rune that
    starts at the head of `A ++ b :: B` ends within `A`. -/
theorem decodeRune_before_ascii (A B : List UInt8) (b : UInt8) (hb : b.toNat < 0x80)
    (hA : A ≠ []) : (decodeRune (A ++ b :: B)).2 ≤ A.length := by
  match A with
  | [] => contradiction
  | [a0] =>
    rcases B with _ | ⟨c0, _ | ⟨c1, B⟩⟩ <;>
    · simp only [List.cons_append, List.nil_append, decodeRune]
      repeat' split
      all_goals simp_all
      all_goals omega
  | [a0, a1] =>
    rcases B with _ | ⟨c0, B⟩ <;>
    · simp only [List.cons_append, List.nil_append, decodeRune]
      repeat' split
      all_goals simp_all
      all_goals omega
  | [a0, a1, a2] =>
    simp only [List.cons_append, List.nil_append, decodeRune]
    repeat' split
    all_goals simp_all
    all_goals omega
  | a0 :: a1 :: a2 :: a3 :: rest =>
    have := decodeRune_width_le4 ((a0 :: a1 :: a2 :: a3 :: rest) ++ b :: B)
    simp only [List.length_cons]; omega

/-! ### decoding inverts encoding -/

/-- Unicode scalar value. -/
def IsScalar (r : Nat) : Prop := r < 0xD800 ∨ (0xE000 ≤ r ∧ r ≤ 0x10FFFF)

theorem decodeRune_two (x y : Nat) (rest : List UInt8) (hx : 0xC2 ≤ x ∧ x < 0xE0) (hy : 0x80 ≤ y ∧ y ≤ 0xBF) :
    decodeRune (UInt8.ofNat x :: UInt8.ofNat y :: rest) = ((x - 0xC0) * 64 + (y - 0x80), 2) := by
  have ex : x % 256 = x := by omega
  have ey : y % 256 = y := by omega
  simp only [decodeRune, UInt8.toNat_ofNat', ex, ey]
  repeat' split
  all_goals first | omega | (apply Eq.refl)

theorem decodeRune_three (x y z : Nat) (rest : List UInt8) (hx : 0xE0 ≤ x ∧ x < 0xF0)
    (hy : (if x = 0xE0 then 0xA0 else 0x80) ≤ y ∧ y ≤ (if x = 0xED then 0x9F else 0xBF))
    (hz : 0x80 ≤ z ∧ z ≤ 0xBF) :
    decodeRune (UInt8.ofNat x :: UInt8.ofNat y :: UInt8.ofNat z :: rest) =
      ((x - 0xE0) * 4096 + (y - 0x80) * 64 + (z - 0x80), 3) := by
  have ex : x % 256 = x := by omega
  have ey : y % 256 = y := by split at hy <;> split at hy <;> omega
  have ez : z % 256 = z := by omega
  split at hy <;> split at hy <;>
  · simp only [decodeRune, UInt8.toNat_ofNat', ex, ey, ez]
    repeat' split
    all_goals first | omega | (apply Eq.refl)

theorem decodeRune_four (x y z w : Nat) (rest : List UInt8) (hx : 0xF0 ≤ x ∧ x < 0xF5)
    (hy : (if x = 0xF0 then 0x90 else 0x80) ≤ y ∧ y ≤ (if x = 0xF4 then 0x8F else 0xBF))
    (hz : 0x80 ≤ z ∧ z ≤ 0xBF) (hw : 0x80 ≤ w ∧ w ≤ 0xBF) :
    decodeRune (UInt8.ofNat x :: UInt8.ofNat y :: UInt8.ofNat z :: UInt8.ofNat w :: rest) =
      ((x - 0xF0) * 262144 + (y - 0x80) * 4096 + (z - 0x80) * 64 + (w - 0x80), 4) := by
  have ex : x % 256 = x := by omega
  have ey : y % 256 = y := by split at hy <;> split at hy <;> omega
  have ez : z % 256 = z := by omega
  have ew : w % 256 = w := by omega
  split at hy <;> split at hy <;>
  · simp only [decodeRune, UInt8.toNat_ofNat', ex, ey, ez, ew]
    repeat' split
    all_goals first | omega | (apply Eq.refl)

/-- Go's decoder inverts Go's encoder on Unicode scalar values, whatever follows. -/
theorem decodeRune_encodeRune (r : Nat) (hr : IsScalar r) (rest : List UInt8) :
    decodeRune (encodeRune r ++ rest) = (r, (encodeRune r).length) := by
  unfold IsScalar at hr
  unfold encodeRune
  by_cases h1 : r < 0x80
  · rw [if_pos h1]
    have : (UInt8.ofNat r).toNat = r := by rw [UInt8.toNat_ofNat']; omega
    rw [List.cons_append, List.nil_append, decodeRune_ascii _ (by omega), this]; rfl
  · rw [if_neg h1]
    by_cases h2 : r < 0x800
    · rw [if_pos h2, List.cons_append, List.cons_append, List.nil_append,
        decodeRune_two _ _ _ (by omega) (by omega)]
      simp only [List.length_cons, List.length_nil]
      rw [Prod.mk.injEq]; constructor <;> omega
    · rw [if_neg h2]
      have h3 : ¬ ((0xD800 ≤ r ∧ r ≤ 0xDFFF) ∨ r > 0x10FFFF) := by omega
      rw [if_neg h3]
      by_cases h4 : r < 0x10000
      · rw [if_pos h4, List.cons_append, List.cons_append, List.cons_append, List.nil_append,
          decodeRune_three _ _ _ _ (by omega) (by split <;> split <;> omega) (by omega)]
        simp only [List.length_cons, List.length_nil]
        rw [Prod.mk.injEq]; constructor <;> omega
      · rw [if_neg h4, List.cons_append, List.cons_append, List.cons_append, List.cons_append,
          List.nil_append,
          decodeRune_four _ _ _ _ _ (by omega) (by split <;> split <;> omega) (by omega) (by omega)]
        simp only [List.length_cons, List.length_nil]
        rw [Prod.mk.injEq]; constructor <;> omega

theorem encodeRune_length_pos (r : Nat) : 1 ≤ (encodeRune r).length := by
  unfold encodeRune; repeat' split
  all_goals simp

end PCV.Utf8
