/-
Model of `experimental/dom` (dom.go, layout.go, print.go, tags.go): tags, `shouldMerge`,
the two layout passes (`layoutFlat`, `layoutBroken`), the broken-group decision and the
text renderer (`printer.print` / `write` / `withIndent` / `withUnindent`, end-of-output rule
of `render`).  The flat Go slice with `children` counts is a tree here; the HTML debug mode is
not modelled.  Widths are `Int` because `layoutFlat` subtracts the width of a merged-away
previous text tag from the *current* level's total, which can go negative (as coded).

Mirrored quirks: `stringsx.LastLine` returns the text after the FIRST newline; `layoutBroken`
never sets `prevText`, so its merge branch is dead code; a tag skipped by a merge in
`layoutFlat` keeps width 0; `slicesx.Pop` keeps ONLY the last element (`(*s)[len(*s)-1:]`)
instead of removing it, which garbles the indent stacks around `Unindent` and makes
`withUnindent` slice `p.indent` out of range (a panic, modelled as `PSt.panic`).

`uniseg.StringWidth` is modelled for ASCII only: printable bytes count 1, control bytes 0.
-/
namespace PCV.Dom

abbrev Bytes := List UInt8

inductive Cond where
  | always | flat | broken
  deriving DecidableEq, Repr, Inhabited

inductive Kind where
  | text | space | brk
  deriving DecidableEq, Repr, Inhabited

/-- A dom as built by `Text/TextIf/Group/GroupIf/Indent/Unindent`. -/
inductive Tag where
  | text (cond : Cond) (s : Bytes)
  | group (cond : Cond) (limit : Nat) (kids : List Tag)
  | indent (by_ : Bytes) (kids : List Tag)
  | unindent (kids : List Tag)
  deriving Repr, Inhabited

/-- `math.MaxInt` on the 64-bit platforms the harness runs on. -/
def maxInt : Nat := 9223372036854775807

structure Options where
  maxWidth : Nat
  tabstop : Nat
  omitTrailingNewline : Bool
  deriving Repr, Inhabited

def Options.withDefaults (o : Options) : Options :=
  { o with maxWidth := if o.maxWidth = 0 then maxInt else o.maxWidth,
           tabstop := if o.tabstop = 0 then 1 else o.tabstop }

/-- `stringsx.Every(text, ' ')` / `'\n'` classification of `TextIf`. -/
def kindOf (s : Bytes) : Kind :=
  if s.all (· == 32) then .space
  else if s.all (· == 10) then .brk
  else .text

def renderIf (tagCond c : Cond) : Bool := tagCond == .always || tagCond == c

/-- `shouldMerge(a, b)` on (kind, len(text)). -/
def shouldMerge (ka : Kind) (la : Nat) (kb : Kind) (lb : Nat) : Bool × Bool :=
  match ka, kb with
  | .space, .brk => (false, true)
  | .brk, .space => (true, false)
  | .space, .space => (!(la < lb), la < lb)
  | .brk, .brk => (!(la < lb), la < lb)
  | _, _ => (true, true)

/-- `uniseg.StringWidth` on ASCII text without tabs. -/
def asciiWidth (s : Bytes) : Nat := (s.filter (fun b => 32 ≤ b.toNat && b.toNat < 127)).length

/-- pieces of `strings.SplitSeq(text, "\t")` -/
def splitTabs : Bytes → List Bytes
  | [] => [[]]
  | b :: bs =>
    match splitTabs bs with
    | [] => [[b]]          -- unreachable
    | p :: ps => if b = 9 then [] :: p :: ps else (b :: p) :: ps

/-- `stringWidth(options, column, text)`. -/
def stringWidth (tab : Nat) (column : Int) (text : Bytes) : Int :=
  let maxW := column < 0
  let col0 : Int := if column < 0 then 0 else column
  match splitTabs text with
  | [] => col0
  | p :: ps =>
    ps.foldl (fun col piece =>
      let t : Int := if maxW then (tab : Int) else (tab : Int) - col % (tab : Int)
      col + t + (asciiWidth piece : Int)) (col0 + (asciiWidth p : Int))

/-- `stringsx.LastLine`: the text after the FIRST newline (whole text if none). -/
def lastLine : Bytes → Bytes
  | [] => []
  | b :: bs => if b = 10 then bs else
      if (b :: bs).contains 10 then lastLine bs else b :: bs

/-! ### layoutFlat -/

/-- tags annotated with `width`, `column`, `broken` -/
inductive LTag where
  | text (cond : Cond) (s : Bytes) (width : Int) (column : Int) (broken : Bool)
  | group (cond : Cond) (limit : Nat) (width : Int) (column : Int) (broken : Bool) (kids : List LTag)
  | indent (by_ : Bytes) (width : Int) (column : Int) (broken : Bool) (kids : List LTag)
  | unindent (width : Int) (column : Int) (broken : Bool) (kids : List LTag)
  deriving Repr, Inhabited

def LTag.cond : LTag → Cond
  | .text c .. => c
  | .group c .. => c
  | .indent .. => .always
  | .unindent .. => .always

def LTag.width : LTag → Int
  | .text _ _ w _ _ => w
  | .group _ _ w _ _ _ => w
  | .indent _ w _ _ _ => w
  | .unindent w _ _ _ => w

def LTag.brokenFlag : LTag → Bool
  | .text _ _ _ _ b => b
  | .group _ _ _ _ b _ => b
  | .indent _ _ _ b _ => b
  | .unindent _ _ b _ => b

/-- `l.prevText`: kind, len(text), width of the last text tag rendered in flat mode -/
abbrev Prev := Option (Kind × Nat × Int)

/-- the `shouldMerge` step of `layoutFlat`: (prevText, total, skip this tag) -/
def flatMerge (prev : Prev) (total : Int) (k : Kind) (len : Nat) : Prev × Int × Bool :=
  match prev with
  | none => (none, total, false)
  | some (pk, pl, pw) =>
    if !(shouldMerge pk pl k len).1 then (none, total - pw, false)
    else if !(shouldMerge pk pl k len).2 then (prev, total, true)
    else (prev, total, false)

/-- the text/space/break case of the `layoutFlat` loop body:
    (prevText, total, broken, width of the tag, broken flag of the tag) -/
def flatText (tab : Nat) (prev : Prev) (total : Int) (broken : Bool) (c : Cond) (s : Bytes) :
    Prev × Int × Bool × Int × Bool :=
  let m := flatMerge prev total (kindOf s) s.length
  if m.2.2 then (m.1, m.2.1, broken, 0, false)
  else if renderIf c .flat then
    (some (kindOf s, s.length, stringWidth tab (-1) s), m.2.1 + stringWidth tab (-1) s,
     broken || s.contains 10, stringWidth tab (-1) s, s.contains 10)
  else (m.1, m.2.1, broken, stringWidth tab (-1) s, s.contains 10)

mutual
/-- one iteration of the `layoutFlat` loop: returns (prevText, total, broken, annotated tag) -/
def flatTag (tab : Nat) : Prev → Int → Bool → Tag → Prev × Int × Bool × LTag
  | prev, total, broken, .text c s =>
    let r := flatText tab prev total broken c s
    (r.1, r.2.1, r.2.2.1, .text c s r.2.2.2.1 0 r.2.2.2.2)
  | prev, total, broken, .group c limit kids =>
    let (prev1, n, br, kids') := flatList tab prev 0 false kids
    if renderIf c .flat then (prev1, total + n, broken || br, .group c limit n 0 br kids')
    else (prev1, total, broken, .group c limit n 0 br kids')
  | prev, total, broken, .indent by_ kids =>
    let (prev1, n, br, kids') := flatList tab prev 0 false kids
    (prev1, total + n, broken || br, .indent by_ n 0 br kids')
  | prev, total, broken, .unindent kids =>
    let (prev1, n, br, kids') := flatList tab prev 0 false kids
    (prev1, total + n, broken || br, .unindent n 0 br kids')
def flatList (tab : Nat) : Prev → Int → Bool → List Tag → Prev × Int × Bool × List LTag
  | prev, total, broken, [] => (prev, total, broken, [])
  | prev, total, broken, t :: ts =>
    let (prev1, total1, broken1, t') := flatTag tab prev total broken t
    let (prev2, total2, broken2, ts') := flatList tab prev1 total1 broken1 ts
    (prev2, total2, broken2, t' :: ts')
end

/-! ### layoutBroken -/

structure BSt where
  indent : List Int      -- stack, last = innermost
  column : Int
  deriving Repr, Inhabited

def lastOr0 (xs : List Int) : Int := xs.getLast?.getD 0

/-- what `slicesx.Pop(&s)` leaves in `s`: only the last element (as coded) -/
def popKeep {α : Type} (xs : List α) : List α :=
  match xs.getLast? with
  | none => xs
  | some l => [l]

mutual
def brokenTag (o : Options) : BSt → LTag → BSt × LTag
  | st, .text c s w col br =>
    if !renderIf c .broken then (st, .text c s w col br)
    else
      let col0 := st.column
      -- prevText is always nil in this pass
      let c1 := if st.column = 0 then lastOr0 st.indent else st.column
      let last := lastLine s
      let c2 := if last.length < s.length then 0 else c1
      ({ st with column := stringWidth o.tabstop c2 last }, .text c s w col0 br)
  | st, .group c limit w col br kids =>
    if !renderIf c .broken then (st, .group c limit w col br kids)
    else
      let col0 := st.column
      let br' := br || decide (col0 + w > (o.maxWidth : Int)) || decide (w > (limit : Int))
      if !br' then ({ st with column := st.column + w }, .group c limit w col0 br' kids)
      else
        let (st', kids') := brokenList o st kids
        (st', .group c limit w col0 br' kids')
  | st, .indent by_ w _ br kids =>
    let col0 := st.column
    let prev := lastOr0 st.indent
    let next := stringWidth o.tabstop prev by_
    let (st', kids') := brokenList o { st with indent := st.indent ++ [next] } kids
    ({ st' with indent := st'.indent.dropLast }, .indent by_ w col0 br kids')
  | st, .unindent w _ br kids =>
    let col0 := st.column
    match st.indent.getLast? with
    | none =>
      let (st', kids') := brokenList o st kids
      (st', .unindent w col0 br kids')
    | some prev =>
      let (st', kids') := brokenList o { st with indent := popKeep st.indent } kids
      ({ st' with indent := st'.indent ++ [prev] }, .unindent w col0 br kids')
def brokenList (o : Options) : BSt → List LTag → BSt × List LTag
  | st, [] => (st, [])
  | st, t :: ts =>
    let (st1, t') := brokenTag o st t
    let (st2, ts') := brokenList o st1 ts
    (st2, t' :: ts')
end

/-- `layout.layout(doc)` with defaulted options -/
def layout (o : Options) (d : List Tag) : List LTag :=
  let (_, _, _, d1) := flatList o.tabstop none 0 false d
  (brokenList o { indent := [], column := 0 } d1).2

/-! ### print -/

structure PSt where
  out : Bytes
  spaces : Nat
  newlines : Nat
  indent : Bytes
  indents : List Bytes
  panic : Option Nat := none     -- `p.indent[:len(p.indent)-len(popped)]` out of range by this much
  deriving Repr, Inhabited

def PSt.init : PSt := { out := [], spaces := 0, newlines := 0, indent := [], indents := [] }

/-- `printer.write(data)` followed by the `spaces = 0; newlines = 0` of the text case -/
def writeText (p : PSt) (data : Bytes) : PSt :=
  let out1 := if p.newlines > 0 then p.out ++ List.replicate p.newlines 10 ++ p.indent else p.out
  let sp := if p.newlines > 0 then 0 else p.spaces
  { p with out := out1 ++ List.replicate sp 32 ++ data, spaces := 0, newlines := 0 }

mutual
def printTag : Cond → PSt → LTag → PSt
  | cond, p, .text c s _ _ _ =>
    if p.panic.isSome then p else
    if !renderIf c cond then p
    else match kindOf s with
      | .text => writeText p s
      | .space => { p with spaces := max p.spaces s.length }
      | .brk => { p with newlines := max p.newlines s.length }
  | cond, p, .group c _ _ _ br kids =>
    if p.panic.isSome then p else
    if !renderIf c cond then p
    else printList (if br then .broken else .flat) p kids
  | cond, p, .indent by_ _ _ _ kids =>
    if p.panic.isSome then p else
    let p1 := printList cond { p with indent := p.indent ++ by_, indents := p.indents ++ [by_] } kids
    if p1.panic.isSome then p1 else
    { p1 with indent := p.indent, indents := popKeep p1.indents }
  | cond, p, .unindent _ _ _ kids =>
    if p.panic.isSome then p else
    match p.indents.getLast? with
    | none => printList cond p kids
    | some popped =>
      if popped.length > p.indent.length then { p with panic := some (popped.length - p.indent.length) }
      else
      let p1 := printList cond { p with indent := p.indent.take (p.indent.length - popped.length),
                                        indents := popKeep p.indents } kids
      if p1.panic.isSome then p1 else
      { p1 with indent := p.indent, indents := p1.indents ++ [popped] }
def printList : Cond → PSt → List LTag → PSt
  | _, p, [] => p
  | cond, p, t :: ts => printList cond (printTag cond p t) ts
end

def endsWithNL (out : Bytes) : Bool := out.getLast? == some 10

/-- the printer state at the end of `render`'s `p.print(Broken, doc.cursor())` -/
def renderState (o0 : Options) (d : List Tag) : PSt :=
  let o := o0.withDefaults
  printList .broken PSt.init (layout o d)

/-- the end-of-output rule of `render` -/
def finish (omitNL : Bool) (p : PSt) : Bytes :=
  if omitNL then p.out ++ List.replicate p.newlines 10
  else if endsWithNL p.out then p.out else p.out ++ [10]

/-- `render(options, doc)` (text mode); meaningful when `(renderState o d).panic = none` -/
def render (o : Options) (d : List Tag) : Bytes :=
  finish o.omitTrailingNewline (renderState o d)

/-- document-order dump of (width, column, broken) -/
def dumpL : List LTag → List (Int × Int × Bool)
  | [] => []
  | .text _ _ w c b :: ts => (w, c, b) :: dumpL ts
  | .group _ _ w c b kids :: ts => (w, c, b) :: (dumpL kids ++ dumpL ts)
  | .indent _ w c b kids :: ts => (w, c, b) :: (dumpL kids ++ dumpL ts)
  | .unindent w c b kids :: ts => (w, c, b) :: (dumpL kids ++ dumpL ts)

end PCV.Dom
