/-
C04 — descriptor views of the linker vs. the Go protobuf runtime.

Two independent executable models over the same *facts* (what the compiled
`FileDescriptorProto` says about an element):

* `…L` — `linker/descriptors.go` as it is (`Cardinality`, `Kind`, `HasPresence`,
  `IsPacked`, `IsList/IsMap`, `HasOptionalKeyword`, `JSONName/TextName`,
  `looksLikeGroup`, `Default/parseDefaultValue`, `IsClosed`, `RequiredNumbers`,
  `IsSynthetic`) with `resolveFeature` = `internal/editions.ResolveFeature`
  (walk element → parents, first explicit override) + edition defaults.
* `…R` — protobuf-go v1.36.11 `reflect/protodesc` (`desc_init.go`,
  `desc_resolve.go`, `editions.go: mergeEditionFeatures`, `desc_validate.go`) and
  `internal/filedesc/desc.go` accessors: features are merged top-down
  (file defaults → file → messages → element) into seven booleans.

Core Lean only. Names are `List Char`.
-/
namespace PCV.FieldAttrs

abbrev Name := List Char

inductive Syntax | proto2 | proto3 | editions
  deriving DecidableEq, Repr, Inhabited

/-- `FeatureSet.FieldPresence` (numbers 0..3). -/
inductive Presence | unknown | explicit | implicit | legacyRequired
  deriving DecidableEq, Repr, Inhabited
/-- `FeatureSet.EnumType` (0..2). -/
inductive EnumType | unknown | openE | closedE
  deriving DecidableEq, Repr, Inhabited
/-- `FeatureSet.RepeatedFieldEncoding` (0..2). -/
inductive RepEnc | unknown | packed | expanded
  deriving DecidableEq, Repr, Inhabited
/-- `FeatureSet.Utf8Validation` (0, 2, 3). -/
inductive Utf8 | unknown | verify | noValidation
  deriving DecidableEq, Repr, Inhabited
/-- `FeatureSet.MessageEncoding` (0..2). -/
inductive MsgEnc | unknown | lengthPrefixed | delimited
  deriving DecidableEq, Repr, Inhabited
/-- `FeatureSet.JsonFormat` (0..2). -/
inductive JsonFmt | unknown | allow | legacyBestEffort
  deriving DecidableEq, Repr, Inhabited

/-- The features one element sets explicitly in its options (`msgRef.Has(field)`). -/
structure Overrides where
  presence : Option Presence := none
  enumType : Option EnumType := none
  repEnc : Option RepEnc := none
  utf8 : Option Utf8 := none
  msgEnc : Option MsgEnc := none
  json : Option JsonFmt := none
  deriving DecidableEq, Repr, Inhabited

def Overrides.isEmpty (o : Overrides) : Bool :=
  o.presence.isNone && o.enumType.isNone && o.repEnc.isNone && o.utf8.isNone && o.msgEnc.isNone && o.json.isNone

/-- Fully resolved feature values. -/
structure Features where
  presence : Presence
  enumType : EnumType
  repEnc : RepEnc
  utf8 : Utf8
  msgEnc : MsgEnc
  json : JsonFmt
  deriving DecidableEq, Repr, Inhabited

/-- `edition_defaults` of the six `FeatureSet` fields in descriptor.proto, read the way
`editions.GetFeatureDefault` reads them: the entry with the largest edition `≤ e`
(EDITION_LEGACY = 900, PROTO3 = 999, 2023 = 1000); no entry: the field stays unset and
`Get` yields the enum's zero value `*_UNKNOWN`. -/
def defaultsAt (e : Nat) : Features :=
  { presence := if 1000 ≤ e then .explicit else if 999 ≤ e then .implicit else if 900 ≤ e then .explicit else .unknown
    enumType := if 999 ≤ e then .openE else if 900 ≤ e then .closedE else .unknown
    repEnc := if 999 ≤ e then .packed else if 900 ≤ e then .expanded else .unknown
    utf8 := if 999 ≤ e then .verify else if 900 ≤ e then .noValidation else .unknown
    msgEnc := if 900 ≤ e then .lengthPrefixed else .unknown
    json := if 999 ≤ e then .allow else if 900 ≤ e then .legacyBestEffort else .unknown }

def allUnknown : Features :=
  { presence := .unknown, enumType := .unknown, repEnc := .unknown, utf8 := .unknown, msgEnc := .unknown, json := .unknown }

/-- Keys of `descriptorpb.Edition_name`: `editions.GetEditionDefaults` only has entries for these. -/
def knownEditions : List Nat := [0, 900, 998, 999, 1000, 1001, 9999, 1, 2, 99997, 99998, 99999, 2147483647]

/-- `editions.GetEditionDefaults(edition)` followed by `.ProtoReflect().Get(feature)`;
a nil `*FeatureSet` (unknown edition) yields `*_UNKNOWN`. -/
def linkerDefaults (e : Nat) : Features :=
  if knownEditions.contains e then defaultsAt e else allUnknown

/-- `editions.GetEdition`: proto2 ↦ 998, proto3 ↦ 999, editions ↦ the file's edition. -/
def editionOf (syn : Syntax) (fileEdition : Nat) : Nat :=
  match syn with
  | .proto2 => 998
  | .proto3 => 999
  | .editions => fileEdition

/-- `editions.ResolveFeature`: walk element, parent, …, file; the first element whose options
set the feature wins; `none` when the chain is exhausted. -/
def firstSet {α : Type} (get : Overrides → Option α) : List Overrides → Option α
  | [] => none
  | o :: rest => match get o with
    | some v => some v
    | none => firstSet get rest

/-- `linker.resolveFeature`: proto2/proto3 short-circuit to the edition default (overrides
are not even looked at); otherwise nearest override, else the edition default. -/
def resolveL {α : Type} (ed : Nat) (chain : List Overrides) (get : Overrides → Option α)
    (dflt : Features → α) : α :=
  if ed = 998 ∨ ed = 999 then dflt (linkerDefaults ed)
  else match firstSet get chain with
    | some v => v
    | none => dflt (linkerDefaults ed)

/-- All six features as the linker resolves them for an element with override chain `chain`. -/
def resolveAllL (ed : Nat) (chain : List Overrides) : Features :=
  { presence := resolveL ed chain (·.presence) (·.presence)
    enumType := resolveL ed chain (·.enumType) (·.enumType)
    repEnc := resolveL ed chain (·.repEnc) (·.repEnc)
    utf8 := resolveL ed chain (·.utf8) (·.utf8)
    msgEnc := resolveL ed chain (·.msgEnc) (·.msgEnc)
    json := resolveL ed chain (·.json) (·.json) }

/-! ### protobuf-go: `filedesc.EditionFeatures` and `protodesc.mergeEditionFeatures` -/

structure EF where
  isFieldPresence : Bool
  isLegacyRequired : Bool
  isOpenEnum : Bool
  isPacked : Bool
  isUTF8Validated : Bool
  isDelimitedEncoded : Bool
  isJSONCompliant : Bool
  deriving DecidableEq, Repr, Inhabited

def EF.zero : EF := ⟨false, false, false, false, false, false, false⟩

/-- `mergeEditionFeatures(parent, child)`: every feature set in the child overwrites the parent's. -/
def mergeEF (p : EF) (c : Overrides) : EF :=
  let p := match c.presence with
    | some fp => { p with isFieldPresence := fp == .legacyRequired || fp == .explicit,
                          isLegacyRequired := fp == .legacyRequired }
    | none => p
  let p := match c.enumType with
    | some et => { p with isOpenEnum := et == .openE }
    | none => p
  let p := match c.repEnc with
    | some r => { p with isPacked := r == .packed }
    | none => p
  let p := match c.utf8 with
    | some u => { p with isUTF8Validated := u == .verify }
    | none => p
  let p := match c.msgEnc with
    | some m => { p with isDelimitedEncoded := m == .delimited }
    | none => p
  match c.json with
    | some j => { p with isJSONCompliant := j == .allow }
    | none => p

/-- `getFeatureSetFor(ed)`: the embedded `FeatureSetDefaults` entry with the largest edition `≤ ed`
(entries 900, 999, 1000, 1001; below 900 the first entry), fixed ∪ overridable features: all six set. -/
def runtimeDefaultsOv (ed : Nat) : Overrides :=
  let d := defaultsAt (if ed < 900 then 900 else ed)
  { presence := some d.presence, enumType := some d.enumType, repEnc := some d.repEnc,
    utf8 := some d.utf8, msgEnc := some d.msgEnc, json := some d.json }

/-- Features of an element whose override chain (innermost first, file last) is `chain`:
`initFileDescFromFeatureSet` for the file, then one `mergeEditionFeatures` per level going down. -/
def chainEF (ed : Nat) : List Overrides → EF
  | [] => mergeEF EF.zero (runtimeDefaultsOv ed)
  | o :: rest => mergeEF (chainEF ed rest) o

/-- The seven booleans that correspond to resolved feature values. -/
def efOf (f : Features) : EF :=
  { isFieldPresence := f.presence == .legacyRequired || f.presence == .explicit
    isLegacyRequired := f.presence == .legacyRequired
    isOpenEnum := f.enumType == .openE
    isPacked := f.repEnc == .packed
    isUTF8Validated := f.utf8 == .verify
    isDelimitedEncoded := f.msgEnc == .delimited
    isJSONCompliant := f.json == .allow }

/-- Nearest-ancestor override, else the default of the edition (no proto2/proto3 short cut). -/
def nearest (ed : Nat) (chain : List Overrides) : Features :=
  let d := defaultsAt (if ed < 900 then 900 else ed)
  { presence := (firstSet (·.presence) chain).getD d.presence
    enumType := (firstSet (·.enumType) chain).getD d.enumType
    repEnc := (firstSet (·.repEnc) chain).getD d.repEnc
    utf8 := (firstSet (·.utf8) chain).getD d.utf8
    msgEnc := (firstSet (·.msgEnc) chain).getD d.msgEnc
    json := (firstSet (·.json) chain).getD d.json }

/-! ### kinds, labels -/

/-- `descriptorpb.FieldDescriptorProto_Type` = `protoreflect.Kind` (numbers 1..18). -/
inductive Kind
  | double | float | int64 | uint64 | int32 | fixed64 | fixed32 | bool | string | group | message
  | bytes | uint32 | enum | sfixed32 | sfixed64 | sint32 | sint64
  deriving DecidableEq, Repr, Inhabited

def Kind.toNat : Kind → Nat
  | .double => 1 | .float => 2 | .int64 => 3 | .uint64 => 4 | .int32 => 5 | .fixed64 => 6
  | .fixed32 => 7 | .bool => 8 | .string => 9 | .group => 10 | .message => 11 | .bytes => 12
  | .uint32 => 13 | .enum => 14 | .sfixed32 => 15 | .sfixed64 => 16 | .sint32 => 17 | .sint64 => 18

def Kind.ofNat? : Nat → Option Kind
  | 1 => some .double | 2 => some .float | 3 => some .int64 | 4 => some .uint64 | 5 => some .int32
  | 6 => some .fixed64 | 7 => some .fixed32 | 8 => some .bool | 9 => some .string | 10 => some .group
  | 11 => some .message | 12 => some .bytes | 13 => some .uint32 | 14 => some .enum
  | 15 => some .sfixed32 | 16 => some .sfixed64 | 17 => some .sint32 | 18 => some .sint64
  | _ => none

/-- `internal.CanPack` and the `switch` in `filedesc.(*Field).IsPacked`. -/
def Kind.canPack : Kind → Bool
  | .message | .group | .string | .bytes => false
  | _ => true

/-- Label / cardinality (1 optional, 2 required, 3 repeated). -/
inductive Label | optional | required | repeated
  deriving DecidableEq, Repr, Inhabited

def Label.toNat : Label → Nat
  | .optional => 1 | .required => 2 | .repeated => 3

def Label.ofNat? : Nat → Option Label
  | 1 => some .optional | 2 => some .required | 3 => some .repeated | _ => none

/-! ### names -/

/-- `protoreflect.FullName.Append` / `prefix + name` with `prefix = fqn + "."`. -/
def joinName (pre name : Name) : Name :=
  if pre.isEmpty then name else pre ++ '.' :: name

/-- `some p` when the name is `p ++ "." ++ last` with no dot in `last`; `none` when there is no dot. -/
def dropLastComp : Name → Option Name
  | [] => none
  | c :: cs => match dropLastComp cs with
    | some r => some (c :: r)
    | none => if c = '.' then some [] else none

/-- `protoreflect.FullName.Parent`. -/
def fullNameParent (n : Name) : Name := (dropLastComp n).getD []

/-- the text after the last dot -/
def lastCompAux : Name → Name → Name
  | acc, [] => acc.reverse
  | acc, c :: cs => if c = '.' then lastCompAux [] cs else lastCompAux (c :: acc) cs

/-- `protoreflect.FullName.Name`. -/
def fullNameName (n : Name) : Name := lastCompAux [] n

/-- `strings.ToLower` on ASCII identifiers. -/
def toLowerName (n : Name) : Name :=
  n.map fun c => if 'A' ≤ c ∧ c ≤ 'Z' then Char.ofNat (c.toNat + 32) else c

/-- `strs.JSONCamelCase`. -/
def jsonCamelAux : Bool → Name → Name
  | _, [] => []
  | wasUnderscore, c :: cs =>
    if c = '_' then jsonCamelAux true cs
    else
      let c' := if wasUnderscore ∧ 'a' ≤ c ∧ c ≤ 'z' then Char.ofNat (c.toNat - 32) else c
      c' :: jsonCamelAux false cs

def jsonCamelCase (n : Name) : Name := jsonCamelAux false n

def bracket (n : Name) : Name := '[' :: n ++ [']']

/-! ### field facts -/

structure FieldFacts where
  syn : Syntax
  fileEdition : Nat
  name : Name
  /-- full name of the enclosing message, or the package for a file-level extension ("" if none) -/
  parent : Name
  number : Int
  label : Label
  type : Kind
  /-- name of the oneof the field's `oneof_index` points to -/
  oneof : Option Name
  /-- `extendee != ""` -/
  ext : Bool
  extendee : Name
  proto3Optional : Bool
  /-- `options.packed` when set explicitly -/
  packedOpt : Option Bool
  jsonName : Option Name
  hasDefault : Bool
  /-- explicit feature overrides: the field's, its enclosing messages' (innermost first), the file's -/
  chain : List Overrides
  /-- the enclosing element is a message with `map_entry = true` -/
  parentMapEntry : Bool
  /-- resolved `type_name` when it denotes a message -/
  targetMsg : Option Name
  /-- that message has `map_entry = true` -/
  targetMapEntry : Bool
  /-- that message is declared in the same file as the field -/
  targetSameFile : Bool
  /-- resolved `type_name` when it denotes an enum -/
  targetEnum : Option Name
  /-- the enum's own override chain, the edition of the file declaring it, its first value's number -/
  teChain : List Overrides
  teEdition : Nat
  teFirst : Option Int
  /-- map fields: first number of the enum type of the entry's value field -/
  mapValEnumFirst : Option Int
  /-- the extendee has `message_set_wire_format = true` -/
  extendeeMsgSet : Bool
  /-- raw `default_value` -/
  defaultStr : Option (List UInt8)
  /-- values (name, number) of the target enum -/
  enumVals : List (Name × Int)
  deriving Repr, Inhabited

namespace FieldFacts

def edition (f : FieldFacts) : Nat := editionOf f.syn f.fileEdition
def fqn (f : FieldFacts) : Name := joinName f.parent f.name

/-! #### the linker's view (`linker/descriptors.go`, `fldDescriptor`) -/

def presenceL (f : FieldFacts) : Presence := resolveL f.edition f.chain (·.presence) (·.presence)

/-- `Cardinality()` -/
def cardL (f : FieldFacts) : Label :=
  match f.label with
  | .repeated => .repeated
  | .required => .required
  | .optional =>
    if f.syn = .editions then
      if f.presenceL = .legacyRequired then .required else .optional
    else .optional

/-- `isMapEntry()`: `type == TYPE_MESSAGE && f.Message().IsMapEntry()` -/
def isMapEntryL (f : FieldFacts) : Bool := f.type == .message && f.targetMapEntry

/-- `IsMap()` -/
def isMapL (f : FieldFacts) : Bool :=
  if f.label ≠ .repeated then false
  else if f.ext then false
  else f.isMapEntryL

/-- `IsList()` -/
def isListL (f : FieldFacts) : Bool :=
  if f.label ≠ .repeated then false else !f.isMapEntryL

/-- `Kind()` -/
def kindL (f : FieldFacts) : Kind :=
  if f.type = .message ∧ f.syn = .editions ∧ ¬ f.isMapL ∧ ¬ f.parentMapEntry then
    if resolveL f.edition f.chain (·.msgEnc) (·.msgEnc) = .delimited then .group else f.type
  else f.type

/-- `HasPresence()` -/
def hasPresenceL (f : FieldFacts) : Bool :=
  if f.label = .repeated then false
  else if f.ext || f.kindL == .message || f.kindL == .group || f.oneof.isSome then true
  else f.presenceL == .explicit || f.presenceL == .legacyRequired

/-- `HasOptionalKeyword()` -/
def hasOptionalKeywordL (f : FieldFacts) : Bool :=
  if f.label ≠ .optional then false
  else if f.proto3Optional then !f.ext
  else f.syn == .proto2 && f.oneof.isNone

/-- `IsPacked()` -/
def isPackedL (f : FieldFacts) : Bool :=
  if f.cardL ≠ .repeated ∨ ¬ f.kindL.canPack then false
  else match f.packedOpt with
    | some b => b
    | none => resolveL f.edition f.chain (·.repEnc) (·.repEnc) == .packed

/-- `looksLikeGroup()`; with no resolved message the Go code would dereference nil — `false` here,
never reached for linked files. -/
def looksLikeGroupL (f : FieldFacts) : Bool :=
  match f.targetMsg with
  | none => false
  | some t =>
    f.kindL == .group && fullNameParent t == fullNameParent f.fqn && f.name == toLowerName (fullNameName t)

/-- `TextName()` -/
def textNameL (f : FieldFacts) : Name :=
  if f.ext then bracket f.fqn
  else if f.looksLikeGroupL then fullNameName (f.targetMsg.getD [])
  else f.name

/-- `JSONName()` -/
def jsonNameL (f : FieldFacts) : Name :=
  if f.ext then f.textNameL else f.jsonName.getD []

/-- `ContainingMessage()` -/
def containingMsgL (f : FieldFacts) : Name := if f.ext then f.extendee else f.parent

/-! #### the runtime's view (`protodesc.initFieldsFromDescriptorProto` / `initExtensionDeclarations`,
`resolveMessageDependencies`, `filedesc.Field` / `filedesc.Extension`) -/

def ef (f : FieldFacts) : EF := chainEF f.edition f.chain

/-- `EditionFeatures.IsPacked` after `if opts.Packed != nil { … = opts.GetPacked() }` -/
def efPackedR (f : FieldFacts) : Bool :=
  match f.packedOpt with
  | some b => b
  | none => f.ef.isPacked

/-- `L1.Cardinality`: the label, then `Required` if `IsLegacyRequired` (message fields only). -/
def cardR (f : FieldFacts) : Label :=
  if !f.ext && f.ef.isLegacyRequired then .required else f.label

/-- `(*Field).IsMap()`: `Message() != nil && Message().IsMapEntry()`; extensions: false. -/
def isMapR (f : FieldFacts) : Bool :=
  if f.ext then false else f.targetMsg.isSome && f.targetMapEntry

/-- `L1.Kind`: the type; `Message ∧ IsDelimitedEncoded → Group`; for message fields reset to
`Message` when the field is a map or lives in a map entry. -/
def kindR (f : FieldFacts) : Kind :=
  let k0 := if f.type = .message ∧ f.ef.isDelimitedEncoded then Kind.group else f.type
  if !f.ext && k0 == .group && (f.isMapR || f.parentMapEntry) then .message else k0

def isListR (f : FieldFacts) : Bool :=
  if f.ext then f.cardR == .repeated else f.cardR == .repeated && !f.isMapR

def hasPresenceR (f : FieldFacts) : Bool :=
  if f.ext then f.cardR != .repeated
  else if f.cardR = .repeated then false
  else f.ef.isFieldPresence || f.targetMsg.isSome || f.oneof.isSome

/-- `HasOptionalKeyword`; `protodesc` never sets `IsProto3Optional` on extensions. -/
def hasOptionalKeywordR (f : FieldFacts) : Bool :=
  if f.ext then f.syn == .proto2 && f.cardR == .optional
  else (f.syn == .proto2 && f.cardR == .optional && f.oneof.isNone) || f.proto3Optional

def isPackedR (f : FieldFacts) : Bool :=
  if f.cardR ≠ .repeated then false
  else if !f.kindR.canPack then false
  else f.efPackedR

/-- `filedesc.isGroupLike` for message fields (extensions never reach it for the text name). -/
def isGroupLikeR (f : FieldFacts) : Bool :=
  match f.targetMsg with
  | none => false
  | some t =>
    f.kindR == .group && toLowerName (fullNameName t) == f.name && f.targetSameFile &&
      (if f.ext then fullNameParent t == f.parent else f.parent == fullNameParent t)

/-- `messageset.IsMessageSetExtension` -/
def isMessageSetExtR (f : FieldFacts) : Bool :=
  f.name == "message_set_extension".toList && (match f.targetMsg with
    | some t => fullNameParent f.fqn == t
    | none => false) && f.extendeeMsgSet

/-- `stringName.lazyInit`: text name -/
def textNameR (f : FieldFacts) : Name :=
  if f.ext then
    if f.isMessageSetExtR then bracket (fullNameParent f.fqn) else bracket f.fqn
  else if f.isGroupLikeR then fullNameName (f.targetMsg.getD [])
  else f.name

def jsonNameR (f : FieldFacts) : Name :=
  if f.ext then f.textNameR
  else match f.jsonName with
    | some j => j
    | none => jsonCamelCase f.name

def containingMsgR (f : FieldFacts) : Name := if f.ext then f.extendee else f.parent

/-- closedness of the target enum as the runtime resolves it -/
def targetEnumClosedR (f : FieldFacts) : Bool := !(chainEF f.teEdition f.teChain).isOpenEnum

/-- "the enum has values and its first value's number is not 0" -/
def firstNonZero : Option Int → Bool
  | some n => n != 0
  | none => false

/-- Field-level rejections of `protodesc.validateMessageDeclarations` that accepted files can hit,
in the order the checks are made (`checkValidMap`, proto3 closed enum, implicit closed enum).
`mapenum0v`: the value field of a map entry whose map field was rejected with `mapenum0`. -/
def runtimeVerdict (f : FieldFacts) : String :=
  if f.ext then "ok"
  else if f.parentMapEntry && f.number == 2 && f.targetEnum.isSome && firstNonZero f.teFirst then "mapenum0v"
  else if f.isMapR && firstNonZero f.mapValEnumFirst then "mapenum0"
  else if f.edition == 999 && f.targetEnum.isSome && f.targetEnumClosedR then "p3closed"
  else if f.cardR == .optional && !f.hasPresenceR && f.targetEnum.isSome && f.targetEnumClosedR then "implclosed"
  else "ok"

end FieldFacts

/-- attribute vector of a field or extension -/
structure FieldVec where
  name : Name
  fqn : Name
  number : Int
  card : Label
  kind : Kind
  hasPresence : Bool
  hasOptionalKeyword : Bool
  isPacked : Bool
  isList : Bool
  isMap : Bool
  isExtension : Bool
  hasJSONName : Bool
  jsonName : Name
  textName : Name
  oneof : Option Name
  containingMsg : Name
  message : Option Name
  enum : Option Name
  hasDefault : Bool
  resolved : Features
  deriving DecidableEq, Repr

def fieldVecL (f : FieldFacts) : FieldVec :=
  { name := f.name, fqn := f.fqn, number := f.number, card := f.cardL, kind := f.kindL,
    hasPresence := f.hasPresenceL, hasOptionalKeyword := f.hasOptionalKeywordL, isPacked := f.isPackedL,
    isList := f.isListL, isMap := f.isMapL, isExtension := f.ext, hasJSONName := f.jsonName.isSome,
    jsonName := f.jsonNameL, textName := f.textNameL, oneof := f.oneof, containingMsg := f.containingMsgL,
    message := f.targetMsg, enum := f.targetEnum, hasDefault := f.hasDefault,
    resolved := resolveAllL f.edition f.chain }

def fieldVecR (f : FieldFacts) : FieldVec :=
  { name := f.name, fqn := joinName f.parent f.name, number := f.number, card := f.cardR, kind := f.kindR,
    hasPresence := f.hasPresenceR, hasOptionalKeyword := f.hasOptionalKeywordR, isPacked := f.isPackedR,
    isList := f.isListR, isMap := f.isMapR, isExtension := f.ext, hasJSONName := f.jsonName.isSome,
    jsonName := f.jsonNameR, textName := f.textNameR, oneof := f.oneof, containingMsg := f.containingMsgR,
    message := f.targetMsg, enum := f.targetEnum, hasDefault := f.hasDefault,
    resolved := resolveAllL f.edition f.chain }

/-! ### default values -/

inductive DefVal
  | invalid
  | bool (b : Bool)
  | i32 (v : Int) | i64 (v : Int) | u32 (v : Nat) | u64 (v : Nat)
  | f32zero | f64zero
  | str (b : List UInt8)
  | bytesEmpty
  | enum (n : Int)
  /-- the runtime refuses the default (`NewFile` fails): never seen for accepted files -/
  | error
  deriving DecidableEq, Repr

def digitVal (c : Char) : Option Nat :=
  if '0' ≤ c ∧ c ≤ '9' then some (c.toNat - 48) else none

def parseDigitsAux : Nat → List Char → Option Nat
  | acc, [] => some acc
  | acc, c :: cs => match digitVal c with
    | some d => parseDigitsAux (acc * 10 + d) cs
    | none => none

/-- decimal digits, at least one -/
def parseDigits : List Char → Option Nat
  | [] => none
  | cs => parseDigitsAux 0 cs

/-- `strconv.ParseUint(s, 10, bits)` -/
def parseUint (bits : Nat) (s : List Char) : Option Nat :=
  match parseDigits s with
  | some n => if n < 2 ^ bits then some n else none
  | none => none

/-- `strconv.ParseInt(s, 10, bits)` -/
def parseInt (bits : Nat) (s : List Char) : Option Int :=
  match s with
  | [] => none
  | '-' :: r => match parseDigits r with
    | some n => if n ≤ 2 ^ (bits - 1) then some (-(n : Int)) else none
    | none => none
  | '+' :: r => match parseDigits r with
    | some n => if n < 2 ^ (bits - 1) then some (n : Int) else none
    | none => none
  | cs => match parseDigits cs with
    | some n => if n < 2 ^ (bits - 1) then some (n : Int) else none
    | none => none

def charsOfBytes (bs : List UInt8) : List Char := bs.map fun b => Char.ofNat b.toNat

def lookupEnum (vals : List (Name × Int)) (n : Name) : Option Int :=
  match vals.find? (fun p => p.1 == n) with
  | some p => some p.2
  | none => none

/-- default strings whose parse is not modelled (strconv.ParseFloat, the two C-unescapers):
explicit defaults of float, double and bytes fields -/
def opaqueDefault (type : Kind) (d : Option (List UInt8)) : Bool :=
  d.isSome && (type == .double || type == .float || type == .bytes)

/-- shared by `parseDefaultValue` (linker) and `defval.Unmarshal` (runtime) for the modelled kinds -/
def parseDefault (k : Kind) (s : List UInt8) (vals : List (Name × Int)) : Option DefVal :=
  let cs := charsOfBytes s
  match k with
  | .enum => (lookupEnum vals cs).map DefVal.enum
  | .bool => if cs = "true".toList then some (.bool true) else if cs = "false".toList then some (.bool false) else none
  | .string => some (.str s)
  | .int32 | .sint32 | .sfixed32 => (parseInt 32 cs).map DefVal.i32
  | .int64 | .sint64 | .sfixed64 => (parseInt 64 cs).map DefVal.i64
  | .uint32 | .fixed32 => (parseUint 32 cs).map DefVal.u32
  | .uint64 | .fixed64 => (parseUint 64 cs).map DefVal.u64
  | _ => none

/-- zero value per kind (both implementations have the same table); enum: number of the first value -/
def zeroDefault (k : Kind) (firstEnum : Int) : DefVal :=
  match k with
  | .int32 | .sint32 | .sfixed32 => .i32 0
  | .int64 | .sint64 | .sfixed64 => .i64 0
  | .uint32 | .fixed32 => .u32 0
  | .uint64 | .fixed64 => .u64 0
  | .float => .f32zero
  | .double => .f64zero
  | .bool => .bool false
  | .bytes => .bytesEmpty
  | .string => .str []
  | .enum => .enum firstEnum
  | .group | .message => .invalid

namespace FieldFacts

def firstEnumNumber (f : FieldFacts) : Int :=
  match f.enumVals with
  | (_, n) :: _ => n
  | [] => 0

/-- `(*fldDescriptor).Default()`: unparsable explicit defaults silently fall back to the zero value. -/
def defaultL (f : FieldFacts) : DefVal :=
  if f.label = .repeated ∨ f.kindL = .group ∨ f.kindL = .message then .invalid
  else match f.defaultStr with
    | some s => match parseDefault f.kindL s f.enumVals with
      | some v => v
      | none => zeroDefault f.kindL f.firstEnumNumber
    | none => zeroDefault f.kindL f.firstEnumNumber

/-- `(*fldDescriptor).DefaultEnumValue()` -/
def defaultEnumL (f : FieldFacts) : Option Name :=
  match f.targetEnum, f.defaultStr with
  | some _, some s => if (lookupEnum f.enumVals (charsOfBytes s)).isSome then some (charsOfBytes s) else none
  | _, _ => none

/-- `unmarshalDefault` at build time (`error` = `NewFile` fails) and `defaultValue.get` at query time. -/
def defaultR (f : FieldFacts) : DefVal :=
  match f.defaultStr with
  | some s => match parseDefault f.kindR s f.enumVals with
    | some v =>
      if !f.hasPresenceR then .error
      else if f.kindR = .message ∨ f.kindR = .group ∨ f.cardR = .repeated then .error
      else v
    | none => .error
  | none =>
    if f.cardR = .repeated then .invalid
    else zeroDefault f.kindR f.firstEnumNumber

def defaultEnumR (f : FieldFacts) : Option Name :=
  match f.defaultStr with
  | some s => if f.kindR = .enum ∧ (lookupEnum f.enumVals (charsOfBytes s)).isSome then some (charsOfBytes s) else none
  | none => none

end FieldFacts

/-! ### messages -/

structure MsgField where
  number : Int
  label : Label
  own : Overrides
  deriving Repr, Inhabited

structure MsgFacts where
  syn : Syntax
  fileEdition : Nat
  name : Name
  fqn : Name
  /-- the message's own overrides, its enclosing messages', the file's -/
  chain : List Overrides
  mapEntry : Bool
  fields : List MsgField
  reservedRanges : List (Int × Int)
  extensionRanges : List (Int × Int)
  reservedNames : List Name
  oneofs : Nat
  deriving Repr, Inhabited

/-- `(*msgDescriptor).RequiredNumbers` BEFORE /repo commit a64d8c3c (kept as documentation of the defect
that was found): fields whose *label* is `LABEL_REQUIRED`. -/
def requiredNumbersLPrefix (m : MsgFacts) : List Int :=
  (m.fields.filter fun f => f.label == .required).map (·.number)

/-- `(*fldDescriptor).Cardinality()` of a member field, from the message's point of view -/
def msgFieldCardL (m : MsgFacts) (f : MsgField) : Label :=
  match f.label with
  | .repeated => .repeated
  | .required => .required
  | .optional =>
    if m.syn = .editions then
      if resolveL (editionOf m.syn m.fileEdition) (f.own :: m.chain) (·.presence) (·.presence) = .legacyRequired
      then .required else .optional
    else .optional

/-- `(*msgDescriptor).RequiredNumbers` (since /repo commit a64d8c3c): member fields whose `Cardinality()` is
`Required`. -/
def requiredNumbersL (m : MsgFacts) : List Int :=
  (m.fields.filter fun f => msgFieldCardL m f == .required).map (·.number)

/-- the runtime's cardinality of a message field (never an extension) -/
def msgFieldCardR (m : MsgFacts) (f : MsgField) : Label :=
  if (chainEF (editionOf m.syn m.fileEdition) (f.own :: m.chain)).isLegacyRequired then .required else f.label

/-- `resolveMessageDependencies`: fields whose *cardinality* is `Required`. -/
def requiredNumbersR (m : MsgFacts) : List Int :=
  (m.fields.filter fun f => msgFieldCardR m f == .required).map (·.number)

structure MsgVec where
  name : Name
  fqn : Name
  mapEntry : Bool
  required : List Int
  reservedRanges : List (Int × Int)
  extensionRanges : List (Int × Int)
  reservedNames : List Name
  nFields : Nat
  nOneofs : Nat
  resolved : Features
  deriving DecidableEq, Repr

def msgVecL (m : MsgFacts) : MsgVec :=
  { name := m.name, fqn := m.fqn, mapEntry := m.mapEntry, required := requiredNumbersL m,
    reservedRanges := m.reservedRanges, extensionRanges := m.extensionRanges, reservedNames := m.reservedNames,
    nFields := m.fields.length, nOneofs := m.oneofs,
    resolved := resolveAllL (editionOf m.syn m.fileEdition) m.chain }

def msgVecR (m : MsgFacts) : MsgVec :=
  { name := m.name, fqn := m.fqn, mapEntry := m.mapEntry, required := requiredNumbersR m,
    reservedRanges := m.reservedRanges, extensionRanges := m.extensionRanges, reservedNames := m.reservedNames,
    nFields := m.fields.length, nOneofs := m.oneofs,
    resolved := resolveAllL (editionOf m.syn m.fileEdition) m.chain }

/-! ### enums -/

structure EnumFacts where
  syn : Syntax
  fileEdition : Nat
  name : Name
  fqn : Name
  chain : List Overrides
  values : List (Name × Int)
  reservedRanges : List (Int × Int)
  reservedNames : List Name
  deriving Repr, Inhabited

/-- `(*enumDescriptor).IsClosed` BEFORE /repo commit d89668e5 (documentation of the defect that was found):
resolved `enum_type == CLOSED`. -/
def isClosedLPrefix (e : EnumFacts) : Bool :=
  resolveL (editionOf e.syn e.fileEdition) e.chain (·.enumType) (·.enumType) == .closedE

/-- `(*enumDescriptor).IsClosed` (since /repo commit d89668e5): resolved `enum_type != OPEN`. -/
def isClosedL (e : EnumFacts) : Bool :=
  resolveL (editionOf e.syn e.fileEdition) e.chain (·.enumType) (·.enumType) != .openE

/-- `(*filedesc.Enum).IsClosed`: `!EditionFeatures.IsOpenEnum`. -/
def isClosedR (e : EnumFacts) : Bool := !(chainEF (editionOf e.syn e.fileEdition) e.chain).isOpenEnum

/-- `strings.TrimSuffix` -/
def trimSuffix (s suf : Name) : Name :=
  if suf.isSuffixOf s then s.take (s.length - suf.length) else s

/-- `createEnumDescriptor`: `prefix := strings.TrimSuffix(fqn, ed.GetName())`, value fqn = prefix + name. -/
def valueFqnL (e : EnumFacts) (v : Name) : Name := trimSuffix e.fqn e.name ++ v

/-- `makeBase`: `parent.FullName().Parent().Append(name)` for a parent that is an enum. -/
def valueFqnR (e : EnumFacts) (v : Name) : Name := joinName (fullNameParent e.fqn) v

structure EnumVec where
  name : Name
  fqn : Name
  closed : Bool
  values : List (Name × Int)
  reservedRanges : List (Int × Int)
  reservedNames : List Name
  resolved : Features
  deriving DecidableEq, Repr

def enumVecL (e : EnumFacts) : EnumVec :=
  { name := e.name, fqn := e.fqn, closed := isClosedL e,
    values := e.values.map fun (n, k) => (valueFqnL e n, k),
    reservedRanges := e.reservedRanges, reservedNames := e.reservedNames,
    resolved := resolveAllL (editionOf e.syn e.fileEdition) e.chain }

def enumVecR (e : EnumFacts) : EnumVec :=
  { name := e.name, fqn := e.fqn, closed := isClosedR e,
    values := e.values.map fun (n, k) => (valueFqnR e n, k),
    reservedRanges := e.reservedRanges, reservedNames := e.reservedNames,
    resolved := resolveAllL (editionOf e.syn e.fileEdition) e.chain }

/-! ### oneofs -/

structure OneofFacts where
  syn : Syntax
  name : Name
  fqn : Name
  /-- member fields in declaration order: name, `proto3_optional` -/
  fields : List (Name × Bool)
  deriving Repr, Inhabited

/-- `(*oneofDescriptor).IsSynthetic`: `proto3_optional` of the first member. -/
def isSyntheticL (o : OneofFacts) : Bool :=
  match o.fields with
  | (_, p3) :: _ => p3
  | [] => false

/-- `(*filedesc.Oneof).IsSynthetic`: proto3, exactly one member, and it `HasOptionalKeyword`
(for a oneof member that is `IsProto3Optional`: the proto2 disjunct needs `ContainingOneof == nil`). -/
def isSyntheticR (o : OneofFacts) : Bool :=
  o.syn == .proto3 && o.fields.length == 1 &&
    (match o.fields with
     | (_, p3) :: _ => p3
     | [] => false)

/-! ### what the compiler guarantees about the facts of a file it accepted

Decidable side conditions, each enforced by a check in the compiler (named in the comment). They are
*assumptions of the theorems* in `PCV.Props.C04`; the correspondence run evaluates them on the facts of
every element of every compiled file, so a compiled file outside them is reported. -/

/-- only `json_format` may be set on a message (options/options.go `checkFieldUsage`: feature targets) -/
def Overrides.messageLevelOK (o : Overrides) : Bool :=
  o.presence.isNone && o.enumType.isNone && o.repEnc.isNone && o.utf8.isNone && o.msgEnc.isNone

/-- enclosing messages, then the file (linker/validate.go `validateFile`: no file-wide LEGACY_REQUIRED) -/
def ancestorsOK : List Overrides → Bool
  | [] => false
  | [file] => file.presence != some .legacyRequired
  | m :: rest => m.messageLevelOK && ancestorsOK rest

/-- syntax ↔ edition; proto2/proto3 files carry no features (options.go: "option 'features' may only be
used with editions"); only edition 2023 is supported (`editions.SupportedEditions`). -/
def editionOK (syn : Syntax) (fileEdition : Nat) (chain : List Overrides) : Bool :=
  match syn with
  | .proto2 => fileEdition == 998 && chain.all (·.isEmpty)
  | .proto3 => fileEdition == 999 && chain.all (·.isEmpty)
  | .editions => fileEdition == 1000

/-- closedness of the target enum as the *linker* resolves it (used by its own validation) -/
def FieldFacts.targetEnumClosedL (f : FieldFacts) : Bool :=
  resolveL f.teEdition f.teChain (·.enumType) (·.enumType) != .openE

def acceptedFieldClauses (f : FieldFacts) : List (String × Bool) :=
  [ ("edition", editionOK f.syn f.fileEdition f.chain),
    -- feature targets: a field cannot set enum_type / json_format
    ("feature-targets", match f.chain with
      | [] => false
      | own :: rest => own.enumType.isNone && own.json.isNone && ancestorsOK rest),
    -- parser/linker: extensions are never required, never in a oneof, never map fields; validateFieldFeatures:
    -- "extension fields may not specify field presence"; message sets are rejected without -tags protolegacy
    ("extension", !f.ext || (f.label != .required && f.oneof.isNone && !f.parentMapEntry && !f.targetMapEntry
        && (f.chain.head?.bind (·.presence)).isNone && !f.extendeeMsgSet)),
    -- validateFieldFeatures: repeated / oneof / extension fields may not specify field presence
    ("presence-override-site", (f.chain.head?.bind (·.presence)).isNone
        || (f.label == .optional && f.oneof.isNone && !f.ext)),
    -- linking resolves type_name for exactly the message/group/enum typed fields
    ("type-target", ((f.type == .message || f.type == .group) == f.targetMsg.isSome)
        && ((f.type == .enum) == f.targetEnum.isSome)),
    -- map entries are only referenced by the synthesized repeated message field
    ("map-entry-target", !f.targetMapEntry || (f.type == .message && f.label == .repeated && !f.ext)),
    -- validatePacked: "packed option cannot be used with editions"
    ("packed-option", f.packedOpt.isNone || f.syn != .editions),
    -- parser: proto3_optional only for `optional` in proto3, with a synthetic oneof for message fields
    ("proto3-optional", !f.proto3Optional || (f.syn == .proto3 && f.label == .optional && (f.ext || f.oneof.isSome))),
    -- parser: json_name is always populated for message fields
    ("json-name", f.ext || f.jsonName.isSome),
    -- parser: group syntax exists only in proto2 and never inside a map entry
    ("group-type", f.type != .group || (f.syn == .proto2 && !f.parentMapEntry)),
    -- a message whose full name is `parent.X` is declared inside `parent`, hence in the same file
    ("group-scope", f.ext || (match f.targetMsg with
      | some t => !(fullNameParent t == f.parent) || f.targetSameFile
      | none => true)),
    ("name", !f.name.isEmpty && !f.name.contains '.'),
    ("oneof-label", f.oneof.isNone || f.label == .optional),
    -- facts about the referenced enum: same well-formedness of its chain
    ("target-enum", f.targetEnum.isNone || ((f.teEdition == 998 || f.teEdition == 999 || f.teEdition == 1000)
        && ((f.teEdition == 1000) || f.teChain.all (·.isEmpty)))),
    -- validateField: "cannot use closed enum … in a field with implicit presence"
    ("closed-enum-needs-presence",
        !(f.kindL == .enum && !f.isListL && !f.hasPresenceL && f.targetEnumClosedL)),
    -- validateField: "default value is not allowed on fields with implicit presence"; parser: no defaults
    -- on repeated or message fields
    ("default", !f.hasDefault || (f.hasPresenceL && f.label != .repeated && f.type != .message && f.type != .group)) ]

def acceptedField (f : FieldFacts) : Bool := (acceptedFieldClauses f).all (·.2)

/-- the explicit default is in the form the compiler writes: it parses (modelled kinds only) -/
def acceptedDefault (f : FieldFacts) : Bool :=
  (f.hasDefault == f.defaultStr.isSome) &&
  (match f.defaultStr with
   | some s => opaqueDefault f.type (some s) || (parseDefault f.type s f.enumVals).isSome
   | none => true) &&
  (f.type != .enum || !f.enumVals.isEmpty)

def acceptedMsgClauses (m : MsgFacts) : List (String × Bool) :=
  [ ("edition", editionOK m.syn m.fileEdition m.chain && (m.syn == .editions || m.fields.all (·.own.isEmpty))),
    ("feature-targets", ancestorsOK m.chain),
    ("field-feature-targets", m.fields.all fun f => f.own.enumType.isNone && f.own.json.isNone),
    ("presence-override-site", m.fields.all fun f => f.own.presence.isNone || f.label == .optional) ]

def acceptedMsg (m : MsgFacts) : Bool := (acceptedMsgClauses m).all (·.2)

def acceptedEnumClauses (e : EnumFacts) : List (String × Bool) :=
  [ ("edition", editionOK e.syn e.fileEdition e.chain),
    ("feature-targets", match e.chain with
      | [] => false
      | own :: rest => own.presence.isNone && own.repEnc.isNone && own.utf8.isNone && own.msgEnc.isNone
          && ancestorsOK rest),
    -- the enum's full name is its scope's full name + "." + its name
    ("name", e.fqn == joinName (fullNameParent e.fqn) e.name) ]

def acceptedEnum (e : EnumFacts) : Bool := (acceptedEnumClauses e).all (·.2)

/-- parser: a `proto3_optional` field is the only member of its (synthetic) oneof, in a proto3 file;
a oneof has at least one member -/
def acceptedOneof (o : OneofFacts) : Bool :=
  !o.fields.isEmpty && o.fields.all fun f => !f.2 || (o.syn == .proto3 && o.fields.length == 1)

/-! ### custom features (`protoutil.ResolveCustomFeature`, `GetCustomFeatureDefault`) -/

/-- `editions.GetFeatureDefault` over the `edition_defaults` of a custom feature field: the value of the
entry with the largest edition `≤ ed`; `none` ("no relevant default") if there is none. -/
def customDefault (ed : Nat) (table : List (Nat × String)) : Option String :=
  (table.foldl (fun (best : Option (Nat × String)) (e : Nat × String) =>
      if e.1 ≤ ed then
        match best with
        | some b => if b.1 < e.1 then some e else best
        | none => some e
      else best) none).map (·.2)

/-- `protoutil.ResolveCustomFeature`: proto2/proto3 elements get the default; otherwise the first explicit
value walking element → parents → file, else the default. -/
def customResolve (ed : Nat) (chain : List (Option String)) (table : List (Nat × String)) : Option String :=
  match customDefault ed table with
  | none => none
  | some d =>
    if ed = 998 ∨ ed = 999 then some d
    else match chain.findSome? id with
      | some v => some v
      | none => some d

end PCV.FieldAttrs
