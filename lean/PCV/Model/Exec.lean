/-
Model of the compile executor (compiler.go: Compile / compileLocked / doCompile / asFile /
checkForDependencyCycle) as a labelled transition system whose labels are the events logged
at the named yield points (internal/verifyield, build tag verif).  The same `step` function is
(a) the transition relation the theorems of Props.C05–C07 quantify over and (b) the monitor
that validates traces of real executions.

Parameters (modelled, not verified): the import graph, `resolveOk` (the resolver answers
without error/panic), `linkOk` (parsing + linking + option interpretation of the file succeeds
given successfully compiled dependencies), whether the source's Close() panics, and whether the
context may be cancelled.
-/
namespace PCV.Exec

abbrev File := String

inductive Fault | resolveErr | resolvePanic | readErr | syntaxErr | linkErr | closePanic
deriving Repr, DecidableEq

structure World where
  /-- imports in source order; a file that is not listed does not exist -/
  files : List (File × List File)
  faults : List (File × Fault)
  par : Nat
  /-- the files named in the Compile call -/
  req : List File := []
  /-- the caller's context may be cancelled at any time -/
  cancelable : Bool := false
deriving Repr

def World.imports (w : World) (f : File) : List File := ((w.files.find? (·.1 == f)).map (·.2)).getD []
def World.exists (w : World) (f : File) : Bool := (w.files.find? (·.1 == f)).isSome
def World.fault (w : World) (f : File) : Option Fault := (w.faults.find? (·.1 == f)).map (·.2)

def World.resolveOk (w : World) (f : File) : Bool :=
  w.exists f && w.fault f != some .resolveErr && w.fault f != some .resolvePanic
def World.linkOk (w : World) (f : File) : Bool :=
  w.fault f != some .readErr && w.fault f != some .syntaxErr && w.fault f != some .linkErr
    && w.fault f != some .closePanic
def World.bad (w : World) (f : File) : Bool := !(w.resolveOk f && w.linkOk f)

/-- `f` lies on / reaches an import cycle (fuel-bounded DFS along imports; `path` = DFS stack) -/
def reachesCycleAux (w : World) : Nat → List File → File → Bool
  | 0, _, _ => false
  | fuel+1, path, f =>
    (w.imports f).any (fun d => d == f || path.contains d || reachesCycleAux w fuel (f :: path) d)

def World.reachesCycle (w : World) (f : File) : Bool :=
  reachesCycleAux w (w.files.length + 1) [] f

inductive Cause | resolve | cycle | dep | link | ctx | panic
deriving Repr, DecidableEq

inductive Pc
  | spawned                 -- result created; goroutine waits for its first permit
  | holding                 -- holds a permit, about to call the resolver
  | resolved                -- resolver answered; parsing; next: blocked / complete / fail
  | deps (i : Nat)          -- blockedOn published; i dependencies compile()d and cycle-checked
  | waiting (i : Nat)       -- permit released; i dependencies awaited
  | unblocked               -- blockedOn cleared, about to re-acquire
  | linking                 -- permit re-acquired; link/options/source info
  | failing (c : Cause)     -- an error is on its way to result.fail
  | panicking               -- a panic is unwinding the task's goroutine (deferred release done)
  | finished (ok : Bool)    -- ready channel closed
deriving Repr, DecidableEq

structure Task where
  pc : Pc
  holds : Bool := false
  blockedOn : List File := []
  /-- a panic was recovered in this task's goroutine and `r.err == nil` has not been acted on yet -/
  recovered : Bool := false
  /-- ghost: why the task failed (set when `result.fail` runs); not observable, used by the proofs -/
  cause : Option Cause := none
  /-- ghost: publication stamp — value of the state's clock when `blockedOn` was published -/
  pub : Nat := 0
  /-- ghost: when the last dependency was compiled, a chain of `blockedOn` links led from it back to
      this file through files published before this one: the cycle check that follows cannot pass -/
  flag : Bool := false
deriving Repr, DecidableEq

structure St where
  sem : Nat
  tasks : List (File × Task) := []
  /-- the process died (close of a closed channel inside the deferred recover) -/
  crashed : Bool := false
  /-- ghost: number of `blockedOn` publications so far -/
  clock : Nat := 0
deriving Repr, DecidableEq

def St.task (s : St) (f : File) : Option Task := (s.tasks.find? (·.1 == f)).map (·.2)

def setTask (f : File) (t : Task) : List (File × Task) → List (File × Task)
  | [] => [(f, t)]
  | (g, u) :: r => if g == f then (g, t) :: r else (g, u) :: setTask f t r

def St.set (s : St) (f : File) (t : Task) : St := { s with tasks := setTask f t s.tasks }

/-- `rpath l p fuel x g`: within `fuel` links there is a chain x → … → g of published `blockedOn`
    links whose sources were all published before stamp `p` (what `checkForDependencyCycle` walks;
    such links cannot disappear while `g` is still checking its dependencies) -/
def rpath (l : List (File × Task)) (p : Nat) : Nat → File → File → Bool
  | 0, _, _ => false
  | fuel+1, x, g =>
    match (l.find? (·.1 == x)).map (·.2) with
    | some tx => decide (tx.pub < p) && tx.blockedOn.any (fun z => z == g || rpath l p fuel z g)
    | none => false

inductive Ev
  | spawn (f : File)
  | acquire (f : File) | acqfail (f : File)
  | resolved (f : File) (ok : Bool)
  | blocked (f : File) (deps : List File)
  | selfimport (f : File)
  | dep (f d : File)
  | cycle (f d : File)
  | release (f : File)
  | waited (f d : File)
  | unblocked (f : File)
  | reacquire (f : File) | reacqfail (f : File)
  | complete (f : File) | fail (f : File)
  | recovered (f : File)
deriving Repr, DecidableEq

/-- the file whose task an event belongs to -/
def Ev.file : Ev → File
  | .spawn f | .acquire f | .acqfail f | .resolved f _ | .blocked f _ | .selfimport f | .dep f _
  | .cycle f _ | .release f | .waited f _ | .unblocked f | .reacquire f | .reacqfail f
  | .complete f | .fail f | .recovered f => f

def init (w : World) : St := { sem := w.par }

/-- `compile(f)` is only ever called for a requested file or for the import a task is currently
    looking at in its dependency loop -/
def spawnOk (w : World) (s : St) (f : File) : Bool :=
  w.req.contains f || s.tasks.any (fun x => match x.2.pc with
    | .deps i => (w.imports x.1)[i]? == some f
    | _ => false)

def isFinished (s : St) (f : File) : Bool :=
  match s.task f with
  | some t => (match t.pc with | .finished _ => true | _ => false)
  | none => false

/-- context errors are possible when the caller may cancel, or once `Compile` has returned
    (its deferred `cancel()`), i.e. when every requested result is ready -/
def cancelOk (w : World) (s : St) : Bool := w.cancelable || w.req.all (isFinished s)

/-- One transition. `none` = the event is not enabled in this state. -/
def step (w : World) (s : St) : Ev → Option St
  | .spawn f => if s.crashed || !(spawnOk w s f) then none else
      match s.task f with
      | some _ => none
      | none => some (s.set f { pc := .spawned })
  | .acquire f => match s.task f with
      | some t => if t.pc == .spawned && s.sem > 0 && !s.crashed then
          some ({ s with sem := s.sem - 1 }.set f { t with pc := .holding, holds := true }) else none
      | none => none
  | .acqfail f => match s.task f with
      | some t => if t.pc == .spawned && cancelOk w s && !s.crashed then
          some (s.set f { t with pc := .failing .ctx }) else none
      | none => none
  | .resolved f ok => match s.task f with
      | some t => if t.pc == .holding && ok == w.resolveOk f && !s.crashed then
          some (s.set f { t with pc := if ok then .resolved else .failing .resolve }) else none
      | none => none
  | .blocked f ds => match s.task f with
      | some t => if t.pc == .resolved && ds == w.imports f && !ds.isEmpty && !s.crashed then
          some ({ s with clock := s.clock + 1 }.set f
            { t with pc := .deps 0, blockedOn := ds, pub := s.clock, flag := false }) else none
      | none => none
  | .selfimport f => match s.task f with
      | some t => match t.pc with
        | .deps i => if (w.imports f)[i]? == some f && !t.flag && !s.crashed then
            some (s.set f { t with pc := .failing .cycle }) else none
        | _ => none
      | none => none
  | .dep f d => match s.task f with
      | some t => match t.pc with
        | .deps i => if (w.imports f)[i]? == some d && d != f && (s.task d).isSome && !t.flag && !s.crashed then
            some (s.set f { t with pc := .deps (i+1), flag := rpath s.tasks t.pub t.pub d f }) else none
        | _ => none
      | none => none
  | .cycle f d => match s.task f with
      | some t => match t.pc with
        | .deps (i+1) => if (w.imports f)[i]? == some d && w.reachesCycle f && !s.crashed then
            some (s.set f { t with pc := .failing .cycle, flag := false }) else none
        | _ => none
      | none => none
  | .release f => match s.task f with
      | some t => if !t.holds || s.crashed then none else
        match t.pc with
        | .deps i => if i == (w.imports f).length && !t.flag then
            some ({ s with sem := s.sem + 1 }.set f { t with pc := .waiting 0, holds := false }) else none
        | .finished _ => some ({ s with sem := s.sem + 1 }.set f { t with holds := false })
        -- deferred release while a panic unwinds: resolver panic, or Close() panic
        | .holding => if w.fault f == some .resolvePanic then
            some ({ s with sem := s.sem + 1 }.set f { t with pc := .panicking, holds := false }) else none
        | .resolved => if w.fault f == some .closePanic then
            some ({ s with sem := s.sem + 1 }.set f { t with pc := .panicking, holds := false }) else none
        | .linking => if w.fault f == some .closePanic then
            some ({ s with sem := s.sem + 1 }.set f { t with pc := .panicking, holds := false }) else none
        | .failing _ => if w.fault f == some .closePanic then
            some ({ s with sem := s.sem + 1 }.set f { t with pc := .panicking, holds := false }) else none
        | _ => none
      | none => none
  | .waited f d => match s.task f with
      | some t => match t.pc with
        | .waiting i => if (w.imports f)[i]? == some d && !s.crashed then
            match s.task d with
            | some td => match td.pc with
              | Pc.finished true => some (s.set f { t with pc := .waiting (i+1) })
              | Pc.finished false =>
                some (s.set f { t with pc := .failing (if td.cause == some .ctx then .ctx else .dep) })
              | _ => none
            | none => none
          else none
        | _ => none
      | none => none
  | .unblocked f => match s.task f with
      | some t => if t.pc == .waiting (w.imports f).length && !s.crashed then
          some (s.set f { t with pc := .unblocked, blockedOn := [] }) else none
      | none => none
  | .reacquire f => match s.task f with
      | some t => if t.pc == .unblocked && s.sem > 0 && !s.crashed then
          some ({ s with sem := s.sem - 1 }.set f { t with pc := .linking, holds := true }) else none
      | none => none
  | .reacqfail f => match s.task f with
      | some t => if t.pc == .unblocked && cancelOk w s && !s.crashed then
          some (s.set f { t with pc := .failing .ctx }) else none
      | none => none
  | .complete f => match s.task f with
      | some t => if ((t.pc == .resolved && (w.imports f).isEmpty) || t.pc == .linking) && w.linkOk f && !s.crashed then
          some (s.set f { t with pc := .finished true }) else none
      | none => none
  | .fail f => match s.task f with
      | some t => if s.crashed then none else
        match t.pc with
        | .failing c => some (s.set f { t with pc := .finished false, recovered := false, cause := some c })
        | .resolved => if !w.linkOk f then some (s.set f { t with pc := .finished false, cause := some .link })
            else if cancelOk w s then some (s.set f { t with pc := .finished false, cause := some .ctx }) else none
        | .linking => if !w.linkOk f then some (s.set f { t with pc := .finished false, cause := some .link })
            else if cancelOk w s then some (s.set f { t with pc := .finished false, cause := some .ctx }) else none
        | .waiting _ => if cancelOk w s then some (s.set f { t with pc := .finished false, cause := some .ctx }) else none
        | .finished true =>
          -- the deferred recover sees `r.err == nil` on a COMPLETED result and calls r.fail:
          -- close of a closed channel ⇒ the process dies
          if t.recovered then some { s with crashed := true } else none
        | _ => none
      | none => none
  | .recovered f => match s.task f with
      | some t => if s.crashed then none else
        match t.pc with
        | .panicking => some (s.set f { t with pc := .failing .panic })
        -- Close() panicked on an error path where the permit was already released
        | .failing c => if w.fault f == some .closePanic && !t.holds && c != .panic then
            some (s.set f { t with pc := .failing .panic }) else none
        -- context cancelled while waiting for a dependency, then Close() panicked
        | .waiting _ => if w.fault f == some .closePanic && cancelOk w s then
            some (s.set f { t with pc := .failing .panic }) else none
        | _ => none
      | none => none

def run (w : World) : St → List Ev → Option St
  | s, [] => some s
  | s, e :: es => match step w s e with
    | some s' => run w s' es
    | none => none

/-- index of the first event that is not enabled (for the trace validator) -/
def firstBad (w : World) : St → List Ev → Nat → Option (Nat × Ev)
  | _, [], _ => none
  | s, e :: es, k => match step w s e with
    | some s' => firstBad w s' es (k+1)
    | none => some (k, e)

end PCV.Exec
