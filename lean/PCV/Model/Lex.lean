/-
Model of the stable lexer `parser/lexer.go` (`newLexer` BOM handling, `Lex`, `readNumber`,
`readIdentifier`, `readStringLiteral`, `skipToEndOfLineComment`, `skipToEndOfBlockComment`,
`maybeNewLine`, `addComment`, `setPrevAndAddComments`, `addSourceError`) driving the
`FileInfo` model, and of the driver loop "call Lex until it returns 0".

The input is first cut into runes exactly as repeated `utf8.DecodeRune` calls do (`runes`);
the reader position only ever moves by whole decoded runes, so this is faithful.  Every loop
is a structural recursion over the list of remaining runes: an iteration that consumes k runes
tells the loop to skip the k-1 following list cells (`skip` argument), so termination is by
Lean's structural checker and no fuel is involved.

The reporter is a parameter: `lenient = true` models a reporter that returns nil (keep
going), `false` the default reporter that returns the error (the handler latches it and
`Lex` returns 0 from then on).  Go panics are modelled: `panicked` is set where the Go code
panics (`FileInfo` precondition panics and an out-of-range index in `SourcePos`).
The model follows /repo HEAD including the fixes bf5e1388 (newlines inside string literals reach
the line table), e715107a (escape errors are positioned at the escape's start offset) and
7c1a0665 (hex / unicode escapes through `ParseUint`).  Raw characters of a string literal still go
through `buf.WriteRune` (an ill-formed byte becomes U+FFFD: known finding of C14).
-/
import PCV.Model.Utf8
import PCV.Model.FileInfo
import PCV.Model.Num
namespace PCV.Lex
open PCV.FileInfo PCV.Num

/-- a decoded rune with the bytes it was decoded from -/
structure Rn where
  r : Nat
  bytes : List UInt8
deriving Repr, DecidableEq

def Rn.w (c : Rn) : Nat := c.bytes.length

def runesGo : Nat → List UInt8 → List Rn
  | _, [] => []
  | s+1, _ :: bs => runesGo s bs
  | 0, b :: bs =>
    let d := Utf8.decodeRune (b :: bs)
    ⟨d.1, (b :: bs).take d.2⟩ :: runesGo (d.2 - 1) bs

/-- the runes `readRune` returns, in order -/
def runes (bs : List UInt8) : List Rn := runesGo 0 bs

/-- `newLexer`: a leading UTF-8 byte order mark is consumed -/
def stripBOM : List UInt8 → List UInt8
  | 0xEF :: 0xBB :: 0xBF :: rest => rest
  | bs => bs

inductive NumKind where
  | float | hex | octal | integer
deriving Repr, DecidableEq

/-- error message classes (the harness maps Go messages onto these) -/
inductive EC where
  | eolInString | unexpectedEOF | eof | nulInString | badHex | badOctal | octalRange
  | badUnicode | unicodeRange | badEscape | controlChar | invalidChar | blockCommentEOF
  | numSyntax (k : NumKind) | numRange (k : NumKind)
deriving Repr, DecidableEq

structure Err where
  cls : EC
  off : Int
  line : Nat
  col : Nat
deriving Repr, DecidableEq

inductive Kind where
  | name | kw | intLit | floatLit | strLit | rune | error
deriving Repr, DecidableEq

inductive Val where
  | none
  | int (n : Nat)
  | float (bits : Nat)
  | str (bs : List UInt8)
  | rune (c : Nat)
deriving Repr, DecidableEq

structure Tok where
  kind : Kind
  item : Option Nat
  val : Val
deriving Repr, DecidableEq

/-- `protoLex` + `runeReader` + the handler latch -/
structure St where
  fi : FI
  lenient : Bool
  pos : Nat := 0
  idx : Nat := 0              -- number of runes consumed (list cells)
  mark : Nat := 0
  prevOffset : Nat := 0
  prevSym : Option Nat := none
  prevLine : Nat := 0
  curLine : Nat := 0
  maybeDonate : Nat := 0
  pending : List (Nat × Bool) := []     -- l.comments: (token, isBlock)
  eof : Option Nat := none
  fresh : Bool := true                  -- next iteration starts a new Lex call
  toks : List Tok := []
  errs : List Err := []
  herr : Bool := false                  -- handler.err != nil
  panicked : Bool := false
  done : Bool := false
deriving Repr

def adv (st : St) (c : Rn) : St := { st with pos := st.pos + c.w, idx := st.idx + 1 }

def advAll (st : St) (cs : List Rn) : St := cs.foldl adv st

def panic (st : St) : St := { st with panicked := true, done := true }

/-- `l.info.AddLine` + `maybeNewLine` -/
def maybeNewLine (st : St) (c : Rn) : St :=
  if c.r = 10 then
    match addLine st.fi st.pos with
    | none => panic st
    | some fi =>
      let md := match st.pending with
        | (_, true) :: _ => if st.maybeDonate > 0 then st.maybeDonate + 1 else st.maybeDonate
        | _ => st.maybeDonate
      { st with fi := fi, curLine := st.curLine + 1, maybeDonate := md }
  else st

/-- `Handler.HandleError(ewp)`: returns the state and "handlerErr == nil" -/
def handleError (st : St) (e : Err) : St × Bool :=
  if st.herr then (st, false)
  else if st.lenient then ({ st with errs := st.errs ++ [e] }, true)
  else ({ st with errs := st.errs ++ [e], herr := true }, false)

/-- `setError(lval, err)` for a plain error: position is `l.prev()` -/
def setErrorPlain (st : St) (cls : EC) : St :=
  match sourcePos st.fi st.prevOffset with
  | none => panic st
  | some (l, c) =>
    let (st, _) := handleError st ⟨cls, st.prevOffset, l, c⟩
    { st with toks := st.toks ++ [⟨.error, none, .none⟩], fresh := true }

/-- `setError(lval, err)` for an error that already carries its position -/
def setErrorPos (st : St) (e : Err) : St :=
  let (st, _) := handleError st e
  { st with toks := st.toks ++ [⟨.error, none, .none⟩], fresh := true }

def addComments (st : St) : List (Nat × Bool) → Nat → St
  | [], _ => st
  | (tok, _) :: rest, to =>
    if st.panicked then st else
    match addComment st.fi tok to with
    | none => panic st
    | some fi => addComments { st with fi := fi } rest to

/-- `setPrevAndAddComments(n)`; `tok` is `n.Token()` -/
def setPrevAndAddComments (st : St) (tok : Nat) (isEOF : Bool) : St :=
  let comments := st.pending
  let md := st.maybeDonate
  let st := { st with pending := [], maybeDonate := 0 }
  let split : List (Nat × Bool) × List (Nat × Bool) :=
    match st.prevSym, comments with
    | some _, c0 :: rest =>
      let cur := if st.curLine = st.prevLine ∧ isEOF then st.curLine + 1 else st.curLine
      if cur > st.prevLine ∧ md > 0 then
        let canDonate := !c0.2 || decide (comments.length > 1) || decide (md > 1)
        if canDonate then ([c0], rest) else ([], comments)
      else ([], comments)
    | _, _ => ([], comments)
  let st := addComments st split.1 (st.prevSym.getD 0)
  let st := addComments st split.2 tok
  { st with prevSym := some tok, prevLine := st.curLine }

/-- `newToken()` and `setPrevAndAddComments` for the node built from it (`none` = panic) -/
def tokenStep (st : St) (isEOF : Bool) : Option (St × Nat) :=
  match addToken st.fi st.mark (st.pos - st.mark) with
  | none => none
  | some (fi, tok) => some (setPrevAndAddComments { st with fi := fi } tok isEOF, tok)

/-- `newToken()` then the node constructor and `setPrevAndAddComments`; `Lex` returns the token -/
def emit (st : St) (kind : Kind) (val : Val) (isEOF : Bool := false) : St :=
  match tokenStep st isEOF with
  | none => panic st
  | some (st', tok) => { st' with toks := st'.toks ++ [⟨kind, some tok, val⟩], fresh := true }

/-- `addComment(isBlock, startLine)` -/
def addCommentTok (st : St) (isBlock : Bool) (startLine : Nat) : St :=
  let md := if st.pending.isEmpty ∧ startLine = st.prevLine then st.maybeDonate + 1 else st.maybeDonate
  match addToken st.fi st.mark (st.pos - st.mark) with
  | none => panic st
  | some (fi, tok) => { st with fi := fi, maybeDonate := md, pending := st.pending ++ [(tok, isBlock)] }

/-! ### character classes -/
def isDigitR (r : Nat) : Bool := 48 ≤ r && r ≤ 57
def isLetterR (r : Nat) : Bool := (97 ≤ r && r ≤ 122) || (65 ≤ r && r ≤ 90)
def isIdentStartR (r : Nat) : Bool := r == 95 || isLetterR r
def isIdentR (r : Nat) : Bool := r == 95 || isLetterR r || isDigitR r
def isHexR (r : Nat) : Bool := isDigitR r || (97 ≤ r && r ≤ 102) || (65 ≤ r && r ≤ 70)
def isOctR (r : Nat) : Bool := 48 ≤ r && r ≤ 55
def isWS (r : Nat) : Bool := r == 10 || r == 13 || r == 9 || r == 12 || r == 11 || r == 32
/-- `;,.:=-+(){}[]<>/` -/
def isPunct (r : Nat) : Bool :=
  [59, 44, 46, 58, 61, 45, 43, 40, 41, 123, 125, 91, 93, 60, 62, 47].contains r

def keywords : List String :=
  ["syntax", "edition", "import", "weak", "public", "package", "option", "true", "false", "inf",
   "nan", "repeated", "optional", "required", "double", "float", "int32", "int64", "uint32",
   "uint64", "sint32", "sint64", "fixed32", "fixed64", "sfixed32", "sfixed64", "bool", "string",
   "bytes", "group", "oneof", "map", "extensions", "to", "max", "reserved", "enum", "message",
   "extend", "service", "rpc", "stream", "returns", "export", "local"]

def keywordBytes : List (List UInt8) := keywords.map (fun s => s.toUTF8.toList)

/-- number of further runes `readIdentifier` consumes -/
def identLen : List Rn → Nat
  | [] => 0
  | c :: rs => if isIdentR c.r then 1 + identLen rs else 0

/-- number of further runes `readNumber` consumes -/
def numberLen : Bool → List Rn → Nat
  | _, [] => 0
  | allowExpSign, c :: rs =>
    if (c.r = 45 ∨ c.r = 43) ∧ !allowExpSign then 0
    else if !(c.r == 46 || c.r == 95 || isDigitR c.r || isLetterR c.r || c.r == 45 || c.r == 43) then 0
    else 1 + numberLen (c.r == 101 || c.r == 69) rs

def asBytes (cs : List Rn) : List UInt8 := cs.map (fun c => UInt8.ofNat c.r)

/-! ### string literals -/

/-- `string(rune)` / `buf.WriteRune` -/
def enc (r : Nat) : List UInt8 := Utf8.encodeRune r

structure SS where
  buf : List UInt8 := []
  escErr : Option Err := none
  noMore : Bool := false
deriving Repr

inductive StrRes where
  | ok (bs : List UInt8)
  | plain (cls : EC)
  | pos (e : Err)
  | panic
deriving Repr

inductive Step where
  | cont (st : St) (ss : SS)
  | done (st : St) (res : StrRes)

/-- the tail of `reportErr`: `escapeError = l.errWithCurrentPos(err, escStart-l.input.offset())`,
    i.e. the error is positioned at `escStart`, the offset at which the iteration began -/
def newEscErr (st : St) (ss : SS) (cls : EC) (escStart : Nat) : Step :=
  match sourcePos st.fi (escStart : Int) with
  | none => .done (panic st) .panic
  | some (l, c) => .cont st { ss with escErr := some ⟨cls, escStart, l, c⟩ }

/-- the `reportErr` closure -/
def reportErr (st : St) (ss : SS) (cls : EC) (escStart : Nat) : Step :=
  if ss.noMore then .cont st ss
  else
    match ss.escErr with
    | some e =>
      -- report the previous one
      let r := handleError st e
      newEscErr r.1 { ss with noMore := !r.2 } cls escStart
    | none => newEscErr st ss cls escStart

/-- the `for i := range u` loop of the unicode escapes: the runes stored in `u`
    (`none` = EOF inside the loop) -/
def readU (q : Nat) : Nat → List Rn → Option (List Rn)
  | 0, _ => some []
  | _+1, [] => none
  | n+1, c :: rs => if c.r = q ∨ c.r = 92 then some [] else (readU q n rs).map (c :: ·)

def encAll (cs : List Rn) : List UInt8 := cs.flatMap (fun c => enc c.r)

def push (st : St) (ss : SS) (bs : List UInt8) : Step := .cont st { ss with buf := ss.buf ++ bs }

/-- what one iteration of the main loop of `readStringLiteral` does, as a function of the
    remaining runes only -/
inductive Act where
  | eol                                  -- raw newline: return the end-of-line error
  | close                                -- closing quote: break
  | eof                                  -- EOF inside an escape: `return "", err`
  | push (bs : List UInt8)               -- bytes written to buf
  | report (cls : EC)                    -- `reportErr(msg, badEscape)`
deriving Repr, DecidableEq

/-- `\x` / `\X` escape: `e` is the x, `rs1` the runes after it (counts include `\` and `e`) -/
def planHex (q : Nat) (rs1 : List Rn) : Nat × Act :=
  match rs1 with
  | [] => (2, .eof)
  | c1 :: rs2 =>
    if c1.r = q ∨ c1.r = 92 then (2, .report .badHex)
    else
      match rs2 with
      | [] => (3, .eof)
      | c2 :: _ =>
        let k := if isHexR c2.r then 4 else 3
        let hex := if isHexR c2.r then enc c1.r ++ enc c2.r else enc c1.r
        match parseUint hex 16 32 with
        | .ok i => (k, .push [UInt8.ofNat i])
        | _ => (k, .report .badHex)

/-- octal escape: `e` is the first digit -/
def planOct (e : Rn) (rs1 : List Rn) : Nat × Act :=
  match rs1 with
  | [] => (2, .eof)
  | c2 :: rs2 =>
    if !isOctR c2.r then
      -- one digit; ParseInt cannot fail, value ≤ 7
      (2, .push [UInt8.ofNat (e.r - 48)])
    else
      match rs2 with
      | [] => (3, .eof)
      | c3 :: _ =>
        if !isOctR c3.r then (3, .push [UInt8.ofNat ((e.r - 48) * 8 + (c2.r - 48))])
        else
          let v := (e.r - 48) * 64 + (c2.r - 48) * 8 + (c3.r - 48)
          if v > 0xff then (4, .report .octalRange)
          else (4, .push [UInt8.ofNat v])

/-- `\u` (n = 4) and `\U` (n = 8, with the range check) escapes -/
def planUni (q : Nat) (n : Nat) (rs1 : List Rn) : Nat × Act :=
  match readU q n rs1 with
  | none => (2 + rs1.length, .eof)
  | some u =>
    let s := encAll u
    if u.length < n then (2 + u.length, .report .badUnicode)
    else match parseUint s 16 32 with
      | .ok i =>
        if n = 8 ∧ i > 0x10ffff then (2 + u.length, .report .unicodeRange)
        else (2 + u.length, .push (enc i))
      | _ => (2 + u.length, .report .badUnicode)

/-- the escape after a backslash: `e` is the rune after it -/
def planEsc (q : Nat) (e : Rn) (rs1 : List Rn) : Nat × Act :=
  if e.r = 120 ∨ e.r = 88 then planHex q rs1
  else if isOctR e.r then planOct e rs1
  else if e.r = 117 then planUni q 4 rs1
  else if e.r = 85 then planUni q 8 rs1
  else if e.r = 97 then (2, .push [7])
  else if e.r = 98 then (2, .push [8])
  else if e.r = 102 then (2, .push [12])
  else if e.r = 110 then (2, .push [10])
  else if e.r = 114 then (2, .push [13])
  else if e.r = 116 then (2, .push [9])
  else if e.r = 118 then (2, .push [11])
  else if e.r = 92 then (2, .push [92])
  else if e.r = 39 then (2, .push [39])
  else if e.r = 34 then (2, .push [34])
  else if e.r = 63 then (2, .push [63])
  else (2, .report .badEscape)

/-- One iteration of the main loop of `readStringLiteral(quote)` on the remaining runes
    `c :: rs`: the number of runes it consumes (runes read and not unread, `c` included) and
    what it does. -/
def strPlan (q : Nat) (c : Rn) (rs : List Rn) : Nat × Act :=
  if c.r = 10 then (1, .eol)
  else if c.r = q then (1, .close)
  else if c.r = 0 then (1, .report .nulInString)
  else if c.r = 92 then
    match rs with
    | [] => (1, .eof)
    | e :: rs1 => planEsc q e rs1
  else (1, .push (enc c.r))        -- `buf.WriteRune(c)`

/-- consume a rune inside a string literal: every rune read for good goes through
    `maybeNewLine` (a no-op unless it is a newline) -/
def advNL (st : St) (c : Rn) : St := maybeNewLine (adv st c) c

def advAllNL (st : St) (cs : List Rn) : St := cs.foldl advNL st

/-- one iteration of the main loop of `readStringLiteral(quote)`: the plan applied to the state;
    `escStart` is the reader offset at the start of the iteration -/
def strIter (q : Nat) (st : St) (ss : SS) (c : Rn) (rs : List Rn) : Step :=
  let p := strPlan q c rs
  let escStart := st.pos
  let st := advAllNL st ((c :: rs).take p.1)
  match p.2 with
  | .eol => .done st (.plain .eolInString)
  | .close => .done st (match ss.escErr with | some e => .pos e | none => .ok ss.buf)
  | .eof => .done st (.plain .eof)
  | .push bs => push st ss bs
  | .report cls => reportErr st ss cls escStart

/-- `readStringLiteral(quote)`: loop over the remaining runes -/
def strGo (q : Nat) : Nat → St → SS → List Rn → St × StrRes
  | _, st, _, [] => (st, .plain .unexpectedEOF)
  | s+1, st, ss, _ :: rs => strGo q s st ss rs
  | 0, st, ss, c :: rs =>
    match strIter q st ss c rs with
    | .done st' res => (st', res)
    | .cont st' ss' => strGo q (st'.idx - st.idx - 1) st' ss' rs

/-! ### comments -/

/-- `skipToEndOfLineComment`: (state, hasErr). The newline is not consumed. -/
def lineCommentGo : St → List Rn → St × Bool
  | st, [] => (st, false)
  | st, c :: rs =>
    if c.r = 10 then (st, false)
    else if c.r = 0 then (setErrorPlain (adv st c) .controlChar, true)
    else lineCommentGo (adv st c) rs

inductive BlockRes where
  | ok | eof | err
deriving Repr, DecidableEq

/-- `skipToEndOfBlockComment` -/
def blockCommentGo : St → List Rn → St × BlockRes
  | st, [] => (st, .eof)
  | st, c :: rs =>
    let st := adv st c
    if c.r = 0 then (setErrorPlain st .controlChar, .err)
    else
      let st := maybeNewLine st c
      if st.panicked then (st, .err)
      else if c.r = 42 then
        match rs with
        | [] => (st, .eof)
        | d :: _ => if d.r = 47 then (adv st d, .ok) else blockCommentGo st rs
      else blockCommentGo st rs

/-! ### numbers -/

def hasPrefix0x (t : List UInt8) : Bool :=
  match t with
  | 48 :: x :: _ => x == 120 || x == 88
  | _ => false

/-- the number branch of `Lex` on the token text -/
def lexNumber (st : St) (token : List UInt8) : St :=
  if hasPrefix0x token then
    match parseUint (token.drop 2) 16 64 with
    | .ok n => emit st .intLit (.int n)
    | .syntax => setErrorPlain st (.numSyntax .hex)
    | .range => setErrorPlain st (.numRange .hex)
  else if token.any (fun b => b == 46 || b == 101 || b == 69) then
    match parseFloat token with
    | some bits => emit st .floatLit (.float bits)
    | none => setErrorPlain st (.numSyntax .float)
  else
    let base := if token.head? = some 48 then 8 else 10
    match parseUint token base 64 with
    | .ok n => emit st .intLit (.int n)
    | .syntax => setErrorPlain st (.numSyntax (if base = 8 then .octal else .integer))
    | .range =>
      if base = 8 then setErrorPlain st (.numRange .octal)
      else match parseFloat token with
        | some bits => emit st .floatLit (.float bits)
        | none => setErrorPlain st (.numSyntax .float)

/-! ### Lex -/

/-- the next rune exists and is `r` -/
def nextIs (rs : List Rn) (r : Nat) : Bool :=
  match rs with
  | cn :: _ => cn.r == r
  | [] => false

/-- start of an iteration of the `for` loop in `Lex` (and, when `fresh`, of a new `Lex` call:
    `l.comments = nil`): `setMark`, `prevOffset = offset` -/
def beginIter (st : St) : St :=
  let st := if st.fresh then { st with pending := [], fresh := false } else st
  { st with mark := st.pos, prevOffset := st.pos }

/-- the body of one iteration of the `for` loop in `Lex` after `c` has been read
    (`st` has already consumed `c`; `rs` are the runes after it) -/
def lexBody (st : St) (c : Rn) (rs : List Rn) : St :=
  if isWS c.r then maybeNewLine st c
  else if c.r = 46 then
    match rs with
    | [] => emit st .rune (.rune 46)
    | cn :: rs1 =>
      if isDigitR cn.r then
        let k := numberLen false rs1
        let st := advAll (adv st cn) (rs1.take k)
        let token := asBytes (c :: cn :: rs1.take k)
        match parseFloat token with
        | some bits => emit st .floatLit (.float bits)
        | none => setErrorPlain st (.numSyntax .float)
      else emit st .rune (.rune 46)
  else if isIdentStartR c.r then
    let k := identLen rs
    let st := advAll st (rs.take k)
    let str := asBytes (c :: rs.take k)
    emit st (if keywordBytes.contains str then .kw else .name) .none
  else if isDigitR c.r then
    let k := numberLen false rs
    let st := advAll st (rs.take k)
    lexNumber st (asBytes (c :: rs.take k))
  else if c.r = 39 ∨ c.r = 34 then
    match strGo c.r 0 st {} rs with
    | (st, .ok bs) => emit st .strLit (.str bs)
    | (st, .plain cls) => setErrorPlain st cls
    | (st, .pos e) => setErrorPos st e
    | (st, .panic) => st
  else if c.r = 47 ∧ nextIs rs 47 then
    let startLine := st.curLine
    match rs with
    | cn :: rs1 =>
      let r := lineCommentGo (adv st cn) rs1
      if r.2 then r.1 else addCommentTok r.1 false startLine
    | [] => st
  else if c.r = 47 ∧ nextIs rs 42 then
    let startLine := st.curLine
    match rs with
    | cn :: rs1 =>
      match blockCommentGo (adv st cn) rs1 with
      | (st, .err) => st
      | (st, .eof) => setErrorPlain st .blockCommentEOF
      | (st, .ok) => addCommentTok st true startLine
    | [] => st
  else if c.r < 32 ∨ c.r = 127 then setErrorPlain st .controlChar
  else if !isPunct c.r then setErrorPlain st .invalidChar
  else emit st .rune (.rune c.r)

/-- One iteration of the `for` loop in `Lex` on a non-empty remaining input `c :: rs`
    (including, when `fresh`, the prologue of a new `Lex` call). -/
def lexIter (st : St) (c : Rn) (rs : List Rn) : St :=
  if st.fresh ∧ st.herr then { st with done := true }
  else lexBody (adv (beginIter st) c) c rs

/-- the end-of-input branch of `Lex` -/
def lexEOF (st : St) : St :=
  if st.fresh ∧ st.herr then { st with done := true }
  else
    match tokenStep (beginIter st) true with
    | none => panic (beginIter st)
    | some (st', tok) => { st' with eof := some tok, done := true }

/-- "call `Lex` until it returns 0" -/
def lexGo : Nat → St → List Rn → St
  | _, st, [] => if st.done then st else lexEOF st
  | s+1, st, _ :: rs => if st.done then st else lexGo s st rs
  | 0, st, c :: rs =>
    if st.done then st
    else
      let st' := lexIter st c rs
      lexGo (st'.idx - st.idx - 1) st' rs

def initSt (data : List UInt8) (lenient : Bool) : St := { fi := FileInfo.new data, lenient := lenient }

/-- the whole lexer run on a file's bytes -/
def lexAll (lenient : Bool) (bs : List UInt8) : St :=
  let data := stripBOM bs
  lexGo 0 (initSt data lenient) (runes data)

end PCV.Lex
