/-
Model of `parser/fastscan` (fastscan.go `Scan`, lexer.go): bytes → runes (bufio.ReadRune) →
tokens (fastscan's OWN lenient streaming lexer) → the token-level state machine of `Scan`.

The model mirrors the Go code as it is, including its oddities:
* token types of symbols are their rune value, so a NUL rune *is* `eofToken` (scanning stops
  there) and U+10001/U+10002/U+10003 *are* string/number/identifier tokens with empty text;
* `readStringLiteral` never fails: invalid escapes are kept raw, `strconv.ParseInt` accepts a
  sign ("\x+f" is byte 15, "\x-1" is byte 255), a string runs across newlines to EOF, the
  characters of an escape are not counted in the column, and EOF inside `\u`/`\U` writes the
  partial escape twice (once in the read loop, once padded with NULs after ParseInt fails);
* ill-formed UTF-8 inside a string literal becomes U+FFFD (three bytes) per bad byte, as in the
  full parser's lexer today (`lexRef`/`scanBytesPatched` model the copy-the-byte alternative);
* `Scan`'s three blocks (pending import, pending package, bracket context) all run on every
  token; unmatched closers are ignored; a pending import/package at EOF is dropped silently.

Core Lean only (used by the driver).
-/
import PCV.Model.Utf8
namespace PCV.Fastscan
open PCV.Utf8

/-! ## runes -/

/-- `newLexer`: a leading UTF-8 byte order mark is discarded (only if 3 bytes can be peeked). -/
def stripBom (bs : List UInt8) : List UInt8 :=
  match bs with
  | a :: b :: c :: rest => if a = 0xEF ∧ b = 0xBB ∧ c = 0xBF then rest else bs
  | _ => bs

/-- Runes at or above `rawBase` stand for one ill-formed input byte `b` (`rawBase + b`).
    Go's `ReadRune` returns U+FFFD (width 1) there; the mark only remembers which byte it was, so
    that the alternative lexer `lexRef` (ill-formed source bytes of a literal copied, as protoc
    does) can be expressed. The model of the Go code treats a marked rune exactly like
    U+FFFD (`goRune`; `encodeRune` of anything above U+10FFFF is the encoding of U+FFFD). -/
def rawBase : Nat := 0x110000

/-- the rune the Go code sees -/
def goRune (c : Nat) : Nat := if rawBase ≤ c then 0xFFFD else c

/-- `bufio.Reader.ReadRune` until EOF: invalid bytes become U+FFFD (marked, see `rawBase`), one
    byte at a time. -/
def decodeRunesAux : Nat → List UInt8 → List Nat
  | 0, _ => []
  | _, [] => []
  | f+1, b :: bs =>
    let rw := decodeRune (b :: bs)
    (if rw.1 = runeError ∧ rw.2 = 1 then rawBase + b.toNat else rw.1)
      :: decodeRunesAux f ((b :: bs).drop rw.2)

def decodeRunes (bs : List UInt8) : List Nat := decodeRunesAux bs.length bs

/-! ## positions and tokens -/

structure Pos where
  line : Nat
  col : Nat
deriving DecidableEq, Repr

/-- `lexer.adjustPos` -/
def adj (p : Pos) (c : Nat) : Pos :=
  if c = 10 then ⟨p.line + 1, 0⟩
  else if c = 9 then ⟨p.line, p.col + (8 - p.col % 8)⟩
  else ⟨p.line, p.col + 1⟩

inductive Kind where
  | str (s : List UInt8)      -- stringToken, decoded text
  | num                       -- numberToken (its text is never used by Scan)
  | ident (s : List UInt8)    -- identifierToken
  | sym (r : Nat)             -- any other rune: tokenType(r)
deriving DecidableEq, Repr

/-- a token and the position where it starts (`prevTokenLine`, `prevTokenCol`, 0-based) -/
structure Token where
  kind : Kind
  line : Nat
  col : Nat
deriving DecidableEq, Repr

/-! ## character classes (on runes) -/

def isWs (c : Nat) : Bool := c = 10 || c = 13 || c = 9 || c = 12 || c = 11 || c = 32
def isDigit (c : Nat) : Bool := 48 ≤ c && c ≤ 57
def isLower (c : Nat) : Bool := 97 ≤ c && c ≤ 122
def isUpper (c : Nat) : Bool := 65 ≤ c && c ≤ 90
def isIdentStart (c : Nat) : Bool := c = 95 || isLower c || isUpper c
def isIdentChar (c : Nat) : Bool := isIdentStart c || isDigit c
def isNumChar (c : Nat) : Bool :=
  c = 46 || c = 95 || isDigit c || isLower c || isUpper c || c = 45 || c = 43
def isHexDigit (c : Nat) : Bool := isDigit c || (97 ≤ c && c ≤ 102) || (65 ≤ c && c ≤ 70)
def isOctDigit (c : Nat) : Bool := 48 ≤ c && c ≤ 55

/-! ## sub-readers -/

/-- `readIdentifier` (after the first rune): (text, remaining runes, position) -/
def readIdent : List Nat → Pos → List UInt8 → List UInt8 × List Nat × Pos
  | [], p, acc => (acc, [], p)
  | c :: rest, p, acc =>
    if isIdentChar c then readIdent rest (adj p c) (acc ++ [UInt8.ofNat c])
    else (acc, c :: rest, p)

/-- `readNumber` (after the runes already consumed): (remaining runes, position) -/
def readNumber : List Nat → Pos → Bool → List Nat × Pos
  | [], p, _ => ([], p)
  | c :: rest, p, allowExpSign =>
    if (c = 45 || c = 43) && !allowExpSign then (c :: rest, p)
    else if !isNumChar c then (c :: rest, p)
    else readNumber rest (adj p c) (c = 101 || c = 69)

def skipLineComment : List Nat → Pos → List Nat × Pos
  | [], p => ([], p)
  | c :: rest, p => if c = 10 then (rest, adj p c) else skipLineComment rest (adj p c)

def skipBlockComment : List Nat → Pos → List Nat × Pos
  | [], p => ([], p)
  | c :: rest, p =>
    if c = 42 then
      match rest with
      | [] => ([], adj p c)
      | d :: rest2 => if d = 47 then (rest2, adj (adj p c) d) else skipBlockComment rest (adj p c)
    else skipBlockComment rest (adj p c)

/-! ### `strconv.ParseInt(s, 16|8, 32)` on the runes of `s` -/

def hexVal? (c : Nat) : Option Nat :=
  if 48 ≤ c ∧ c ≤ 57 then some (c - 48)
  else if 97 ≤ c ∧ c ≤ 102 then some (c - 87)
  else if 65 ≤ c ∧ c ≤ 70 then some (c - 55)
  else none

def parseHexNat : List Nat → Nat → Option Nat
  | [], acc => some acc
  | c :: rest, acc =>
    match hexVal? c with
    | some d => parseHexNat rest (acc * 16 + d)
    | none => none

/-- base 16: optional sign, then one or more hex digits (no underscores since base ≠ 0) -/
def parseHexInt (rs : List Nat) : Option Int :=
  match rs with
  | [] => none
  | c :: rest =>
    if c = 43 then (if rest.isEmpty then none else (parseHexNat rest 0).map Int.ofNat)
    else if c = 45 then (if rest.isEmpty then none else (parseHexNat rest 0).map (fun n => - Int.ofNat n))
    else (parseHexNat (c :: rest) 0).map Int.ofNat

/-- octal digits only (the callers have checked the class) -/
def parseOct (rs : List Nat) : Nat := rs.foldl (fun a c => a * 8 + (c - 48)) 0

/-- `byte(i)` for an int64 -/
def byteOfInt (i : Int) : UInt8 := UInt8.ofNat (i % 256).toNat

/-- `bytes.Buffer.WriteRune(rune(i))` -/
def writeRuneInt (i : Int) : List UInt8 :=
  if i < 0 then [0xEF, 0xBF, 0xBD] else encodeRune i.toNat

def encRunes (rs : List Nat) : List UInt8 := (rs.map encodeRune).flatten

/-- a character of a string literal that is neither the quote nor a backslash:
    `buf.WriteRune(c)`. With `raw` (NOT the Go code: the copy-the-byte alternative) an
    ill-formed source byte is copied as it is, which is what protoc does. -/
def writePlain (raw : Bool) (c : Nat) : List UInt8 :=
  if raw ∧ rawBase ≤ c then [UInt8.ofNat (c - rawBase)] else encodeRune (goRune c)

/-- `readStringLiteral(quote)`: (decoded text, remaining runes, position). Never fails.
    `raw = false` is the Go code. -/
def readString (raw : Bool) (q : Nat) : List Nat → Pos → List UInt8 → List UInt8 × List Nat × Pos
  | [], p, buf => (buf, [], p)
  | c :: rest, p0, buf =>
    let p := adj p0 c
    if c = q then (buf, rest, p)
    else if c ≠ 92 then readString raw q rest p (buf ++ writePlain raw c)
    else
      match rest with
      | [] => (buf ++ [92], [], p)
      | e :: rest1 =>
        if e = 120 ∨ e = 88 then
          -- hex escape
          match rest1 with
          | [] => (buf ++ [92] ++ encodeRune e, [], p)
          | c1 :: rest2 =>
            match rest2 with
            | [] => (buf ++ [92] ++ encodeRune e ++ encodeRune c1, [], p)
            | c2 :: rest3 =>
              if isHexDigit c2 then
                match parseHexInt [c1, c2] with
                | some i => readString raw q rest3 p (buf ++ [byteOfInt i])
                | none => readString raw q rest3 p (buf ++ [92] ++ encodeRune e ++ encRunes [c1, c2])
              else
                match parseHexInt [c1] with
                | some i => readString raw q (c2 :: rest3) p (buf ++ [byteOfInt i])
                | none => readString raw q (c2 :: rest3) p (buf ++ [92] ++ encodeRune e ++ encRunes [c1])
        else if isOctDigit e then
          -- octal escape
          match rest1 with
          | [] => (buf ++ [92] ++ encodeRune e, [], p)
          | c2 :: rest2 =>
            if !isOctDigit c2 then
              readString raw q (c2 :: rest2) p (buf ++ [byteOfInt (Int.ofNat (parseOct [e]))])
            else
              match rest2 with
              | [] => (buf ++ [92] ++ encodeRune e ++ encodeRune c2, [], p)
              | c3 :: rest3 =>
                if !isOctDigit c3 then
                  readString raw q (c3 :: rest3) p (buf ++ [byteOfInt (Int.ofNat (parseOct [e, c2]))])
                else
                  let i := parseOct [e, c2, c3]
                  if i > 0xff then readString raw q rest3 p (buf ++ [92] ++ encRunes [e, c2, c3])
                  else readString raw q rest3 p (buf ++ [byteOfInt (Int.ofNat i)])
        else if e = 117 then
          -- short unicode escape
          match rest1 with
          | a :: b :: c' :: d :: rest5 =>
            match parseHexInt [a, b, c', d] with
            | some i => readString raw q rest5 p (buf ++ writeRuneInt i)
            | none => readString raw q rest5 p (buf ++ [92, 117] ++ encRunes [a, b, c', d])
          | part =>
            -- EOF inside the escape: written once by the read loop, once more (NUL padded)
            -- because ParseInt fails on the padded buffer
            (buf ++ [92, 117] ++ encRunes part ++ [92, 117] ++ encRunes part
               ++ List.replicate (4 - part.length) 0, [], p)
        else if e = 85 then
          -- long unicode escape
          match rest1 with
          | a :: b :: c' :: d :: a2 :: b2 :: c2 :: d2 :: rest9 =>
            match parseHexInt [a, b, c', d, a2, b2, c2, d2] with
            | some i =>
              if i > 0x10ffff ∨ i < 0 then
                readString raw q rest9 p (buf ++ [92, 85] ++ encRunes [a, b, c', d, a2, b2, c2, d2])
              else readString raw q rest9 p (buf ++ writeRuneInt i)
            | none => readString raw q rest9 p (buf ++ [92, 85] ++ encRunes [a, b, c', d, a2, b2, c2, d2])
          | part =>
            (buf ++ [92, 85] ++ encRunes part ++ [92, 85] ++ encRunes part
               ++ List.replicate (8 - part.length) 0, [], p)
        else if e = 97 then readString raw q rest1 p (buf ++ [7])
        else if e = 98 then readString raw q rest1 p (buf ++ [8])
        else if e = 102 then readString raw q rest1 p (buf ++ [12])
        else if e = 110 then readString raw q rest1 p (buf ++ [10])
        else if e = 114 then readString raw q rest1 p (buf ++ [13])
        else if e = 116 then readString raw q rest1 p (buf ++ [9])
        else if e = 118 then readString raw q rest1 p (buf ++ [11])
        else if e = 92 then readString raw q rest1 p (buf ++ [92])
        else if e = 39 then readString raw q rest1 p (buf ++ [39])
        else if e = 34 then readString raw q rest1 p (buf ++ [34])
        else if e = 63 then readString raw q rest1 p (buf ++ [63])
        else readString raw q rest1 p (buf ++ [92] ++ encodeRune e)

/-! ## the lexer loop -/

/-- `return tokenType(c), "", nil` for a rune that starts no other token: the numeric value
    of the rune is the token type, so four runes alias the named token types. -/
def symKind (c : Nat) : Option Kind :=
  if c = 0 then none                       -- eofToken: Scan returns
  else if c = 65537 then some (.str [])    -- stringToken
  else if c = 65538 then some .num         -- numberToken
  else if c = 65539 then some (.ident [])  -- identifierToken
  else some (.sym (goRune c))

/-- All tokens up to (not including) the first eofToken. `fuel` bounds the number of loop
    iterations; every iteration consumes at least one rune. -/
def lexAll (raw : Bool) : Nat → List Nat → Pos → List Token
  | 0, _, _ => []
  | _+1, [], _ => []
  | f+1, c :: rest, p =>
    if isWs c then lexAll raw f rest (adj p c)
    else
      let p1 := adj p c
      if c = 46 then
        match rest with
        | [] => [⟨.sym 46, p.line, p.col⟩]
        | cn :: rest2 =>
          if isDigit cn then
            let r := readNumber rest2 (adj p1 cn) false
            ⟨.num, p.line, p.col⟩ :: lexAll raw f r.1 r.2
          else ⟨.sym 46, p.line, p.col⟩ :: lexAll raw f (cn :: rest2) p1
      else if isIdentStart c then
        let r := readIdent rest p1 [UInt8.ofNat c]
        ⟨.ident r.1, p.line, p.col⟩ :: lexAll raw f r.2.1 r.2.2
      else if isDigit c then
        let r := readNumber rest p1 false
        ⟨.num, p.line, p.col⟩ :: lexAll raw f r.1 r.2
      else if c = 39 ∨ c = 34 then
        let r := readString raw c rest p1 []
        ⟨.str r.1, p.line, p.col⟩ :: lexAll raw f r.2.1 r.2.2
      else if c = 47 then
        match rest with
        | [] => [⟨.sym 47, p.line, p.col⟩]
        | cn :: rest2 =>
          if cn = 47 then
            let r := skipLineComment rest2 (adj p1 cn)
            lexAll raw f r.1 r.2
          else if cn = 42 then
            let r := skipBlockComment rest2 (adj p1 cn)
            lexAll raw f r.1 r.2
          else ⟨.sym 47, p.line, p.col⟩ :: lexAll raw f (cn :: rest2) p1
      else
        match symKind c with
        | none => []
        | some k => ⟨k, p.line, p.col⟩ :: lexAll raw f rest p1

def lexWith (raw : Bool) (src : List UInt8) : List Token :=
  let rs := decodeRunes (stripBom src)
  lexAll raw (rs.length + 1) rs ⟨0, 0⟩

/-- the whole token stream of a source file, as fastscan's lexer produces it -/
def lex (src : List UInt8) : List Token := lexWith false src

/-- the alternative token stream: identical except that string literals keep ill-formed source
    bytes as they are (the value protoc gives the literal; NOT what the Go code does) -/
def lexRef (src : List UInt8) : List Token := lexWith true src

/-! ## `Scan` -/

structure Import where
  path : List UInt8
  isPublic : Bool
  isWeak : Bool
  isOption : Bool
deriving DecidableEq, Repr

/-- one `reporter.ErrorWithPos`: 1-based line and column, message bytes -/
structure Err where
  line : Nat
  col : Nat
  msg : List UInt8
deriving DecidableEq, Repr

def kwImport : List UInt8 := [105, 109, 112, 111, 114, 116]
def kwPackage : List UInt8 := [112, 97, 99, 107, 97, 103, 101]
def kwPublic : List UInt8 := [112, 117, 98, 108, 105, 99]
def kwWeak : List UInt8 := [119, 101, 97, 107]
def kwOption : List UInt8 := [111, 112, 116, 105, 111, 110]
/-- the "." marker stored in `packageComponents` -/
def dot : List UInt8 := [46]

def SEMI : Nat := 59
def PERIOD : Nat := 46
def CLOSE_BRACE : Nat := 125

def bytesOf (s : String) : List UInt8 := s.toUTF8.toList

/-- `tokenType.describe` -/
def describe : Kind → List UInt8
  | .str _ => bytesOf "string literal"
  | .num => bytesOf "numeric literal"
  | .ident _ => bytesOf "identifier"
  | .sym r => [39] ++ encodeRune r ++ [39]

def msgExpectSemi (k : Kind) : List UInt8 := bytesOf "unexpected " ++ describe k ++ bytesOf "; expecting semicolon"
def msgExpectPath (k : Kind) : List UInt8 := bytesOf "unexpected " ++ describe k ++ bytesOf "; expecting import path string"
def msgExpectPkg (k : Kind) : List UInt8 := bytesOf "unexpected " ++ describe k ++ bytesOf "; expecting package name"
def msgPeriodBetween : List UInt8 := bytesOf "package name should have a period between name components"
def msgBeginPeriod : List UInt8 := bytesOf "package name should not begin with a period"
def msgTwoPeriods : List UInt8 := bytesOf "package name should not have two periods in a row"
def msgEndPeriod : List UInt8 := bytesOf "package name should not end with a period"

/-- the local variables of `Scan` -/
structure St where
  pkg : List UInt8                      -- res.PackageName
  imports : List Import                 -- res.Imports
  cur : Option (List (List UInt8))      -- currentImport (none = nil)
  isPublic : Bool
  isWeak : Bool
  isOption : Bool
  pc : Option (List (List UInt8))       -- packageComponents (none = nil)
  errs : List Err                       -- syntaxErrs
  stack : List Nat                      -- contextStack, top first (expected closers)
  ds : Bool                             -- declarationStart
  prevLine : Nat
  prevCol : Nat
deriving Repr

def St.init : St :=
  { pkg := [], imports := [], cur := none, isPublic := false, isWeak := false, isOption := false,
    pc := none, errs := [], stack := [], ds := true, prevLine := 0, prevCol := 0 }

/-- append an error at `getLatestSpan()` -/
def St.errAt (st : St) (t : Token) (msg : List UInt8) : St :=
  { st with errs := st.errs ++ [⟨t.line + 1, t.col + 1, msg⟩] }

/-- `if currentImport != nil { switch token … }` -/
def stepImport (st : St) (t : Token) : St :=
  match st.cur with
  | none => st
  | some cur =>
    match t.kind with
    | .str s => { st with cur := some (cur ++ [s]) }
    | k =>
      if cur.isEmpty ∧ (k = .ident kwPublic ∨ k = .ident kwWeak ∨ k = .ident kwOption) then
        { st with isPublic := k = .ident kwPublic, isWeak := k = .ident kwWeak,
                  isOption := k = .ident kwOption }
      else if !cur.isEmpty then
        let st1 := if k ≠ .sym SEMI then st.errAt t (msgExpectSemi k) else st
        { st1 with imports := st1.imports ++ [⟨cur.flatten, st.isPublic, st.isWeak, st.isOption⟩],
                   cur := none }
      else
        { st.errAt t (msgExpectPath k) with cur := none }

/-- `if packageComponents != nil { switch token … }` -/
def stepPackage (st : St) (t : Token) : St :=
  match st.pc with
  | none => st
  | some pc =>
    match t.kind with
    | .ident s =>
      let st1 := if !pc.isEmpty ∧ pc.getLast? ≠ some dot then st.errAt t msgPeriodBetween else st
      { st1 with pc := some (pc ++ [s]) }
    | k =>
      if k = .sym PERIOD then
        let st1 :=
          if pc.isEmpty then st.errAt t msgBeginPeriod
          else if pc.getLast? = some dot then st.errAt t msgTwoPeriods
          else st
        { st1 with pc := some (pc ++ [dot]) }
      else if !pc.isEmpty then
        let st1 := if k ≠ .sym SEMI then st.errAt t (msgExpectSemi k) else st
        let st2 :=
          if pc.getLast? = some dot then
            { st1 with errs := st1.errs ++ [⟨st.prevLine + 1, st.prevCol + 1, msgEndPeriod⟩] }
          else st1
        { st2 with pkg := pc.flatten, pc := none }
      else
        { st.errAt t (msgExpectPkg k) with pc := none }

def isOpen (r : Nat) : Bool := r = 40 || r = 123 || r = 91 || r = 60
def isClose (r : Nat) : Bool := r = 41 || r = 125 || r = 93 || r = 62
/-- `closeSymbol` -/
def closeOf (r : Nat) : Nat :=
  if r = 40 then 41 else if r = 123 then 125 else if r = 91 then 93 else 62

/-- the bracket part of the final `switch token` -/
def stackStep (stack : List Nat) (k : Kind) : List Nat :=
  match k with
  | .sym r =>
    if isOpen r then closeOf r :: stack
    else if isClose r then
      match stack with
      | top :: rest => if top = r then rest else stack
      | [] => []
    else stack
  | _ => stack

def isStmtEnd (k : Kind) : Bool := k = .sym CLOSE_BRACE || k = .sym SEMI

/-- final `switch token`, then `declarationStart = …; prevLine, prevCol = …` -/
def stepContext (st : St) (t : Token) : St :=
  let stack' := stackStep st.stack t.kind
  let st1 : St := { st with stack := stack' }
  let st2 : St :=
    match t.kind with
    | .ident s =>
      if st.ds ∧ stack'.isEmpty then
        if s = kwImport then
          { st1 with cur := some [], isPublic := false, isWeak := false, isOption := false }
        else if s = kwPackage then { st1 with pc := some [] }
        else st1
      else st1
    | _ => st1
  { st2 with ds := isStmtEnd t.kind, prevLine := t.line, prevCol := t.col }

/-- one iteration of the `for` loop for a non-EOF token -/
def step (st : St) (t : Token) : St :=
  stepContext (stepPackage (stepImport st t) t) t

def run (st : St) (toks : List Token) : St := toks.foldl step st

/-- what `Scan` returns: the result and the syntax errors (`nil` error iff `errs = []`) -/
structure Out where
  pkg : List UInt8
  imports : List Import
  errs : List Err
deriving DecidableEq, Repr

def St.out (st : St) : Out := ⟨st.pkg, st.imports, st.errs⟩

def scanToks (toks : List Token) : Out := (run St.init toks).out

/-- `fastscan.Scan` on the bytes of a file -/
def scanBytes (src : List UInt8) : Out := scanToks (lex src)

/-- `Scan` with the alternative lexer (ill-formed bytes of a literal copied) -/
def scanBytesPatched (src : List UInt8) : Out := scanToks (lexRef src)

/-! ## the specification: top-level structure of a file

`topLevel` reads the package name and the imports off a token stream by recursive descent over
the language

    L = ( import-stmt | package-stmt | other-stmt )*

* import-stmt  = `import` [`public`|`weak`|`option`] string+ `;`
* package-stmt = `package` ident (`.` ident)* `;`
* other-stmt   = a token sequence that does not start with the identifier `import`/`package`
                 and ends at its first `;` or `}` outside all brackets (this covers `syntax`,
                 `edition`, `option`, `message`, `enum`, `service`, `extend` and the empty
                 statement `;`; it over-approximates the grammar).

It returns `none` outside L. Positions are ignored. -/

structure Res where
  pkg : List UInt8
  imports : List Import
deriving DecidableEq, Repr

/-- zero or more adjacent string literals, concatenated -/
def takeStrs : List Token → List UInt8 × List Token
  | [] => ([], [])
  | t :: rest =>
    match t.kind with
    | .str s => let r := takeStrs rest; (s ++ r.1, r.2)
    | _ => ([], t :: rest)

/-- string+ `;` -/
def parsePath (ts : List Token) : Option (List UInt8 × List Token) :=
  match ts with
  | [] => none
  | t :: rest =>
    match t.kind with
    | .str s =>
      let r := takeStrs rest
      match r.2 with
      | [] => none
      | u :: rest' => if u.kind = .sym SEMI then some (s ++ r.1, rest') else none
    | _ => none

/-- the tokens after `import` -/
def parseImport (ts : List Token) : Option (Import × List Token) :=
  match ts with
  | [] => none
  | t :: rest =>
    if t.kind = .ident kwPublic ∨ t.kind = .ident kwWeak ∨ t.kind = .ident kwOption then
      (parsePath rest).map fun r =>
        (⟨r.1, t.kind = .ident kwPublic, t.kind = .ident kwWeak, t.kind = .ident kwOption⟩, r.2)
    else
      (parsePath (t :: rest)).map fun r => (⟨r.1, false, false, false⟩, r.2)

/-- (`.` ident)* `;` after the first component of a package name -/
def parsePkgTail : List Token → Option (List UInt8 × List Token)
  | [] => none
  | t :: rest =>
    if t.kind = .sym SEMI then some ([], rest)
    else if t.kind = .sym PERIOD then
      match rest with
      | [] => none
      | u :: rest' =>
        match u.kind with
        | .ident s => (parsePkgTail rest').map fun r => (dot ++ s ++ r.1, r.2)
        | _ => none
    else none

/-- the tokens after `package` -/
def parsePackage (ts : List Token) : Option (List UInt8 × List Token) :=
  match ts with
  | [] => none
  | t :: rest =>
    match t.kind with
    | .ident s => (parsePkgTail rest).map fun r => (s ++ r.1, r.2)
    | _ => none

/-- skip one other-stmt: up to and including the first `;`/`}` that leaves no bracket open -/
def skipStmt : List Nat → List Token → Option (List Token)
  | _, [] => none
  | stack, t :: rest =>
    let stack' := stackStep stack t.kind
    if isStmtEnd t.kind ∧ stack'.isEmpty then some rest else skipStmt stack' rest

def topLevelAux : Nat → List Token → Res → Option Res
  | 0, _, _ => none
  | _+1, [], acc => some acc
  | f+1, t :: rest, acc =>
    if t.kind = .ident kwImport then
      match parseImport rest with
      | some (imp, r) => topLevelAux f r { acc with imports := acc.imports ++ [imp] }
      | none => none
    else if t.kind = .ident kwPackage then
      match parsePackage rest with
      | some (name, r) => topLevelAux f r { acc with pkg := name }
      | none => none
    else
      match skipStmt [] (t :: rest) with
      | some r => topLevelAux f r acc
      | none => none

/-- package name and imports of a file in L -/
def topLevel (ts : List Token) : Option Res := topLevelAux (ts.length + 1) ts ⟨[], []⟩

end PCV.Fastscan
