/-
UTF-8 encoding as Go's `utf8.EncodeRune` / `utf8.AppendRune` does it
(surrogates and out-of-range values become U+FFFD).
-/
namespace PCV.Utf8

def runeError : Nat := 0xFFFD

def encodeRune (r : Nat) : List UInt8 :=
  if r < 0x80 then [UInt8.ofNat r]
  else if r < 0x800 then [UInt8.ofNat (0xC0 + r / 64), UInt8.ofNat (0x80 + r % 64)]
  else if (0xD800 ≤ r ∧ r ≤ 0xDFFF) ∨ r > 0x10FFFF then [0xEF, 0xBF, 0xBD]
  else if r < 0x10000 then
    [UInt8.ofNat (0xE0 + r / 4096), UInt8.ofNat (0x80 + (r / 64) % 64), UInt8.ofNat (0x80 + r % 64)]
  else
    [UInt8.ofNat (0xF0 + r / 262144), UInt8.ofNat (0x80 + (r / 4096) % 64),
     UInt8.ofNat (0x80 + (r / 64) % 64), UInt8.ofNat (0x80 + r % 64)]

/-- Go's `utf8.DecodeRune` on the head of a byte list: (rune, width); invalid ⇒ (0xFFFD, 1);
    empty ⇒ (0xFFFD, 0). -/
def decodeRune (bs : List UInt8) : Nat × Nat :=
  match bs with
  | [] => (runeError, 0)
  | b0 :: rest =>
    let x := b0.toNat
    if x < 0x80 then (x, 1)
    else if x < 0xC2 then (runeError, 1)
    else if x < 0xE0 then
      match rest with
      | b1 :: _ =>
        if 0x80 ≤ b1.toNat ∧ b1.toNat ≤ 0xBF then ((x - 0xC0) * 64 + (b1.toNat - 0x80), 2)
        else (runeError, 1)
      | _ => (runeError, 1)
    else if x < 0xF0 then
      match rest with
      | b1 :: b2 :: _ =>
        let lo := if x = 0xE0 then 0xA0 else 0x80
        let hi := if x = 0xED then 0x9F else 0xBF
        if lo ≤ b1.toNat ∧ b1.toNat ≤ hi ∧ 0x80 ≤ b2.toNat ∧ b2.toNat ≤ 0xBF then
          ((x - 0xE0) * 4096 + (b1.toNat - 0x80) * 64 + (b2.toNat - 0x80), 3)
        else (runeError, 1)
      | _ => (runeError, 1)
    else if x < 0xF5 then
      match rest with
      | b1 :: b2 :: b3 :: _ =>
        let lo := if x = 0xF0 then 0x90 else 0x80
        let hi := if x = 0xF4 then 0x8F else 0xBF
        if lo ≤ b1.toNat ∧ b1.toNat ≤ hi ∧ 0x80 ≤ b2.toNat ∧ b2.toNat ≤ 0xBF
            ∧ 0x80 ≤ b3.toNat ∧ b3.toNat ≤ 0xBF then
          ((x - 0xF0) * 262144 + (b1.toNat - 0x80) * 4096 + (b2.toNat - 0x80) * 64
            + (b3.toNat - 0x80), 4)
        else (runeError, 1)
      | _ => (runeError, 1)
    else (runeError, 1)

end PCV.Utf8
