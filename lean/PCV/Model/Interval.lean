/-
Model of `internal/interval` (intersect.go, nesting.go), instantiated at int keys / int values.

* The btree keyed by `End` is a list of entries sorted by `stop`; `treeSet` is `btree.Map.Set`
  (insert, or REPLACE the entry with an equal key).
* `[]V` values are modelled as Go slices `(array id, len, cap)` over a heap of backing arrays,
  because `Intersect.Insert` appends to slices that may share a backing array
  (`entry.Value = append(orig, value)`): `appendRaw` writes in place when `len < cap`.
  Capacity growth follows `runtime.growslice` for 8-byte pointer-free elements (go1.25).
* The loop of `Intersect.Insert` is written once, generically over the value representation
  (`Ops`), so that the same control flow can be run on Go slices (`goOps`, the real thing) and on
  plain lists (`listOps`, used by the proofs).  `fixGap`/`clipFix` select the two candidate
  patches; the code in /repo now (after 406dde02) is `current` = `fixGap = false`, `clipFix = true`;
  `asIs` (`false`, `false`) is the code before that commit, kept to document the finding.
-/
namespace PCV.Interval

/-! ## Go slices over a heap -/

structure Slice where
  arr : Nat
  len : Nat
  cap : Nat
deriving Repr, DecidableEq, Inhabited

abbrev Heap := List (List Int)

/-- `runtime` size classes (bytes), go1.25 `internal/runtime/gc/sizeclasses.go`. -/
def sizeClasses : List Nat :=
  [8, 16, 24, 32, 48, 64, 80, 96, 112, 128, 144, 160, 176, 192, 208, 224, 240, 256, 288, 320,
   352, 384, 416, 448, 480, 512, 576, 640, 704, 768, 896, 1024, 1152, 1280, 1408, 1536, 1792,
   2048, 2304, 2688, 3072, 3200, 3456, 4096, 4864, 5376, 6144, 6528, 6784, 6912, 8192, 9472,
   9728, 10240, 10880, 12288, 13568, 14336, 16384, 18432, 19072, 20480, 21760, 24576, 27264,
   28672, 32768]

/-- `roundupsize(size, noscan = true)`. -/
def roundUpSize (size : Nat) : Nat :=
  if size ≤ 32768 then
    match sizeClasses.find? (fun c => size ≤ c) with
    | some c => c
    | none => size
  else (size + 8191) / 8192 * 8192

/-- `nextslicecap(newLen = oldCap + 1, oldCap)`. -/
def nextSliceCap (oldCap : Nat) : Nat :=
  let newLen := oldCap + 1
  let doublecap := oldCap + oldCap
  if newLen > doublecap then newLen
  else if oldCap < 256 then doublecap
  else oldCap + (oldCap + 768) / 4

/-- Capacity after `append(s, v)` on a full slice of capacity `oldCap` (8-byte elements).
    Always `> oldCap`. -/
def goGrow (oldCap : Nat) : Nat :=
  let c := roundUpSize (nextSliceCap oldCap * 8) / 8
  if c ≤ oldCap then oldCap + 1 else c

/-- contents of a slice -/
def readS (h : Heap) (s : Slice) : List Int := ((h[s.arr]?).getD []).take s.len

/-- a fresh backing array holding `xs`, capacity `cap` -/
def alloc (h : Heap) (xs : List Int) (cap : Nat) : Heap × Slice :=
  (h ++ [xs ++ List.replicate (cap - xs.length) 0], ⟨h.length, xs.length, cap⟩)

/-- `slices.Clip` -/
def clip (s : Slice) : Slice := ⟨s.arr, s.len, s.len⟩

/-- Go's `append(s, v)`: in place when there is spare capacity, else grow and copy. -/
def appendRaw (h : Heap) (s : Slice) (v : Int) : Heap × Slice :=
  if s.len < s.cap then
    (h.set s.arr (((h[s.arr]?).getD []).set s.len v), ⟨s.arr, s.len + 1, s.cap⟩)
  else alloc h (readS h s ++ [v]) (goGrow s.cap)

/-! ## Entries, the tree -/

structure Entry (S : Type) where
  start : Int
  stop : Int
  val : S
deriving Repr, DecidableEq

/-- `btree.Map.Set(n.End, n)` on a list sorted by `stop`. -/
def treeSet {S : Type} : List (Entry S) → Entry S → List (Entry S)
  | [], n => [n]
  | x :: xs, n =>
    if n.stop < x.stop then n :: x :: xs
    else if n.stop = x.stop then n :: xs
    else x :: treeSet xs n

/-- value operations used by `Insert` -/
structure Ops (H S : Type) where
  /-- `[]V{value}` -/
  single : H → Int → H × S
  /-- `append(slices.Clip(s), value)` -/
  appClip : H → S → Int → H × S
  /-- `append(s, value)` -/
  app : H → S → Int → H × S

structure LoopSt (H S : Type) where
  heap : H
  pend : List (Entry S)
  /-- `prev.End` -/
  prev : Option Int

/-- a pending entry `[lo, hi]` holding `[]V{value}` -/
def mkGap {H S : Type} (ops : Ops H S) (h : H) (lo hi v : Int) : H × List (Entry S) :=
  let r := ops.single h v
  (r.1, [⟨lo, hi, r.2⟩])

/-- `if prev != nil && prev.End < entry.Start { pending = append(pending, gap) }` where
    `cs = entry.Start`; with `fixGap` the condition is `prev.End+1 < entry.Start`. -/
def gap3 {H S : Type} (ops : Ops H S) (fixGap : Bool) (prev : Option Int) (h : H) (cs v : Int) :
    H × List (Entry S) :=
  match prev with
  | some pe =>
    if (if fixGap then pe + 1 < cs else pe < cs) then mkGap ops h (pe + 1) (cs - 1) v else (h, [])
  | none => (h, [])

/-- Body of `for entry := range m.intersect(start, end)` for the tree entry `x`
    (which satisfies `x.start ≤ b`).  Returns the tree entry after the in-place mutations. -/
def body {H S : Type} (ops : Ops H S) (fixGap : Bool) (a b v : Int)
    (x : Entry S) (st : LoopSt H S) : Entry S × LoopSt H S :=
  -- if prev == nil && start < entry.Start { pending = append(pending, {start, entry.Start-1, {value}}) }
  let g0 : H × List (Entry S) :=
    if st.prev.isNone && a < x.start then mkGap ops st.heap a (x.start - 1) v else (st.heap, [])
  -- orig := entry.Value
  let orig := x.val
  -- if entry.Contains(end) && end < entry.End { split at end; entry = next }
  let splitEnd : Bool := x.start ≤ b && b ≤ x.stop && b < x.stop
  --   next.Value = append(slices.Clip(orig), value) is overwritten below; only its allocation remains
  let h1 : H := if splitEnd then (ops.appClip g0.1 orig v).1 else g0.1
  let curStop : Int := if splitEnd then b else x.stop
  -- if entry.Contains(start) && entry.Start < start { split at start }
  let splitStart : Bool := x.start ≤ a && a ≤ curStop && x.start < a
  let next2 : List (Entry S) := if splitStart then [⟨x.start, a - 1, orig⟩] else []
  let curStart : Int := if splitStart then a else x.start
  -- entry.Value = append(orig, value)
  let r2 := ops.app h1 orig v
  let cur : Entry S := ⟨curStart, curStop, r2.2⟩
  -- if prev != nil && prev.End < entry.Start { gap between prev and entry }
  let g3 : H × List (Entry S) := gap3 ops fixGap st.prev r2.1 curStart v
  let treeEntry : Entry S := if splitEnd then ⟨b + 1, x.stop, orig⟩ else cur
  let pend := st.pend ++ g0.2 ++ (if splitEnd then [cur] else []) ++ next2 ++ g3.2
  (treeEntry, ⟨g3.1, pend, some curStop⟩)

/-- The `for … range m.intersect(start, end)` loop over the tree suffix found by `Seek(start)`. -/
def loop {H S : Type} (ops : Ops H S) (fixGap : Bool) (a b v : Int) :
    List (Entry S) → LoopSt H S → List (Entry S) × LoopSt H S
  | [], st => ([], st)
  | x :: xs, st =>
    if b < x.start then (x :: xs, st)
    else
      let r := body ops fixGap a b v x st
      let r2 := loop ops fixGap a b v xs r.2
      (r.1 :: r2.1, r2.2)

/-- After the loop: `if prev != nil && prev.End < end { pending = append(pending, gap) }`, and,
    when nothing intersected (`prev == nil`, so `pending` is empty), the entry `[a, b]` that the
    final `m.tree.Set(end, …)` stores. -/
def finalGap {H S : Type} (ops : Ops H S) (h : H) (a b v : Int) : Option Int → H × List (Entry S)
  | some pe => if pe < b then mkGap ops h (pe + 1) b v else (h, [])
  | none => mkGap ops h a b v

/-- `Intersect.Insert(a, b, v)` for `a ≤ b`: new tree, new heap, `disjoint` flag. -/
def insertG {H S : Type} (ops : Ops H S) (fixGap : Bool) (t : List (Entry S)) (h : H)
    (a b v : Int) : List (Entry S) × H × Bool :=
  -- `Seek(start)`: skip the entries whose key is below `start`
  let pre := t.takeWhile (fun x => x.stop < a)
  let suf := t.dropWhile (fun x => x.stop < a)
  let r := loop ops fixGap a b v suf ⟨h, [], none⟩
  let g := finalGap ops r.2.heap a b v r.2.prev
  -- for _, entry := range m.pending { m.tree.Set(entry.End, entry) }  (+ the Set for prev == nil)
  ((r.2.pend ++ g.2).foldl treeSet (pre ++ r.1), g.1, r.2.prev.isNone)

/-- `Intersect.Get(point)`: `Seek(point)` then the `Start` check. -/
def getG {S : Type} (t : List (Entry S)) (p : Int) : Option (Entry S) :=
  match t.find? (fun x => p ≤ x.stop) with
  | some x => if p < x.start then none else some x
  | none => none

/-! ## Instances -/

/-- Go slices; `clipFix` = the proposed patch `append(slices.Clip(orig), value)`. -/
def goOps (clipFix : Bool) : Ops Heap Slice where
  single h v := alloc h [v] 1
  appClip h s v := appendRaw h (clip s) v
  app h s v := if clipFix then appendRaw h (clip s) v else appendRaw h s v

/-- plain lists (no sharing) -/
def listOps : Ops Unit (List Int) where
  single _ v := ((), [v])
  appClip _ s v := ((), s ++ [v])
  app _ s v := ((), s ++ [v])

/-- configuration: which of the two candidate patches are applied -/
structure Cfg where
  fixGap : Bool
  clipFix : Bool
deriving Repr, DecidableEq

/-- The code as it was when C40 was first examined (before /repo commit 406dde02). -/
def asIs : Cfg := ⟨false, false⟩
/-- The code as it is in /repo now: 406dde02 applied the clip patch
    (`entry.Value = append(slices.Clip(orig), value)`); the gap patch is not applied. -/
def current : Cfg := ⟨false, true⟩
/-- Both proposed patches applied. -/
def patched : Cfg := ⟨true, true⟩

structure IMap where
  tree : List (Entry Slice) := []
  heap : Heap := []

/-- `Insert`; `none` = the `start > end` panic (state unchanged). -/
def IMap.insert (cfg : Cfg) (m : IMap) (a b v : Int) : IMap × Option Bool :=
  if a > b then (m, none)
  else
    let r := insertG (goOps cfg.clipFix) cfg.fixGap m.tree m.heap a b v
    (⟨r.1, r.2.1⟩, some r.2.2)

/-- `Get`: start, end, values (`none`: the zero entry). -/
def IMap.get (m : IMap) (p : Int) : Option (Entry (List Int)) :=
  (getG m.tree p).map (fun x => ⟨x.start, x.stop, readS m.heap x.val⟩)

/-- `Entries` -/
def IMap.entries (m : IMap) : List (Entry (List Int)) :=
  m.tree.map (fun x => ⟨x.start, x.stop, readS m.heap x.val⟩)

/-- run a history of inserts (all with `a ≤ b` or panicking) -/
def IMap.run (cfg : Cfg) (m : IMap) : List (Int × Int × Int) → IMap
  | [] => m
  | (a, b, v) :: rest => IMap.run cfg (m.insert cfg a b v).1 rest

/-! ## Nesting -/

abbrev NEntry := Entry Int
abbrev NSet := List NEntry

/-- Does `[a, b]` go into this set?  Mirrors the body of the `for _, set := range n.sets` loop. -/
def nestFits (set : NSet) (a b : Int) : Bool :=
  match set.dropWhile (fun x => x.stop < b) with
  | [] =>
    -- !iter.Seek(end): compare with the greatest interval
    match set.getLast? with
    | none => true
    | some l => l.stop < a
  | x :: _ =>
    if a ≤ x.start && x.start ≤ b then false
    else
      -- iter.Prev()
      match (set.takeWhile (fun x => x.stop < b)).getLast? with
      | some p => !(a ≤ p.stop)
      | none => true

/-- `found.Set(end, …)` on the first set that fits, else on a new set. -/
def nestInsertAux (a b v : Int) : List NSet → List NSet
  | [] => [[⟨a, b, v⟩]]
  | s :: rest => if nestFits s a b then treeSet s ⟨a, b, v⟩ :: rest else s :: nestInsertAux a b v rest

structure Nest where
  sets : List NSet := []

def Nest.insert (n : Nest) (a b v : Int) : Nest := ⟨nestInsertAux a b v n.sets⟩
def Nest.clear (n : Nest) : Nest := ⟨n.sets.map (fun _ => [])⟩
/-- `Sets()`: stops at the first empty set. -/
def Nest.observe (n : Nest) : List NSet := n.sets.takeWhile (fun s => !s.isEmpty)

def Nest.run (n : Nest) : List (Int × Int × Int) → Nest
  | [] => n
  | (a, b, v) :: rest => Nest.run (n.insert a b v) rest

/-! ### Nesting with the proposed patch

Every interval ending at or after `b` (not only the first one found by `Seek(b)`) must lie
entirely to the right of `[a, b]` or strictly contain it, and an equal end is a conflict. -/

def nestFitsP (set : NSet) (a b : Int) : Bool :=
  (set.dropWhile (fun x => x.stop < b)).all (fun x => !(x.stop == b || (a ≤ x.start && x.start ≤ b)))
  && (match (set.takeWhile (fun x => x.stop < b)).getLast? with
      | some p => !(a ≤ p.stop)
      | none => true)

def nestInsertAuxP (a b v : Int) : List NSet → List NSet
  | [] => [[⟨a, b, v⟩]]
  | s :: rest => if nestFitsP s a b then treeSet s ⟨a, b, v⟩ :: rest else s :: nestInsertAuxP a b v rest

def Nest.insertP (n : Nest) (a b v : Int) : Nest := ⟨nestInsertAuxP a b v n.sets⟩

def Nest.runP (n : Nest) : List (Int × Int × Int) → Nest
  | [] => n
  | (a, b, v) :: rest => Nest.runP (n.insertP a b v) rest

end PCV.Interval
