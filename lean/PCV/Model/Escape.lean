/-
Model of `internal.EscapeBytes` (internal/util.go) and `linker.unescape`
(linker/descriptors.go) over byte lists.  Mirrors the Go control flow:
`unescStep` is one iteration of the `for len(s) > 0` loop and returns the
bytes appended to `out` and the number of input bytes consumed.
-/
import PCV.Model.Utf8
namespace PCV.Escape

def BS : UInt8 := 92   -- '\\'

def isOctal (b : UInt8) : Bool := 48 ≤ b.toNat && b.toNat ≤ 55
def isHex (b : UInt8) : Bool :=
  (48 ≤ b.toNat && b.toNat ≤ 57) || (97 ≤ b.toNat && b.toNat ≤ 102) || (65 ≤ b.toNat && b.toNat ≤ 70)

def hexVal (b : UInt8) : Nat :=
  if 48 ≤ b.toNat ∧ b.toNat ≤ 57 then b.toNat - 48
  else if 97 ≤ b.toNat ∧ b.toNat ≤ 102 then b.toNat - 87
  else b.toNat - 55

/-- one byte of `EscapeBytes` -/
def escByte (c : UInt8) : List UInt8 :=
  if c = 10 then [BS, 110]        -- \n
  else if c = 13 then [BS, 114]   -- \r
  else if c = 9 then [BS, 116]    -- \t
  else if c = 34 then [BS, 34]    -- \"
  else if c = 39 then [BS, 39]    -- \'
  else if c = 92 then [BS, 92]    -- \\
  else if 0x20 ≤ c.toNat ∧ c.toNat < 0x7f then [c]
  else [BS, UInt8.ofNat (48 + (c.toNat / 64) % 8), UInt8.ofNat (48 + (c.toNat / 8) % 8),
        UInt8.ofNat (48 + c.toNat % 8)]

def escapeBytes : List UInt8 → List UInt8
  | [] => []
  | c :: cs => escByte c ++ escapeBytes cs

/-- `matchPrefix(s, limit, fn)` -/
def matchPrefix (s : List UInt8) (limit : Nat) (fn : UInt8 → Bool) : Nat :=
  match limit, s with
  | 0, _ => 0
  | _, [] => 0
  | n+1, b :: bs => if fn b then 1 + matchPrefix bs n fn else 0

/-- `strconv.ParseUint(s, 16, _)` restricted to what matters: `none` when some
    character is not a hex digit or the string is empty; value otherwise. -/
def parseHex : List UInt8 → Option Nat
  | [] => none
  | bs => if bs.all isHex then some (bs.foldl (fun a b => a * 16 + hexVal b) 0) else none

def parseOct (bs : List UInt8) : Nat := bs.foldl (fun a b => a * 8 + (b.toNat - 48)) 0

/-- One loop iteration of `unescape` on a non-empty `s`: (appended, consumed). -/
def unescStep (s : List UInt8) : List UInt8 × Nat :=
  match s with
  | [] => ([], 0)
  | [c] => ([c], 1)
  | c :: d :: rest =>
    if c ≠ BS then ([c], 1)
    else if d = 120 ∨ d = 88 then           -- x X
      let n := matchPrefix rest 2 isHex
      if n = 0 then ([c, d], 2)
      else ([UInt8.ofNat ((rest.take n).foldl (fun a b => a * 16 + hexVal b) 0)], 2 + n)
    else if isOctal d then
      let n := 1 + matchPrefix rest 2 isOctal
      let v := parseOct (d :: rest.take (n - 1))
      if v > 0xff then (c :: d :: rest.take (n - 1), 1 + n)
      else ([UInt8.ofNat v], 1 + n)
    else if d = 117 then                     -- u
      if s.length < 6 then (s, s.length)
      else match parseHex (rest.take 4) with
        | none => (s.take 6, 6)
        | some v => (Utf8.encodeRune v, 6)
    else if d = 85 then                      -- U
      if s.length < 10 then (s, s.length)
      else match parseHex (rest.take 8) with
        | none => (s.take 10, 10)
        | some v => if v > 0x10ffff then (s.take 10, 10) else (Utf8.encodeRune v, 10)
    else if d = 97 then ([7], 2)
    else if d = 98 then ([8], 2)
    else if d = 102 then ([12], 2)
    else if d = 110 then ([10], 2)
    else if d = 114 then ([13], 2)
    else if d = 116 then ([9], 2)
    else if d = 118 then ([11], 2)
    else if d = 92 ∨ d = 39 ∨ d = 34 ∨ d = 63 then ([d], 2)
    else ([c, d], 2)

def unescapeAux : Nat → List UInt8 → List UInt8
  | 0, _ => []
  | _, [] => []
  | fuel+1, s =>
    let (out, n) := unescStep s
    out ++ unescapeAux fuel (s.drop n)

/-- `unescape(s)`; fuel `|s|` suffices because every iteration consumes ≥ 1 byte. -/
def unescape (s : List UInt8) : List UInt8 := unescapeAux s.length s

end PCV.Escape
