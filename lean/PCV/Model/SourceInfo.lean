/-
Model of `sourceinfo/source_code_info.go` (`GenerateSourceInfo` and everything below it) on top
of the `ast.FileInfo` model (`PCV.FileInfo`), which the lexer model `PCV.Lex` fills.

The Go code walks the AST and calls one of four "location constructors" per visited node:

    newLocWithoutComments   (span only)
    newLoc                  (span; comments only with WithExtraComments)
    newLocWithComments      (span + comments of the node)
    newBlockLocWithComments (span + leading comments of the node, trailing comments after `{`)

Control flow of the walk never depends on `extraComments`; it depends on `extraOptionLocs` only
inside `generateSourceCodeInfoForOption`.  The model is therefore written in two phases that
compose to the Go function:

  phase 1  `genFile xo : File → List Req`      the ordered list of constructor calls ("requests")
  phase 2  `realize fi ec : List Req → List Loc` spans (`makeSpan`, `NodeInfo.Start/End`) and
           comments (`attributeComments`, `maybeDonate`, `maybeAttach`, `groupComments`,
           `combineComments`, the `commentsUsed` set) for each request, in order.

Comment attribution is modelled twice: on the `FileInfo` tables (`attributeTok`, what phase 2 uses) and
on the bare comment stream (`lexSplit` = the lexer's `setPrevAndAddComments` rule, `attributeAbs` =
`attributeComments`/`maybeDonate`/`maybeAttach`/`groupComments`, together `attributeStream`); the
`comments` engine checks on every gap that both agree with the real code.

The AST is abstracted to what the Go code reads from it: for every node its first and last token
(`Nd`, indexes into `FileInfo.items`, i.e. `n.Start()` / `n.End()`), the declaration lists, and
the few type tests (`scalar` field type, value kind of an uninterpreted option, Any type
reference).  `OptionIndex` is abstracted to `OInfo` (path + children), attached to the option.

Deviations (unreachable from `protocompile.Compiler`): an empty option path in the index (Go:
index-out-of-range panic in `combinePathsForOption`) is treated as the empty suffix; an index whose
child lists are shorter than the literal's element lists (Go: panic) is truncated by `zip`.
-/
import PCV.Model.FileInfo
namespace PCV.SourceInfo
open PCV.FileInfo

abbrev Path := List Int
abbrev Bytes := List UInt8

/-! ### numbers from internal/tags (descriptor.proto field numbers) -/
namespace Tag
def File_Package : Int := 2
def File_Dependency : Int := 3
def File_MessageType : Int := 4
def File_EnumType : Int := 5
def File_Service : Int := 6
def File_Extension : Int := 7
def File_Options : Int := 8
def File_PublicDependency : Int := 10
def File_WeakDependency : Int := 11
def File_Syntax : Int := 12
def Message_Name : Int := 1
def Message_Field : Int := 2
def Message_NestedType : Int := 3
def Message_EnumType : Int := 4
def Message_ExtensionRange : Int := 5
def Message_Extension : Int := 6
def Message_Options : Int := 7
def Message_OneofDecl : Int := 8
def Message_ReservedRange : Int := 9
def Message_ReservedName : Int := 10
def ExtensionRange_Start : Int := 1
def ExtensionRange_End : Int := 2
def ExtensionRange_Options : Int := 3
def ReservedRange_Start : Int := 1
def ReservedRange_End : Int := 2
def Field_Name : Int := 1
def Field_Extendee : Int := 2
def Field_Number : Int := 3
def Field_Label : Int := 4
def Field_Type : Int := 5
def Field_TypeName : Int := 6
def Field_DefaultValue : Int := 7
def Field_Options : Int := 8
def Field_JsonName : Int := 10
def Oneof_Name : Int := 1
def Oneof_Options : Int := 2
def Enum_Name : Int := 1
def Enum_Value : Int := 2
def Enum_Options : Int := 3
def Enum_ReservedRange : Int := 4
def Enum_ReservedName : Int := 5
def EnumValue_Name : Int := 1
def EnumValue_Number : Int := 2
def EnumValue_Options : Int := 3
def Service_Name : Int := 1
def Service_Method : Int := 2
def Service_Options : Int := 3
def Method_Name : Int := 1
def Method_InputType : Int := 2
def Method_OutputType : Int := 3
def Method_Options : Int := 4
def Method_ClientStreaming : Int := 5
def Method_ServerStreaming : Int := 6
def UninterpretedOption : Int := 999
def UninterpretedOption_Name : Int := 2
def UninterpretedOption_NamePart_NamePart : Int := 1
def Any_TypeUrl : Int := 1
def Any_Value : Int := 2
end Tag

/-! ### AST abstraction -/

/-- a node: first and last token (`n.Start()`, `n.End()`) as indexes into `FileInfo.items` -/
structure Nd where
  s : Nat
  e : Nat
deriving Repr, DecidableEq, Inhabited

/-- option value nodes (`ast.ValueNode`); `fld` is an `*ast.MessageFieldNode` (only inside `msg`) -/
inductive OVal where
  | scalar (n : Nd)
  | array (n : Nd) (elems : List OVal)
  | msg (n : Nd) (fields : List OVal)
  | fld (n name : Nd) (isAny : Bool) (val : OVal)
deriving Repr, Inhabited

def OVal.nd : OVal → Nd
  | .scalar n => n
  | .array n _ => n
  | .msg n _ => n
  | .fld n _ _ _ => n

/-- `sourceinfo.OptionSourceInfo`: `path`, and `Children` as `ckind` (0 = nil, 1 = array literal
    info, 2 = message literal info) with `kids` positionally aligned with the literal's elements;
    `present = false` stands for a message field that is not a key of the `Fields` map. -/
inductive OInfo where
  | mk (path : Path) (present : Bool) (ckind : Nat) (kids : List OInfo)
deriving Repr, Inhabited

def OInfo.path : OInfo → Path | .mk p _ _ _ => p
def OInfo.present : OInfo → Bool | .mk _ b _ _ => b
def OInfo.ckind : OInfo → Nat | .mk _ _ k _ => k
def OInfo.kids : OInfo → List OInfo | .mk _ _ _ ks => ks

/-- `*ast.OptionNode` plus its entry in the `OptionIndex` -/
structure Opt where
  n : Nd
  parts : List (Nd × Nd)        -- n.Name.Parts: (part, part.Name)
  val : OVal                    -- n.Val
  valTag : Int                  -- result of the type switch on n.Val (0 = no location)
  info : Option OInfo           -- opts[n]
deriving Repr, Inhabited

/-- `*ast.CompactOptionsNode` -/
structure COpts where
  n : Nd
  opts : List Opt
deriving Repr, Inhabited

/-- what `generateSourceCodeInfoForField` reads of an `ast.FieldDeclNode` -/
structure Fld where
  n : Nd
  isGroup : Bool                -- GetGroupKeyword() != nil
  extendee : Option Nd          -- FieldExtendee()
  label : Option Nd             -- FieldLabel()
  ty : Nd                       -- FieldType()
  scalar : Bool                 -- *ast.FieldNode whose type identifier is in internal.FieldTypes
  name : Nd
  tag : Nd
  opts : Option COpts
deriving Repr, Inhabited

/-- `*ast.RangeNode`: `endKind` 0 = neither, 1 = EndVal, 2 = Max -/
structure Rng where
  n : Nd
  startVal : Nd
  endKind : Nat
  endNd : Nd
deriving Repr, Inhabited

inductive Decl where
  | imp (n : Nd) (pub weak : Option Nd)
  | pkg (n : Nd)
  | opt (o : Opt)
  | field (f : Fld)
  | mapField (f : Fld)
  | group (f : Fld) (n brace name : Nd) (decls : List Decl)
  | msg (n brace name : Nd) (decls : List Decl)
  | oneof (n brace name : Nd) (decls : List Decl)
  | extend (n brace : Nd) (decls : List Decl)
  | enum (n brace name : Nd) (decls : List Decl)
  | enumVal (n name num : Nd) (opts : Option COpts)
  | extRange (n : Nd) (ranges : List Rng) (opts : Option COpts)
  | reserved (n : Nd) (names idents : List Nd) (ranges : List Rng)
  | svc (n brace name : Nd) (decls : List Decl)
  | rpc (n : Nd) (brace : Option Nd) (name : Nd) (inS : Option Nd) (inT : Nd)
        (outS : Option Nd) (outT : Nd) (decls : List Decl)
  | other
deriving Repr, Inhabited

/-- `*ast.FileNode`: `hasKids` = it has children other than the EOF rune; `start` = `n.Start()`,
    `lastEnd` = `End()` of the last non-EOF child -/
structure File where
  hasKids : Bool
  start : Nat
  lastEnd : Nat
  syn : Option Nd
  edition : Option Nd
  decls : List Decl
deriving Repr, Inhabited

/-! ### phase 1: the walk -/

inductive RK where
  | file (hasKids : Bool) (lastEnd : Nat)   -- newLocWithoutComments(sci.file, nil)
  | bare                                    -- newLocWithoutComments
  | plain                                   -- newLoc
  | cmts                                    -- newLocWithComments
  | block (brace : Nd)                      -- newBlockLocWithComments
deriving Repr, DecidableEq, Inhabited

/-- one location constructor call; `extra` is a ghost tag: the call is made only under
    `WithExtraOptionLocations` -/
structure Req where
  kind : RK
  n : Nd
  path : Path
  extra : Bool := false
deriving Repr, DecidableEq, Inhabited

/-- `combinePathsForOption` -/
def combinePaths (pre op : Path) : Path :=
  match op with
  | -1 :: rest => pre.dropLast ++ rest
  | _ => pre ++ op

/-- `elementPath[len(elementPath)-1] += int32(i)` -/
def bumpLast (p : Path) (i : Nat) : Path :=
  match p.getLast? with
  | some l => p.dropLast ++ [l + (i : Int)]
  | none => p

def xreq (n : Nd) (path : Path) : Req := { kind := .plain, n := n, path := path, extra := true }

mutual
/-- `generateSourceInfoForOptionChildren(sci, n, pathPrefix, path, childInfo)` with
    `childInfo = (ckind, kids)` -/
def genChildren : OVal → Path → Path → Nat → List OInfo → List Req
  | .array _ elems, pre, _, 1, kids => genElems elems kids pre
  | .msg _ fields, pre, _, 2, kids => genFlds fields kids pre
  | .array _ elems, _, path, 0, _ => genScalars elems path 0
  | _, _, _, _, _ => []
/-- the loop over the elements of an array literal of messages -/
def genElems : List OVal → List OInfo → Path → List Req
  | v :: vs, i :: is, pre =>
    let fullPath := combinePaths pre i.path
    xreq v.nd fullPath :: (genChildren v pre fullPath i.ckind i.kids ++ genElems vs is pre)
  | _, _, _ => []
/-- the loop over the fields of a message literal -/
def genFlds : List OVal → List OInfo → Path → List Req
  | .fld n name isAny val :: vs, i :: is, pre =>
    (if i.present then
      let fullPath := combinePaths pre i.path
      let anyCase := isAny && fullPath.getLast? == some Tag.Any_Value
      (if anyCase then [xreq name fullPath] else []) ++
      (match val with
       | .array _ _ => []
       | _ => [xreq (if anyCase then val.nd else n) fullPath]) ++
      genChildren val pre fullPath i.ckind i.kids
     else []) ++ genFlds vs is pre
  | _ :: vs, _ :: is, pre => genFlds vs is pre
  | _, _, _ => []
/-- an array literal without child info is an array of scalars -/
def genScalars : List OVal → Path → Nat → List Req
  | v :: vs, path, i => xreq v.nd (bumpLast path i) :: genScalars vs path (i + 1)
  | [], _, _ => []
end

/-- the loop over `n.Name.Parts` of an uninterpreted option -/
def genNameParts : List (Nd × Nd) → Path → Nat → List Req
  | [], _, _ => []
  | (part, nm) :: rest, optPath, j =>
    let p := optPath ++ [Tag.UninterpretedOption_Name, (j : Int)]
    ⟨.plain, part, p, false⟩ :: ⟨.plain, nm, p ++ [Tag.UninterpretedOption_NamePart_NamePart], false⟩
      :: genNameParts rest optPath (j + 1)

/-- `generateSourceCodeInfoForOption`; returns the requests and the new `*uninterpIndex` -/
def genOption (xo : Bool) (o : Opt) (compact : Bool) (ui : Int) (path : Path) : List Req × Int :=
  let first : List Req := if compact then [] else [⟨.bare, o.n, path, false⟩]
  match o.info with
  | some info =>
    let fullPath := combinePaths path info.path
    let main : Req := ⟨if compact then .plain else .cmts, o.n, fullPath, false⟩
    (first ++ [main] ++ (if xo then genChildren o.val path fullPath info.ckind info.kids else []), ui)
  | none =>
    let optPath := path ++ [Tag.UninterpretedOption, ui]
    (first ++ [⟨.plain, o.n, optPath, false⟩]
      ++ (if o.valTag != 0 then [⟨.plain, o.val.nd, optPath ++ [o.valTag], false⟩] else [])
      ++ genNameParts o.parts optPath 0, ui + 1)

/-- a run of options that share one `optIndex` and one path (compact options, rpc bodies) -/
def genOptions (xo : Bool) (compact : Bool) : List Opt → Int → Path → List Req
  | [], _, _ => []
  | o :: os, ui, path =>
    let r := genOption xo o compact ui path
    r.1 ++ genOptions xo compact os r.2 path

/-- `if n.GetOptions() != nil { … }` of fields, enum values -/
def genCompact (xo : Bool) (co : Option COpts) (path : Path) (tag : Int) : List Req :=
  match co with
  | none => []
  | some c => ⟨.plain, c.n, path ++ [tag], false⟩ :: genOptions xo true c.opts 0 (path ++ [tag])

/-- `generateSourceCodeInfoForField` -/
def genField (xo : Bool) (f : Fld) (path : Path) : List Req :=
  (if f.isGroup then
    [⟨.bare, f.n, path, false⟩]
    ++ (match f.extendee with | some x => [⟨.plain, x, path ++ [Tag.Field_Extendee], false⟩] | none => [])
    ++ (match f.label with | some l => [⟨.bare, l, path ++ [Tag.Field_Label], false⟩] | none => [])
    ++ [⟨.plain, f.ty, path ++ [Tag.Field_Type], false⟩, ⟨.bare, f.name, path ++ [Tag.Field_Name], false⟩]
   else
    [⟨.cmts, f.n, path, false⟩]
    ++ (match f.extendee with | some x => [⟨.plain, x, path ++ [Tag.Field_Extendee], false⟩] | none => [])
    ++ (match f.label with | some l => [⟨.plain, l, path ++ [Tag.Field_Label], false⟩] | none => [])
    ++ [⟨.plain, f.ty, path ++ [if f.scalar then Tag.Field_Type else Tag.Field_TypeName], false⟩,
        ⟨.plain, f.name, path ++ [Tag.Field_Name], false⟩])
  ++ [⟨.plain, f.tag, path ++ [Tag.Field_Number], false⟩]
  ++ genCompact xo f.opts path Tag.Field_Options

/-- `generateSourceCodeInfoForReservedRange` (also the per-range part of extension ranges) -/
def genRange (r : Rng) (path : Path) (startTag endTag : Int) : List Req :=
  [⟨.plain, r.n, path, false⟩, ⟨.plain, r.startVal, path ++ [startTag], false⟩,
   ⟨.plain, if r.endKind = 0 then r.startVal else r.endNd, path ++ [endTag], false⟩]

def genRanges : List Rng → Path → Int → Int → Int → List Req × Int
  | [], _, idx, _, _ => ([], idx)
  | r :: rs, path, idx, st, en =>
    let rest := genRanges rs path (idx + 1) st en
    (genRange r (path ++ [idx]) st en ++ rest.1, rest.2)

def genNames : List Nd → Path → Int → List Req × Int
  | [], _, idx => ([], idx)
  | n :: ns, path, idx =>
    let rest := genNames ns path (idx + 1)
    (⟨.plain, n, path ++ [idx], false⟩ :: rest.1, rest.2)

/-- the `*ast.ReservedNode` case of messages and enums; `withIdents` is false for enums (the enum
    loop has no `Identifiers` branch). Returns requests, new name index, new range index. -/
def genReserved (n : Nd) (names idents : List Nd) (ranges : List Rng) (path : Path)
    (nameTag rangeTag : Int) (withIdents : Bool) (ni ri : Int) : List Req × Int × Int :=
  let a := if names.isEmpty then (([] : List Req), ni) else
    let r := genNames names (path ++ [nameTag]) ni
    (⟨.cmts, n, path ++ [nameTag], false⟩ :: r.1, r.2)
  let b := if !withIdents || idents.isEmpty then (([] : List Req), a.2) else
    let r := genNames idents (path ++ [nameTag]) a.2
    (⟨.cmts, n, path ++ [nameTag], false⟩ :: r.1, r.2)
  let c := if ranges.isEmpty then (([] : List Req), ri) else
    let r := genRanges ranges (path ++ [rangeTag]) ri Tag.ReservedRange_Start Tag.ReservedRange_End
    (⟨.cmts, n, path ++ [rangeTag], false⟩ :: r.1, r.2)
  (a.1 ++ b.1 ++ c.1, b.2, c.2)

/-- second loop of `generateSourceCodeInfoForExtensionRanges`: options once per range -/
def genExtRangeOpts (xo : Bool) (co : Option COpts) : List Rng → Path → Int → List Req
  | [], _, _ => []
  | _ :: rs, path, idx =>
    genCompact xo co (path ++ [idx]) Tag.ExtensionRange_Options ++ genExtRangeOpts xo co rs path (idx + 1)

/-- `generateSourceCodeInfoForExtensionRanges`; returns the new `*extRangeIndex` -/
def genExtRanges (xo : Bool) (n : Nd) (ranges : List Rng) (co : Option COpts) (idx : Int) (path : Path) :
    List Req × Int :=
  let r := genRanges ranges path idx Tag.ExtensionRange_Start Tag.ExtensionRange_End
  (⟨.cmts, n, path, false⟩ :: r.1 ++ genExtRangeOpts xo co ranges path idx, r.2)

/-- `generateSourceCodeInfoForEnumValue` -/
def genEnumValue (xo : Bool) (n name num : Nd) (co : Option COpts) (path : Path) : List Req :=
  [⟨.cmts, n, path, false⟩, ⟨.plain, name, path ++ [Tag.EnumValue_Name], false⟩,
   ⟨.plain, num, path ++ [Tag.EnumValue_Number], false⟩] ++ genCompact xo co path Tag.EnumValue_Options

/-- the loop of `generateSourceCodeInfoForEnum`: counters optIndex, valIndex, reservedName, reservedRange -/
def genEnumDecls (xo : Bool) : List Decl → Path → Int → Int → Int → Int → List Req
  | [], _, _, _, _, _ => []
  | d :: ds, path, oi, vi, ni, ri =>
    match d with
    | .opt o =>
      let r := genOption xo o false oi (path ++ [Tag.Enum_Options])
      r.1 ++ genEnumDecls xo ds path r.2 vi ni ri
    | .enumVal n name num co =>
      genEnumValue xo n name num co (path ++ [Tag.Enum_Value, vi]) ++ genEnumDecls xo ds path oi (vi + 1) ni ri
    | .reserved n names idents ranges =>
      let r := genReserved n names idents ranges path Tag.Enum_ReservedName Tag.Enum_ReservedRange false ni ri
      r.1 ++ genEnumDecls xo ds path oi vi r.2.1 r.2.2
    | _ => genEnumDecls xo ds path oi vi ni ri

/-- `generateSourceCodeInfoForEnum` -/
def genEnum (xo : Bool) (n brace name : Nd) (decls : List Decl) (path : Path) : List Req :=
  [⟨.block brace, n, path, false⟩, ⟨.plain, name, path ++ [Tag.Enum_Name], false⟩]
  ++ genEnumDecls xo decls path 0 0 0 0

/-- the options of an rpc body: `for _, decl := range n.Decls { if opt, ok := decl.(*ast.OptionNode) … }` -/
def genRpcDecls (xo : Bool) : List Decl → Int → Path → List Req
  | [], _, _ => []
  | .opt o :: ds, oi, path =>
    let r := genOption xo o false oi path
    r.1 ++ genRpcDecls xo ds r.2 path
  | _ :: ds, oi, path => genRpcDecls xo ds oi path

/-- `generateSourceCodeInfoForMethod` -/
def genMethod (xo : Bool) (n : Nd) (brace : Option Nd) (name : Nd) (inS : Option Nd) (inT : Nd)
    (outS : Option Nd) (outT : Nd) (decls : List Decl) (path : Path) : List Req :=
  [match brace with
   | some b => (⟨.block b, n, path, false⟩ : Req)
   | none => ⟨.cmts, n, path, false⟩,
   ⟨.plain, name, path ++ [Tag.Method_Name], false⟩]
  ++ (match inS with | some s => [⟨.plain, s, path ++ [Tag.Method_ClientStreaming], false⟩] | none => [])
  ++ [⟨.plain, inT, path ++ [Tag.Method_InputType], false⟩]
  ++ (match outS with | some s => [⟨.plain, s, path ++ [Tag.Method_ServerStreaming], false⟩] | none => [])
  ++ [⟨.plain, outT, path ++ [Tag.Method_OutputType], false⟩]
  ++ genRpcDecls xo decls 0 (path ++ [Tag.Method_Options])

def genSvcDecls (xo : Bool) : List Decl → Path → Int → Int → List Req
  | [], _, _, _ => []
  | d :: ds, path, oi, ri =>
    match d with
    | .opt o =>
      let r := genOption xo o false oi (path ++ [Tag.Service_Options])
      r.1 ++ genSvcDecls xo ds path r.2 ri
    | .rpc n brace name inS inT outS outT decls =>
      genMethod xo n brace name inS inT outS outT decls (path ++ [Tag.Service_Method, ri])
        ++ genSvcDecls xo ds path oi (ri + 1)
    | _ => genSvcDecls xo ds path oi ri

/-- `generateSourceCodeInfoForService` -/
def genService (xo : Bool) (n brace name : Nd) (decls : List Decl) (path : Path) : List Req :=
  [⟨.block brace, n, path, false⟩, ⟨.plain, name, path ++ [Tag.Service_Name], false⟩]
  ++ genSvcDecls xo decls path 0 0

/-- the nine counters of `generateSourceCodeInfoForMessage` -/
structure MC where
  opt : Int := 0
  field : Int := 0
  oneof : Int := 0
  extend : Int := 0
  nested : Int := 0
  enum : Int := 0
  extRange : Int := 0
  resRange : Int := 0
  resName : Int := 0
deriving Repr, DecidableEq, Inhabited

/-- the three locations `generateSourceCodeInfoForMessage` emits before its loop (`fieldPath` is
    non-nil for a `*ast.SyntheticGroupMessageNode`) -/
def msgHead (fieldPath : Option Path) (n brace name : Nd) (path : Path) : List Req :=
  [⟨.block brace, n, path, false⟩, ⟨.plain, name, path ++ [Tag.Message_Name], false⟩]
  ++ (match fieldPath with
      | some fp => [⟨.plain, name, fp ++ [Tag.Field_TypeName], false⟩]
      | none => [])

mutual
/-- the loop over the message's declarations -/
def genMsgDecls (xo : Bool) : List Decl → Path → MC → List Req
  | [], _, _ => []
  | d :: ds, path, c =>
    match d with
    | .opt o =>
      let r := genOption xo o false c.opt (path ++ [Tag.Message_Options])
      r.1 ++ genMsgDecls xo ds path { c with opt := r.2 }
    | .field f =>
      genField xo f (path ++ [Tag.Message_Field, c.field])
        ++ genMsgDecls xo ds path { c with field := c.field + 1 }
    | .group f n brace name decls =>
      genField xo f (path ++ [Tag.Message_Field, c.field])
        ++ msgHead (some (path ++ [Tag.Message_Field, c.field])) n brace name (path ++ [Tag.Message_NestedType, c.nested])
        ++ genMsgDecls xo decls (path ++ [Tag.Message_NestedType, c.nested]) {}
        ++ genMsgDecls xo ds path { c with field := c.field + 1, nested := c.nested + 1 }
    | .mapField f =>
      genField xo f (path ++ [Tag.Message_Field, c.field])
        ++ genMsgDecls xo ds path { c with field := c.field + 1, nested := c.nested + 1 }
    | .oneof n brace name decls =>
      let ooPath := path ++ [Tag.Message_OneofDecl, c.oneof]
      let r := genOneofDecls xo decls (path ++ [Tag.Message_Field]) (path ++ [Tag.Message_NestedType]) ooPath
                 0 c.field c.nested
      [⟨.block brace, n, ooPath, false⟩, ⟨.plain, name, ooPath ++ [Tag.Oneof_Name], false⟩] ++ r.1
        ++ genMsgDecls xo ds path { c with oneof := c.oneof + 1, field := r.2.1, nested := r.2.2 }
    | .msg n brace name decls =>
      msgHead none n brace name (path ++ [Tag.Message_NestedType, c.nested])
        ++ genMsgDecls xo decls (path ++ [Tag.Message_NestedType, c.nested]) {}
        ++ genMsgDecls xo ds path { c with nested := c.nested + 1 }
    | .enum n brace name decls =>
      genEnum xo n brace name decls (path ++ [Tag.Message_EnumType, c.enum])
        ++ genMsgDecls xo ds path { c with enum := c.enum + 1 }
    | .extend n brace decls =>
      let r := genExtendDecls xo decls (path ++ [Tag.Message_Extension]) (path ++ [Tag.Message_NestedType])
                 c.extend c.nested
      ⟨.block brace, n, path ++ [Tag.Message_Extension], false⟩ :: r.1
        ++ genMsgDecls xo ds path { c with extend := r.2.1, nested := r.2.2 }
    | .extRange n ranges co =>
      let r := genExtRanges xo n ranges co c.extRange (path ++ [Tag.Message_ExtensionRange])
      r.1 ++ genMsgDecls xo ds path { c with extRange := r.2 }
    | .reserved n names idents ranges =>
      let r := genReserved n names idents ranges path Tag.Message_ReservedName Tag.Message_ReservedRange true
                 c.resName c.resRange
      r.1 ++ genMsgDecls xo ds path { c with resName := r.2.1, resRange := r.2.2 }
    | _ => genMsgDecls xo ds path c
/-- the loop of `generateSourceCodeInfoForOneof`; returns requests, `*fieldIndex`, `*nestedMsgIndex` -/
def genOneofDecls (xo : Bool) : List Decl → Path → Path → Path → Int → Int → Int → List Req × Int × Int
  | [], _, _, _, _, fi, mi => ([], fi, mi)
  | d :: ds, fieldPath, msgPath, ooPath, oi, fi, mi =>
    match d with
    | .opt o =>
      let r := genOption xo o false oi (ooPath ++ [Tag.Oneof_Options])
      let rest := genOneofDecls xo ds fieldPath msgPath ooPath r.2 fi mi
      (r.1 ++ rest.1, rest.2)
    | .field f =>
      let rest := genOneofDecls xo ds fieldPath msgPath ooPath oi (fi + 1) mi
      (genField xo f (fieldPath ++ [fi]) ++ rest.1, rest.2)
    | .group f n brace name decls =>
      let rest := genOneofDecls xo ds fieldPath msgPath ooPath oi (fi + 1) (mi + 1)
      (genField xo f (fieldPath ++ [fi])
        ++ msgHead (some (fieldPath ++ [fi])) n brace name (msgPath ++ [mi])
        ++ genMsgDecls xo decls (msgPath ++ [mi]) {} ++ rest.1, rest.2)
    | _ => genOneofDecls xo ds fieldPath msgPath ooPath oi fi mi
/-- the loop of `generateSourceCodeInfoForExtensions`; returns requests, `*extendIndex`, `*msgIndex` -/
def genExtendDecls (xo : Bool) : List Decl → Path → Path → Int → Int → List Req × Int × Int
  | [], _, _, ei, mi => ([], ei, mi)
  | d :: ds, extPath, msgPath, ei, mi =>
    match d with
    | .field f =>
      let rest := genExtendDecls xo ds extPath msgPath (ei + 1) mi
      (genField xo f (extPath ++ [ei]) ++ rest.1, rest.2)
    | .group f n brace name decls =>
      let rest := genExtendDecls xo ds extPath msgPath (ei + 1) (mi + 1)
      (genField xo f (extPath ++ [ei])
        ++ msgHead (some (extPath ++ [ei])) n brace name (msgPath ++ [mi])
        ++ genMsgDecls xo decls (msgPath ++ [mi]) {} ++ rest.1, rest.2)
    | _ => genExtendDecls xo ds extPath msgPath ei mi
end

/-- `generateSourceCodeInfoForMessage` for `*ast.MessageNode` and `*ast.SyntheticGroupMessageNode` -/
def genMessage (xo : Bool) (fieldPath : Option Path) (n brace name : Nd) (decls : List Decl) (path : Path) :
    List Req :=
  msgHead fieldPath n brace name path ++ genMsgDecls xo decls path {}

/-- the eight counters of `generateSourceInfoForFile` -/
structure FC where
  dep : Int := 0
  pubDep : Int := 0
  weakDep : Int := 0
  opt : Int := 0
  msg : Int := 0
  enum : Int := 0
  extend : Int := 0
  svc : Int := 0
deriving Repr, DecidableEq, Inhabited

def genFileDecls (xo : Bool) : List Decl → FC → List Req
  | [], _ => []
  | d :: ds, c =>
    match d with
    | .imp n pub weak =>
      let main : Req := ⟨.cmts, n, [Tag.File_Dependency, c.dep], false⟩
      (match pub, weak with
       | some p, _ => main :: ⟨.plain, p, [Tag.File_PublicDependency, c.pubDep], false⟩
                        :: genFileDecls xo ds { c with dep := c.dep + 1, pubDep := c.pubDep + 1 }
       | none, some w => main :: ⟨.plain, w, [Tag.File_WeakDependency, c.weakDep], false⟩
                        :: genFileDecls xo ds { c with dep := c.dep + 1, weakDep := c.weakDep + 1 }
       | none, none => main :: genFileDecls xo ds { c with dep := c.dep + 1 })
    | .pkg n => ⟨.cmts, n, [Tag.File_Package], false⟩ :: genFileDecls xo ds c
    | .opt o =>
      let r := genOption xo o false c.opt [Tag.File_Options]
      r.1 ++ genFileDecls xo ds { c with opt := r.2 }
    | .msg n brace name decls =>
      genMessage xo none n brace name decls [Tag.File_MessageType, c.msg]
        ++ genFileDecls xo ds { c with msg := c.msg + 1 }
    | .enum n brace name decls =>
      genEnum xo n brace name decls [Tag.File_EnumType, c.enum] ++ genFileDecls xo ds { c with enum := c.enum + 1 }
    | .extend n brace decls =>
      let r := genExtendDecls xo decls [Tag.File_Extension] [Tag.File_MessageType] c.extend c.msg
      ⟨.block brace, n, [Tag.File_Extension], false⟩ :: r.1
        ++ genFileDecls xo ds { c with extend := r.2.1, msg := r.2.2 }
    | .svc n brace name decls =>
      genService xo n brace name decls [Tag.File_Service, c.svc] ++ genFileDecls xo ds { c with svc := c.svc + 1 }
    | _ => genFileDecls xo ds c

/-- `generateSourceInfoForFile` -/
def genFile (xo : Bool) (f : File) : List Req :=
  ⟨.file f.hasKids f.lastEnd, ⟨f.start, f.lastEnd⟩, [], false⟩
  :: (match f.syn with | some n => [⟨.cmts, n, [Tag.File_Syntax], false⟩] | none => [])
  ++ (match f.edition with | some n => [⟨.cmts, n, [Tag.File_Syntax], false⟩] | none => [])
  ++ genFileDecls xo f.decls {}

/-! ### token navigation (`FileInfo.Tokens().Previous/Next`, `Items().Next`) -/

def itemBackward (fi : FI) : Nat → Option Nat
  | 0 => if isComment fi 0 then none else some 0
  | i + 1 => if isComment fi (i + 1) then itemBackward fi i else some (i + 1)

def itemForwardGo (fi : FI) : Nat → Nat → Option Nat
  | 0, _ => none
  | fuel + 1, i =>
    if i < fi.items.length then
      if isComment fi i then itemForwardGo fi fuel (i + 1) else some i
    else none

/-- `Tokens().Previous(t)` -/
def prevToken (fi : FI) (t : Nat) : Option Nat :=
  if t = 0 ∨ t ≥ fi.items.length then none else itemBackward fi (t - 1)

/-- `Tokens().Next(t)` -/
def nextToken (fi : FI) (t : Nat) : Option Nat :=
  if t + 1 ≥ fi.items.length then none else itemForwardGo fi fi.items.length (t + 1)

/-- `Items().Next(i)` -/
def nextItem (fi : FI) (i : Nat) : Option Nat :=
  if i + 1 ≥ fi.items.length then none else some (i + 1)

/-! ### positions -/

/-- (line, col) of `TokenInfo(t).Start()` -/
def tokStart (fi : FI) (t : Nat) : Nat × Nat :=
  match nodeStart fi t with
  | some (_, l, c) => (l, c)
  | none => (0, 0)

/-- (line, col) of `TokenInfo(t).End()` -/
def tokEnd (fi : FI) (t : Nat) : Nat × Nat :=
  match nodeEnd fi t with
  | some (_, l, c) => (l, c)
  | none => (0, 0)

/-- `makeSpan` -/
def makeSpan (s e : Nat × Nat) : List Int :=
  if s.1 = e.1 then [(s.1 : Int) - 1, (s.2 : Int) - 1, (e.2 : Int) - 1]
  else [(s.1 : Int) - 1, (s.2 : Int) - 1, (e.1 : Int) - 1, (e.2 : Int) - 1]

def nodeSpan (fi : FI) (n : Nd) : List Int := makeSpan (tokStart fi n.s) (tokEnd fi n.e)

/-! ### comment attribution on the abstract comment stream -/

/-- a comment as the attribution code sees it -/
structure Cm where
  item : Nat        -- item index (identifies the comment; key of `commentsUsed`)
  isLine : Bool     -- RawText() starts with "//"
  sl : Nat          -- Start().Line
  el : Nat          -- End().Line
deriving Repr, DecidableEq, Inhabited

/-- the class of the token after the comments: `info.RawText()` is "" (EOF), a single character of
    `}]),;`, or anything else -/
inductive TK where
  | eof | closer | other
deriving Repr, DecidableEq, Inhabited

def groupGo (cur : List Cm) (prevIsLine : Bool) (line : Nat) : List Cm → List (List Cm)
  | [] => [cur]
  | c :: rest =>
    if !c.isLine || prevIsLine != c.isLine || c.sl > line + 1 then
      cur :: groupGo [c] c.isLine c.el rest
    else groupGo (cur ++ [c]) c.isLine c.el rest

/-- `groupComments` -/
def groupComments : List Cm → List (List Cm)
  | [] => []
  | c :: rest => groupGo [c] c.isLine c.el rest

def firstSl (g : List Cm) : Nat := (g.head?.map (·.sl)).getD 0
def lastEl (g : List Cm) : Nat := (g.getLast?.map (·.el)).getD 0

/-- `maybeDonate(prevInfo, info, lead)` with `pEnd = prevInfo.End().Line`, `nStart = info.Start().Line` -/
def maybeDonate (ec : Bool) (pEnd nStart : Nat) (tk : TK) (lead : List (List Cm)) :
    List Cm × List (List Cm) :=
  match lead with
  | [] => ([], [])
  | g :: gs =>
    if firstSl g > pEnd + 1 then ([], lead)
    else if !gs.isEmpty then (g, gs)
    else if lastEl g < nStart - 1 then (g, [])
    else if tk != .other then
      if !ec && tk == .closer && firstSl g == pEnd && lastEl g == nStart then ([], lead)
      else (g, [])
    else ([], lead)

/-- `maybeAttach(prevInfo, info, hasTrail, lead)` -/
def maybeAttach (hasPrev : Bool) (pEnd nStart : Nat) (hasTrail : Bool) (lead : List (List Cm)) :
    List (List Cm) × List Cm :=
  match lead with
  | [] => ([], [])
  | g :: gs =>
    if gs.isEmpty && !hasTrail && hasPrev && firstSl g == pEnd && lastEl g == nStart then (lead, [])
    else
      let lastG := lead.getLast?.getD []
      if lastEl lastG ≥ nStart - 1 then (lead.dropLast, lastG) else (lead, [])

/-- `attributeComments(prevInfo, info)` on the abstract stream: `prev` = (End().Line of the previous
    token, its lexer-attributed trailing comments) or `none` when there is no previous token;
    `leadLex` = `info.LeadingComments()`.  Result: (trailing, detached groups, leading). -/
def attributeAbs (ec : Bool) (prev : Option (Nat × List Cm)) (nStart : Nat) (tk : TK) (leadLex : List Cm) :
    List Cm × List (List Cm) × List Cm :=
  let detached := groupComments leadLex
  let td : List Cm × List (List Cm) :=
    match prev with
    | some (pEnd, trailLex) =>
      if trailLex.isEmpty then maybeDonate ec pEnd nStart tk detached else (trailLex, detached)
    | none => ([], detached)
  let dl := maybeAttach prev.isSome ((prev.map (·.1)).getD 0) nStart (!td.1.isEmpty) td.2
  (td.1, dl.1, dl.2)

/-- `setPrevAndAddComments` (parser/lexer.go) on the abstract stream: which of the comments between the
    previous token (last line `P`, `none` at the start of the file) and the next token (line `nStart`,
    `isEOF`) the lexer records as trailing comments of the previous token — at most the first one: it
    must start on the previous token's line, the next token must be on a later line (the end of the file
    counts as one), and it must be a line comment, or be followed by another comment, or be followed by
    a line break (`maybeDonateComment > 1`).  The rest are leading comments of the next token.
    (The lexer model `PCV.Lex` computes the same from the bytes; the `comments` engine checks this
    function against the real lexer's table for every gap.) -/
def lexSplit (prev : Option Nat) (cs : List Cm) (nStart : Nat) (isEOF : Bool) : List Cm × List Cm :=
  match prev, cs with
  | some p, c0 :: rest =>
    let cur := if nStart = p ∧ isEOF then nStart + 1 else nStart
    let canDonate := c0.isLine || !rest.isEmpty || decide (nStart > c0.el)
    if cur > p ∧ c0.sl = p ∧ canDonate then ([c0], rest) else ([], cs)
  | _, _ => ([], cs)

/-- lexer + `attributeComments` for one gap, as a function of the comment stream alone -/
def attributeStream (ec : Bool) (prev : Option Nat) (cs : List Cm) (nStart : Nat) (tk : TK) :
    List Cm × List (List Cm) × List Cm :=
  let sp := lexSplit prev cs nStart (tk == .eof)
  attributeAbs ec (prev.map fun p => (p, sp.1)) nStart tk sp.2

/-! ### the same on the `FileInfo` tables -/

def mkCm (fi : FI) (c : CommentInfo) : Cm :=
  let it := fi.items.getD c.index ⟨0, 0⟩
  { item := c.index,
    isLine := fi.data.getD it.off 0 == 47 && fi.data.getD (it.off + 1) 0 == 47,
    sl := ((sourcePos fi (it.off : Int)).getD (0, 0)).1,
    el := ((sourcePos fi ((it.off + it.len : Nat) - 1 : Int)).getD (0, 0)).1 }

def tokKind (fi : FI) (t : Nat) : TK :=
  match rawText fi t with
  | [] => .eof
  | [b] => if b == 125 || b == 93 || b == 41 || b == 44 || b == 59 then .closer else .other
  | _ => .other

/-- `sci.attributeComments(prevInfo, TokenInfo(tok))`; `prev = none` is the zero `NodeInfo` -/
def attributeTok (fi : FI) (ec : Bool) (prev : Option Nat) (tok : Nat) : List Cm × List (List Cm) × List Cm :=
  attributeAbs ec
    (prev.map fun p => ((tokEnd fi p).1, (trailingComments fi p).map (mkCm fi)))
    (tokStart fi tok).1 (tokKind fi tok) ((leadingComments fi tok).map (mkCm fi))

/-- `getLeadingComments(n)` -/
def getLeading (fi : FI) (ec : Bool) (n : Nd) : List (List Cm) × List Cm :=
  (attributeTok fi ec (prevToken fi n.s) n.s).2

/-- `getTrailingComments(n)` -/
def getTrailing (fi : FI) (ec : Bool) (n : Nd) : List Cm :=
  match nextToken fi n.e with
  | none => []
  | some nx => (attributeTok fi ec (some n.e) nx).1

/-! ### `combineComments` -/

/-- `strings.Split(s, "\n")` -/
def splitNLGo (cur : Bytes) : Bytes → List Bytes
  | [] => [cur]
  | b :: bs => if b == 10 then cur :: splitNLGo [] bs else splitNLGo (cur ++ [b]) bs

def splitNL (s : Bytes) : List Bytes := splitNLGo [] s

/-- "strip a prefix of whitespace followed by '*'" for a line of a block comment after the first -/
def stripLine (l : Bytes) : Bytes :=
  let rest := l.dropWhile (fun b => b == 32 || b == 9)
  match rest with
  | [] => []
  | b :: tl => if b == 42 then tl else rest

/-- one comment's contribution; `nlFollows` = the next item's leading whitespace starts with "\n" -/
def combineText (txt : Bytes) (nlFollows : Bool) : Bytes :=
  if txt.take 2 == [47, 47] then
    txt.drop 2 ++ (if nlFollows then [10] else [])
  else
    match splitNL ((txt.drop 2).take (txt.length - 4)) with
    | [] => []
    | first :: rest => first ++ rest.flatMap (fun l => 10 :: stripLine l)

def nlFollows (fi : FI) (item : Nat) : Bool :=
  match nextItem fi item with
  | some i => (leadingWS fi i).head? == some 10
  | none => false

def combineOne (fi : FI) (c : Cm) : Bytes := combineText (rawText fi c.item) (nlFollows fi c.item)

/-- `combineComments` -/
def combine (fi : FI) (cs : List Cm) : Bytes := cs.flatMap (combineOne fi)

/-! ### phase 2: spans, comments and the `commentsUsed` set -/

structure Loc where
  path : Path
  span : List Int
  lead : Option Bytes
  trail : Option Bytes
  detached : List Bytes
deriving Repr, DecidableEq, Inhabited

/-- `commentUsed(c)`: reports and records the first comment of `c` -/
def commentUsed (used : List Nat) (c : List Cm) : Bool × List Nat :=
  match c with
  | [] => (false, used)
  | c0 :: _ => if used.contains c0.item then (true, used) else (false, c0.item :: used)

def optText (fi : FI) (cs : List Cm) : Option Bytes := if cs.isEmpty then none else some (combine fi cs)

/-- `newLocWithGivenComments` -/
def withGiven (fi : FI) (used : List Nat) (span : List Int) (det : List (List Cm)) (lead trail : List Cm)
    (path : Path) : Loc × List Nat :=
  let u1 := match det with
    | d0 :: _ => commentUsed used d0
    | [] => commentUsed used lead
  let det' := if u1.1 then [] else det
  let lead' := if u1.1 then [] else lead
  let u2 := commentUsed u1.2 trail
  let trail' := if u2.1 then [] else trail
  ({ path := path, span := span, lead := optText fi lead', trail := optText fi trail',
     detached := det'.map (combine fi) }, u2.2)

def bareLoc (span : List Int) (path : Path) : Loc :=
  { path := path, span := span, lead := none, trail := none, detached := [] }

/-- one location constructor call -/
def realize1 (fi : FI) (ec : Bool) (used : List Nat) (r : Req) : Loc × List Nat :=
  match r.kind with
  | .file hasKids lastEnd =>
    (bareLoc (if hasKids then makeSpan (tokStart fi r.n.s) (tokEnd fi lastEnd) else makeSpan (1, 1) (1, 1)) r.path,
     used)
  | .bare => (bareLoc (nodeSpan fi r.n) r.path, used)
  | .plain =>
    if ec then
      let dl := getLeading fi ec r.n
      withGiven fi used (nodeSpan fi r.n) dl.1 dl.2 (getTrailing fi ec r.n) r.path
    else (bareLoc (nodeSpan fi r.n) r.path, used)
  | .cmts =>
    let dl := getLeading fi ec r.n
    withGiven fi used (nodeSpan fi r.n) dl.1 dl.2 (getTrailing fi ec r.n) r.path
  | .block brace =>
    let dl := getLeading fi ec r.n
    withGiven fi used (nodeSpan fi r.n) dl.1 dl.2 (getTrailing fi ec brace) r.path

def realize (fi : FI) (ec : Bool) : List Req → List Nat → List Loc
  | [], _ => []
  | r :: rs, used =>
    let x := realize1 fi ec used r
    x.1 :: realize fi ec rs x.2

/-- `GenerateSourceInfo(file, opts, genOpts...)`: `ec` = WithExtraComments, `xo` = WithExtraOptionLocations -/
def generate (fi : FI) (ec xo : Bool) (f : File) : List Loc := realize fi ec (genFile xo f) []

end PCV.SourceInfo
