/-
Model of /repo/linker/resolve.go and the resolver part of /repo/linker/files.go.

Part 1 (C18): `resolveInFile` — the visibility walk over the import graph
  (ancestor-path `checked`, `publicImportsOnly` below the root).
Part 2 (C15): `resolve` / `fileScope` / `messageScope` / `resolveElementRelative` /
  `resolveElementInFile` / `matchesPkgNamespace` and `internal.CreatePrefixList`.

Core Lean only (this file is linked into the driver executable).
The code is modelled AS IT IS, including its defects.
-/
namespace PCV.Resolve

/-! ## Part 1 — resolveInFile -/

/-- The three outcomes of the callback `fn func(File) (T, error)` and of `resolveInFile`:
    `err == nil`, `errors.Is(err, protoregistry.NotFound)`, any other error. -/
inductive Res (α ε : Type) where
  | found (a : α)
  | notFound
  | err (e : ε)
  deriving Repr, DecidableEq, Inhabited

/-- Files are identified by their path (here: a number; the compiler guarantees that the
    paths of the files of one linked closure are pairwise distinct, and
    `f.FindImportByPath(imp.Path())` returns the dependency with that path).
    `imports f` is `f.Imports()` in declaration order with the `IsPublic` flag. -/
abbrev Imports := Nat → List (Nat × Bool)

/-- The `for i, l := 0, imports.Len(); i < l; i++` loop of `resolveInFile`;
    `rec g` is the recursive call `resolveInFile(f.FindImportByPath(g), true, checked, fn)`. -/
def loopImports {α ε : Type} (rec : Nat → Res α ε) (publicOnly : Bool) :
    List (Nat × Bool) → Res α ε
  | [] => .notFound
  | (g, pub) :: rest =>
    if publicOnly && !pub then loopImports rec publicOnly rest
    else match rec g with
      | .notFound => loopImports rec publicOnly rest
      | r => r

/-- `resolveInFile(f, publicImportsOnly, checked, fn)`. Fuel bounds the recursion depth
    (Props/C18 proves `rank f + 1` is enough on an acyclic import graph; running out of fuel
    answers `notFound`). `checked` is the slice of ancestor paths: every callee appends to the
    caller's slice value, so siblings do not see each other's entries. -/
def resolveIn {α ε : Type} (imports : Imports) (fn : Nat → Res α ε) :
    Nat → Nat → Bool → List Nat → Res α ε
  | 0, _, _, _ => .notFound
  | fuel + 1, f, publicOnly, checked =>
    if checked.contains f then .notFound       -- "already checked"
    else match fn f with
      | .found a => .found a                    -- "found it"
      | .err e => .err e
      | .notFound =>
        loopImports (fun g => resolveIn imports fn fuel g true (checked ++ [f])) publicOnly (imports f)

/-- The files visited by `resolveInFile`, in visiting order (with repeats for diamonds),
    if `fn` answered NotFound everywhere. -/
def dfsList (imports : Imports) : Nat → Nat → Bool → List Nat → List Nat
  | 0, _, _, _ => []
  | fuel + 1, f, publicOnly, checked =>
    if checked.contains f then []
    else f :: ((imports f).filter (fun i => !publicOnly || i.2)).flatMap
      (fun i => dfsList imports fuel i.1 true (checked ++ [f]))

/-- First answer different from NotFound along a list of files. -/
def firstRes {α ε : Type} (fn : Nat → Res α ε) : List Nat → Res α ε
  | [] => .notFound
  | g :: rest => match fn g with
    | .notFound => firstRes fn rest
    | r => r

/-! ### Declarative visibility (the specification of C18) -/

/-- `g` is reachable from `f` through public imports only (reflexive–transitive). -/
inductive PubReach (imports : Imports) : Nat → Nat → Prop where
  | refl (g : Nat) : PubReach imports g g
  | step {f h g : Nat} : (h, true) ∈ imports f → PubReach imports h g → PubReach imports f g

/-- `visible f = {f} ∪ direct imports of f ∪ public closure of the direct imports`. -/
def Visible (imports : Imports) (f g : Nat) : Prop :=
  g = f ∨ ∃ d b, (d, b) ∈ imports f ∧ PubReach imports d g

/-- Computable visible set, written as a saturation (structurally unlike the DFS):
    start from the direct imports and add public imports `rounds` times. -/
def pubStep (imports : Imports) (s : List Nat) : List Nat :=
  s ++ s.flatMap (fun g => ((imports g).filter (·.2)).map (·.1))

def saturate (imports : Imports) : Nat → List Nat → List Nat
  | 0, s => s
  | n + 1, s => saturate imports n (pubStep imports s)

def visibleList (imports : Imports) (rounds : Nat) (f : Nat) : List Nat :=
  f :: saturate imports rounds ((imports f).map (·.1))

/-! ### Concrete files for the `visibility` engine -/

/-- Kinds of named elements as far as the resolvers distinguish them. -/
inductive Kind where
  | msg | enum | svc | field | ext | oneof | enumVal | method
  deriving Repr, DecidableEq, Inhabited

def Kind.isType : Kind → Bool
  | .msg | .enum => true
  | _ => false

/-- message, enum, service (and packages, see `Desc.sentinel`) can contain other names. -/
def Kind.isAggregate : Kind → Bool
  | .msg | .enum | .svc => true
  | _ => false

def Kind.tag : Kind → String
  | .msg => "m" | .enum => "e" | .svc => "s" | .field => "f" | .ext => "x"
  | .oneof => "o" | .enumVal => "v" | .method => "r"

/-- A fully-qualified name as its dot-separated components. -/
abbrev Name := List String

structure ExtDef where
  name : Name
  extendee : Name
  number : Nat
  deriving Repr, DecidableEq, Inhabited

structure FileDef where
  pkg : Name
  imports : List (Nat × Bool)
  defs : List (Name × Kind)
  exts : List ExtDef := []
  /-- compiled from source (`*linker.result`: `FindDescriptorByName` trims a leading dot)
      or wrapped from a descriptor (`linker.NewFile`: exact map lookup) -/
  fromSource : Bool := true
  deriving Repr, Inhabited

abbrev Files := List FileDef

def Files.imports (fs : Files) : Imports := fun f =>
  match fs[f]? with
  | some d => d.imports
  | none => []

def lookupDef (defs : List (Name × Kind)) (n : Name) : Option Kind :=
  match defs.find? (fun d => d.1 == n) with
  | some d => some d.2
  | none => none

/-- `File.FindDescriptorByName`. A name travels as components; a leading dot shows up as an
    empty first component, which `(*result).FindDescriptorByName` trims and `(*file)` does not. -/
def FileDef.findByName (d : FileDef) (n : Name) : Option Kind :=
  match n with
  | "" :: rest => if d.fromSource && rest != [] then lookupDef d.defs rest else lookupDef d.defs n
  | _ => lookupDef d.defs n

/-- `findExtension(f, message, field)` (the generator keeps (extendee, number) unique per file,
    so the traversal order inside one file is not modelled). -/
def FileDef.findExt (d : FileDef) (msg : Name) (num : Nat) : Option Name :=
  match d.exts.find? (fun x => x.extendee == msg && x.number == num) with
  | some x => some x.name
  | none => none

/-! ## Part 2 — resolve (scoped name lookup) -/

/-- What `resolveElement` / `resolveElementInFile` / a scope returns when it is not nil:
    a real descriptor (full name + kind) or the `sentinelDescriptor` ("this name is a namespace /
    the search must stop here"), which carries the name that stopped the search. -/
inductive Desc where
  | elem (n : Name) (k : Kind)
  | sentinel (n : Name)
  deriving Repr, DecidableEq, Inhabited

/-- `isAggregateDescriptor` -/
def Desc.isAggregate : Desc → Bool
  | .sentinel _ => true
  | .elem _ k => k.isAggregate

/-- `isType` -/
def Desc.isType : Desc → Bool
  | .elem _ k => k.isType
  | .sentinel _ => false

/-- `query func(name string) protoreflect.Descriptor` (nil = `none`) -/
abbrev Query := Name → Option Desc

/-- `resolveElementRelative(firstName, fullName, query)` -/
def resolveElementRelative (query : Query) (firstName fullName : Name) : Option Desc :=
  match query firstName with
  | none => none
  | some d =>
    if firstName == fullName then some d
    else if !d.isAggregate then none      -- "the first name indicated a leaf descriptor"
    else match query fullName with
      | none => some (.sentinel fullName)
      | some d' => some d'

/-- `internal.CreatePrefixList` on components: the package, its successively shorter
    prefixes, and finally the empty prefix. (`createPrefixListStr` below is the string-level
    transcription; Props/C15 proves they agree.) -/
def createPrefixList {α : Type} (pkg : List α) : List (List α) :=
  (List.range (pkg.length + 1)).reverse.map (fun n => pkg.take n)

/-- `matchesPkgNamespace(fqn, pkg)` on components (`matchesPkgNamespaceStr` is the
    string-level transcription). -/
def matchesPkgNamespace {α : Type} [BEq α] (fqn pkg : List α) : Bool :=
  pkg != [] && (fqn == pkg || (fqn != [] && pkg.length > fqn.length && fqn.isPrefixOf pkg))

/-- `type scope func(firstName, fullName string) protoreflect.Descriptor` -/
abbrev Scope := String → Name → Option Desc

/-- first non-nil result, in order -/
def firstSome {α β : Type} (f : α → Option β) : List α → Option β
  | [] => none
  | a :: rest => match f a with
    | some b => some b
    | none => firstSome f rest

/-- `fileScope(r, checkedCache)`: ONE scope that walks all package prefixes and returns the
    first non-nil answer (of whatever kind). -/
def fileScope (pkg : Name) (querySymbol : Query) : Scope := fun firstName fullName =>
  firstSome (fun pre =>
    if pre.isEmpty then resolveElementRelative querySymbol fullName fullName
    else resolveElementRelative querySymbol (pre ++ [firstName]) (pre ++ fullName))
    (createPrefixList pkg)

/-- `messageScope(r, messageName)` — its query looks in the current file only. -/
def messageScope (queryInFile : Query) (messageName : Name) : Scope := fun firstName fullName =>
  resolveElementRelative queryInFile (messageName ++ [firstName]) (messageName ++ fullName)

/-- The `for i := len(scopes) - 1; i >= 0; i--` loop of `resolve`; the list is innermost first. -/
def resolveLoop (onlyTypes : Bool) (firstName : String) (name : Name) :
    List Scope → Option Desc → Option Desc
  | [], bestGuess => bestGuess
  | s :: rest, bestGuess =>
    match s firstName name with
    | some d =>
      if !onlyTypes || d.isType || [firstName] != name then some d
      else resolveLoop onlyTypes firstName name rest (match bestGuess with | some b => some b | none => some d)
    | none => resolveLoop onlyTypes firstName name rest bestGuess

/-- A reference as written: leading dot or not, and its components. -/
structure Ref where
  absolute : Bool
  parts : Name
  deriving Repr, DecidableEq, Inhabited

/-- `(*result).resolve(name, onlyTypes, scopes, checkedCache)`; `scopes` is outermost first as
    in Go (`scopes[0]` is the file scope). `resolveElement` is the lookup among visible files. -/
def resolve (resolveElement : Query) (scopes : List Scope) (ref : Ref) (onlyTypes : Bool) : Option Desc :=
  if ref.absolute then resolveElement ref.parts
  else match ref.parts with
    | [] => none
    | firstName :: _ => resolveLoop onlyTypes firstName ref.parts scopes.reverse none

/-- The scopes `resolveReferences` has pushed when it resolves a reference located inside the
    messages/services `msgScopes` (outermost first). -/
def scopesFor (pkg : Name) (resolveElement queryInFile : Query) (msgScopes : List Name) : List Scope :=
  fileScope pkg resolveElement :: msgScopes.map (messageScope queryInFile)

/-! ### The proposed repair: one scope per package prefix

`fileScopesFixed` is what the patch in the C15 report does: every package prefix becomes its
own scope, so that the "skip a non-type match of an unqualified name" rule of `resolve` also
applies between package levels. Props/C15 proves this version equal to protoc's lookup. -/

def prefixScope (querySymbol : Query) (pre : Name) : Scope := fun firstName fullName =>
  if pre.isEmpty then resolveElementRelative querySymbol fullName fullName
  else resolveElementRelative querySymbol (pre ++ [firstName]) (pre ++ fullName)

/-- outermost (empty prefix) first, like the other scopes -/
def fileScopesFixed (pkg : Name) (querySymbol : Query) : List Scope :=
  (createPrefixList pkg).reverse.map (prefixScope querySymbol)

def scopesForFixed (pkg : Name) (resolveElement queryInFile : Query) (msgScopes : List Name) : List Scope :=
  fileScopesFixed pkg resolveElement ++ msgScopes.map (messageScope queryInFile)

/-! ### Concrete environment: files, visible-file lookup -/

/-- `resolveElementInFile(name, f)` -/
def resolveElementInFile (n : Name) (d : FileDef) : Option Desc :=
  match lookupDef d.defs n with
  | some k => some (.elem n k)
  | none => if matchesPkgNamespace n d.pkg then some (.sentinel n) else none

/-- `resolveElementInFile(name, f)` for file number `g` -/
def elemAt (fs : Files) (n : Name) (g : Nat) : Option Desc :=
  match fs[g]? with
  | some d => resolveElementInFile n d
  | none => none

/-- the callback of `resolveElement`: `d != nil` → `(d, nil)`, else `protoregistry.NotFound` -/
def optRes (o : Option Desc) : Res Desc Unit :=
  match o with
  | some x => .found x
  | none => .notFound

/-- `(*result).resolveElement(name, checkedCache)`: the visibility walk of Part 1 with
    `resolveElementInFile` as callback. -/
def resolveElement (fs : Files) (root : Nat) (n : Name) : Option Desc :=
  match resolveIn fs.imports (fun g => optRes (elemAt fs n g)) (fs.length + 1) root false [] with
  | .found x => some x
  | _ => none

def queryInFile (fs : Files) (root : Nat) (n : Name) : Option Desc :=
  match fs[root]? with
  | some d => resolveElementInFile n d
  | none => none

/-- The message scopes enclosing an element whose parent scope is `scope` in a file of package
    `pkg`: every prefix of `scope` longer than the package, outermost first. -/
def msgScopesOf (pkg scope : Name) : List Name :=
  (List.range (scope.length - pkg.length)).map (fun i => scope.take (pkg.length + i + 1))

/-- `resolve` as the linker runs it for a reference inside `scope` of file `root`. -/
def resolveInEnv (fixed : Bool) (fs : Files) (root : Nat) (scope : Name) (ref : Ref) (onlyTypes : Bool) : Option Desc :=
  match fs[root]? with
  | none => none
  | some d =>
    let scopes := if fixed
      then scopesForFixed d.pkg (resolveElement fs root) (queryInFile fs root) (msgScopesOf d.pkg scope)
      else scopesFor d.pkg (resolveElement fs root) (queryInFile fs root) (msgScopesOf d.pkg scope)
    resolve (resolveElement fs root) scopes ref onlyTypes

/-! ### protoc's `DescriptorBuilder::LookupSymbolNoPlaceholder` (the specification of C15)

Transcribed from protobuf's `descriptor.cc`, as a single loop that chops the last component
off `relative_to` — structurally unlike the Go list of scope closures. -/

/-- kind of a protoc `Symbol`: a descriptor or a PACKAGE -/
inductive PKind where
  | k (k : Kind)
  | package
  deriving Repr, DecidableEq, Inhabited

/-- `Symbol::IsAggregate`: MESSAGE, PACKAGE, ENUM, SERVICE -/
def PKind.isAggregate : PKind → Bool
  | .package => true
  | .k x => x.isAggregate

/-- `Symbol::IsType`: MESSAGE, ENUM -/
def PKind.isType : PKind → Bool
  | .package => false
  | .k x => x.isType

/-- result of the lookup: a symbol, null, or null with `undefine_resolved_name_` set -/
inductive PRes where
  | found (n : Name) (k : PKind)
  | notDefined
  | resolvedUndefined (n : Name)
  deriving Repr, DecidableEq, Inhabited

/-- `FindSymbol` is a parameter: name ↦ kind of the symbol visible from the file being built. -/
abbrev Find := Name → Option PKind

def protocFinal (find : Find) (name : Name) : PRes :=
  match find name with
  | some k => .found name k
  | none => .notDefined

/-- The `while (true)` loop. The argument is `scope_to_try` as REVERSED components;
    "no dot left" = at most one component. -/
def protocLoop (find : Find) (first : String) (name : Name) (typesOnly : Bool) : List String → PRes
  | [] => protocFinal find name
  | _ :: sc =>
    match sc with
    | [] => protocFinal find name                 -- dot_pos == npos
    | _ :: _ =>
      let scope := sc.reverse                     -- scope_to_try.erase(dot_pos)
      match find (scope ++ [first]) with
      | some k =>
        if [first] != name then                   -- first_part_of_name.size() < name.size()
          if k.isAggregate then
            match find (scope ++ name) with
            | some k' => .found (scope ++ name) k'
            | none => .resolvedUndefined (scope ++ name)
          else protocLoop find first name typesOnly sc
        else if typesOnly && !k.isType then protocLoop find first name typesOnly sc
        else .found (scope ++ [first]) k
      | none => protocLoop find first name typesOnly sc

/-- `LookupSymbolNoPlaceholder(name, relative_to, resolve_mode)` -/
def protocLookup (find : Find) (ref : Ref) (relativeTo : Name) (typesOnly : Bool) : PRes :=
  if ref.absolute then protocFinal find ref.parts
  else match ref.parts with
    | [] => .notDefined
    | first :: _ => protocLoop find first ref.parts typesOnly relativeTo.reverse

/-- Reading a protoc result in the Go vocabulary: a PACKAGE symbol and a "resolved to X which
    is not defined" both are the sentinel carrying that name. -/
def PRes.toGo : PRes → Option Desc
  | .found n (.k x) => some (.elem n x)
  | .found n .package => some (.sentinel n)
  | .resolvedUndefined n => some (.sentinel n)
  | .notDefined => none

/-- what a caller that needs a type gets out of a result -/
def typeView : Option Desc → Option (Name × Kind)
  | some (.elem n k) => if k.isType then some (n, k) else none
  | _ => none

/-- protoc's `FindSymbol` in a concrete environment: a symbol defined in the file or in one of
    its `dependencies_` (direct imports + their public closure — computed by saturation, not by
    the walk), else a PACKAGE if the file or a dependency is in that package. -/
def protocFind (fs : Files) (root : Nat) : Find := fun n =>
  let vis := visibleList fs.imports fs.length root
  match vis.findSome? (fun g => match fs[g]? with
      | some d => lookupDef d.defs n
      | none => none) with
  | some k => some (.k k)
  | none =>
    if vis.any (fun g => match fs[g]? with
        | some d => matchesPkgNamespace n d.pkg
        | none => false) then some .package else none

/-! ### String-level transcriptions of the two string helpers -/

/-- the second pass of `CreatePrefixList`: scanning forward, every time a dot is met the text
    before it (`pkg[:i]`) is recorded — here in scanning order (shortest first) -/
def dotPrefixes (acc : List Char) : List Char → List (List Char)
  | [] => []
  | c :: rest =>
    if c == '.' then acc :: dotPrefixes (acc ++ [c]) rest
    else dotPrefixes (acc ++ [c]) rest

/-- `internal.CreatePrefixList(pkg)` byte for byte: slot 0 is the package, the slots
    `numDots … 1` are filled from the back while scanning forward (so the result lists the
    dot-prefixes longest first), the last slot stays "". -/
def createPrefixListStr (pkg : List Char) : List (List Char) :=
  if pkg.isEmpty then [[]]
  else
    let dots := dotPrefixes [] pkg
    if dots.isEmpty then [pkg, []]
    else pkg :: dots.reverse ++ [[]]

/-- dot-separated text of a name given as components -/
def joinDots : List (List Char) → List Char
  | [] => []
  | [c] => c
  | c :: rest => c ++ '.' :: joinDots rest

/-- `matchesPkgNamespace(fqn, pkg)` byte for byte -/
def matchesPkgNamespaceStr (fqn pkg : List Char) : Bool :=
  if pkg.isEmpty then false
  else if fqn == pkg then true
  else if pkg.length > fqn.length && fqn.isPrefixOf pkg then pkg[fqn.length]? == some '.'
  else false

end PCV.Resolve
