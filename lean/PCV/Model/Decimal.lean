/-
Model of `internal/decimal` numeral → binary64 conversion:
`Decimal.Parse` (parse.go), `Decimal.digits` / `bigx.Log10`, `Decimal.Float64`,
`pow5` and its three tables (float.go), `bitsx.AddSaturate/MulSaturate`.

Floats are modelled as non-negative values `m·2^q` (`F.fin m q`) or `+Inf`; the sign is
carried separately exactly as `Float64` does (`if z.Negative() { v = -v }`).
`rne N D s` is IEEE-754 binary64 round-to-nearest-even of the exact rational
`N·2^s / D`, defined from first principles with `Nat` arithmetic only.  The
hardware operations used by the Go code (`*`, `/`, `float64(uint64)`,
`math.Ldexp`) are a *parameter* (`Arith`); `ieee` is the instance in which each
operation is `rne` of the exact result (that this is what the hardware does is
validated by the `mul/div/ldexp/u64` ops of the correspondence run, and is a
hypothesis — `Arith.IEEE` — of the theorems, not an axiom).

The code is modelled as it is (entry `pow5s[23]` was `5^7` until /repo commit 26681def
repaired it; the literal below is the repaired table), including: the
multi-rounding "fast path" taken for every exponent, the `exact` flag that only
looks at the mantissa, `pow5` flushing to 0 below 5^-324, the truncation of long
binary mantissas to 53 bits, `AddOverflow`'s `z < x` test, hex digits accepted in
exponents, and the binary-exponent handling of decimal mantissas.
-/
namespace PCV.Decimal

/-! ## Exact rounding -/

/-- round-half-even of the rational `N / D` (`D > 0`) to an integer -/
def rdiv (N D : Nat) : Nat :=
  if 2 * (N % D) < D then N / D
  else if D < 2 * (N % D) then N / D + 1
  else if (N / D) % 2 = 0 then N / D else N / D + 1

/-- round-half-even of `N / (D·2^t)`, `t : Int` -/
def rdivPow (N D : Nat) (t : Int) : Nat :=
  rdiv (N * 2 ^ (-t).toNat) (D * 2 ^ t.toNat)

/-- `D·2^d ≤ N` for an integer `d` -/
def le2 (D N : Nat) (d : Int) : Bool :=
  decide (D * 2 ^ d.toNat ≤ N * 2 ^ (-d).toNat)

/-- `⌊log2 (N / D)⌋` for `N, D > 0` -/
def flog2 (N D : Nat) : Int :=
  let d : Int := (N.log2 : Int) - (D.log2 : Int)
  if le2 D N d then d else d - 1

/-- non-negative binary64 values: `m·2^q`, or `+Inf` -/
inductive F where
  | fin (m : Nat) (q : Int)
  | inf
  deriving DecidableEq, Repr

def F.zero : F := .fin 0 (-1074)

def F.finite : F → Bool
  | .fin _ _ => true
  | .inf => false

/-- IEEE-754 binary64 round-to-nearest, ties-to-even, of the exact value `N·2^s / D`
    (`D > 0`).  `k` is the binary exponent of the value, `q` the exponent of the unit in
    the last place (clamped at the subnormal range), `m` the correctly rounded
    significand at that place.  Values below `2^-1079` are far below half the least
    subnormal `2^-1075` and go to zero without computing the quotient
    (`rne_eq_rneRaw` in `PCV.Lemmas.Decimal` proves this shortcut harmless). -/
def rne (N D : Nat) (s : Int) : F :=
  if N = 0 then F.zero else
  let k := flog2 N D + s
  if k < -1080 then F.zero else
  let q := max k (-1022) - 52
  let m := rdivPow N D (q - s)
  if m = 2 ^ 53 then (if q + 1 > 971 then .inf else .fin (2 ^ 52) (q + 1))
  else if q > 971 then .inf else .fin m q

/-- the same without the underflow shortcut (specification form) -/
def rneRaw (N D : Nat) (s : Int) : F :=
  if N = 0 then F.zero else
  let k := flog2 N D + s
  let q := max k (-1022) - 52
  let m := rdivPow N D (q - s)
  if m = 2 ^ 53 then (if q + 1 > 971 then .inf else .fin (2 ^ 52) (q + 1))
  else if q > 971 then .inf else .fin m q

/-- number of decimal digits of `w` (`w > 0`), plain definition used by the
    specification only -/
def ndigitsAux : Nat → Nat → Nat
  | 0, _ => 0
  | fuel + 1, w => if w < 10 then 1 else 1 + ndigitsAux fuel (w / 10)

def ndigits (w : Nat) : Nat := ndigitsAux (w.log2 + 1) w

/-- correctly rounded `w·10^e`.  The two guards avoid building `10^|e|` for
    astronomically large exponents: `w·10^e ≥ 10^401 > 2^1024` resp.
    `w·10^e < 10^(e+ndigits w) ≤ 10^-401 < 2^-1080`. -/
def rneDec (w : Nat) (e : Int) : F :=
  if w = 0 then F.zero
  else if e > 400 then .inf
  else if e + (ndigits w : Int) < -400 then F.zero
  else if 0 ≤ e then rne (w * 10 ^ e.toNat) 1 0
  else rne w (10 ^ (-e).toNat) 0

/-! ## bits -/

def F.toBits : F → Nat
  | .inf => 0x7FF0000000000000
  | .fin m q => if m < 2 ^ 52 then m else (q + 1075).toNat * 2 ^ 52 + (m - 2 ^ 52)

/-- decode non-negative, non-NaN binary64 bits (NaN patterns decode as `inf`; the
    engine rejects them before calling this) -/
def ofBits (b : Nat) : F :=
  let e : Nat := b / 2 ^ 52
  let f : Nat := b % 2 ^ 52
  if e = 0 then .fin f (-1074)
  else if e ≥ 2047 then .inf
  else .fin (2 ^ 52 + f) ((e : Int) - 1075)

/-! ## float arithmetic as a parameter -/

structure Arith where
  /-- `float64(w)` for a `uint64` -/
  ofU64 : Nat → F
  mul : F → F → F
  div : F → F → F
  /-- `math.Ldexp` -/
  ldexp : F → Int → F

/-- The IEEE-754 assumption: every operation returns the correctly rounded exact result. -/
structure Arith.IEEE (A : Arith) : Prop where
  ofU64 : ∀ w, A.ofU64 w = rne w 1 0
  mul : ∀ m1 q1 m2 q2, A.mul (.fin m1 q1) (.fin m2 q2) = rne (m1 * m2) 1 (q1 + q2)
  div : ∀ m1 q1 m2 q2, m2 ≠ 0 → A.div (.fin m1 q1) (.fin m2 q2) = rne m1 m2 (q1 - q2)
  ldexp : ∀ m q n, A.ldexp (.fin m q) n = rne m 1 (q + n)

def mulE : F → F → F
  | .fin m1 q1, .fin m2 q2 => rne (m1 * m2) 1 (q1 + q2)
  | _, _ => .inf

def divE : F → F → F
  | .fin m1 q1, .fin m2 q2 => if m2 = 0 then .inf else rne m1 m2 (q1 - q2)
  | .fin _ _, .inf => F.zero
  | .inf, _ => .inf

def ldexpE : F → Int → F
  | .fin m q, n => rne m 1 (q + n)
  | .inf, _ => .inf

/-- the instance used by the executable model -/
def ieee : Arith :=
  { ofU64 := fun w => rne w 1 0, mul := mulE, div := divE, ldexp := ldexpE }

/-! ## the tables of float.go (bit patterns as compiled today; `pow5s[23]` was
    `0x40F312D000000000` = 5^7 before /repo commit 26681def) -/

def pow5sBits : List Nat := [
  0x3FF0000000000000, 0x4014000000000000, 0x4039000000000000, 0x405F400000000000,
  0x4083880000000000, 0x40A86A0000000000, 0x40CE848000000000, 0x40F312D000000000,
  0x4117D78400000000, 0x413DCD6500000000, 0x4162A05F20000000, 0x41874876E8000000,
  0x41AD1A94A2000000, 0x41D2309CE5400000, 0x41F6BCC41E900000, 0x421C6BF526340000,
  0x4241C37937E08000, 0x4266345785D8A000, 0x428BC16D674EC800, 0x42B158E460913D00,
  0x42D5AF1D78B58C40, 0x42FB1AE4D6E2EF50, 0x4320F0CF064DD592, 0x43452D02C7E14AF6,
  0x436A784379D99DB4, 0x43908B2A2C280291, 0x43B4ADF4B7320335, 0x43D9D971E4FE8402,
  0x440027E72F1F1281, 0x442431E0FAE6D721, 0x44493E5939A08CEA, 0x446F8DEF8808B024]

def pow5s32Bits : List Nat := [
  0x3FF0000000000000, 0x4493B8B5B5056E17, 0x49384F03E93FF9F5, 0x4DDDF67562D8B363,
  0x52827748F9301D32, 0x5726C2D4256FFCC3, 0x5BCC0E1EF1A724EB, 0x60714A52DFFC6799,
  0x65154FDD7F73BF3C, 0x69BA44DF832B8D46]

def pow5s32negBits : List Nat := [
  0x3FF0000000000000, 0x3B49F623D5A8A733, 0x36A50FFD44F4A73D, 0x320116805EFFAEAA,
  0x2D5BBA08CF8C979D, 0x28B67E9C127B6E74, 0x24123FF06EEA847A, 0x1F6D9CA79D89462A,
  0x1AC8062864AC6F43, 0x16237D99CC506D59, 0x117FA01712E8F047]

def pow5s (i : Nat) : F := ofBits (pow5sBits.getD i 0)
def pow5s32 (i : Nat) : F := ofBits (pow5s32Bits.getD i 0)
def pow5s32neg (i : Nat) : F := ofBits (pow5s32negBits.getD i 0)

/-- `pow5(f, n)` -/
def pow5 (A : Arith) (f : F) (n : Int) : F :=
  if 0 ≤ n ∧ n ≤ 309 then
    A.mul (A.mul f (pow5s32 (n.toNat / 32))) (pow5s (n.toNat % 32))
  else if -324 ≤ n ∧ n ≤ 0 then
    A.div (A.mul f (pow5s32neg ((-n).toNat / 32))) (pow5s ((-n).toNat % 32))
  else if n > 0 then .inf
  else F.zero

/-! ## `Decimal` state, `digits`, `Float64` -/

structure Dec where
  neg : Bool
  base2 : Bool
  /-- integer mantissa `z.get()` -/
  w : Nat
  /-- `z.exp` -/
  exp : Int
  deriving DecidableEq, Repr

/-- `float64(math.Ln2 / math.Ln10)` -/
def log10of2 : F := ofBits 0x3FD34413509F79FF

/-- `int(f)` for a non-negative finite float -/
def F.trunc : F → Nat
  | .fin m q => if 0 ≤ q then m * 2 ^ q.toNat else m / 2 ^ (-q).toNat
  | .inf => 0

/-- `bigx.Log10(w)` for `w > 0` -/
def log10Go (A : Arith) (w : Nat) : Nat :=
  let n := w.log2
  let m := (A.mul (A.ofU64 n) log10of2).trunc
  if 10 ^ (m + 1) ≤ w then m + 1 else m

/-- `z.digits()` for a nonzero mantissa -/
def Dec.digits (A : Arith) (z : Dec) : Int :=
  if z.base2 then (z.w.log2 : Int) + 1 else (log10Go A z.w : Int) + 1

/-- `bigx.MSBs(_, w, n)` -/
def msbs (w n : Nat) : Nat := w >>> ((w.log2 + 1) - n)

/-- `Decimal.Float64` for a finite value: magnitude of the result and the `exact` flag
    (the sign is applied by the caller exactly as the Go code does at the end). -/
def float64 (A : Arith) (z : Dec) : F × Bool :=
  if z.w = 0 then (F.zero, true)
  else
    let e := z.exp - z.digits A
    let slow : F × Bool :=
      if z.base2 then
        -- `bits := mantBits64 + 1` is 53 (the comment in float.go says 54): plain truncation
        let v := A.ofU64 (msbs z.w 53)
        (A.ldexp v (z.exp - 53), false)
      else
        -- strconv.ParseFloat("<w>e<e>"): assumed correctly rounded
        (rneDec z.w e, false)
    if z.w < 2 ^ 64 then
      let v := A.ofU64 z.w
      let exact := decide (z.w ≤ 2 ^ 53)
      if e = 0 then (v, exact && v.finite)
      else if exact then
        let v := if !z.base2 then pow5 A v e else v
        let v := A.ldexp v e
        (v, v.finite)
      else slow
    else slow

/-- exact value of a parsed decimal as `N·2^s / D` -/
def Dec.value (A : Arith) (z : Dec) : Nat × Nat × Int :=
  let e := z.exp - z.digits A
  if z.base2 then (z.w, 1, e)
  else if 0 ≤ e then (z.w * 10 ^ e.toNat, 1, 0) else (z.w, 10 ^ (-e).toNat, 0)

def signBit (neg : Bool) (bits : Nat) : Nat := if neg then bits + 2 ^ 63 else bits

/-! ## `Decimal.Parse` -/

def wrap64 (x : Int) : Int := (x + 2 ^ 63) % 2 ^ 64 - 2 ^ 63
def maxInt : Int := 2 ^ 63 - 1
def minInt : Int := -(2 ^ 63)

/-- `bitsx.AddSaturate` (with `AddOverflow`'s test `z < x` as written) -/
def addSaturate (x y : Int) : Int :=
  let z := wrap64 (x + y)
  if ¬ (z < x) then z else if z < 0 then maxInt else minInt

/-- `bitsx.MulSaturate` -/
def mulSaturate (x y : Int) : Int :=
  let z := wrap64 (x * y)
  let of := x ≠ 0 ∧ Int.tdiv z x ≠ y
  if ¬ of then z else if (decide (x < 0)) = (decide (y < 0)) then maxInt else minInt

/-- `unicodex.Digit(rune(b), base)`: value (0xff when not alphanumeric) -/
def digitVal (b : Nat) : Nat :=
  if b > 0x7f then 0xff
  else if 48 ≤ b ∧ b ≤ 57 then b - 48
  else if 97 ≤ b ∧ b ≤ 122 then b - 97 + 10
  else if 65 ≤ b ∧ b ≤ 90 then b - 65 + 10
  else 0xff

inductive PRes where
  | ok (z : Dec)
  | syntax
  | range
  deriving DecidableEq, Repr

def isE (b : Nat) : Bool := b == 101 || b == 69
def isP (b : Nat) : Bool := b == 112 || b == 80

/-- the `lookahead:` loop: first index `≥ j` holding an exponent marker, else `len` -/
def lookahead (s : Array Nat) (base : Nat) : Nat → Nat → Nat
  | 0, j => j
  | fuel + 1, j =>
    if j < s.size then
      let b := s.getD j 0
      if (isE b && base == 10) || isP b then j else lookahead s base fuel (j + 1)
    else j

/-- back up over trailing `0`/`_` -/
def backup (s : Array Nat) : Nat → Nat
  | 0 => 0
  | stop + 1 =>
    let b := s.getD stop 0
    if b == 48 || b == 95 then backup s stop else stop + 1

structure MS where
  i : Nat
  stop : Nat
  skip : Nat
  dot : Bool
  nonzero : Bool
  exp : Int
  m : Nat

/-- the `mant:` loop; `none` = syntax error -/
def mantLoop (s : Array Nat) (base places : Nat) : Nat → MS → Option MS
  | 0, st => some st
  | fuel + 1, st =>
    if st.i < st.stop then
      let b := s.getD st.i 0
      if b == 95 then mantLoop s base places fuel { st with i := st.i + 1 }
      else if b == 46 then
        if st.dot then none
        else
          let skip := lookahead s base (s.size + 1) st.i
          let stop := backup s skip
          mantLoop s base places fuel { st with dot := true, skip := skip, stop := stop, i := st.i + 1 }
      else if (isE b && base == 10) || isP b then some st
      else
        let d := digitVal b
        if ¬ (d < base) then none
        else
          let first := !st.nonzero && d != 0
          let nonzero := st.nonzero || first
          let pl := if first && base == 16 then d.log2 + 1 else places
          let exp :=
            if !st.dot && nonzero then st.exp + pl
            else if st.dot && !nonzero then st.exp - pl
            else st.exp
          mantLoop s base places fuel
            { st with i := st.i + 1, nonzero := nonzero, exp := exp, m := st.m * base + d }
    else some st

/-- number of trailing zero bits (`0` for `0`, as `big.Int.TrailingZeroBits`) -/
def tzAux : Nat → Nat → Nat
  | 0, _ => 0
  | fuel + 1, m => if m % 2 = 0 then 1 + tzAux fuel (m / 2) else 0

def trailingZeros (m : Nat) : Nat := if m = 0 then 0 else tzAux (m.log2 + 1) m

/-- the exponent-digit loop; `none` = syntax error -/
def expLoop (s : Array Nat) (base : Nat) : Nat → Nat → Int → Option Int
  | 0, _, exp => some exp
  | fuel + 1, i, exp =>
    if i < s.size then
      let b := s.getD i 0
      if b == 95 then expLoop s base fuel (i + 1) exp
      else
        let d := digitVal b
        if ¬ (d < base) then none
        else expLoop s base fuel (i + 1) (addSaturate (mulSaturate exp 10) d)
    else some exp

/-- `(*Decimal).Parse` on the bytes `s` -/
def parse (s : Array Nat) : PRes :=
  if s.size = 0 then .syntax else
  let b0 := s.getD 0 0
  let neg := b0 == 45
  let i := if b0 == 45 || b0 == 43 then 1 else 0
  let hex := s.size - i ≥ 2 && s.getD i 0 == 48 && (s.getD (i + 1) 0 == 120 || s.getD (i + 1) 0 == 88)
  let base := if hex then 16 else 10
  let places := if hex then 4 else 1
  let i := if hex then i + 2 else i
  match mantLoop s base places (s.size + 1)
      { i := i, stop := s.size, skip := 0, dot := false, nonzero := false, exp := 0, m := 0 } with
  | none => .syntax
  | some st =>
    let i := if st.skip > 0 then st.skip else st.i
    let m := if hex then st.m >>> trailingZeros st.m else st.m
    let z : Dec := { neg := neg, base2 := hex, w := m, exp := st.exp }
    if s.size - i = 0 then .ok z
    else if s.size - i = 1 then .syntax
    else
      let z := if isP (s.getD i 0) then { z with base2 := true } else z
      let i := i + 1
      let c := s.getD i 0
      let expSign : Int := if c == 45 then -1 else 1
      let i := if c == 45 || c == 43 then i + 1 else i
      if i = s.size then .ok z
      else
        match expLoop s base (s.size + 1) i 0 with
        | none => .syntax
        | some exp =>
          let exp := wrap64 (exp * expSign)
          let exp := addSaturate exp z.exp
          if exp > 2147483647 ∨ exp < -2147483648 then .range
          else .ok { z with exp := exp }

end PCV.Decimal
