/-
Model of `internal/toposort` (`Sorter.Sort` / `Sorter.push`) over `Nat` nodes with the
identity key.  The graph is an adjacency list (`children g v` = the children `dag(v)` yields,
in order, duplicates allowed).  The Go stack slice is modelled as a list whose HEAD is the
top (last element) of the slice.  The three-state marking is a function `Nat → Color`
(the Go `map[Key]byte`, whose zero value is `unsorted`).

* `push`     = `Sorter.push` (error = the "cycle detected" panic, with the printed suffix)
* `pushAll`  = `for child := range dag(node) { s.push(child) }`
* `step`     = one iteration of `for len(s.stack) > 0`
* `inner`    = that loop (fuel; `sort_terminates` in Props/C41 proves the fuel suffices)
* `sortRoots`= `for _, root := range roots`
`limit = some k` models a consumer whose `yield` returns false at the k-th node.

Re-use: `Sorter` is the scratch space (marks + stack) that lives between passes.
`Sorter.sortCall` = calling `s.Sort(roots, dag)` (creates the sequence; touches nothing),
`Sorter.range` = one pass (`range`) over a sequence: the loop runs on the scratch space as it
is, and the deferred function clears it however the pass ends (completion, break, panic).
`Sorter.nest` = a pass whose loop body, at its j-th node, ranges another sequence of the same
Sorter: the `iterating` flag is set, so that inner pass panics ("called reëntrantly").
-/
namespace PCV.Toposort

inductive Color where
  | unsorted | walking | sorted
deriving DecidableEq, Repr

abbrev Graph := List (List Nat)
abbrev Colors := Nat → Color

def children (g : Graph) (v : Nat) : List Nat := g.getD v []

def setColor (c : Colors) (k : Nat) (x : Color) : Colors := fun v => if v = k then x else c v

/-- elements from the top of the stack down to (and including) the topmost `v` -/
def takeThrough (v : Nat) : List Nat → List Nat
  | [] => []
  | x :: xs => if x = v then [x] else x :: takeThrough v xs

/-- `s.stack[prev:]` in slice order (bottom → top) -/
def cycleSuffix (stack : List Nat) (v : Nat) : List Nat := (takeThrough v stack).reverse

structure Cycle where
  suffix : List Nat
  node : Nat
deriving Repr, DecidableEq

/-- `Sorter.push` -/
def push (c : Colors) (stack : List Nat) (v : Nat) : Except Cycle (List Nat) :=
  match c v with
  | .unsorted => .ok (v :: stack)
  | .walking => .error { suffix := cycleSuffix stack v, node := v }
  | .sorted => .ok stack

def pushAll (c : Colors) : List Nat → List Nat → Except Cycle (List Nat)
  | stack, [] => .ok stack
  | stack, ch :: rest =>
    match push c stack ch with
    | .ok st => pushAll c st rest
    | .error e => .error e

/-- loop state: marking, stack (head = top), nodes yielded so far (newest first) -/
structure Cfg where
  c : Colors
  stack : List Nat
  out : List Nat

inductive Res where
  | cont (cfg : Cfg)
  | panic (cfg : Cfg) (e : Cycle)
  | stop (cfg : Cfg)          -- `yield` returned false

/-- does `yield` return false after the node count reached `k`? -/
def limitHit (limit : Option Nat) (len : Nat) : Bool :=
  match limit with
  | none => false
  | some k => decide (k ≤ len)

/-- one iteration of `for len(s.stack) > 0` -/
def step (g : Graph) (limit : Option Nat) (cfg : Cfg) : Res :=
  match cfg.stack with
  | [] => .cont cfg
  | node :: rest =>
    match cfg.c node with
    | .unsorted =>
      let c' := setColor cfg.c node .walking
      match pushAll c' cfg.stack (children g node) with
      | .ok st => .cont { c := c', stack := st, out := cfg.out }
      | .error e => .panic { cfg with c := c' } e
    | .walking =>
      let out := node :: cfg.out
      if limitHit limit out.length then .stop { c := cfg.c, stack := rest, out := out }
      else .cont { c := setColor cfg.c node .sorted, stack := rest, out := out }
    | .sorted => .cont { c := cfg.c, stack := rest, out := cfg.out }

inductive Outcome where
  | done (cfg : Cfg)
  | panic (out : List Nat) (e : Cycle)
  | stopped (out : List Nat)
  | outOfFuel

def inner (g : Graph) (limit : Option Nat) : Nat → Cfg → Outcome
  | 0, _ => .outOfFuel
  | f + 1, cfg =>
    match cfg.stack with
    | [] => .done cfg
    | _ :: _ =>
      match step g limit cfg with
      | .cont cfg' => inner g limit f cfg'
      | .panic cfg' e => .panic cfg'.out e
      | .stop cfg' => .stopped cfg'.out

def sortRoots (g : Graph) (limit : Option Nat) (fuel : Nat) : List Nat → Cfg → Outcome
  | [], cfg => .done cfg
  | r :: roots, cfg =>
    match push cfg.c cfg.stack r with
    | .error e => .panic cfg.out e
    | .ok st =>
      match inner g limit fuel { cfg with stack := st } with
      | .done cfg' => sortRoots g limit fuel roots cfg'
      | o => o

def edgeCount (g : Graph) : Nat := (g.map List.length).sum

def fuelFor (g : Graph) : Nat := g.length + edgeCount g + 2

def initCfg : Cfg := { c := fun _ => .unsorted, stack := [], out := [] }

/-- result of ranging over `Sorter.Sort(roots, dag)` -/
inductive Result where
  | ok (out : List Nat)                       -- completed; nodes in yield order
  | stopped (out : List Nat)                  -- consumer stopped
  | panic (out : List Nat) (e : Cycle)        -- "cycle detected" panic after yielding `out`
  | outOfFuel
deriving Repr, DecidableEq

def sort (g : Graph) (roots : List Nat) (limit : Option Nat := none) : Result :=
  match sortRoots g limit (fuelFor g) roots initCfg with
  | .done cfg => .ok cfg.out.reverse
  | .panic out e => .panic out.reverse e
  | .stopped out => .stopped out.reverse
  | .outOfFuel => .outOfFuel

/-- one pass of the loop of `Sorter.Sort`'s iterator on scratch space `(c, stack)` -/
def runFrom (g : Graph) (roots : List Nat) (limit : Option Nat) (c : Colors) (stack : List Nat) :
    Result :=
  match sortRoots g limit (fuelFor g) roots { c := c, stack := stack, out := [] } with
  | .done cfg => .ok cfg.out.reverse
  | .panic out e => .panic out.reverse e
  | .stopped out => .stopped out.reverse
  | .outOfFuel => .outOfFuel

/-- the fields of the Go `Sorter` that survive between passes (`iterating` is only ever set
    during a pass; see `Sorter.nest`) -/
structure Sorter where
  c : Colors
  stack : List Nat

def Sorter.fresh : Sorter := { c := fun _ => .unsorted, stack := [] }

/-- `s.Sort(roots, dag)`: allocates the map if it is nil and returns the closure; the scratch
    space is not touched -/
def Sorter.sortCall (s : Sorter) : Sorter := s

/-- one `range` over a sequence made by `s.Sort(roots, dag)`; the second component is the
    Sorter after the deferred `clear(s.state); clear(s.stack); s.stack = s.stack[:0]` -/
def Sorter.range (s : Sorter) (g : Graph) (roots : List Nat) (limit : Option Nat) : Result × Sorter :=
  (runFrom g roots limit s.c s.stack, Sorter.fresh)

inductive NestResult where
  | plain (r : Result)                 -- the outer pass ended before its j-th node
  | reentrant (yielded : List Nat)     -- "Sort() called reëntrantly" after `yielded`
deriving Repr, DecidableEq

/-- a pass whose body, at the j-th node, ranges another sequence of the same Sorter -/
def Sorter.nest (s : Sorter) (g : Graph) (roots : List Nat) (j : Nat) : NestResult × Sorter :=
  match runFrom g roots (some j) s.c s.stack with
  | .stopped out => (.reentrant out, Sorter.fresh)
  | r => (.plain r, Sorter.fresh)

end PCV.Toposort
