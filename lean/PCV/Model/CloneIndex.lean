/-
Model of the node-index recreation of `parser.Clone` (parser/clone.go) — C24.

The descriptor proto is a tree whose shape is given by a schema (edges
`parent type . Go field name → child type`, regenerated from the linked descriptorpb).
`parser/result.go` registers an AST node for elements of some types (`put*Node`), under one
of two keys: the element itself, or `asExtsNode(element)`.  `clone.go` walks original and
clone in parallel (`recreateNodeIndexFor*`) and copies the entry of every element it reaches
(`updateNodeIndex`).  The traversal program is regenerated from clone.go as, per function, a
list of (relative field path from the function's argument, action) pairs, where the action is
"copy the entry under key k" or "call the function for type T".

A position of the tree is a path of (field name, list index) pairs from the file descriptor.
Because every loop in clone.go ranges over *all* elements of a repeated field, whether a
position is reached depends only on the field names of its path: `visits` runs the traversal
as a small automaton over that path.  Core Lean only.
-/
namespace PCV.CloneIndex

inductive Key where
  | self | exts
  deriving DecidableEq, Repr, Inhabited

inductive Act where
  | upd (k : Key)
  | call (ty : String)
  deriving DecidableEq, Repr, Inhabited

structure Entry where
  rel : List String
  act : Act
  deriving DecidableEq, Repr, Inhabited

structure Fn where
  ty : String
  entries : List Entry
  deriving DecidableEq, Repr, Inhabited

structure Edge where
  parent : String
  field : String
  child : String
  deriving DecidableEq, Repr, Inhabited

structure Spec where
  reg : List (String × Key)     -- registered (type, key) pairs: result.go `put*Node`
  edges : List Edge             -- schema
  fns : List Fn                 -- clone.go `recreateNodeIndexFor*`
  root : String                 -- type passed by `Clone` to the first function
  deriving Repr, Inhabited

/-- type reached from `t` along the field names -/
def typeOfPath (edges : List Edge) : String → List String → Option String
  | t, [] => some t
  | t, f :: fs =>
    match edges.find? (fun e => e.parent == t && e.field == f) with
    | some e => typeOfPath edges e.child fs
    | none => none

def findFn (spec : Spec) (ty : String) : Option Fn := spec.fns.find? (fun fn => fn.ty == ty)

/-- active loop contexts: (function being executed, relative path of the current loop variable) -/
abbrev State := Fn × List String

/-- descend into field `f`: stay in the same function one level deeper, and enter every
    function called on the element reached -/
def stepState (spec : Spec) (f : String) (st : State) : List State :=
  (st.1, st.2 ++ [f]) ::
    st.1.entries.filterMap (fun e =>
      match e.act with
      | .call t => if e.rel == st.2 ++ [f] then (findFn spec t).map (fun fn => (fn, [])) else none
      | .upd _ => none)

def run (spec : Spec) : List String → List State → List State
  | [], sts => sts
  | f :: fs, sts => run spec fs (sts.flatMap (stepState spec f))

def accepts (sts : List State) (k : Key) : Bool :=
  sts.any (fun st => st.1.entries.any (fun e => e.rel == st.2 && e.act == .upd k))

/-- does the traversal started by `Clone` copy the entry with key `k` of the elements whose
    path has these field names? -/
def visits (spec : Spec) (path : List String) (k : Key) : Bool :=
  match findFn spec spec.root with
  | none => false
  | some fn => accepts (run spec path [(fn, [])]) k

abbrev Pos := List (String × Nat)
abbrev Index := Pos → Key → Option Nat

/-- the index of the clone: `updateNodeIndex` copies the original's entry (when there is one)
    at every visited position; nothing else is ever written. -/
def cloneIndex (spec : Spec) (orig : Index) : Index :=
  fun p k => if visits spec (p.map (·.1)) k then orig p k else none

/-! ### The decidable completeness check -/

def regTypes (spec : Spec) : List String := spec.reg.map (·.1)

/-- one closure step: add the parents of edges leading into `R` -/
def relStep (spec : Spec) (R : List String) : List String :=
  R ++ (spec.edges.filter (fun e => R.contains e.child && !R.contains e.parent)).map (·.parent)

def relIter (spec : Spec) : Nat → List String → List String
  | 0, R => R
  | n + 1, R => relIter spec n (relStep spec R).eraseDups

/-- types from which a registered type can be reached (candidates; `closedRel` is what is checked) -/
def relevant (spec : Spec) : List String := relIter spec spec.edges.length (regTypes spec).eraseDups

def closedRel (spec : Spec) (R : List String) : Bool :=
  (regTypes spec).all R.contains &&
  spec.edges.all (fun e => !R.contains e.child || R.contains e.parent)

mutual
/-- the element of type `C` reached at relative path `pre` inside `fn` is fully handled inline:
    its registered keys are copied and every relevant child edge is handled -/
def inlineOK (spec : Spec) (R : List String) (fn : Fn) : Nat → List String → String → Bool
  | 0, _, _ => false
  | fuel + 1, pre, C =>
    spec.reg.all (fun r => !(r.1 == C) || fn.entries.contains ⟨pre, .upd r.2⟩) &&
    spec.edges.all (fun e => !(e.parent == C && R.contains e.child) ||
      edgeOK spec R fn fuel (pre ++ [e.field]) e.child)
/-- a child edge is handled by a call of the child type's function, or inline -/
def edgeOK (spec : Spec) (R : List String) (fn : Fn) : Nat → List String → String → Bool
  | 0, _, _ => false
  | fuel + 1, pre, C =>
    (fn.entries.contains ⟨pre, .call C⟩ && (findFn spec C).isSome) ||
    inlineOK spec R fn fuel pre C
end

/-- the obligation evaluated on the regenerated lists -/
def covers (spec : Spec) : Bool :=
  let R := relevant spec
  closedRel spec R && (findFn spec spec.root).isSome &&
  spec.fns.all (fun fn => inlineOK spec R fn (2 * spec.edges.length + 2) [] fn.ty)

end PCV.CloneIndex
