/-
E-INCR, sequential layer: model of `experimental/incremental` (executor.go, task.go) on
executions in which no caller ever waits on a *pending* task (one goroutine, acyclic
resolution, no panic).  The failing paths (cycle check, panic, cancellation) are modelled in
`PCV.Model.IncrFail`; the leader CAS as a transition system in `PCV.Model.IncrLts`.

Go ↔ model
  Executor.tasks (sync.Map key→*task)      `St.tasks : Key → Option Task`
  task.deps / task.callers (sync.Map sets) `Task.deps / Task.callers : List Key` (insertion order, no dups)
  task.result (atomic.Pointer[result])     `Task.result : RState` (`none` = nil, `pending`, `done r`)
  result.runID                             `Result.runID`
  Executor.counter                         `St.counter`
  Query.Execute                            a `Script` : a tree of `Resolve` calls ending in a value
  Resolve(caller, qs...)                   `runScriptWith` / `recordEdges` / `resolveManyWith`
  task.start / task.run                    `execKey`
  Run                                      `run`
  EvictWithCleanup                         `evict` (`evictLoop` is the LIFO work-list loop)
`St.log` (sequence of `Execute` calls) and `St.obs` (the `Changed` flag computed by every
`Resolve` callback) are observation instruments, not Go state.
Core Lean only.
-/
namespace PCV.Incr

abbrev Key := Nat

/-- What `Resolve` hands back for one query: `Result.Value` or `Result.Fatal`. -/
inductive Res where
  | ok (v : Int)
  /-- a fatal error returned by the query itself -/
  | fatal (c : Nat)
  /-- `*ErrCycle` with the listed keys (only produced by the failing-paths model `IncrFail`) -/
  | cyc (path : List Nat)
  /-- `*ErrPanic` for query `k`, propagated as a fatal error (only in `IncrFail`) -/
  | pan (k : Nat)
deriving DecidableEq, Repr, Inhabited

/-- A query body: performs `Resolve` calls (each on a list of queries) and finally returns.
    The continuation receives the value/fatal of each resolved query, in order. -/
inductive Script where
  | ret (r : Res)
  | resolve (ks : List Key) (cont : List Res → Script)
  /-- the body panics here (outside the sequential layer; see `IncrFail`) -/
  | panic

structure Result where
  val : Res
  runID : Nat
deriving DecidableEq, Repr

inductive RState where
  | none
  | pending
  | done (r : Result)
deriving DecidableEq, Repr

structure Task where
  deps : List Key := []
  callers : List Key := []
  result : RState := .none
deriving Repr

/-- `Executor.tasks`; a structure (not a bare function) so that compiled code evaluates updates
    strictly -/
structure TaskMap where
  get : Key → Option Task

structure St where
  tasks : TaskMap := ⟨fun _ => none⟩
  counter : Nat := 0
  /-- keys in the order their `Execute` ran (instrument) -/
  log : List Key := []
  /-- (run generation, resolved key, Changed flag) per `Resolve` callback (instrument) -/
  obs : List (Nat × Key × Bool) := []

def upd (m : TaskMap) (k : Key) (t : Task) : TaskMap := ⟨fun k' => if k' = k then some t else m.get k'⟩

def modify (m : TaskMap) (k : Key) (f : Task → Task) : TaskMap :=
  match m.get k with
  | some t => upd m k (f t)
  | none => m

/-- `sync.Map.Store(k, struct{}{})` on a set -/
def insertNew (l : List Key) (k : Key) : List Key := if k ∈ l then l else l ++ [k]

/-- `Executor.getOrCreateTask` -/
def getOrCreate (m : TaskMap) (k : Key) : TaskMap :=
  match m.get k with
  | some _ => m
  | none => upd m k {}

/-- `callerTask.deps.Store(dep); dep.callers.Store(callerTask)` -/
def addEdge (m : TaskMap) (c d : Key) : TaskMap :=
  modify (modify m c (fun t => { t with deps := insertNew t.deps d })) d
    (fun t => { t with callers := insertNew t.callers c })

/-- first loop of `Resolve`: create the tasks and record the edges, before anything starts -/
def recordEdges (m : TaskMap) (self : Option Key) : List Key → TaskMap
  | [] => m
  | d :: ds =>
    let m1 := getOrCreate m d
    let m2 := match self with
      | none => m1
      | some c => addEdge m1 c d
    recordEdges m2 self ds

def resultOf (m : TaskMap) (k : Key) : RState :=
  match m.get k with
  | some t => t.result
  | none => .none

def setResult (m : TaskMap) (k : Key) (r : RState) : TaskMap :=
  modify m k (fun t => { t with result := r })

/-- second loop of `Resolve` (sequentialised): start every query, collect the results and the
    `Changed` flag `r.runID == caller.runID` -/
def resolveManyWith (ex : St → Key → Option (St × Result)) (gen : Nat) :
    St → List Key → Option (St × List Result)
  | st, [] => some (st, [])
  | st, k :: ks =>
    match ex st k with
    | none => none
    | some (st1, r) =>
      let st1' := { st1 with obs := st1.obs ++ [(gen, k, r.runID == gen)] }
      match resolveManyWith ex gen st1' ks with
      | none => none
      | some (st2, rs) => some (st2, r :: rs)

/-- the body of `Query.Execute` run on behalf of task `self` -/
def runScriptWith (ex : St → Key → Option (St × Result)) (gen : Nat) (self : Option Key) :
    St → Script → Option (St × Res)
  | st, .ret r => some (st, r)
  | _, .panic => none
  | st, .resolve ks cont =>
    let st1 := { st with tasks := recordEdges st.tasks self ks }
    match resolveManyWith ex gen st1 ks with
    | none => none
    | some (st2, rs) => runScriptWith ex gen self st2 (cont (rs.map (·.val)))

/-- `task.start`/`task.run` for a task whose key is `k`, already created by `Resolve`.
    `none` = out of fuel, or a caller would have to wait on a pending task (outside this layer). -/
def execKey (body : Key → Script) (gen : Nat) : Nat → St → Key → Option (St × Result)
  | 0, _, _ => none
  | fuel + 1, st, k =>
    match resultOf st.tasks k with
    | .done r => some (st, r)                       -- cache hit
    | .pending => none                              -- waitUntilDone: not in this layer
    | .none =>
      -- CompareAndSwap(nil, output): become the leader
      let st0 := { st with tasks := setResult st.tasks k .pending }
      match runScriptWith (execKey body gen fuel) gen (some k) st0 (body k) with
      | none => none
      | some (st1, v) =>
        let r : Result := { val := v, runID := gen }
        some ({ st1 with tasks := setResult st1.tasks k (.done r), log := st1.log ++ [k] }, r)

/-- `incremental.Run`: new generation, root `Resolve` (no caller task ⇒ no edges). -/
def run (body : Key → Script) (fuel : Nat) (st : St) (roots : List Key) :
    Option (St × List (Res × Bool)) :=
  let gen := st.counter + 1
  let st0 := { st with counter := gen, tasks := recordEdges st.tasks none roots }
  match resolveManyWith (execKey body gen fuel) gen st0 roots with
  | none => none
  | some (st1, rs) =>
    some (st1, rs.map (fun r => (r.val, r.runID == gen)))

/-! ### Evict -/

def callersOf (m : TaskMap) (k : Key) : List Key :=
  match m.get k with
  | some t => t.callers
  | none => []

def depsOf (m : TaskMap) (k : Key) : List Key :=
  match m.get k with
  | some t => t.deps
  | none => []

/-- remove `next` from the callers of each of its deps -/
def unlinkDeps (objs : TaskMap) (next : Key) : List Key → TaskMap
  | [] => objs
  | d :: ds => unlinkDeps (modify objs d (fun t => { t with callers := t.callers.filter (· != next) })) next ds

/-- The work-list loop of `EvictWithCleanup`. `objs` are the task objects (they outlive their
    removal from the map), `dead` the keys removed from `Executor.tasks` so far; the head of
    `work` is the END of the Go slice (LIFO). -/
def evictLoop : Nat → TaskMap → List Key → List Key → Option (TaskMap × List Key)
  | 0, _, _, _ => none
  | _ + 1, objs, dead, [] => some (objs, dead)
  | fuel + 1, objs, dead, next :: work =>
    let work' := (callersOf objs next).reverse ++ work
    let objs' := unlinkDeps objs next (depsOf objs next)
    evictLoop fuel objs' (next :: dead) work'

/-- `Executor.EvictWithCleanup(keys, nil)`; keys without a task are ignored. -/
def evict (fuel : Nat) (st : St) (keys : List Key) : Option St :=
  let present := keys.filter (fun k => (st.tasks.get k).isSome)
  match evictLoop fuel st.tasks [] present.reverse with
  | none => none
  | some (objs, dead) =>
    some { st with tasks := ⟨fun k => if k ∈ dead then none else objs.get k⟩ }

/-- `Executor.Keys()` restricted to a key universe: tasks with a completed result -/
def doneKeys (st : St) (univ : List Key) : List Key :=
  univ.filter (fun k => match resultOf st.tasks k with | .done _ => true | _ => false)

end PCV.Incr
