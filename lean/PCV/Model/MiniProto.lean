/-
MiniProto (E-LINK of DESIGN.md 5.1): executable model of the semantic analysis of
/repo (parser/result.go, parser/validate.go, linker/*.go, the pseudo-options of options/options.go,
compiler.go's per-file pipeline) on an abstract syntax of multi-file workspaces.

Parts: Algo (range sweeps, binary search, duplicate maps, naming), Ast (abstract syntax + wire),
Build (descriptor construction), Validate (validateBasic), Link (symbols, references, options,
ValidateOptions), Compile (pipeline + projection).
-/
import PCV.Model.MiniProto.Compile
