/-
MiniProto, part 2: abstract syntax of a multi-file workspace and its wire format.
The Go generator (harness/engines/miniproto*.go) emits the same records it renders to .proto
source text, so Lean never parses source.
-/
import PCV.Util.Wire
namespace PCV.MiniProto
open PCV.Wire

/-- file syntax: proto2 (declared or defaulted), proto3, edition 2023 -/
inductive Syn where
  | proto2 | proto3 | editions
  deriving DecidableEq, Repr, Inhabited

inductive Label where
  | none | optional | required | repeated
  deriving DecidableEq, Repr, Inhabited

/-- where a field/group record sits: directly in the body, in the preceding oneof, in the
    preceding extend block -/
inductive Ctx where
  | plain | oneof | ext
  deriving DecidableEq, Repr, Inhabited

/-- `default = …` literal -/
inductive Dflt where
  | int (v : Int) | bool (b : Bool) | str (s : String) | ident (s : String)
  deriving DecidableEq, Repr, Inhabited

/-- the end of a range declaration: `5`, `5 to 9`, `5 to max` -/
inductive RangeEnd where
  | single | max | lit (v : Int)
  deriving DecidableEq, Repr, Inhabited

structure FieldA where
  label : Label
  ty : String
  name : String
  number : Nat
  json : Option String
  packed : Option Bool
  dflt : Option Dflt
  deriving DecidableEq, Repr, Inhabited

structure GroupA where
  label : Label
  name : String
  number : Nat
  body : Nat
  deriving DecidableEq, Repr, Inhabited

inductive Member where
  | field (f : FieldA) | group (g : GroupA)
  deriving DecidableEq, Repr, Inhabited

inductive Elem where
  | msg (i : Nat) | enum (i : Nat) | svc (i : Nat)
  | field (f : FieldA) | group (g : GroupA)
  | map (key val name : String) (number : Nat)
  | oneof (name : String) (members : List Member)
  | extend (extendee : String) (members : List Member)
  | extRange (start : Int) (stop : RangeEnd)
  | reserved (start : Int) (stop : RangeEnd)
  | reservedName (name : String) (ident : Bool)
  | value (name : String) (number : Int)
  | allowAlias (b : Bool)
  | msgSet (b : Bool)      -- `option message_set_wire_format = true|false;` at this position
  | rpc (name inTy outTy : String) (cs ss : Bool)
  deriving Repr, Inhabited

structure Body where
  name : String
  elems : List Elem
  deriving Repr, Inhabited

inductive ImportKind where
  | plain | pub | weak
  deriving DecidableEq, Repr, Inhabited

structure FileA where
  path : String
  syn : Syn
  pkg : String            -- "" = no package statement
  imports : List (String × ImportKind)
  top : List Elem
  msgs : List Body
  enums : List Body
  svcs : List Body
  deriving Repr, Inhabited

abbrev Workspace := List FileA

/-! ## wire format -/

def strOfHex (s : String) : Option String :=
  match s.toList with
  | 'h' :: rest =>
    match bytesOfHexChars rest with
    | some bs => some (String.ofList (bs.map (fun b => Char.ofNat b.toNat)))
    | none => none
  | _ => none

/-- bytes of a (Latin-1 decoded) string back to hex; names are ASCII -/
def hexOfStr (s : String) : String :=
  "h" ++ String.join (s.toList.map (fun c => hexOfByte (UInt8.ofNat c.toNat)))

def parseLabel : String → Option Label
  | "-" => some .none | "o" => some .optional | "q" => some .required | "r" => some .repeated
  | _ => none

def parseOptStr (s : String) : Option (Option String) :=
  if s == "-" then some none else (strOfHex s).map some

def parsePacked : String → Option (Option Bool)
  | "-" => some none | "t" => some (some true) | "f" => some (some false) | _ => none

def parseDflt (s : String) : Option (Option Dflt) :=
  if s == "-" then some none
  else match s.toList with
    | 'i' :: rest => (String.ofList rest).toInt?.map (fun v => some (.int v))
    | ['b', 't'] => some (some (.bool true))
    | ['b', 'f'] => some (some (.bool false))
    | 's' :: rest => (strOfHex (String.ofList ('h' :: rest))).map (fun v => some (.str v))
    | 'e' :: rest => if rest.isEmpty then none else some (some (.ident (String.ofList rest)))
    | _ => none

def parseRangeEnd (s : String) : Option RangeEnd :=
  if s == "-" then some .single else if s == "max" then some .max else s.toInt?.map .lit

def parseBit : String → Option Bool
  | "0" => some false | "1" => some true | _ => none

/-- a flat record: kind, context (for f/g), element -/
inductive Rec where
  | note
  | file (path : String) (syn : Syn) (pkg : String)
  | imp (path : String) (k : ImportKind)
  | bodyFile
  | bodyMsg (name : String) | bodyEnum (name : String) | bodySvc (name : String)
  | elem (ctx : Ctx) (e : Elem)
  deriving Repr, Inhabited

def parseCtx : String → Option Ctx
  | "-" => some .plain | "o" => some .oneof | "x" => some .ext | _ => none

/-- one record off the token list -/
def parseRec : List String → Option (Rec × List String)
  | "Q" :: _ :: t => some (.note, t)
  | "F" :: p :: s :: pkg :: t =>
    let syn? : Option Syn := match s with
      | "2" => some .proto2 | "n" => some .proto2 | "3" => some .proto3 | "e" => some .editions | _ => none
    syn?.map (fun syn => (.file p syn (if pkg == "-" then "" else pkg), t))
  | "I" :: p :: k :: t =>
    let k? : Option ImportKind := match k with
      | "n" => some .plain | "p" => some .pub | "w" => some .weak | _ => none
    k?.map (fun k => (.imp p k, t))
  | "BF" :: t => some (.bodyFile, t)
  | "BM" :: n :: t => some (.bodyMsg n, t)
  | "BE" :: n :: t => some (.bodyEnum n, t)
  | "BS" :: n :: t => some (.bodySvc n, t)
  | "c" :: i :: t => i.toNat?.map (fun i => (.elem .plain (.msg i), t))
  | "n" :: i :: t => i.toNat?.map (fun i => (.elem .plain (.enum i), t))
  | "s" :: i :: t => i.toNat?.map (fun i => (.elem .plain (.svc i), t))
  | "f" :: ctx :: lbl :: ty :: name :: num :: json :: packed :: dflt :: t => do
    let c ← parseCtx ctx
    let l ← parseLabel lbl
    let n ← num.toNat?
    let j ← parseOptStr json
    let p ← parsePacked packed
    let d ← parseDflt dflt
    pure (.elem c (.field { label := l, ty := ty, name := name, number := n, json := j, packed := p, dflt := d }), t)
  | "g" :: ctx :: lbl :: name :: num :: body :: t => do
    let c ← parseCtx ctx
    let l ← parseLabel lbl
    let n ← num.toNat?
    let b ← body.toNat?
    pure (.elem c (.group { label := l, name := name, number := n, body := b }), t)
  | "m" :: k :: v :: name :: num :: t => num.toNat?.map (fun n => (.elem .plain (.map k v name n), t))
  | "o" :: name :: t => some (.elem .plain (.oneof name []), t)
  | "x" :: ext :: t => some (.elem .plain (.extend ext []), t)
  | "er" :: s :: e :: t => do
    let s ← s.toInt?
    let e ← parseRangeEnd e
    pure (.elem .plain (.extRange s e), t)
  | "rr" :: s :: e :: t => do
    let s ← s.toInt?
    let e ← parseRangeEnd e
    pure (.elem .plain (.reserved s e), t)
  | "rn" :: n :: st :: t => do
    let n ← strOfHex n
    let i ← (match st with | "s" => some false | "i" => some true | _ => none)
    pure (.elem .plain (.reservedName n i), t)
  | "v" :: name :: num :: t => num.toInt?.map (fun n => (.elem .plain (.value name n), t))
  | "aa" :: b :: t => (match b with | "t" => some true | "f" => some false | _ => none).map
      (fun b => (.elem .plain (.allowAlias b), t))
  | "ms" :: b :: t => (match b with | "t" => some true | "f" => some false | _ => none).map
      (fun b => (.elem .plain (.msgSet b), t))
  | "rpc" :: name :: i :: o :: cs :: ss :: t => do
    let cs ← parseBit cs
    let ss ← parseBit ss
    pure (.elem .plain (.rpc name i o cs ss), t)
  | _ => none

/-- all records; fuel = number of tokens (every record consumes at least one) -/
def parseRecs : Nat → List String → Option (List Rec)
  | _, [] => some []
  | 0, _ :: _ => none
  | fuel + 1, ts => match parseRec ts with
    | some (r, rest) => (parseRecs fuel rest).map (r :: ·)
    | none => none

/-- attach a member to the last element of a body if that is the right kind of block -/
def attachMember (ctx : Ctx) (m : Member) (elems : List Elem) : Option (List Elem) :=
  match elems.reverse with
  | .oneof n ms :: before => if ctx == .oneof then some ((.oneof n (ms ++ [m]) :: before).reverse) else none
  | .extend x ms :: before => if ctx == .ext then some ((.extend x (ms ++ [m]) :: before).reverse) else none
  | _ => none

def addElem (ctx : Ctx) (e : Elem) (elems : List Elem) : Option (List Elem) :=
  match ctx, e with
  | .plain, e => some (elems ++ [e])
  | c, .field f => attachMember c (.field f) elems
  | c, .group g => attachMember c (.group g) elems
  | _, _ => none

/-- which body is open -/
inductive Cur where
  | none | top | msg | enum | svc
  deriving DecidableEq

structure PState where
  files : List FileA := []
  cur : Cur := .none

def updLast {α : Type} (f : α → Option α) : List α → Option (List α)
  | [] => none
  | [x] => (f x).map ([·])
  | x :: rest => (updLast f rest).map (x :: ·)

def stepRec (st : PState) : Rec → Option PState
  | .note => some st
  | .file p s pkg =>
    some { files := st.files ++ [{ path := p, syn := s, pkg := pkg, imports := [], top := [], msgs := [], enums := [], svcs := [] }], cur := .none }
  | .imp p k =>
    if st.cur != .none then none
    else (updLast (fun f => some { f with imports := f.imports ++ [(p, k)] }) st.files).map (fun fs => { st with files := fs })
  | .bodyFile => if st.files.isEmpty then none else some { st with cur := .top }
  | .bodyMsg n => (updLast (fun f => some { f with msgs := f.msgs ++ [{ name := n, elems := [] }] }) st.files).map
      (fun fs => { files := fs, cur := .msg })
  | .bodyEnum n => (updLast (fun f => some { f with enums := f.enums ++ [{ name := n, elems := [] }] }) st.files).map
      (fun fs => { files := fs, cur := .enum })
  | .bodySvc n => (updLast (fun f => some { f with svcs := f.svcs ++ [{ name := n, elems := [] }] }) st.files).map
      (fun fs => { files := fs, cur := .svc })
  | .elem ctx e =>
    let inBody (b : Body) : Option Body := (addElem ctx e b.elems).map (fun es => { b with elems := es })
    match st.cur with
    | .none => none
    | .top => (updLast (fun f => (addElem ctx e f.top).map (fun es => { f with top := es })) st.files).map (fun fs => { st with files := fs })
    | .msg => (updLast (fun f => (updLast inBody f.msgs).map (fun ms => { f with msgs := ms })) st.files).map (fun fs => { st with files := fs })
    | .enum => (updLast (fun f => (updLast inBody f.enums).map (fun ms => { f with enums := ms })) st.files).map (fun fs => { st with files := fs })
    | .svc => (updLast (fun f => (updLast inBody f.svcs).map (fun ms => { f with svcs := ms })) st.files).map (fun fs => { st with files := fs })

def foldRecs (st : PState) : List Rec → Option PState
  | [] => some st
  | r :: rest => match stepRec st r with
    | some st' => foldRecs st' rest
    | none => none

/-- `ws <records…>` -/
def parseWorkspace (line : String) : Option Workspace :=
  match words line with
  | "ws" :: ts =>
    match parseRecs ts.length ts with
    | some recs => (foldRecs {} recs).map (·.files)
    | none => none
  | _ => none

end PCV.MiniProto
