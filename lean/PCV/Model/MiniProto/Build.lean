/-
MiniProto, part 3: descriptor construction — /repo/parser/result.go
(`createFileDescriptor`, `addMessageBody`, `asFieldDescriptor`, `asGroupDescriptors`,
`asMapDescriptors`, `asExtensionRanges`, `asEnumDescriptor`, `getRangeBounds`, `checkTag`,
`addReservedNames`, `processProto3OptionalFields`, `fillInMissingLabels`).

Descriptors are kept FLAT: every message carries its full name and the messages of a file are
listed in the pre-order of the real `nested_type` trees, which is all the later phases need.
-/
import PCV.Model.MiniProto.Algo
import PCV.Model.MiniProto.Ast
namespace PCV.MiniProto

/-- which AST node a field descriptor came from (`r.FieldNode(fld)`) -/
inductive FieldOrigin where
  | field | group | map | mapKey | mapValue
  deriving DecidableEq, Repr, Inhabited

/-- `FieldDescriptorProto` (modelled fields) plus the uninterpreted pseudo/simple options -/
structure FieldD where
  name : String
  number : Int
  label : Option Nat          -- 1 optional, 2 required, 3 repeated; none = absent before fill-in
  type : Option Nat           -- FieldDescriptorProto.Type; none until linked
  typeName : String := ""
  extendee : String := ""
  jsonName : String
  oneofIndex : Option Nat := none
  proto3Optional : Bool := false
  origin : FieldOrigin := .field
  optJson : Option String := none
  optPacked : Option Bool := none
  optDflt : Option Dflt := none
  /-- `default_value` after option interpretation -/
  defaultValue : Option String := none
  deriving Repr, Inhabited

structure EnumD where
  fullName : String
  name : String
  scope : String              -- full name of the parent ("" at top level without package)
  values : List (String × Int)
  allowAlias : Option Bool
  reservedRanges : List TagRange
  reservedNames : List String
  deriving Repr, Inhabited

structure MsgD where
  fullName : String
  name : String
  fields : List FieldD := []
  extensions : List FieldD := []
  oneofs : List String := []
  extRanges : List TagRange := []
  reservedRanges : List TagRange := []
  reservedNames : List String := []
  enums : List EnumD := []
  /-- names of the nested types in `nested_type` order -/
  nested : List String := []
  mapEntry : Bool := false
  /-- `options.message_set_wire_format`, if the option is written -/
  messageSet : Option Bool := none
  deriving Repr, Inhabited

structure MethodD where
  name : String
  inputType : String
  outputType : String
  clientStreaming : Bool
  serverStreaming : Bool
  deriving Repr, Inhabited

structure SvcD where
  fullName : String
  name : String
  methods : List MethodD
  deriving Repr, Inhabited

structure FileD where
  path : String
  pkg : String
  syn : Syn
  deps : List String
  publicDeps : List Nat
  weakDeps : List Nat
  /-- all messages of the file, pre-order of the nested_type trees -/
  msgs : List MsgD
  /-- names of the top-level messages in `message_type` order -/
  topMsgs : List String
  enums : List EnumD
  extensions : List FieldD
  svcs : List SvcD
  deriving Repr, Inhabited

abbrev Rule := String

def joinName (scope name : String) : String := if scope.isEmpty then name else scope ++ "." ++ name

/-- naming functions of the construction; the model uses Go's, the reference uses protoc's -/
structure Naming where
  jsonName : String → String
  mapEntryName : String → String
  /-- names of synthetic oneofs: message descriptor so far ↦ optional-field names ↦ oneof names -/
  synthNames : MsgD → List String → List String

/-- `allNames` of `processProto3OptionalFields`: fields, oneofs, and (Go only) extensions, enums,
    enum values, nested types -/
def goAllNames (m : MsgD) : List String :=
  m.fields.map (·.name) ++ m.oneofs ++ m.extensions.map (·.name) ++
    (m.enums.flatMap (fun e => e.name :: e.values.map (·.1))) ++ m.nested

def goNaming : Naming :=
  { jsonName := jsonName, mapEntryName := mapEntryName,
    synthNames := fun m fs => synthOneofNames (goAllNames m) fs }

def scalarType : String → Option Nat
  | "double" => some 1 | "float" => some 2 | "int64" => some 3 | "uint64" => some 4
  | "int32" => some 5 | "fixed64" => some 6 | "fixed32" => some 7 | "bool" => some 8
  | "string" => some 9 | "bytes" => some 12 | "uint32" => some 13 | "sfixed32" => some 15
  | "sfixed64" => some 16 | "sint32" => some 17 | "sint64" => some 18
  | _ => none

def labelNum : Label → Option Nat
  | .none => none | .optional => some 1 | .required => some 2 | .repeated => some 3

/-- `newFieldDescriptor` -/
def newFieldD (nm : Naming) (name ty : String) (number : Int) (lbl : Option Nat) : FieldD :=
  match scalarType ty with
  | some t => { name := name, number := number, label := lbl, type := some t, jsonName := nm.jsonName name }
  | none => { name := name, number := number, label := lbl, type := none, typeName := ty, jsonName := nm.jsonName name }

def tagErrs (v maxTag : Nat) : List Rule :=
  match checkTag v maxTag with
  | some r => [r]
  | none => []

/-- `asFieldDescriptor` -/
def asFieldD (nm : Naming) (syn : Syn) (maxTag : Nat) (f : FieldA) : FieldD × List Rule :=
  let fd := newFieldD nm f.name f.ty (Int.ofNat f.number) (labelNum f.label)
  let fd := { fd with optJson := f.json, optPacked := f.packed, optDflt := f.dflt }
  let fd := if syn == .proto3 && fd.label == some 1 then { fd with proto3Optional := true } else fd
  (fd, tagErrs f.number maxTag)

def isUpperStart (s : String) : Bool :=
  match s.toList with
  | c :: _ => 'A' ≤ c && c ≤ 'Z'
  | [] => false

/-- the field half of `asGroupDescriptors` -/
def asGroupFieldD (nm : Naming) (maxTag : Nat) (g : GroupA) : FieldD × List Rule :=
  let fieldName := toLowerStr g.name
  ({ name := fieldName, number := Int.ofNat g.number, label := labelNum g.label, type := some 10,
     typeName := g.name, jsonName := nm.jsonName fieldName, origin := .group },
   tagErrs g.number maxTag ++ (if isUpperStart g.name then [] else ["group-lowercase"]))

/-- `getRangeBounds(rng, minVal, maxVal)`; the literal `max` stands for `maxVal` -/
def rangeBounds (start : Int) (stop : RangeEnd) (minVal maxVal : Int) : (Int × Int) × List Rule :=
  let startOk := decide (minVal ≤ start) && decide (start ≤ maxVal)
  let stopV : Int := match stop with | .single => start | .max => maxVal | .lit v => v
  let stopOk := match stop with
    | .single => startOk     -- EndValueAsInt32 of a single-number range is its start
    | .max => true
    | .lit v => decide (minVal ≤ v) && decide (v ≤ maxVal)
  let e1 : List Rule := if startOk then [] else ["range-oob"]
  let e2 : List Rule := if stopOk then [] else (match stop with | .single => [] | _ => ["range-oob"])
  let e3 : List Rule := if startOk && stopOk && decide (start > stopV) then ["range-inverted"] else []
  ((start, stopV), e1 ++ e2 ++ e3)

/-- `addReservedNames` for one `reserved` statement holding one name -/
def addReservedName (syn : Syn) (already : List String) (name : String) (ident : Bool) :
    List String × List Rule :=
  let styleErr : List Rule :=
    if syn == .editions then (if ident then [] else ["rsvd-name-style"])
    else (if ident then ["rsvd-name-style"] else [])
  -- a name of the wrong style is not added (only the right kind of list is iterated)
  let wrong := (syn == .editions) != ident
  if wrong then (already, styleErr)
  else if already.contains name then (already, styleErr ++ ["rsvd-name-dup"])
  else (already ++ [name], styleErr)

def int32Min : Int := -2147483648
def int32Max : Int := 2147483647

/-- `asEnumDescriptor` -/
def buildEnum (syn : Syn) (scope : String) (b : Body) : EnumD × List Rule :=
  let step := fun (acc : EnumD × List Rule) (e : Elem) =>
    let (ed, errs) := acc
    match e with
    | .allowAlias v => ({ ed with allowAlias := (match ed.allowAlias with | some x => some x | none => some v) }, errs)
    | .value n num =>
      ({ ed with values := ed.values ++ [(n, num)] },
       errs ++ (if decide (int32Min ≤ num) && decide (num ≤ int32Max) then [] else ["enum-value-oob"]))
    | .reserved s e =>
      let (r, es) := rangeBounds s e int32Min int32Max
      ({ ed with reservedRanges := ed.reservedRanges ++ [{ start := r.1, stop := r.2 }] }, errs ++ es)
    | .reservedName n i =>
      let (names, es) := addReservedName syn ed.reservedNames n i
      ({ ed with reservedNames := names }, errs ++ es)
    | _ => (ed, errs)
  b.elems.foldl step
    ({ fullName := joinName scope b.name, name := b.name, scope := scope, values := [], allowAlias := none,
       reservedRanges := [], reservedNames := [] }, [])

/-- what walking one message produces -/
structure MsgOut where
  msgs : List MsgD          -- this message first, then its descendants (pre-order)
  errs : List Rule

instance : Inhabited MsgOut := ⟨{ msgs := [], errs := [] }⟩

/-- `asMapDescriptors` -/
def mapDescriptors (nm : Naming) (syn : Syn) (scope : String) (maxTag : Nat)
    (key val name : String) (number : Nat) : FieldD × MsgD × List Rule :=
  let lbl : Option Nat := if syn == .proto2 then some 1 else none
  let keyFd := { newFieldD nm "key" key 1 lbl with origin := .mapKey }
  let valFd := { newFieldD nm "value" val 2 lbl with origin := .mapValue }
  let entryName := nm.mapEntryName name
  let fd := { newFieldD nm name entryName (Int.ofNat number) (some 3) with origin := .map }
  (fd, { fullName := joinName scope entryName, name := entryName, fields := [keyFd, valFd], mapEntry := true },
   tagErrs number maxTag)

/-- the oneof-index bookkeeping of `processProto3OptionalFields` -/
def assignSynthetic (base : Nat) : List FieldD → List String → List FieldD
  | [], _ => []
  | f :: rest, names =>
    if f.proto3Optional then
      match names with
      | _ :: ns => { f with oneofIndex := some base } :: assignSynthetic (base + 1) rest ns
      | [] => f :: assignSynthetic base rest []
    else f :: assignSynthetic base rest names

def processProto3Optional (nm : Naming) (m : MsgD) : MsgD :=
  let opt := (m.fields.filter (·.proto3Optional)).map (·.name)
  if opt.isEmpty then m
  else
    let names := nm.synthNames m opt
    { m with fields := assignSynthetic m.oneofs.length m.fields names, oneofs := m.oneofs ++ names }

/-- `addMessageBody` state: the message so far, descendants (pre-order), errors -/
structure BodyAcc where
  m : MsgD
  kids : List MsgD := []
  errs : List Rule := []
  deriving Inhabited

/-- the recursive call `asMessageDescriptor`/`addMessageBody` for a nested body:
    scope ↦ name ↦ elements ↦ depth ↦ result -/
abbrev BodyRec := String → String → List Elem → Nat → MsgOut

/-- `asGroupDescriptors(group, syntax, maxTag, handler, depth)` (depth already incremented) -/
def buildGroup (nm : Naming) (f : FileA) (rec : BodyRec) (scope : String) (maxTag : Nat)
    (depth : Nat) (g : GroupA) : FieldD × MsgOut × List Rule :=
  let (fd, e) := asGroupFieldD nm maxTag g
  match f.msgs[g.body]? with
  | none => (fd, default, e)
  | some b =>
    let mo := rec scope g.name b.elems depth
    (fd, mo, e ++ mo.errs)

/-- members of a oneof / extend block; returns fields, child messages (groups), errors -/
def buildMembers (nm : Naming) (f : FileA) (syn : Syn) (rec : BodyRec) (scope : String) (maxTag : Nat)
    (depth : Nat) : List Member → List FieldD × List (String × MsgOut) × List Rule
  | [] => ([], [], [])
  | .field a :: rest =>
    let (fs, ms, es) := buildMembers nm f syn rec scope maxTag depth rest
    let (fd, e) := asFieldD nm syn maxTag a
    (fd :: fs, ms, e ++ es)
  | .group g :: rest =>
    let (fd, mo, e) := buildGroup nm f rec scope maxTag depth g
    let (fs, ms, es) := buildMembers nm f syn rec scope maxTag depth rest
    (fd :: fs, (g.name, mo) :: ms, e ++ es)

/-- one iteration of the `for _, decl := range body.Decls` loop of `addMessageBody` -/
def buildElem (nm : Naming) (f : FileA) (syn : Syn) (rec : BodyRec) (maxTag : Nat) (fq : String) (depth : Nat)
    (acc : BodyAcc) (e : Elem) : BodyAcc :=
  let m := acc.m
  match e with
  | .enum i =>
    match f.enums[i]? with
    | none => acc
    | some b =>
      let (ed, ee) := buildEnum syn fq b
      { acc with m := { m with enums := m.enums ++ [ed] }, errs := acc.errs ++ ee }
  | .extend x members =>
    let (fs, ms, ee) := buildMembers nm f syn rec fq messageSetMax (depth + 1) members
    let fs := fs.map (fun fd => { fd with extendee := x })
    { m := { m with extensions := m.extensions ++ fs, nested := m.nested ++ ms.map (·.1) },
      kids := acc.kids ++ ms.flatMap (·.2.msgs),
      errs := acc.errs ++ ee ++ (if members.isEmpty then ["extend-empty"] else []) }
  | .extRange s e =>
    let (r, ee) := rangeBounds s e 1 (Int.ofNat maxTag)
    { acc with m := { m with extRanges := m.extRanges ++ [{ start := r.1, stop := r.2 + 1 }] }, errs := acc.errs ++ ee }
  | .field a =>
    let (fd, ee) := asFieldD nm syn maxTag a
    { acc with m := { m with fields := m.fields ++ [fd] }, errs := acc.errs ++ ee }
  | .map k v n num =>
    let (fd, md, ee) := mapDescriptors nm syn fq maxTag k v n num
    { m := { m with fields := m.fields ++ [fd], nested := m.nested ++ [md.name] }, kids := acc.kids ++ [md],
      errs := acc.errs ++ ee ++ (if depth + 1 ≥ 32 then ["depth"] else []) }
  | .group g =>
    let (fd, mo, ee) := buildGroup nm f rec fq maxTag (depth + 1) g
    { m := { m with fields := m.fields ++ [fd], nested := m.nested ++ [g.name] }, kids := acc.kids ++ mo.msgs,
      errs := acc.errs ++ ee }
  | .oneof n members =>
    let idx := m.oneofs.length
    let (fs, ms, ee) := buildMembers nm f syn rec fq maxTag (depth + 1) members
    let fs := fs.map (fun fd => { fd with oneofIndex := some idx })
    { m := { m with oneofs := m.oneofs ++ [n], fields := m.fields ++ fs, nested := m.nested ++ ms.map (·.1) },
      kids := acc.kids ++ ms.flatMap (·.2.msgs),
      errs := acc.errs ++ ee ++ (if members.isEmpty then ["oneof-empty"] else []) }
  | .msg i =>
    match f.msgs[i]? with
    | none => acc
    | some b =>
      let mo := rec fq b.name b.elems (depth + 1)
      { m := { m with nested := m.nested ++ [b.name] }, kids := acc.kids ++ mo.msgs, errs := acc.errs ++ mo.errs }
  | .reserved s e =>
    let (r, ee) := rangeBounds s e 1 (Int.ofNat maxTag)
    { acc with m := { m with reservedRanges := m.reservedRanges ++ [{ start := r.1, stop := r.2 + 1 }] }, errs := acc.errs ++ ee }
  | .reservedName n i =>
    let (names, ee) := addReservedName syn m.reservedNames n i
    { acc with m := { m with reservedNames := names }, errs := acc.errs ++ ee }
  | _ => acc

/-- the values of the `message_set_wire_format` options of a body, in order (the first pass of
    `addMessageBody` collects ALL options before anything else is looked at) -/
def msgSetOptions (elems : List Elem) : List Bool :=
  elems.filterMap (fun e => match e with | .msgSet b => some b | _ => none)

/-- `asMessageDescriptor` / the message half of `asGroupDescriptors`: `checkDepth`, then
    `addMessageBody` (options first: `isMessageSetWireFormat` decides `maxTag` for the WHOLE body,
    wherever the option stands) and `processProto3OptionalFields`. Recursion on `fuel` (nesting). -/
def buildBody (nm : Naming) (f : FileA) (syn : Syn) : Nat → BodyRec
  | 0, _, _, _, _ => default
  | fuel + 1, scope, name, elems, depth =>
    let fq := joinName scope name
    if depth ≥ 32 then
      -- "message nesting depth must be less than 32": the body is not processed
      { msgs := [{ fullName := fq, name := name }], errs := ["depth"] }
    else
      let opts := msgSetOptions elems
      if opts.length > 1 then
        -- `FindOption`: "option message_set_wire_format cannot be defined more than once"; return
        { msgs := [{ fullName := fq, name := name }], errs := ["option-dup"] }
      else
        let isSet := opts == [true]
        let maxTag := if isSet then messageSetMax else fieldMax
        let e0 : List Rule := if isSet && syn == .proto3 then ["msgset-proto3"] else []
        let acc := elems.foldl (buildElem nm f syn (buildBody nm f syn fuel) maxTag fq depth)
          { m := { fullName := fq, name := name, messageSet := opts.head? }, errs := e0 }
        let e1 : List Rule :=
          if isSet then
            (if acc.m.fields.isEmpty then [] else ["msgset-field"]) ++
            (if acc.m.extRanges.isEmpty then ["msgset-no-ext-range"] else [])
          else []
        let m := if syn == .proto3 then processProto3Optional nm acc.m else acc.m
        { msgs := m :: acc.kids, errs := acc.errs ++ e1 }

/-- `fillInMissingLabel` -/
def fillLabel (f : FieldD) : FieldD :=
  match f.label with
  | none => { f with label := some 1 }
  | some _ => f

def fillLabelsMsg (m : MsgD) : MsgD :=
  { m with fields := m.fields.map fillLabel, extensions := m.extensions.map fillLabel }

def buildSvc (scope : String) (b : Body) : SvcD :=
  { fullName := joinName scope b.name, name := b.name,
    methods := b.elems.filterMap (fun e => match e with
      | .rpc n i o cs ss => some { name := n, inputType := i, outputType := o, clientStreaming := cs, serverStreaming := ss }
      | _ => none) }

def importIndexes (imports : List (String × ImportKind)) (k : ImportKind) : List Nat :=
  ((List.range imports.length).zip imports).filterMap (fun p => if p.2.2 == k then some p.1 else none)

/-- more than the rendering-depth limit of the Go harness (40 levels) -/
def buildFuel : Nat := 64

/-- the `for _, decl := range file.Decls` loop of `createFileDescriptor` -/
def buildTop (nm : Naming) (f : FileA) : List Elem → FileD × List Rule → FileD × List Rule
  | [], acc => acc
  | e :: rest, (fd, errs) =>
    let acc' : FileD × List Rule :=
      match e with
      | .enum i =>
        match f.enums[i]? with
        | none => (fd, errs)
        | some b =>
          let (ed, ee) := buildEnum f.syn f.pkg b
          ({ fd with enums := fd.enums ++ [ed] }, errs ++ ee)
      | .extend x members =>
        let (fs, ms, ee) := buildMembers nm f f.syn (buildBody nm f f.syn buildFuel) f.pkg messageSetMax 1 members
        let fs := fs.map (fun d => { d with extendee := x })
        ({ fd with extensions := fd.extensions ++ fs, topMsgs := fd.topMsgs ++ ms.map (·.1),
                   msgs := fd.msgs ++ ms.flatMap (·.2.msgs) },
         errs ++ ee ++ (if members.isEmpty then ["extend-empty"] else []))
      | .msg i =>
        match f.msgs[i]? with
        | none => (fd, errs)
        | some b =>
          let mo := buildBody nm f f.syn buildFuel f.pkg b.name b.elems 1
          ({ fd with topMsgs := fd.topMsgs ++ [b.name], msgs := fd.msgs ++ mo.msgs }, errs ++ mo.errs)
      | .svc i =>
        match f.svcs[i]? with
        | none => (fd, errs)
        | some b => ({ fd with svcs := fd.svcs ++ [buildSvc f.pkg b] }, errs)
      | _ => (fd, errs)
    buildTop nm f rest acc'

/-- `createFileDescriptor` (labels still as written: validateBasic looks at them) -/
def buildFile (nm : Naming) (f : FileA) : FileD × List Rule :=
  -- `case *ast.PackageNode`: length and depth limits of the package name
  let pkgErrs : List Rule :=
    (if f.pkg.toList.length ≥ 512 then ["pkg-too-long"] else []) ++
    (if (f.pkg.toList.filter (· == '.')).length > 100 then ["pkg-too-deep"] else [])
  let r := buildTop nm f f.top
    ({ path := f.path, pkg := f.pkg, syn := f.syn, deps := f.imports.map (·.1),
       publicDeps := importIndexes f.imports .pub, weakDeps := importIndexes f.imports .weak,
       msgs := [], topMsgs := [], enums := [], extensions := [], svcs := [] }, [])
  (r.1, pkgErrs ++ r.2)

end PCV.MiniProto
