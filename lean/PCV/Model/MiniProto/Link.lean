/-
MiniProto, part 5: linking — /repo/linker/symbols.go (collisions), /repo/linker/resolve.go
(`resolveFieldTypes`, `resolveMethodTypes`; the scoped lookup itself is PCV.Model.Resolve, the
model of C15, reused here and not duplicated), the pseudo/simple options of
/repo/options/options.go that MiniProto has (json_name, default, packed, allow_alias) and
/repo/linker/validate.go (`ValidateOptions`).
-/
import PCV.Model.Resolve
import PCV.Model.MiniProto.Validate
namespace PCV.MiniProto
open PCV.Resolve (Kind Desc Ref)

/-- `name[1:]` -/
def dropDot (s : String) : String := String.ofList (s.toList.drop 1)

def splitName (s : String) : List String := if s.isEmpty then [] else splitDots s
def dotted (n : List String) : String := ".".intercalate n

/-- the elements `walk.Descriptors` visits in a file: full name and kind -/
def msgSymbols (m : MsgD) : List (String × Kind) :=
  (m.fullName, Kind.msg) ::
    (m.fields.map (fun f => (joinName m.fullName f.name, Kind.field)) ++
     m.oneofs.map (fun o => (joinName m.fullName o, Kind.oneof)) ++
     m.extensions.map (fun f => (joinName m.fullName f.name, Kind.ext)) ++
     m.enums.flatMap (fun e => (e.fullName, Kind.enum) :: e.values.map (fun v => (joinName e.scope v.1, Kind.enumVal))))

def fileSymbols (fd : FileD) : List (String × Kind) :=
  fd.msgs.flatMap msgSymbols ++
  fd.enums.flatMap (fun e => (e.fullName, Kind.enum) :: e.values.map (fun v => (joinName e.scope v.1, Kind.enumVal))) ++
  fd.extensions.map (fun f => (joinName fd.pkg f.name, Kind.ext)) ++
  fd.svcs.flatMap (fun s => (s.fullName, Kind.svc) :: s.methods.map (fun m => (joinName s.fullName m.name, Kind.method)))

/-- the package and its prefixes, as `importPackages` registers them -/
def pkgPrefixes (pkg : String) : List String :=
  let parts := splitName pkg
  (List.range parts.length).map (fun i => dotted (parts.take (i + 1)))

/-- the linked workspace environment -/
structure Env where
  files : List FileD
  rfiles : PCV.Resolve.Files

def fileIndex (files : List FileD) (path : String) : Option Nat :=
  files.findIdx? (fun f => f.path == path)

def mkRFile (files : List FileD) (fd : FileD) : PCV.Resolve.FileDef :=
  { pkg := splitName fd.pkg,
    imports := ((List.range fd.deps.length).zip fd.deps).filterMap (fun p =>
      (fileIndex files p.2).map (fun i => (i, fd.publicDeps.contains p.1))),
    defs := (fileSymbols fd).map (fun s => (splitName s.1, s.2)) }

def mkEnv (files : List FileD) : Env :=
  { files := files, rfiles := files.map (mkRFile files) }

def parseRef (s : String) : Ref :=
  match s.toList with
  | '.' :: rest => { absolute := true, parts := (splitDotsChars rest).map String.ofList }
  | _ => { absolute := false, parts := splitDots s }

/-- `r.resolve(name, onlyTypes, scopes, checkedCache)` for a reference written inside `scope` -/
def resolveRef (env : Env) (root : Nat) (scope : String) (ref : String) (onlyTypes : Bool) : Option Desc :=
  PCV.Resolve.resolveInEnv false env.rfiles root (splitName scope) (parseRef ref) onlyTypes

def findMsg (env : Env) (fq : String) : Option (MsgD × FileD) :=
  env.files.findSome? (fun fd => (fd.msgs.find? (fun m => m.fullName == fq)).map (fun m => (m, fd)))

def allEnums (fd : FileD) : List EnumD := fd.enums ++ fd.msgs.flatMap (·.enums)

def findEnum (env : Env) (fq : String) : Option (EnumD × FileD) :=
  env.files.findSome? (fun fd => ((allEnums fd).find? (fun e => e.fullName == fq)).map (fun e => (e, fd)))

def allowedProto3Extendees : List String :=
  [".google.protobuf.FileOptions", ".google.protobuf.MessageOptions", ".google.protobuf.FieldOptions",
   ".google.protobuf.OneofOptions", ".google.protobuf.ExtensionRangeOptions", ".google.protobuf.EnumOptions",
   ".google.protobuf.EnumValueOptions", ".google.protobuf.ServiceOptions", ".google.protobuf.MethodOptions"]

/-- `dsc.IsMapEntry()` -/
def isMapEntryMsg (env : Env) (fq : String) : Bool :=
  match findMsg env fq with
  | some (m, _) => m.mapEntry
  | none => false

/-- the extendee half of `resolveFieldTypes`: (field, errors, stop) -/
def resolveExtendee (env : Env) (root : Nat) (syn : Syn) (scope : String) (f : FieldD) :
    FieldD × List Rule × Bool :=
  if f.extendee == "" then (f, [], false)
  else match resolveRef env root scope f.extendee false with
    | none => (f, ["extendee-unknown"], true)
    | some (.sentinel _) => (f, ["extendee-unknown"], true)
    | some (.elem n k) =>
      if k != .msg then (f, ["extendee-not-message"], true)
      else
        let fq := dotted n
        let f' := { f with extendee := "." ++ fq }
        let inRange := match findMsg env fq with
          | some (m, _) => m.extRanges.any (fun r => decide (r.start ≤ f.number) && decide (f.number < r.stop))
          | none => false
        let e := (if inRange then [] else ["ext-tag-not-in-range"]) ++
          (if syn == .proto3 && !allowedProto3Extendees.contains f'.extendee then ["p3-extend"] else [])
        (f', e, false)

/-- the type half of `resolveFieldTypes` -/
def resolveType (env : Env) (root : Nat) (scope : String) (f : FieldD) : FieldD × List Rule :=
  if f.typeName == "" then (f, [])
  else match resolveRef env root scope f.typeName true with
    | none => (f, ["type-unknown"])
    | some (.sentinel _) => (f, ["type-unknown"])
    | some (.elem n k) =>
      let fq := dotted n
      match k with
      | .msg =>
        if isMapEntryMsg env fq && f.origin != .map then (f, ["map-entry-ref"])
        else
          ({ f with typeName := "." ++ fq, type := (match f.type with | none => some 11 | some t => some t) }, [])
      | .enum =>
        ({ f with typeName := "." ++ fq, type := (match f.type with | none => some 14 | some t => some t) }, [])
      | _ => (f, ["type-not-type"])

/-- `resolveFieldTypes` for one field declared inside `scope` -/
def resolveField (env : Env) (root : Nat) (syn : Syn) (scope : String) (f : FieldD) : FieldD × List Rule :=
  let r := resolveExtendee env root syn scope f
  if r.2.2 then (r.1, r.2.1)
  else
    let t := resolveType env root scope r.1
    (t.1, r.2.1 ++ t.2)

def resolveFields (env : Env) (root : Nat) (syn : Syn) (scope : String) (fs : List FieldD) :
    List FieldD × List Rule :=
  let rs := fs.map (resolveField env root syn scope)
  (rs.map (·.1), rs.flatMap (·.2))

/-- `resolveMethodTypes` -/
def resolveMethodType (env : Env) (root : Nat) (scope : String) (ty : String) : String × List Rule :=
  match resolveRef env root scope ty false with
  | none => (ty, ["method-type-unknown"])
  | some (.sentinel _) => (ty, ["method-type-unknown"])
  | some (.elem n k) => if k == .msg then ("." ++ dotted n, []) else (ty, ["method-type-not-message"])

/-- `resolveReferences` over one file -/
def resolveFile (env : Env) (root : Nat) (fd : FileD) : FileD × List Rule :=
  let ms := fd.msgs.map (fun m =>
    let (fs, e1) := resolveFields env root fd.syn m.fullName m.fields
    let (xs, e2) := resolveFields env root fd.syn m.fullName m.extensions
    ({ m with fields := fs, extensions := xs }, e1 ++ e2))
  let (xs, e3) := resolveFields env root fd.syn fd.pkg fd.extensions
  let ss := fd.svcs.map (fun s =>
    let rs := s.methods.map (fun m =>
      let (i, ei) := resolveMethodType env root s.fullName m.inputType
      let (o, eo) := resolveMethodType env root s.fullName m.outputType
      ({ m with inputType := i, outputType := o }, ei ++ eo))
    ({ s with methods := rs.map (·.1) }, rs.flatMap (·.2)))
  ({ fd with msgs := ms.map (·.1), extensions := xs, svcs := ss.map (·.1) },
   ms.flatMap (·.2) ++ e3 ++ ss.flatMap (·.2))

/-- `Link`: symbol collisions inside the file, then references -/
def linkFile (ck : Checks) (env : Env) (root : Nat) (fd : FileD) : FileD × List Rule :=
  let names := (fileSymbols fd).map (·.1)
  let e1 : List Rule := if ck.dupStr names then ["dup-symbol"] else []
  let (fd', e2) := resolveFile env root fd
  (fd', e1 ++ e2)

/-! ## options (json_name, default, packed) -/

def showInt (i : Int) : String := toString i

/-- `processDefaultOption`'s value check for the literal kinds MiniProto has; `ty` is the
    resolved FieldDescriptorProto.Type -/
def defaultValue (env : Env) (f : FieldD) (d : Dflt) : Except Rule String :=
  match f.type with
  | some 14 =>
    match d with
    | .ident n =>
      match findEnum env (dropDot f.typeName) with
      | some (e, _) => if e.values.any (·.1 == n) then .ok n else .error "default-enum-unknown"
      | none => .error "default-enum-unknown"
    | .bool b =>
      -- `true` / `false` are identifiers in the AST
      let n := if b then "true" else "false"
      match findEnum env (dropDot f.typeName) with
      | some (e, _) => if e.values.any (·.1 == n) then .ok n else .error "default-enum-unknown"
      | none => .error "default-enum-unknown"
    | _ => .error "default-type"
  | some 8 =>
    match d with
    | .bool b => .ok (if b then "true" else "false")
    | .ident "true" => .ok "true"
    | .ident "false" => .ok "false"
    | _ => .error "default-type"
  | some 9 => match d with | .str s => .ok s | _ => .error "default-type"
  | some 12 => match d with | .str s => .ok s | _ => .error "default-type"   -- bytes: escaped; ASCII printable only in MiniProto
  | some t =>
    let range : Option (Int × Int) :=
      if t == 5 || t == 17 || t == 15 then some (-2147483648, 2147483647)
      else if t == 13 || t == 7 then some (0, 4294967295)
      else if t == 3 || t == 18 || t == 16 then some (-9223372036854775808, 9223372036854775807)
      else if t == 4 || t == 6 then some (0, 18446744073709551615)
      else none
    match range, d with
    | some (lo, hi), .int v => if decide (lo ≤ v) && decide (v ≤ hi) then .ok (showInt v) else .error "default-range"
    | some _, _ => .error "default-type"
    | none, .int v =>
      -- float/double: `fmt.Sprintf("%v", float64(v))` is the plain decimal below 10^6; larger
      -- integer literals and float literals are outside MiniProto
      if (t == 1 || t == 2) && decide (-1000000 < v) && decide (v < 1000000) then .ok (showInt v) else .error "default-float"
    | none, _ => .error "default-float"
  | none => .error "default-type"

/-- `strings.HasPrefix(jsonName, "[") && strings.HasSuffix(jsonName, "]")` -/
def bracketed (j : String) : Bool :=
  (match j.toList with | '[' :: _ => true | _ => false) &&
  (match j.toList.reverse with | ']' :: _ => true | _ => false)

/-- `interpretFieldPseudoOptions` + the regular `packed` option -/
def interpretField (env : Env) (nm : Naming) (f : FieldD) : FieldD × List Rule :=
  let (f, e1) : FieldD × List Rule :=
    match f.optJson with
    | none => (f, [])
    | some j =>
      if f.extendee != "" && j != "" && j != nm.jsonName f.name then (f, ["json-on-ext"])
      else if bracketed j then (f, ["json-brackets"])
      else ({ f with jsonName := j }, [])
  let (f, e2) : FieldD × List Rule :=
    match f.optDflt with
    | none => (f, [])
    | some d =>
      if f.label == some 3 then (f, ["default-repeated"])
      else if f.type == some 10 || f.type == some 11 then (f, ["default-message"])
      else match defaultValue env f d with
        | .ok s => ({ f with defaultValue := some s }, [])
        | .error r => (f, [r])
  (f, e1 ++ e2)

def interpretFields (env : Env) (nm : Naming) (fs : List FieldD) : List FieldD × List Rule :=
  let rs := fs.map (interpretField env nm)
  (rs.map (·.1), rs.flatMap (·.2))

def interpretFile (env : Env) (nm : Naming) (fd : FileD) : FileD × List Rule :=
  let ms := fd.msgs.map (fun m =>
    let (fs, e1) := interpretFields env nm m.fields
    let (xs, e2) := interpretFields env nm m.extensions
    ({ m with fields := fs, extensions := xs }, e1 ++ e2))
  let (xs, e3) := interpretFields env nm fd.extensions
  ({ fd with msgs := ms.map (·.1), extensions := xs }, ms.flatMap (·.2) ++ e3)

/-! ## ValidateOptions -/

/-- `enumDescriptor.IsClosed` with the feature defaults of the file's syntax -/
def enumClosed (fd : FileD) : Bool := fd.syn == .proto2

/-- `fldDescriptor.HasPresence` with the feature defaults of the file's syntax -/
def hasPresence (syn : Syn) (f : FieldD) : Bool :=
  if f.label == some 3 then false
  else if f.extendee != "" || f.type == some 11 || f.type == some 10 || f.oneofIndex.isSome then true
  else syn != .proto3

/-- `isJSONCompliant` -/
def jsonCompliant (syn : Syn) : Bool := syn != .proto2

/-- `msg.Options().GetMessageSetWireFormat()` of a resolved extendee -/
def extendeeIsMessageSet (env : Env) (extendee : String) : Bool :=
  match findMsg env (dropDot extendee) with
  | some (m, _) => m.messageSet == some true
  | none => false

/-- `validateField` -/
def validateFieldOpts (env : Env) (syn : Syn) (f : FieldD) : List Rule :=
  let e1 : List Rule :=
    (if f.optPacked.isSome && syn == .editions then ["packed-editions"] else []) ++
    (if f.optPacked == some true then
      (if f.label != some 3 then ["packed-non-repeated"] else []) ++
      (if f.type == some 9 || f.type == some 12 || f.type == some 11 || f.type == some 10 then ["packed-non-numeric"] else [])
     else [])
  let e2 : List Rule :=
    if f.type == some 14 then
      let requiresOpen := f.label != some 3 && !hasPresence syn f
      let closed := match findEnum env (dropDot f.typeName) with
        | some (_, efd) => enumClosed efd
        | none => false
      if requiresOpen && closed then ["closed-enum-implicit"] else []
    else []
  let e3 : List Rule := if f.defaultValue.isSome && !hasPresence syn f then ["default-implicit"] else []
  -- `validateExtension`
  let e4 : List Rule :=
    if f.extendee == "" then []
    else if extendeeIsMessageSet env f.extendee then
      (if f.type != some 11 then ["msgset-scalar-ext"] else []) ++
      (if f.label == some 3 then ["msgset-repeated-ext"] else [])
    else if decide (f.number > Int.ofNat fieldMax) then ["tag-too-high"] else []
  e1 ++ e2 ++ e3 ++ e4

/-- the shape shared by `validateFieldJSONNames` and `validateJSONNamesInEnum`: walk the entries
    with a Go map from name to the FIRST entry seen with that name (`seen`, newest first); an
    entry whose name is already present is judged against that first entry by `clash new first`
    and is not stored; returns whether some clash was reported -/
def firstSeenLoop {β : Type} (clash : β → β → Bool) : List (String × β) → List (String × β) → Bool
  | _, [] => false
  | seen, (name, v) :: rest =>
    match seen.find? (fun s => s.1 == name) with
    | some ex => clash v ex.2 || firstSeenLoop clash seen rest
    | none => firstSeenLoop clash ((name, v) :: seen) rest

/-- is a JSON-name conflict between a field and the first field of that name an ERROR?
    (`!useCustom || custom || existing.custom` decides whether it is reported at all,
    `!isJSONCompliant && !custom && !existing.custom` downgrades it to a warning) -/
def jsonClash (compliant useCustom : Bool) (custom existingCustom : Bool) : Bool :=
  (!useCustom || custom || existingCustom) && !( !compliant && !custom && !existingCustom)

/-- the name and custom flag one pass of `validateFieldJSONNames(md, useCustom)` uses for a field
    given as (default name, json_name, is custom) -/
def jsonPassView (useCustom : Bool) (f : String × String × Bool) : String × Bool :=
  if useCustom && f.2.2 then (f.2.1, true) else (f.1, false)

/-- one pass of `validateFieldJSONNames(md, useCustom)`: an ERROR is reported -/
def jsonNamesLoop (compliant useCustom : Bool) (fs : List (String × String × Bool)) : Bool :=
  firstSeenLoop (jsonClash compliant useCustom) [] (fs.map (jsonPassView useCustom))

/-- `validateJSONNamesInMessage`: both passes -/
def jsonConflictGo (compliant : Bool) (fs : List (String × String × Bool)) : Bool :=
  jsonNamesLoop compliant false fs || jsonNamesLoop compliant true fs

/-- what the passes look at for one field: default JSON name, json_name, "is custom"
    (`n != defaultName || r.hasCustomJSONName(fd)`) -/
def jsonView (nm : Naming) (f : FieldD) : String × String × Bool :=
  let dflt := nm.jsonName f.name
  (dflt, f.jsonName, f.jsonName != dflt || f.optJson.isSome)

/-- `validateJSONNamesInEnum` over (canonical name, number): an error is reported (the caller
    downgrades it to a warning when the enum is not JSON compliant). A value with the number of
    the stored one overwrites it in the Go map, which changes nothing observable. -/
def enumJsonConflictGo (vs : List (String × Int)) : Bool :=
  firstSeenLoop (fun (num ex : Int) => num != ex) [] vs

/-- the checks with the algorithms of the Go code -/
def goChecks : Checks :=
  { goChecksBase with jsonConflict := jsonConflictGo, enumJsonConflict := enumJsonConflictGo }

/-- `validateEnum` of linker/validate.go -/
def validateEnumOpts (ck : Checks) (syn : Syn) (e : EnumD) : List Rule :=
  let e1 : List Rule := match e.values with
    | (_, n) :: _ => if syn != .proto2 && n != 0 then ["open-enum-first"] else []
    | [] => []
  let e2 : List Rule := if jsonCompliant syn && ck.enumJsonConflict (e.values.map (fun v => (ck.enumCanon v.1 e.name, v.2))) then ["enum-json-conflict"] else []
  e1 ++ e2

/-- `ValidateOptions` -/
def validateOptionsFile (ck : Checks) (env : Env) (nm : Naming) (fd : FileD) : List Rule :=
  fd.msgs.flatMap (fun m =>
    (m.fields ++ m.extensions).flatMap (validateFieldOpts env fd.syn) ++
    (if ck.jsonConflict (jsonCompliant fd.syn) (m.fields.map (jsonView nm)) then ["json-conflict"] else []) ++
    m.enums.flatMap (validateEnumOpts ck fd.syn)) ++
  fd.enums.flatMap (validateEnumOpts ck fd.syn) ++
  fd.extensions.flatMap (validateFieldOpts env fd.syn)

end PCV.MiniProto
