/-
MiniProto, part 1: the small pure algorithms of /repo/parser/validate.go, /repo/parser/result.go
and /repo/internal/util.go, written the way the Go code computes them (sort + adjacent sweep,
two-pointer merge, binary search, map-based duplicate detection, naming loops).
The declarative counterparts live in PCV/Spec/MiniProto.lean; the equivalences in Props/C01, C02.

Core Lean only (linked into the driver).
-/
namespace PCV.MiniProto

/-! ## tag ranges (`tagRange` / `tagRanges` of parser/validate.go) -/

/-- `tagRange{start, end}`; for message ranges `stop` is exclusive, for enum ranges inclusive
    (exactly as the descriptor stores them). -/
structure TagRange where
  start : Int
  stop : Int
  deriving DecidableEq, Repr, Inhabited

/-- `tagRanges.Less` -/
def TagRange.less (a b : TagRange) : Bool :=
  a.start < b.start || (a.start == b.start && a.stop < b.stop)

/-- `!Less(b, a)`: the total preorder `sort.Sort` sorts by -/
def TagRange.le (a b : TagRange) : Bool := !(b.less a)

/-- insertion into a sorted list -/
def insertRange (x : TagRange) : List TagRange → List TagRange
  | [] => [x]
  | y :: ys => if x.le y then x :: y :: ys else y :: insertRange x ys

/-- `sort.Sort(rsvd)`. The order is total and two ranges that compare equal ARE equal, so every
    correct sorting algorithm returns this same list (Go's is not stable, which cannot be seen). -/
def sortRanges : List TagRange → List TagRange
  | [] => []
  | x :: xs => insertRange x (sortRanges xs)

/-- the `for i := 1; i < len(rsvd); i++ { if rsvd[i].start < rsvd[i-1].end {report} }` sweep over
    the SORTED list: does it report at least once? `incl` is the enum variant (`<=`). -/
def adjSweep (incl : Bool) : List TagRange → Bool
  | a :: b :: rest =>
    (if incl then decide (b.start ≤ a.stop) else decide (b.start < a.stop)) || adjSweep incl (b :: rest)
  | _ => false

/-- "reserved ranges overlap" / "extension ranges overlap" as validateMessage / validateEnum
    decide it -/
def rangesOverlapGo (incl : Bool) (rs : List TagRange) : Bool := adjSweep incl (sortRanges rs)

/-- the condition inside the two-pointer loop -/
def mergeHit (r e : TagRange) : Bool :=
  (decide (r.start ≥ e.start) && decide (r.start < e.stop)) ||
  (decide (e.start ≥ r.start) && decide (e.start < r.stop))

/-- `for i < len(rsvd) && j < len(exts) { if hit {report}; if rsvd[i].start < exts[j].start {i++} else {j++} }`
    over the two SORTED lists: does it report at least once? -/
def mergeSweep : List TagRange → List TagRange → Bool
  | [], _ => false
  | _ :: _, [] => false
  | r :: rs, e :: es =>
    mergeHit r e || (if r.start < e.start then mergeSweep rs (e :: es) else mergeSweep (r :: rs) es)
  termination_by rs es => rs.length + es.length

def extRsvdOverlapGo (rsvd exts : List TagRange) : Bool :=
  mergeSweep (sortRanges rsvd) (sortRanges exts)

/-- Go's `sort.Search(n, f)`: `i, j := 0, n; for i < j { h := (i+j)/2; if !f(h) {i = h+1} else {j = h} }; return i`.
    `fuel` bounds the loop (`j - i` halves; `n + 1` is plenty). -/
def searchLoop (f : Nat → Bool) : Nat → Nat → Nat → Nat
  | 0, i, _ => i
  | fuel + 1, i, j =>
    if i < j then
      let h := (i + j) / 2
      if !f h then searchLoop f fuel (h + 1) j else searchLoop f fuel i h
    else i

def goSearch (n : Nat) (f : Nat → Bool) : Nat := searchLoop f (n + 1) 0 n

/-- `r := sort.Search(len(rsvd), func(i) { rsvd[i].end > tag }); r < len(rsvd) && rsvd[r].start <= tag`
    (`incl`: the enum variant `rsvd[i].end >= number`) on the SORTED list -/
def searchPred (incl : Bool) (rs : List TagRange) (n : Int) (i : Nat) : Bool :=
  match rs[i]? with
  | some x => if incl then decide (x.stop ≥ n) else decide (x.stop > n)
  | none => true

def binHit (incl : Bool) (rs : List TagRange) (n : Int) : Bool :=
  match rs[goSearch rs.length (searchPred incl rs n)]? with
  | some x => decide (x.start ≤ n)
  | none => false

def inRangesGo (incl : Bool) (rs : List TagRange) (n : Int) : Bool := binHit incl (sortRanges rs) n

/-! ## duplicate detection through a Go map -/

/-- `m[k]` with the zero value "" for a missing key; the list holds the writes, latest first -/
def mapGet (m : List (Int × String)) (k : Int) : String :=
  match m with
  | [] => ""
  | (k', v) :: rest => if k' == k then v else mapGet rest k

/-- `for fld { if existing := fieldTags[num]; existing != "" {report}; fieldTags[num] = name }`:
    at least one report? (also the enum-value loop `vals`) -/
def dupNumberLoop (seen : List (Int × String)) : List (Int × String) → Bool
  | [] => false
  | (num, name) :: rest => (mapGet seen num != "") || dupNumberLoop ((num, name) :: seen) rest

def dupNumberGo (xs : List (Int × String)) : Bool := dupNumberLoop [] xs

/-- validateEnum's alias logic: (reports "same numeric value", reports "allow_alias but no alias") -/
def enumAliasGo (allowAlias : Bool) (vals : List (Int × String)) : Bool × Bool :=
  let dup := dupNumberGo vals
  (!allowAlias && dup, allowAlias && !dup)

/-! ## tag validity (`checkTag`) -/

def fieldMax : Nat := 536870911       -- tags.FieldMax = 2^29 - 1
def messageSetMax : Nat := 2147483646 -- tags.MessageSetMax = 2^31 - 2
def firstReserved : Nat := 19000
def lastReserved : Nat := 19999

/-- `checkTag(n, v, maxTag)`: the error class, if any -/
def checkTag (v maxTag : Nat) : Option String :=
  if v < 1 then some "tag-zero"
  else if v > maxTag then some "tag-too-high"
  else if v ≥ firstReserved && v ≤ lastReserved then some "tag-19000"
  else none

/-! ## names -/

def upperAscii (c : Char) : Char :=
  if 'a' ≤ c ∧ c ≤ 'z' then Char.ofNat (c.toNat - 32) else c

def lowerAscii (c : Char) : Char :=
  if 'A' ≤ c ∧ c ≤ 'Z' then Char.ofNat (c.toNat + 32) else c

/-- `strings.Split(s, "_")` on characters -/
def splitUnderscore : List Char → List (List Char)
  | [] => [[]]
  | c :: rest =>
    match splitUnderscore rest with
    | [] => [[]]   -- unreachable
    | w :: ws => if c == '_' then [] :: w :: ws else (c :: w) :: ws

/-- `strings.Split(s, ".")` on characters -/
def splitDotsChars : List Char → List (List Char)
  | [] => [[]]
  | c :: rest =>
    match splitDotsChars rest with
    | [] => [[]]   -- unreachable
    | w :: ws => if c == '.' then [] :: w :: ws else (c :: w) :: ws

def splitDots (s : String) : List String := (splitDotsChars s.toList).map String.ofList

/-- one word of `Case.convert` for Camel/Pascal: `capFirst` = `(uppercase || !firstWord)`,
    `lower` = `!NoLowercase` -/
def convertWord (capFirst lower : Bool) : List Char → List Char
  | [] => []
  | c :: rest =>
    (if capFirst then upperAscii c else if lower then lowerAscii c else c) ::
      rest.map (fun r => if lower then lowerAscii r else r)

/-- `cases.Converter{Case: Camel|Pascal, NaiveSplit: true}.Convert` (ASCII letters; identifiers
    of the language are ASCII) -/
def convertCase (pascal lower : Bool) (s : List Char) : List Char :=
  match splitUnderscore s with
  | [] => []
  | w :: ws => convertWord pascal lower w ++ (ws.map (convertWord true lower)).flatten

/-- `internal.JSONName` -/
def jsonNameChars (s : List Char) : List Char := convertCase false false s
def jsonName (s : String) : String := String.ofList (jsonNameChars s.toList)

/-- `internal.MapEntry` -/
def mapEntryNameChars (s : List Char) : List Char := convertCase true false s ++ "Entry".toList
def mapEntryName (s : String) : String := String.ofList (mapEntryNameChars s.toList)

/-- `strings.ToLower` on ASCII (group field names) -/
def toLowerStr (s : String) : String := String.ofList (s.toList.map lowerAscii)

/-- `isIdentifier` of parser/validate.go -/
def isIdentChar (c : Char) : Bool :=
  ('0' ≤ c && c ≤ '9') || ('a' ≤ c && c ≤ 'z') || ('A' ≤ c && c ≤ 'Z') || c == '_'

def isIdentifier (s : String) : Bool :=
  match s.toList with
  | [] => false
  | c :: rest => !('0' ≤ c && c ≤ '9') && isIdentChar c && rest.all isIdentChar

/-- the `for { if _, ok := allNames[ooName]; !ok {break}; ooName = "X" + ooName }` loop of
    `processProto3OptionalFields`. Fuel `names.length + 1` always suffices (Props/C02). -/
def freshLoop (names : List String) : Nat → String → String
  | 0, n => n
  | fuel + 1, n => if names.contains n then freshLoop names fuel ("X" ++ n) else n

/-- `strings.HasPrefix(s, "_")` (list-based so that the kernel can evaluate it) -/
def startsWithUnderscore (s : String) : Bool :=
  match s.toList with
  | '_' :: _ => true
  | _ => false

def synthBase (fieldName : String) : String :=
  if startsWithUnderscore fieldName then fieldName else "_" ++ fieldName

/-- the synthetic oneof name for one proto3-optional field given the names taken so far -/
def synthOneofName (taken : List String) (fieldName : String) : String :=
  freshLoop taken (taken.length + 1) (synthBase fieldName)

/-- names of the synthetic oneofs of a message, in field order; `taken` = `allNames`;
    every generated name is added to the set -/
def synthOneofNames (taken : List String) : List String → List String
  | [] => []
  | f :: rest =>
    let n := synthOneofName taken f
    n :: synthOneofNames (n :: taken) rest

/-! ### enum value JSON names (`canonicalEnumValueName`) -/

/-- `strings.TrimLeft(s, "_")` -/
def trimLeftUnderscore : List Char → List Char
  | '_' :: rest => trimLeftUnderscore rest
  | s => s

def skipUnderscores : List Char → List Char
  | '_' :: rest => skipUnderscores rest
  | s => s

/-- `internal.TrimPrefix(str, prefix)` loop state: remaining `str` (from rune i), remaining
    prefix (from j) -/
def trimPrefixLoop (whole : List Char) : List Char → List Char → List Char
  | [], _ => whole
  | r :: rest, pre =>
    if r == '_' then trimPrefixLoop whole rest pre
    else
      let pre' := skipUnderscores pre
      match pre' with
      | [] =>
        let result := trimLeftUnderscore (r :: rest)
        if result.isEmpty then whole else result
      | p :: ps =>
        if lowerAscii r != lowerAscii p then whole
        else trimPrefixLoop whole rest ps

def trimPrefix (str pre : List Char) : List Char := trimPrefixLoop str str pre

/-- `canonicalEnumValueName(enumValueName, enumName)` -/
def canonicalEnumValueName (value enumName : String) : String :=
  String.ofList (convertCase true true (trimPrefix value.toList enumName.toList))

end PCV.MiniProto
