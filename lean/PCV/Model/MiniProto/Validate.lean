/-
MiniProto, part 4: `validateBasic` of /repo/parser/validate.go on the constructed descriptors
(validateImports, validateMessage, validateEnum, validateField), with the Go algorithms of
part 1. Every function returns the error classes it would report (order of discovery).
-/
import PCV.Model.MiniProto.Build
namespace PCV.MiniProto

/-- a Go `map[string]…` used as a set while walking a list: some entry was already present
    (`validateImports`, `checkResultLocked`'s `resultSyms`) -/
def dupStrLoop : List String → List String → Bool
  | _, [] => false
  | seen, p :: rest => seen.contains p || dupStrLoop (p :: seen) rest

def dupStrGo (xs : List String) : Bool := dupStrLoop [] xs

/-- the decision procedures of the individual rules. The model instantiates them with the
    algorithms of the Go code (`goChecks`), the reference semantics with the declarative
    definitions (`PCV.MiniProto.Spec.specChecks`); Props/C01 proves the two interchangeable. -/
structure Checks where
  rangesOverlap : Bool → List TagRange → Bool
  extRsvdOverlap : List TagRange → List TagRange → Bool
  inRanges : Bool → List TagRange → Int → Bool
  dupNumber : List (Int × String) → Bool
  dupStr : List String → Bool
  /-- JSON-name conflict among the fields: (is JSON compliant) ↦ list of
      (default name, name used with custom names, is custom) ↦ error reported -/
  jsonConflict : Bool → List (String × String × Bool) → Bool
  /-- enum-value JSON conflict: list of (canonical name, number) -/
  enumJsonConflict : List (String × Int) → Bool
  /-- canonical enum value name: value name ↦ enum name ↦ name -/
  enumCanon : String → String → String

def goChecksBase : Checks :=
  { rangesOverlap := rangesOverlapGo, extRsvdOverlap := extRsvdOverlapGo, inRanges := inRangesGo,
    dupNumber := dupNumberGo, dupStr := dupStrGo,
    jsonConflict := fun _ _ => false, enumJsonConflict := fun _ => false,
    enumCanon := canonicalEnumValueName }

/-- `validateMessage` -/
def validateMessage (ck : Checks) (syn : Syn) (m : MsgD) : List Rule :=
  let e1 : List Rule := if syn == .proto3 && !m.extRanges.isEmpty then ["p3-ext-range"] else []
  let e2 : List Rule := if ck.rangesOverlap false m.reservedRanges then ["rsvd-overlap"] else []
  let e3 : List Rule := if ck.rangesOverlap false m.extRanges then ["ext-overlap"] else []
  let e4 : List Rule := if ck.extRsvdOverlap m.reservedRanges m.extRanges then ["ext-rsvd-overlap"] else []
  let e5 : List Rule := if m.reservedNames.any (fun n => !isIdentifier n) then ["rsvd-name-invalid"] else []
  let e6 : List Rule := if m.fields.any (fun f => m.reservedNames.contains f.name) then ["field-rsvd-name"] else []
  let e7 : List Rule := if ck.dupNumber (m.fields.map (fun f => (f.number, f.name))) then ["dup-tag"] else []
  let e8 : List Rule := if m.fields.any (fun f => ck.inRanges false m.reservedRanges f.number) then ["in-rsvd-range"] else []
  let e9 : List Rule := if m.fields.any (fun f => ck.inRanges false m.extRanges f.number) then ["tag-in-ext-range"] else []
  e1 ++ e2 ++ e3 ++ e4 ++ e5 ++ e6 ++ e7 ++ e8 ++ e9

/-- `validateEnum` -/
def validateEnum (ck : Checks) (syn : Syn) (e : EnumD) : List Rule :=
  let vals := e.values.map (fun v => (v.2, v.1))
  let e1 : List Rule := if e.values.isEmpty then ["enum-empty"] else []
  let e2 : List Rule := match syn, e.values with
    | .proto3, (_, n) :: _ => if n != 0 then ["p3-enum-first"] else []
    | _, _ => []
  let aa := e.allowAlias == some true
  let dupv := ck.dupNumber vals
  let (dup, unused) := (!aa && dupv, aa && !dupv)
  let e3 : List Rule := if dup then ["enum-dup-number"] else []
  let e4 : List Rule := if unused then ["alias-unused"] else []
  let e5 : List Rule := if ck.rangesOverlap true e.reservedRanges then ["enum-rsvd-overlap"] else []
  let e6 : List Rule := if e.reservedNames.any (fun n => !isIdentifier n) then ["rsvd-name-invalid"] else []
  let e7 : List Rule := if e.values.any (fun v => e.reservedNames.contains v.1) then ["value-rsvd-name"] else []
  let e8 : List Rule := if e.values.any (fun v => ck.inRanges true e.reservedRanges v.2) then ["in-rsvd-range"] else []
  e1 ++ e2 ++ e3 ++ e4 ++ e5 ++ e6 ++ e7 ++ e8

/-- `validateField` -/
def validateField (syn : Syn) (f : FieldD) : List Rule :=
  if syn != .proto2 then
    let e1 : List Rule :=
      if f.type == some 10 then ["group-non-p2"]
      else if f.label == some 2 then ["required-non-p2"] else []
    let e2 : List Rule :=
      if syn == .editions then
        (if f.label == some 1 then ["optional-editions"] else []) ++
        (if f.optPacked.isSome then ["packed-editions"] else [])
      else
        (if f.optDflt.isSome then ["p3-default"] else [])
    e1 ++ e2
  else
    (if f.label.isNone && f.oneofIndex.isNone then ["p2-no-label"] else []) ++
    (if f.extendee != "" && f.label == some 2 then ["ext-required"] else [])

/-- `validateBasic`: the whole walk -/
def validateBasic (ck : Checks) (fd : FileD) : List Rule :=
  (if ck.dupStr fd.deps then ["import-dup"] else []) ++
  fd.msgs.flatMap (fun m =>
    validateMessage ck fd.syn m ++
    (m.fields ++ m.extensions).flatMap (validateField fd.syn) ++
    m.enums.flatMap (validateEnum ck fd.syn)) ++
  fd.enums.flatMap (validateEnum ck fd.syn) ++
  fd.extensions.flatMap (validateField fd.syn)

/-- `ResultFromAST`: construction, validation, then `fillInMissingLabels` -/
def parsePhase (ck : Checks) (nm : Naming) (f : FileA) : FileD × List Rule :=
  let (fd, e1) := buildFile nm f
  let e2 := validateBasic ck fd
  ({ fd with msgs := fd.msgs.map fillLabelsMsg, extensions := fd.extensions.map fillLabel }, e1 ++ e2)

end PCV.MiniProto
