/-
MiniProto, part 6: the whole pipeline of `protocompile.Compiler.Compile` for a workspace whose
files are all requested (compiler.go `asFile` → `link`), the canonical projection of the
resulting descriptors, and the well-formedness conditions of the wire format.
-/
import PCV.Model.MiniProto.Link
namespace PCV.MiniProto

/-! ## well-formedness of an op (mirrors what the Go harness can render) -/

/-- the Go renderer walks the bodies reachable from the top level; an index out of range or a
    nesting deeper than 40 makes the op bad -/
def renderableElems (f : FileA) : Nat → Nat → List Elem → Bool
  | 0, _, _ => false
  | fuel + 1, depth, es =>
    decide (depth ≤ 40) && es.all (fun e => match e with
      | .msg i => match f.msgs[i]? with
        | some b => renderableElems f fuel (depth + 1) b.elems
        | none => false
      | .enum i => (f.enums[i]?).isSome
      | .svc i => (f.svcs[i]?).isSome
      | .group g => match f.msgs[g.body]? with
        | some b => renderableElems f fuel (depth + 1) b.elems
        | none => false
      | .oneof _ ms | .extend _ ms => ms.all (fun m => match m with
        | .field _ => true
        | .group g => match f.msgs[g.body]? with
          | some b => renderableElems f fuel (depth + 1) b.elems
          | none => false)
      | _ => true)

def renderable (f : FileA) : Bool := renderableElems f 64 0 f.top

def distinctPaths : List String → Bool
  | [] => true
  | p :: rest => !rest.contains p && distinctPaths rest

def wellFormed (ws : Workspace) : Bool :=
  !ws.isEmpty && distinctPaths (ws.map (·.path)) && ws.all renderable

/-! ## compile -/

structure Compiled where
  /-- error classes that may be reported (empty = accepted) -/
  errs : List Rule
  files : List FileD
  deriving Inhabited

/-- everything after parsing for one file whose dependencies are fine -/
def linkPhase (ck : Checks) (env : Env) (nm : Naming) (i : Nat) (fd : FileD) : FileD × List Rule :=
  let (fd1, e1) := linkFile ck env i fd
  if !e1.isEmpty then (fd1, e1)
  else
    let (fd2, e2) := interpretFile env nm fd1
    if !e2.isEmpty then (fd2, e2)
    else (fd2, validateOptionsFile ck env nm fd2)

/-- the import loop of `asFile`: self-import, unresolvable import, failed dependency
    (`status j` = error classes of dependency number `j`) -/
def depErrs (env : Env) (fd : FileD) (status : Nat → List Rule) : List Rule :=
  fd.deps.flatMap (fun p =>
    if p == fd.path then ["import-cycle"]
    else match fileIndex env.files p with
      | none => ["import-missing"]
      | some j => status j)

/-- status of file `i`: the classes of its first failing phase; dependencies first.
    Running out of fuel means the import graph has a cycle through here. -/
def fileStatus (ck : Checks) (env : Env) (nm : Naming) (parsed : List (FileD × List Rule)) : Nat → Nat → FileD × List Rule
  | 0, _ => (default, ["import-cycle"])
  | fuel + 1, i =>
    match parsed[i]? with
    | none => (default, ["import-missing"])
    | some (fd, pe) =>
      if !pe.isEmpty then (fd, pe)
      else
        let de := depErrs env fd (fun j => (fileStatus ck env nm parsed fuel j).2)
        if !de.isEmpty then (fd, de)
        else linkPhase ck env nm i fd

def extKeys (fd : FileD) : List (String × Int) :=
  (fd.extensions ++ fd.msgs.flatMap (·.extensions)).map (fun f => (f.extendee, f.number))

def hasDupKey : List (String × Int) → Bool
  | [] => false
  | k :: rest => rest.contains k || hasDupKey rest

/-- the shared `linker.Symbols` table: a full name defined by two files, or equal to a package
    (prefix) of some file; and two extensions of one message with the same number -/
def globalErrs (finals : List FileD) : List Rule :=
  let syms := finals.map (fun fd => (fileSymbols fd).map (·.1))
  let pkgs := finals.flatMap (fun fd => pkgPrefixes fd.pkg)
  let crossDup := ((List.range syms.length).zip syms).any (fun p =>
    p.2.any (fun n => pkgs.contains n ||
      ((List.range syms.length).zip syms).any (fun q => q.1 != p.1 && q.2.contains n)))
  (if crossDup then ["dup-symbol"] else []) ++
  (if hasDupKey (finals.flatMap extKeys) then ["dup-ext-number"] else [])

def compileWorkspace (ck : Checks) (nm : Naming) (ws : Workspace) : Compiled :=
  let parsed := ws.map (parsePhase ck nm)
  let env := mkEnv (parsed.map (·.1))
  let st := (List.range ws.length).map (fileStatus ck env nm parsed (ws.length + 1))
  let errs := st.flatMap (·.2)
  let finals := st.map (·.1)
  { errs := errs ++ globalErrs finals, files := finals }

/-! ## projection (must print exactly what `mpProject` of the Go harness prints) -/

def showOptNat : Option Nat → String
  | some n => toString n
  | none => "-"

def showName (s : String) : String := if s.isEmpty then "-" else s

def showBool01 (b : Bool) : String := if b then "1" else "0"

def showNats (xs : List Nat) : String := if xs.isEmpty then "-" else ",".intercalate (xs.map toString)

def projField (tag : String) (f : FieldD) : List String :=
  [tag, f.name, toString f.number, (match f.label with | some l => toString l | none => "0"),
   (match f.type with | some t => toString t | none => "0"), showName f.typeName, showName f.extendee,
   hexOfStr f.jsonName, showOptNat f.oneofIndex, showBool01 f.proto3Optional,
   (match f.optPacked with | some true => "t" | some false => "f" | none => "-"),
   (match f.defaultValue with | some d => hexOfStr d | none => "-")]

def projEnum (e : EnumD) : List String :=
  ["E", e.fullName, (match e.allowAlias with | some true => "t" | some false => "f" | none => "-")] ++
  e.values.flatMap (fun v => ["v", v.1, toString v.2]) ++
  e.reservedRanges.flatMap (fun r => ["rr", toString r.start, toString r.stop]) ++
  e.reservedNames.flatMap (fun n => ["rn", hexOfStr n])

def projMsg (m : MsgD) : List String :=
  ["M", m.fullName, showBool01 m.mapEntry,
   (match m.messageSet with | some true => "t" | some false => "f" | none => "-")] ++
  m.fields.flatMap (projField "f") ++
  m.extensions.flatMap (projField "x") ++
  m.oneofs.flatMap (fun o => ["o", o]) ++
  m.extRanges.flatMap (fun r => ["er", toString r.start, toString r.stop]) ++
  m.reservedRanges.flatMap (fun r => ["rr", toString r.start, toString r.stop]) ++
  m.reservedNames.flatMap (fun n => ["rn", hexOfStr n]) ++
  m.enums.flatMap projEnum

def projFile (fd : FileD) : List String :=
  ["F", fd.path, showName fd.pkg,
   (match fd.syn with | .proto2 => "-" | .proto3 => "proto3" | .editions => "editions:1000"),
   (if fd.deps.isEmpty then "-" else ",".intercalate fd.deps), showNats fd.publicDeps, showNats fd.weakDeps] ++
  fd.msgs.flatMap projMsg ++
  fd.enums.flatMap projEnum ++
  fd.extensions.flatMap (projField "x") ++
  fd.svcs.flatMap (fun s => ["S", s.fullName] ++ s.methods.flatMap (fun m =>
    ["rpc", m.name, showName m.inputType, showName m.outputType, showBool01 m.clientStreaming, showBool01 m.serverStreaming]))

def projAll (fds : List FileD) : String := " ".intercalate (fds.flatMap projFile)

/-! ## the one standard import MiniProto knows -/

def descriptorProtoPath : String := "google/protobuf/descriptor.proto"

/-- what MiniProto needs of google/protobuf/descriptor.proto (resolved by
    `protocompile.WithStandardImports` / `source.WKTs()`): package `google.protobuf`, proto2, the
    nine options messages, each with `extensions 1000 to max` -/
def descriptorProtoStub : FileA :=
  let names := ["FileOptions", "MessageOptions", "FieldOptions", "OneofOptions", "ExtensionRangeOptions",
                "EnumOptions", "EnumValueOptions", "ServiceOptions", "MethodOptions"]
  { path := descriptorProtoPath, syn := .proto2, pkg := "google.protobuf", imports := [],
    top := (List.range names.length).map (fun i => Elem.msg i),
    msgs := names.map (fun n => { name := n, elems := [.extRange 1000 .max] }),
    enums := [], svcs := [] }

/-- the files the compiler ends up compiling: the requested ones, plus descriptor.proto when some
    file imports it and the workspace does not define it -/
def withStandardImports (ws : Workspace) : Workspace :=
  if ws.any (fun f => f.imports.any (fun i => i.1 == descriptorProtoPath)) &&
      !ws.any (fun f => f.path == descriptorProtoPath)
  then ws ++ [descriptorProtoStub] else ws

/-- compile the requested files (standard import added behind them); only the requested files
    are returned -/
def compileRequested (ck : Checks) (nm : Naming) (ws : Workspace) : Compiled :=
  let c := compileWorkspace ck nm (withStandardImports ws)
  { c with files := c.files.take ws.length }

/-- the model's answer to a `ws …` op of the `link` engine -/
def linkAnswer (ck : Checks) (nm : Naming) (ws : Workspace) : String :=
  if !wellFormed ws then "bad-op"
  else
    let c := compileRequested ck nm ws
    if c.errs.isEmpty then "ok " ++ projAll c.files
    else "err ~ " ++ " ".intercalate c.errs.eraseDups

end PCV.MiniProto
