/-
Model of the unused-import bookkeeping of the linker (C19).

Go code mirrored (all in /repo):
  linker/resolve.go   resolveInFile (+ markUsed), resolveElement, resolve, fileScope,
                      messageScope, resolveElementRelative, resolveElementInFile,
                      matchesPkgNamespace, isAggregateDescriptor, isType,
                      resolveFieldTypes / resolveMethodTypes / resolveExtensionName
                      (only the kind checks on the resolved descriptor),
                      resolveOptions / resolveOptionValue (which names are resolved, with
                      which scopes), CheckForUnusedImports
  linker/files.go     fileResolver.FindDescriptorByName / FindExtensionByName /
                      FindMessageByName (the lookups the option interpreter performs through
                      linker.ResolverFromFile(result) — they mark imports as well)
  options/options.go  resolveOptionsType, resolveExtensionType, the `Any` type-reference
                      lookup (which names are looked up)
  internal/util.go    CreatePrefixList

Representation: a fully-qualified name is the list of its dot-separated components;
files of a workspace are identified by their position in the list; the file under test
is `ws[t]`.  Mutation of `usedImports` is modelled by returned values: every lookup
returns the list of `(file, import)` marks it performs, and a reference resolution
returns the *trace* of file-scope lookups it performed (the marks are then the marks of
the traced lookups — `usedImports` is a set, so order and repetition are irrelevant).
-/
namespace PCV.UnusedImports

abbrev Name := List String

inductive Kind where
  | msg | enum | enumval | ext | field | oneof | svc | method
  deriving DecidableEq, Repr, Inhabited

structure Sym where
  name : Name
  kind : Kind
  /-- extensions only: the extended message and the message type of the value
      (`[]` = scalar) -/
  extendee : Name := []
  vtype : Name := []
  deriving DecidableEq, Repr

/-- one file: package, ordered imports `(file index, isPublic)`, defined symbols -/
structure FileM where
  pkg : Name
  imports : List (Nat × Bool)
  syms : List Sym
  deriving Repr

abbrev WS := List FileM

/-- what a lookup yields: a real descriptor, or the sentinel of `resolveElementInFile`
    ("the name is a package namespace, not an element") -/
inductive Desc where
  | real (s : Sym)
  | sentinel (name : Name)
  deriving DecidableEq, Repr

def Desc.name : Desc → Name
  | .real s => s.name
  | .sentinel n => n

/-- a mark: `usedImports` of file `file` receives the path of file `imp` -/
abbrev Mark := Nat × Nat

/-! ### per-file queries (`fn` arguments of `resolveInFile`) -/

/-- `f.FindDescriptorByName(name)` -/
def findDesc (n : Name) (f : FileM) : Option Desc :=
  match f.syms.find? (fun s => s.name == n) with
  | some s => some (.real s)
  | none => none

/-- `matchesPkgNamespace(fqn, pkg)` on component lists: pkg non-empty, fqn a non-empty
    component prefix of pkg (equal or followed by a dot). -/
def matchesPkgNamespace (fqn pkg : Name) : Bool :=
  !pkg.isEmpty && !fqn.isEmpty && fqn.isPrefixOf pkg

/-- `resolveElementInFile(name, f)` -/
def resolveElementInFile (n : Name) (f : FileM) : Option Desc :=
  match findDesc n f with
  | some d => some d
  | none => if matchesPkgNamespace n f.pkg then some (.sentinel n) else none

/-! ### `resolveInFile` -/

/-- what the loop body of `resolveInFile` does with the result of the recursive call for
    import `imp` of file `idx` -/
def viaImport {α : Type} (idx : Nat) (imp : Nat × Bool) :
    Option (α × List Mark) → Option (α × List Mark)
  | none => none                          -- NotFound: `continue`
  | some (r, ms) => some (r, if imp.2 then ms else (idx, imp.1) :: ms)   -- `markUsed` unless public

/-- `resolveInFile(f, publicImportsOnly, checked, fn)`; `fuel` bounds the recursion depth
    (the number of files suffices), `checked` is the slice of paths of the callers
    (Go appends to a local slice header, so siblings do not see each other).  The second
    component collects the `markUsed` calls as `(file, import)` pairs. -/
def resolveInFile {α : Type} (ws : WS) (fn : FileM → Option α) :
    Nat → List Nat → Bool → Nat → Option (α × List Mark)
  | 0, _, _, _ => none
  | fuel + 1, checked, pubOnly, idx =>
    if checked.contains idx then none
    else match ws[idx]? with
      | none => none
      | some f =>
        match fn f with
        | some r => some (r, [])
        | none =>
          (f.imports.filter (fun imp => !pubOnly || imp.2)).findSome? (fun imp =>
            viaImport idx imp (resolveInFile ws fn fuel (idx :: checked) true imp.1))

/-- `r.resolveElement(name)` for the file `t` (leading dot already stripped) -/
def lookElem (ws : WS) (t : Nat) (n : Name) : Option (Desc × List Mark) :=
  resolveInFile ws (resolveElementInFile n) ws.length [] false t

/-- `ResolverFromFile(r).FindDescriptorByName(name)` (also the found-case of
    FindExtensionByName / FindMessageByName) -/
def lookPlain (ws : WS) (t : Nat) (n : Name) : Option (Desc × List Mark) :=
  resolveInFile ws (findDesc n) ws.length [] false t

/-! ### scoped resolution, generic in the lookup functions -/

def isAggregate : Desc → Bool
  | .sentinel _ => true
  | .real s => s.kind == .msg || s.kind == .enum || s.kind == .svc

def isType : Desc → Bool
  | .real s => s.kind == .msg || s.kind == .enum
  | .sentinel _ => false

/-- `resolveElementRelative(firstName, fullName, query)`; returns the queried names too -/
def resolveElementRelative (q : Name → Option Desc) (first full : Name) :
    Option Desc × List Name :=
  match q first with
  | none => (none, [first])
  | some d =>
    if first = full then (some d, [first])
    else if !isAggregate d then (none, [first])
    else match q full with
      | none => (some (.sentinel full), [first, full])
      | some d' => (some d', [first, full])

/-- all component prefixes, shortest first: `a.b ↦ ["", a, a.b]` -/
def inits : Name → List Name
  | [] => [[]]
  | a :: as => [] :: (inits as).map (a :: ·)

/-- `internal.CreatePrefixList(pkg)`: `a.b.c ↦ [a.b.c, a.b, a, ""]` -/
def prefixList (p : Name) : List Name := (inits p).reverse

/-- the loop of `fileScope` over the package prefixes -/
def fileScopeLoop (q : Name → Option Desc) (first full : Name) :
    List Name → Option Desc × List Name
  | [] => (none, [])
  | p :: ps =>
    -- for the empty prefix Go sets `n1, n = fullName, fullName`: no first-name probe
    match resolveElementRelative q (if p = [] then full else p ++ first) (p ++ full) with
    | (some d, tr) => (some d, tr)
    | (none, tr) =>
      let r := fileScopeLoop q first full ps
      (r.1, tr ++ r.2)

/-- the loop of `resolve` over the scopes, innermost message scope first, file scope last.
    `ql` is the query of a message scope (this file only, never marks), `q` the query of
    the file scope.  Returns the descriptor and the trace of file-scope queries. -/
def resolveScopes (ql q : Name → Option Desc) (prefixes : List Name) (onlyTypes : Bool)
    (first full : Name) : List Name → Option Desc → Option Desc × List Name
  | [], best =>
    match fileScopeLoop q first full prefixes with
    | (some d, tr) =>
      if !onlyTypes || isType d || first ≠ full then (some d, tr)
      else (best.orElse (fun _ => some d), tr)
    | (none, tr) => (best, tr)
  | m :: ms, best =>
    match (resolveElementRelative ql (m ++ first) (m ++ full)).1 with
    | some d =>
      if !onlyTypes || isType d || first ≠ full then (some d, [])
      else resolveScopes ql q prefixes onlyTypes first full ms (best.orElse (fun _ => some d))
    | none => resolveScopes ql q prefixes onlyTypes first full ms best

/-- `r.resolve(name, onlyTypes, scopes)`; `dot` = the name has a leading dot -/
def resolveName (ql q : Name → Option Desc) (pkg : Name) (onlyTypes dot : Bool)
    (scopes : List Name) (name : Name) : Option Desc × List Name :=
  if dot then (q name, [name])
  else resolveScopes ql q (prefixList pkg) onlyTypes (name.take 1) name scopes none

/-! ### the references of the file under test -/

inductive RefKind where
  | fieldType   -- type of a field or extension: resolve(onlyTypes = true), message or enum
  | extendee    -- extendee of an extension: message
  | rpc         -- method input / output type: message
  | optName     -- extension name inside an option name: extension; re-looked-up by the interpreter
  | litExt      -- `[ext.name]` inside a message literal: file scope only; re-looked-up
  | anyType     -- `[type.googleapis.com/msg.Name]`: plain lookup by the interpreter, message
  | optsType    -- `google.protobuf.XOptions` looked up by the interpreter for any element with options
  deriving DecidableEq, Repr

structure Ref where
  kind : RefKind
  /-- enclosing message / service scopes (fully-qualified), innermost first -/
  scopes : List Name
  dot : Bool
  name : Name
  /-- `optName`: the options message the extension has to extend -/
  expect : Name := []
  /-- `optName`: the option value is a message literal (else a scalar) -/
  msgVal : Bool := false
  /-- `litExt`, `anyType`: position of the `optName` reference whose value contains them -/
  parent : Nat := 0
  /-- `optName`: a key identifying the element that carries the option (the same
      non-repeated option may be set only once per element) -/
  elem : Name := []
  deriving Repr

/-- outcome of one reference: the descriptor (`none` = not found) and the marks -/
structure RefOut where
  desc : Option Desc
  marks : List Mark
  deriving Repr

def marksOfTrace (look : Name → Option (Desc × List Mark)) (tr : List Name) : List Mark :=
  tr.flatMap (fun n => match look n with | some (_, ms) => ms | none => [])

def descOf (look : Name → Option (Desc × List Mark)) (n : Name) : Option Desc :=
  (look n).map (·.1)

/-- a plain interpreter lookup of an already resolved descriptor's name -/
def relook (ws : WS) (t : Nat) : Option Desc → List Mark
  | some (.real s) => match lookPlain ws t s.name with | some (_, ms) => ms | none => []
  | _ => []

def resolveRef (ws : WS) (t : Nat) (self : FileM) (r : Ref) : RefOut :=
  let ql : Name → Option Desc := fun n => resolveElementInFile n self
  let q : Name → Option Desc := descOf (lookElem ws t)
  match r.kind with
  | .fieldType =>
    let (d, tr) := resolveName ql q self.pkg true r.dot r.scopes r.name
    ⟨d, marksOfTrace (lookElem ws t) tr⟩
  | .extendee | .rpc =>
    let (d, tr) := resolveName ql q self.pkg false r.dot r.scopes r.name
    ⟨d, marksOfTrace (lookElem ws t) tr⟩
  | .optName =>
    let (d, tr) := resolveName ql q self.pkg false r.dot r.scopes r.name
    ⟨d, marksOfTrace (lookElem ws t) tr ++ relook ws t d⟩
  | .litExt =>
    let (d, tr) := resolveName ql q self.pkg false r.dot [] r.name
    ⟨d, marksOfTrace (lookElem ws t) tr ++ relook ws t d⟩
  | .anyType =>
    match lookPlain ws t r.name with
    | some (d, ms) => ⟨some d, ms⟩
    | none => ⟨none, []⟩
  | .optsType =>
    -- the descriptor found only selects which copy of descriptor.proto interprets the
    -- options; nothing of it reaches the output, but the lookup marks the import
    match lookPlain ws t r.name with
    | some (_, ms) => ⟨none, ms⟩
    | none => ⟨none, []⟩

/-- the message type of the option value of the reference at position `p` -/
def parentVType (descs : List (Option Desc)) (p : Nat) : Option Name :=
  match descs[p]? with
  | some (some (.real s)) => some s.vtype
  | _ => none

/-- does the resolved descriptor have the kind (and, for options, the typing) the callers
    insist on?  `descs` are the descriptors of all references (for `parent`).
    (`optsType` may be missing: the interpreter then falls back to the built-in
    descriptor.proto.) -/
def refOk (descs : List (Option Desc)) (r : Ref) (d : Option Desc) : Bool :=
  match r.kind, d with
  | .fieldType, some (.real s) => s.kind == .msg || s.kind == .enum
  | .extendee, some (.real s) => s.kind == .msg
  | .rpc, some (.real s) => s.kind == .msg
  | .optName, some (.real s) =>
    s.kind == .ext && s.extendee == r.expect && (!s.vtype.isEmpty) == r.msgVal
  | .litExt, some (.real s) =>
    s.kind == .ext && parentVType descs r.parent == some s.extendee
  | .anyType, some (.real s) =>
    s.kind == .msg && parentVType descs r.parent == some ["google", "protobuf", "Any"]
  | .optsType, _ => true
  | _, _ => false

/-- "non-repeated option field already set": the (element, extension) pairs of the option
    references, which must be pairwise distinct -/
def optKeys : List Ref → List (Option Desc) → List (Name × Name)
  | r :: rs, some d :: ds =>
    if r.kind == .optName then (r.elem, d.name) :: optKeys rs ds else optKeys rs ds
  | _ :: rs, none :: ds => optKeys rs ds
  | _, _ => []

def noDup : List (Name × Name) → Bool
  | [] => true
  | k :: ks => !ks.contains k && noDup ks

structure LinkOut where
  ok : Bool
  descs : List (Option Desc)
  marks : List Mark
  deriving Repr

/-- link + option interpretation of file `t`, as far as names and marks are concerned -/
def link (ws : WS) (t : Nat) (refs : List Ref) : LinkOut :=
  match ws[t]? with
  | none => ⟨false, [], []⟩
  | some self =>
    let outs := refs.map (resolveRef ws t self)
    let descs := outs.map (·.desc)
    ⟨(refs.zip descs).all (fun (r, d) => refOk descs r d) && noDup (optKeys refs descs),
     descs, outs.flatMap (·.marks)⟩

/-- `CheckForUnusedImports`: the non-public imports of `t` that were never marked, in
    dependency order -/
def warnings (ws : WS) (t : Nat) (refs : List Ref) : List Nat :=
  match ws[t]? with
  | none => []
  | some self =>
    let used := (link ws t refs).marks
    (self.imports.filter (fun imp => !imp.2 && !used.contains (t, imp.1))).map (·.1)

/-! ### the removal experiment on the model -/

def dropImport (f : FileM) (i : Nat) : FileM :=
  { f with imports := f.imports.filter (fun imp => imp.1 != i) }

def removeImport (ws : WS) (t i : Nat) : WS :=
  match ws[t]? with
  | none => ws
  | some f => ws.set t (dropImport f i)

/-- removing import `i` still links, and every reference resolves to the same descriptor -/
def removalEq (ws : WS) (t : Nat) (refs : List Ref) (i : Nat) : Bool :=
  let a := link ws t refs
  let b := link (removeImport ws t i) t refs
  b.ok && b.descs == a.descs

end PCV.UnusedImports
