/-
Model of the token stream and of the lexer's bookkeeping in /repo/experimental:

* `token/stream.go`  `Stream.PushKeyword`: natural tokens are stored as *cumulative end
  offsets*; token i covers `[end(i-1), end(i))` (`token.go` `offsets`).
* `token/raw.go`     `fuseImpl` / `nat.Keyword`: fusing overwrites the metadata of both ends.
* `internal/lexer/lexer.go` `lexer.keyword`: every push first flushes the pending run of
  unrecognised bytes (`badBytes`) as an `Unrecognized` token plus an "unrecognized token" error.
* `internal/lexer/loop.go` `fuseBraces`: the bracket matcher, a stack machine over the bracket
  tokens pushed by the main loop.

Everything is mirrored as it is written (`flush` is `lexer.flushUnrecognized`, called at the head of
every `keyword` push and, since commit cb845bb5, once more after the main loop).  Go panics that the theorems show unreachable are modelled by
sticky flags (`overflow`, `fusePanic`) instead of aborting.
-/
namespace PCV.TokenStream

abbrev Bytes := List UInt8

-- token.Kind (experimental/token/kind.go)
def kUnrecognized : Nat := 0
def kSpace : Nat := 1
def kComment : Nat := 2
def kIdent : Nat := 3
def kString : Nat := 4
def kNumber : Nat := 5
def kKeyword : Nat := 6

-- report.Level values used by the lexer diagnostics that are modelled
def lvICE : Nat := 1
def lvError : Nat := 2

/-- A natural token: `nat{end, metadata}`. `off = 0` ⇔ leaf. -/
structure Tok where
  end_ : Nat
  kind : Nat
  kw : Nat
  off : Int := 0
  tkw : Nat := 0
deriving Repr, DecidableEq, Inhabited

/-- end offset of the newest token of a newest-first token list (`prevEnd` in `PushKeyword`) -/
def lastEnd : List Tok → Nat
  | [] => 0
  | t :: _ => t.end_

/-! ### keyword bracket table (`keyword.Brackets`) -/

def kwDot : Nat := 79
def kwLParen : Nat := 116
def kwParens : Nat := 131
def kwLineComment : Nat := 128
def kwLComment : Nat := 129
def kwRComment : Nat := 130
def kwBlockComment : Nat := 135

/-- `k.Brackets()` = (left, right, joined); `(0,0,0)` for everything else. -/
def brackets (k : Nat) : Nat × Nat × Nat :=
  if k = 116 ∨ k = 117 ∨ k = 131 then (116, 117, 131)
  else if k = 118 ∨ k = 119 ∨ k = 132 then (118, 119, 132)
  else if k = 120 ∨ k = 121 ∨ k = 133 then (120, 121, 133)
  else if k = 122 ∨ k = 123 ∨ k = 134 then (122, 123, 134)
  else if k = 129 ∨ k = 130 ∨ k = 135 then (129, 130, 135)
  else (0, 0, 0)

def openOf (k : Nat) : Nat := (brackets k).1
def fusedOf (k : Nat) : Nat := (brackets k).2.2

/-- `compressKw` inside `fuseImpl` (already shifted down by `keywordShift`) -/
def compressKw (k : Nat) : Nat :=
  let f := fusedOf k
  if kwParens ≤ f ∧ f < kwParens + 4 then f - kwParens else 0

/-- `nat.Keyword()` as observed through `Token.Keyword()` -/
def obsKw (t : Tok) : Nat :=
  if t.kind ≠ kIdent ∧ t.kind ≠ kKeyword ∧ t.kind ≠ kComment then 0
  else if t.off = 0 then t.kw
  else if t.kind ≠ kKeyword then 0
  else kwParens + t.tkw

/-! ### diagnostics that the model tracks -/

/-- classes: "unm" (errtoken.Unmatched), "unrec" ("unrecognized token"), "unterm"
    ("unterminated string literal"), "prelude" (lexPrelude errors), "ice" (CatchICE) -/
structure Diag where
  cls : String
  level : Nat
  spans : List (Nat × Nat)
deriving Repr, DecidableEq

/-- a bracket token remembered in `lexer.braces` -/
structure BItem where
  id : Nat
  kw : Nat
  start : Nat
  end_ : Nat
deriving Repr, DecidableEq, Inhabited

/-- the `lexer` struct (fields that influence the stream) -/
structure LS where
  cursor : Nat := 0
  toks : List Tok := []       -- newest first
  bad : Int := 0              -- badBytes
  braces : List BItem := []   -- newest first
  diags : List Diag := []     -- newest first
  overflow : Bool := false    -- PushKeyword "overflowed backing text" would have panicked
  fusePanic : Bool := false   -- token.Fuse on a non-leaf would have panicked
deriving Repr

/-- `Stream.PushKeyword(length, kind, kw)` for a text of `n` bytes -/
def rawPush (n : Nat) (s : LS) (len kind kw : Nat) : LS :=
  if lastEnd s.toks + len > n then { s with overflow := true }
  else { s with toks := { end_ := lastEnd s.toks + len, kind := kind, kw := kw } :: s.toks }

/-- `lexer.flushUnrecognized` -/
def flush (n : Nat) (s : LS) : LS :=
  if s.bad > 0 then
    let e0 := lastEnd s.toks
    let s1 := rawPush n s s.bad.toNat kUnrecognized 0
    { s1 with bad := 0, diags := ⟨"unrec", lvError, [(e0, e0 + s.bad.toNat)]⟩ :: s1.diags }
  else s

/-- `lexer.keyword(length, kind, kw)` (`lexer.push` is the `kw = Unknown` case) -/
def push (n : Nat) (s : LS) (len kind kw : Nat) : LS :=
  rawPush n (flush n s) len kind kw

def addDiag (s : LS) (d : Diag) : LS := { s with diags := d :: s.diags }

/-! ### token.Fuse -/

/-- `fuseImpl` on one end -/
def fuseTok (t : Tok) (diff : Int) : Tok :=
  { t with off := diff, tkw := compressKw (obsKw t) }

/-- `token.Fuse(open, close)` on an in-order token list (ids are 1-based). Returns the new list and
    whether Go would have panicked (non-leaf end, out of order, or missing token). -/
def fuseAt (ts : List Tok) (a b : Nat) : List Tok × Bool :=
  match ts[a - 1]?, ts[b - 1]? with
  | some ta, some tb =>
    if a = 0 ∨ b ≤ a ∨ ta.off ≠ 0 ∨ tb.off ≠ 0 then (ts, true)
    else
      let d : Int := (b : Int) - (a : Int)
      (((ts.set (a - 1) (fuseTok ta d)).set (b - 1) (fuseTok tb (-d))), false)
  | _, _ => (ts, true)

def fuseAll (ts : List Tok) : List (Nat × Nat) → List Tok × Bool
  | [] => (ts, false)
  | (a, b) :: ps =>
    let (ts1, p1) := fuseAt ts a b
    let (ts2, p2) := fuseAll ts1 ps
    (ts2, p1 || p2)

/-! ### `fuseBraces`: the bracket stack machine -/

/-- result of the matching loop: fused pairs and `errtoken.Unmatched` diagnostics, newest first -/
structure FAcc where
  pairs : List (BItem × BItem) := []
  unms : List (BItem × Option BItem × Option BItem) := []   -- (Span, Mismatch, ShouldMatch)
deriving Repr

def FAcc.pair (a : FAcc) (o c : BItem) : FAcc := { a with pairs := (o, c) :: a.pairs }
def FAcc.unm (a : FAcc) (t : BItem) (m s : Option BItem := none) : FAcc :=
  { a with unms := (t, m, s) :: a.unms }

def isOpenB (t : BItem) : Bool := t.kw == openOf t.kw

/-- One iteration of the `for i := 0; i < len(l.braces); i++` loop on `t2 = braces[i]` with
    lookahead `t3 = braces[i+1]` (if any). `opens` is the stack, top first. Returns the new stack,
    the accumulator and whether the iteration executed the extra `i++`. -/
def fuseStep (t2 : BItem) (t3? : Option BItem) (opens : List BItem) (acc : FAcc) :
    List BItem × FAcc × Bool :=
  if isOpenB t2 then (t2 :: opens, acc, false)
  else
    match opens with
    | [] => ([], acc.unm t2, false)                                  -- orphaned close
    | t1 :: os =>
      if t1.kw == openOf t2.kw then (os, acc.pair t1 t2, false)       -- common case
      else
        -- t0 / t3 are zero tokens (keyword Unknown = 0) when absent:
        --   leftMatch  := t0.Keyword() == open
        --   rightMatch := t3.Keyword() != nextOpen && t1.Keyword() == nextOpen
        -- (`open` is never Unknown here, and Unknown != Unknown fails)
        match os, t3? with
        | t0 :: os', some t3 =>
          let leftMatch := t0.kw == openOf t2.kw
          let rightMatch := t3.kw != openOf t3.kw && t1.kw == openOf t3.kw
          if leftMatch && rightMatch then
            (os', (acc.unm t1 (some t2) (some t3)).pair t0 t2, true)
          else if leftMatch then (os', (acc.unm t1).pair t0 t2, false)
          else if rightMatch then (os, (acc.unm t1 (some t2) (some t3)).pair t1 t3, true)
          else (opens, acc.unm t2, false)
        | t0 :: os', none =>
          if t0.kw == openOf t2.kw then (os', (acc.unm t1).pair t0 t2, false)
          else (opens, acc.unm t2, false)
        | [], some t3 =>
          if t3.kw != openOf t3.kw && t1.kw == openOf t3.kw then
            (os, (acc.unm t1 (some t2) (some t3)).pair t1 t3, true)
          else (opens, acc.unm t2, false)
        | [], none => (opens, acc.unm t2, false)

/-- the whole loop; `skip` = the previous iteration did `i++` -/
def fuseGo : List BItem → List BItem → FAcc → Bool → FAcc × List BItem
  | [], opens, acc, _ => (acc, opens)
  | t2 :: rest, opens, acc, skip =>
    if skip then fuseGo rest opens acc false
    else
      let r := fuseStep t2 rest.head? opens acc
      fuseGo rest r.1 r.2.1 r.2.2

def spanOf (t : BItem) : Nat × Nat := (t.start, t.end_)

def unmDiag (u : BItem × Option BItem × Option BItem) : Diag :=
  let (t, m, s) := u
  -- `Unmatched.Diagnose`: Mismatch / ShouldMatch snippets are only added for an opening delimiter
  let extra := if isOpenB t then (m.toList ++ s.toList).map spanOf else []
  ⟨"unm", lvError, spanOf t :: extra⟩

/-- "In backwards order, generate empty tokens to fuse with the unclosed delimiters." -/
def closeOpens (n : Nat) : List BItem → LS → List (Nat × Nat) → LS × List (Nat × Nat)
  | [], s, ps => (s, ps)
  | o :: os, s, ps =>
    let s' := push n s 0 kUnrecognized 0
    closeOpens n os s' (ps ++ [(o.id, s'.toks.length)])

/-- `fuseBraces(l)`. The fuses of the matching loop happen before the diagnostics for unclosed
    delimiters and before the empty closers are pushed; since a fuse does not change ends, kinds or
    the token count, all fuses are applied at the end (`fuseAll`). Returns the state and the fuse
    pairs in the order Go performs them. -/
def fuseBraces (n : Nat) (s : LS) : LS × List (Nat × Nat) :=
  let (acc, opens) := fuseGo s.braces.reverse [] {} false
  let s1 := { s with diags := (acc.unms.map unmDiag) ++ s.diags }
  -- "Legalize against unclosed delimiters": oldest first
  let s2 := opens.reverse.foldl (fun st o => addDiag st ⟨"unm", lvError, [spanOf o]⟩) s1
  let pairs := acc.pairs.reverse.map (fun (o, c) => (o.id, c.id))
  closeOpens n opens s2 pairs

/-! ### `fuseStrings`: implicit concatenation fuses the first and last string of a run -/

/-- walk over the tokens in order (ids from `i`), `cur = (start, end)` of the current run -/
def strRuns : List Tok → Nat → Option (Nat × Nat) → List (Nat × Nat)
  | [], _, cur =>
    match cur with
    | some (a, b) => if a ≠ b then [(a, b)] else []
    | none => []
  | t :: ts, i, cur =>
    if t.kind = kSpace ∨ t.kind = kComment then strRuns ts (i + 1) cur
    else if t.kind = kString then
      match cur with
      | none => strRuns ts (i + 1) (some (i, i))
      | some (a, _) => strRuns ts (i + 1) (some (a, i))
    else
      match cur with
      | some (a, b) => (if a ≠ b then [(a, b)] else []) ++ strRuns ts (i + 1) none
      | none => strRuns ts (i + 1) none

/-! ### the stream as text: tiling -/

/-- byte spans `[start, end)` of in-order tokens, `prev` = end of the preceding token -/
def spansFrom : Nat → List Tok → List (Nat × Nat)
  | _, [] => []
  | prev, t :: ts => (prev, t.end_) :: spansFrom t.end_ ts

/-- `Token.Text()` of a natural token: `text[start:end]` -/
def slice (text : Bytes) (sp : Nat × Nat) : Bytes := (text.drop sp.1).take (sp.2 - sp.1)

/-- concatenation of the texts of all natural tokens, in order -/
def concatTexts (text : Bytes) (ts : List Tok) : Bytes :=
  ((spansFrom 0 ts).map (slice text)).flatten

end PCV.TokenStream
