/-
Model of `experimental/report/report.go`:

* `Report.ToProto` / `Report.AppendFromProto`  (C37)
* `Report.Canonicalize`                        (C36)

Strings are byte lists (Go strings compare bytewise).  Go `int` fields are `Int`; the
`uint32(...)` conversions of `ToProto` are `u32`, the `Level(int32)` conversion of
`AppendFromProto` is `i8`.  A `*source.File` is modelled by `fid` (the pointer's identity),
`path` and `text`; only `Canonicalize` looks at the identity (struct equality of
`source.Span` in the dedup key), only `ToProto` looks at the text.

The code is modelled as it is.  Three places where `ToProto`/`AppendFromProto` could be
changed are controlled by a `Variant`; `Variant.current` is the code in /repo.
-/
namespace PCV.Report

abbrev Bytes := List UInt8

/-! ## Data -/

/-- `report.Edit` -/
structure Edit where
  start : Int
  stop : Int
  replace : Bytes
deriving DecidableEq, Repr

/-- `report.snippet` (a `source.Span` plus annotation data) -/
structure Snippet where
  fid : Nat          -- identity of the `*source.File`
  path : Bytes       -- `File.Path()`
  text : Bytes       -- `File.Text()`
  start : Int
  stop : Int
  msg : Bytes
  primary : Bool
  pageBreak : Bool
  edits : List Edit
deriving DecidableEq, Repr

/-- `report.Diagnostic` -/
structure Diagnostic where
  tag : Bytes
  msg : Bytes
  level : Int        -- `Level` is an int8: ICE=1 Error=2 Warning=3 Remark=4
  sortOrder : Int
  inFile : Bytes
  snippets : List Snippet
  notes : List Bytes
  help : List Bytes
  debug : List Bytes
deriving DecidableEq, Repr

/-- `compilerpb.Report_File` -/
structure PFile where
  path : Bytes
  text : Bytes
deriving DecidableEq, Repr

/-- `compilerpb.Diagnostic_Edit` (uint32 offsets) -/
structure PEdit where
  start : Nat
  stop : Nat
  replace : Bytes
deriving DecidableEq, Repr

/-- `compilerpb.Diagnostic_Annotation` -/
structure PAnnotation where
  file : Nat
  start : Nat
  stop : Nat
  msg : Bytes
  primary : Bool
  pageBreak : Bool
  edits : List PEdit
deriving DecidableEq, Repr

/-- `compilerpb.Diagnostic`; `level` is the int32 enum number -/
structure PDiagnostic where
  msg : Bytes
  tag : Bytes
  level : Int
  inFile : Bytes
  annotations : List PAnnotation
  notes : List Bytes
  help : List Bytes
  debug : List Bytes
deriving DecidableEq, Repr

/-- `compilerpb.Report` -/
structure PReport where
  files : List PFile
  diagnostics : List PDiagnostic
deriving DecidableEq, Repr

/-! ## Variants (candidate fixes) -/

structure Variant where
  /-- `ToProto` stores `snip.File.Text()`; the code in /repo stores `snip.Text()`, which Go
      resolves to `Span.Text()` — the text *of the span* — because `snippet` embeds
      `source.Span`, which embeds `*File`, and the shallower method wins. -/
  fileText : Bool
  /-- `AppendFromProto` accepts `Start == len(text)` (the code in /repo uses `>=`). -/
  allowEOF : Bool
  /-- `AppendFromProto` accepts `Level == ICE` (the code in /repo rejects it). -/
  allowICE : Bool
deriving DecidableEq, Repr

/-- The code as it is in /repo. -/
def Variant.current : Variant := ⟨false, false, false⟩
/-- All three candidate fixes applied. -/
def Variant.fixed : Variant := ⟨true, true, true⟩

/-! ## Conversions -/

/-- `uint32(x)` for a 64-bit `int` x -/
def u32 (x : Int) : Nat := (x % 4294967296).toNat

/-- `int8(x)` for an int32 x (`Level(dProto.Level)`) -/
def i8 (x : Int) : Int := (x + 128) % 256 - 128

/-- Go `s[a:b]` on a string; `none` is the run-time panic. -/
def slice (t : Bytes) (a b : Int) : Option Bytes :=
  if 0 ≤ a ∧ a ≤ b ∧ b ≤ (t.length : Int) then some ((t.drop a.toNat).take (b.toNat - a.toNat))
  else none

/-! ## ToProto -/

/-- `fileToIndex[path]`: the map is always `{files[i].path ↦ i}`. -/
def findPath : List PFile → Bytes → Option Nat
  | [], _ => none
  | f :: fs, p => if f.path = p then some 0 else (findPath fs p).map (· + 1)

def editToProto (e : Edit) : PEdit := ⟨u32 e.start, u32 e.stop, e.replace⟩

/-- What `ToProto` puts into `Report_File.text` for the first snippet of a path. -/
def textFor (v : Variant) (s : Snippet) : Option Bytes :=
  if v.fileText then some s.text else slice s.text s.start s.stop

/-- Body of `for _, snip := range d.snippets`: (updated file table, annotation). -/
def snipToProto (v : Variant) (files : List PFile) (s : Snippet) : Option (List PFile × PAnnotation) :=
  let mk (idx : Nat) : PAnnotation :=
    { file := idx, start := u32 s.start, stop := u32 s.stop, msg := s.msg,
      primary := s.primary, pageBreak := s.pageBreak, edits := s.edits.map editToProto }
  match findPath files s.path with
  | some i => some (files, mk i)
  | none =>
    match textFor v s with
    | none => none
    | some t => some (files ++ [⟨s.path, t⟩], mk files.length)

def snipsToProto (v : Variant) : List PFile → List Snippet → Option (List PFile × List PAnnotation)
  | files, [] => some (files, [])
  | files, s :: ss =>
    match snipToProto v files s with
    | none => none
    | some (files₁, a) =>
      match snipsToProto v files₁ ss with
      | none => none
      | some (files₂, as) => some (files₂, a :: as)

def diagToProto (v : Variant) (files : List PFile) (d : Diagnostic) : Option (List PFile × PDiagnostic) :=
  match snipsToProto v files d.snippets with
  | none => none
  | some (files₁, as) =>
    some (files₁, { msg := d.msg, tag := d.tag, level := d.level, inFile := d.inFile,
                    annotations := as, notes := d.notes, help := d.help, debug := d.debug })

def diagsToProto (v : Variant) : List PFile → List Diagnostic → Option (List PFile × List PDiagnostic)
  | files, [] => some (files, [])
  | files, d :: ds =>
    match diagToProto v files d with
    | none => none
    | some (files₁, p) =>
      match diagsToProto v files₁ ds with
      | none => none
      | some (files₂, ps) => some (files₂, p :: ps)

/-- `Report.ToProto` on `r.Diagnostics`; `none` = panic (span outside its file). -/
def toProtoV (v : Variant) (r : List Diagnostic) : Option PReport :=
  (diagsToProto v [] r).map fun (fs, ps) => ⟨fs, ps⟩

/-! ## AppendFromProto -/

inductive Err where
  | message (i : Nat)
  | level (n : Int)
  | file (i j n : Nat)
  | span (i j s e : Nat)
deriving DecidableEq, Repr

def editFrom (e : PEdit) : Edit := ⟨e.start, e.stop, e.replace⟩

/-- Body of `for j, snip := range dProto.Annotations`. -/
def annFrom (v : Variant) (files : List PFile) (i j : Nat) (a : PAnnotation) : Except Err Snippet :=
  match files[a.file]? with
  | none => .error (.file i j a.file)
  | some f =>
    let startBad : Bool := if v.allowEOF then decide (a.start > f.text.length) else decide (a.start ≥ f.text.length)
    if startBad ∨ a.stop > f.text.length ∨ a.start > a.stop then .error (.span i j a.start a.stop)
    else .ok { fid := a.file, path := f.path, text := f.text, start := a.start, stop := a.stop,
               msg := a.msg, primary := a.primary, pageBreak := a.pageBreak,
               edits := a.edits.map editFrom }

def annsFrom (v : Variant) (files : List PFile) (i : Nat) : Nat → List PAnnotation → Except Err (List Snippet)
  | _, [] => .ok []
  | j, a :: as =>
    match annFrom v files i j a with
    | .error e => .error e
    | .ok s =>
      match annsFrom v files i (j + 1) as with
      | .error e => .error e
      | .ok ss => .ok (s :: ss)

/-- `if !havePrimary && len(d.snippets) > 0 { d.snippets[0].primary = true }` -/
def fixPrimary (ss : List Snippet) : List Snippet :=
  if ss.any (·.primary) then ss
  else match ss with
    | [] => []
    | s :: rest => { s with primary := true } :: rest

def levelOk (v : Variant) (l : Int) : Bool :=
  l == 2 || l == 3 || l == 4 || (v.allowICE && l == 1)

def diagFrom (v : Variant) (files : List PFile) (i : Nat) (p : PDiagnostic) : Except Err Diagnostic :=
  if p.msg = [] then .error (.message i)
  else if levelOk v (i8 p.level) = false then .error (.level (i8 p.level))
  else match annsFrom v files i 0 p.annotations with
    | .error e => .error e
    | .ok ss => .ok { tag := p.tag, msg := p.msg, level := i8 p.level, sortOrder := 0, inFile := p.inFile,
                      snippets := fixPrimary ss, notes := p.notes, help := p.help, debug := p.debug }

/-- The loop over `proto.Diagnostics`: the diagnostics appended so far, and the error (if any)
    that made the function return early. -/
def diagsFrom (v : Variant) (files : List PFile) : Nat → List PDiagnostic → List Diagnostic × Option Err
  | _, [] => ([], none)
  | i, p :: ps =>
    match diagFrom v files i p with
    | .error e => ([], some e)
    | .ok d =>
      let r := diagsFrom v files (i + 1) ps
      (d :: r.1, r.2)

/-- `Report.AppendFromProto` on an empty report, after `deserialize` produced `p`. -/
def fromProtoV (v : Variant) (p : PReport) : List Diagnostic × Option Err :=
  diagsFrom v p.files 0 p.diagnostics

-- /repo now contains the three `fix:` commits c7f2980f, 03cbcffa, fcc24412, i.e. `Variant.fixed`;
-- `Variant.current` is the pinned pre-fix code, kept because the refutation theorems are about it.
abbrev toProto := toProtoV .fixed
abbrev fromProto := fromProtoV .fixed

/-! ## Canonicalize -/

/-- `d.Primary()`: the first snippet marked primary -/
def primarySnip (d : Diagnostic) : Option Snippet := d.snippets.find? (·.primary)

/-- `d.Primary().Path()` (`""` for the zero span) -/
def primaryPath (d : Diagnostic) : Bytes :=
  match primarySnip d with | some s => s.path | none => []
def primaryStart (d : Diagnostic) : Int :=
  match primarySnip d with | some s => s.start | none => 0
def primaryStop (d : Diagnostic) : Int :=
  match primarySnip d with | some s => s.stop | none => 0
/-- identity of `d.Primary().File` (`none` = nil) -/
def primaryFid (d : Diagnostic) : Option Nat :=
  match primarySnip d with | some s => some s.fid | none => none

/-- The comparison passed to `slices.SortFunc`:
    `cmpx.Join(cmpx.Key(path), cmpx.Key(sortOrder), cmpx.Key(start), cmpx.Key(end), cmpx.Key(tag), cmpx.Key(message))`.
    `cmpx.Join` is `compareLex`, `cmpx.Key` is `compareOn`; `compare` on byte lists is Go's
    string comparison. -/
def cmpKey : Diagnostic → Diagnostic → Ordering :=
  compareLex (compareOn primaryPath)
    (compareLex (compareOn (·.sortOrder))
      (compareLex (compareOn primaryStart)
        (compareLex (compareOn primaryStop)
          (compareLex (compareOn (·.tag)) (compareOn (·.msg))))))

/-- Inner loop of Go's `insertionSortCmpFunc`, on the reversed sorted prefix:
    `for j := i; j > a && cmp(data[j], data[j-1]) < 0; j-- { swap }`. -/
def insRev (x : Diagnostic) : List Diagnostic → List Diagnostic
  | [] => [x]
  | y :: ys => if cmpKey x y = .lt then y :: insRev x ys else x :: y :: ys

/-- `slices.SortFunc` for at most 12 elements (`pdqsortCmpFunc` calls `insertionSortCmpFunc`
    when `length <= 12`). For longer inputs Go's pdqsort places key-equal elements in an
    order this model does not describe. -/
def isort (xs : List Diagnostic) : List Diagnostic :=
  (xs.foldl (fun acc x => insRev x acc) []).reverse

/-- The dedup key `key{d.Primary().Span(), d.tag}`: (file identity, start, end, tag). -/
abbrev DKey := Option Nat × Int × Int × Bytes

def dkey (d : Diagnostic) : DKey := (primaryFid d, primaryStart d, primaryStop d, d.tag)

/-- zero value of `key` -/
def zeroKey : DKey := (none, 0, 0, [])

/-- The `slices.Backward` scan: everything behind `d` has been visited when `d` is.
    Returns the list with deleted diagnostics marked `level = -1`, and `cur`. -/
def markFrom : List Diagnostic → List Diagnostic × DKey
  | [] => ([], zeroKey)
  | d :: ds =>
    let r := markFrom ds
    if d.tag = [] then (d :: r.1, r.2)
    else if r.2.2.2.2 ≠ [] ∧ r.2 = dkey d then ({ d with level := -1 } :: r.1, r.2)
    else (d :: r.1, dkey d)

/-- scan + `slices.DeleteFunc(level == -1)` -/
def dedup (ds : List Diagnostic) : List Diagnostic :=
  (markFrom ds).1.filter (fun d => d.level ≠ -1)

/-- `Report.Canonicalize` with an arbitrary sorting function. -/
def canonWith (sort : List Diagnostic → List Diagnostic) (keepDuplicates : Bool)
    (ds : List Diagnostic) : List Diagnostic :=
  if keepDuplicates then sort ds else dedup (sort ds)

/-- `Report.Canonicalize` as executed (≤ 12 diagnostics). -/
def canonicalize (keepDuplicates : Bool) (ds : List Diagnostic) : List Diagnostic :=
  canonWith isort keepDuplicates ds

end PCV.Report
