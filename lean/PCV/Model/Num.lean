/-
Models of the `strconv` functions the lexer calls, over ASCII byte lists:
`ParseUint(s, base, bitSize)` (base ≠ 0, so `_` is a syntax error), `ParseInt`, and
`ParseFloat(s, 64)` restricted to decimal input (the lexer never passes a sign, a `0x`
prefix, `inf` or `nan`: tokens start with a digit or a dot, and `0x…` tokens go to ParseUint).
`ParseFloat`'s value is modelled by its specification: the decimal value correctly rounded to
binary64 (round-half-even), overflow to +Inf with ErrRange, underflow silently to 0/denormal.
-/
namespace PCV.Num

inductive PU where
  | ok (n : Nat)
  | syntax
  | range
deriving Repr, DecidableEq

def lower (c : UInt8) : UInt8 := c ||| 0x20

/-- digit value as `ParseUint` computes it (`none` = syntax error) -/
def digitVal (c : UInt8) : Option Nat :=
  if 48 ≤ c.toNat ∧ c.toNat ≤ 57 then some (c.toNat - 48)
  else if 97 ≤ (lower c).toNat ∧ (lower c).toNat ≤ 122 then some ((lower c).toNat - 97 + 10)
  else none

def maxU64 : Nat := 2 ^ 64 - 1

/-- the digit loop of `ParseUint`; range errors return at the first overflowing digit,
    before later characters are looked at. -/
def parseUintGo (base maxVal : Nat) : Nat → List UInt8 → PU
  | n, [] => .ok n
  | n, c :: cs =>
    match digitVal c with
    | none => .syntax
    | some d =>
      if d ≥ base then .syntax
      else if n ≥ maxU64 / base + 1 then .range
      else
        let n1 := n * base + d
        if n1 > maxVal then .range else parseUintGo base maxVal n1 cs

def parseUint (s : List UInt8) (base bitSize : Nat) : PU :=
  if s.isEmpty then .syntax else parseUintGo base (2 ^ bitSize - 1) 0 s

/-- `ParseInt(s, base, bitSize)`: `none` = any error -/
def parseInt (s : List UInt8) (base bitSize : Nat) : Option Int :=
  match s with
  | [] => none
  | c :: rest =>
    let (neg, body) := if c = 43 then (false, rest) else if c = 45 then (true, rest) else (false, s)
    match parseUint body base bitSize with
    | .syntax => none
    | .range => none          -- un = maxVal ≥ cutoff ⇒ range error either way
    | .ok un =>
      let cutoff := 2 ^ (bitSize - 1)
      if !neg && un ≥ cutoff then none
      else if neg && un > cutoff then none
      else some (if neg then - (un : Int) else (un : Int))

/-! ### ParseFloat -/

def isDigit (c : UInt8) : Bool := 48 ≤ c.toNat && c.toNat ≤ 57

/-- mantissa scan of `readFloat`: returns (all digits as a number, number of digits after the
    dot, saw a digit, rest). Stops at the first character that is not a digit or the first dot. -/
def scanMant : Nat → Nat → Bool → Bool → List UInt8 → (Nat × Nat × Bool × List UInt8)
  | m, fd, _, sawdig, [] => (m, fd, sawdig, [])
  | m, fd, sawdot, sawdig, c :: cs =>
    if c = 46 then
      if sawdot then (m, fd, sawdig, c :: cs) else scanMant m fd true sawdig cs
    else if isDigit c then
      scanMant (m * 10 + (c.toNat - 48)) (if sawdot then fd + 1 else fd) sawdot true cs
    else (m, fd, sawdig, c :: cs)

def scanDigits : Nat → List UInt8 → (Nat × List UInt8)
  | e, [] => (e, [])
  | e, c :: cs => if isDigit c then scanDigits (e * 10 + (c.toNat - 48)) cs else (e, c :: cs)

/-- syntactic part of `ParseFloat` on a string without `_`: (mantissa, decimal exponent) -/
def readFloat (s : List UInt8) : Option (Nat × Int) :=
  let (m, fd, sawdig, rest) := scanMant 0 0 false false s
  if !sawdig then none
  else match rest with
    | [] => some (m, - (fd : Int))
    | c :: r1 =>
      if lower c = 101 then
        match r1 with
        | [] => none
        | s1 :: r2 =>
          let (esign, r3) : Int × List UInt8 :=
            if s1 = 43 then (1, r2) else if s1 = 45 then (-1, r2) else (1, r1)
          match r3 with
          | [] => none
          | d :: _ =>
            if !isDigit d then none
            else
              let (e, r4) := scanDigits 0 r3
              if r4.isEmpty then some (m, esign * (e : Int) - (fd : Int)) else none
      else none

def numDigits : Nat → Nat → Nat
  | 0, _ => 0
  | f+1, n => if n = 0 then 0 else 1 + numDigits f (n / 10)

def infBits : Nat := 0x7FF0000000000000

/-- floor(log2 (n/d)) for n, d > 0 -/
def floorLog2Ratio (n d : Nat) : Int :=
  let k : Int := (Nat.log2 n : Int) - (Nat.log2 d : Int)
  -- n/d ∈ (2^(k-1), 2^(k+1))
  let ge : Bool := if k ≥ 0 then n ≥ d * 2 ^ k.toNat else n * 2 ^ (-k).toNat ≥ d
  if ge then k else k - 1

/-- `m * 10^e10` correctly rounded to binary64 (bits); overflow ⇒ +Inf bits. -/
def roundF64 (m : Nat) (e10 : Int) : Nat :=
  if m = 0 then 0
  else
    let L : Int := numDigits (m + 1) m
    if L + e10 > 310 then infBits
    else if L + e10 < -330 then 0
    else
      let num := if e10 ≥ 0 then m * 10 ^ e10.toNat else m
      let den := if e10 ≥ 0 then 1 else 10 ^ (-e10).toNat
      let lg := floorLog2Ratio num den
      let e2 : Int := if lg - 52 < -1074 then -1074 else lg - 52
      let n' := if e2 ≥ 0 then num else num * 2 ^ (-e2).toNat
      let d' := if e2 ≥ 0 then den * 2 ^ e2.toNat else den
      let q := n' / d'
      let r := n' % d'
      let q := if 2 * r > d' ∨ (2 * r = d' ∧ q % 2 = 1) then q + 1 else q
      -- q ≤ 2^53; value = q * 2^e2
      let (q, e2) := if q = 2 ^ 53 then (2 ^ 52, e2 + 1) else (q, e2)
      if q < 2 ^ 52 then q            -- subnormal (e2 = -1074)
      else
        let biased := e2 + 1075
        if biased ≥ 2047 then infBits
        else biased.toNat * 2 ^ 52 + (q - 2 ^ 52)

/-- the lexer's `parseFloat(token)`: `none` = syntax error (this includes any `_`);
    overflow is accepted as +Inf, exactly as the Go wrapper does. -/
def parseFloat (tok : List UInt8) : Option Nat :=
  if tok.contains 95 then none
  else match readFloat tok with
    | none => none
    | some (m, e) => some (roundF64 m e)

end PCV.Num
