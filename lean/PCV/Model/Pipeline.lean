/-
Model of the compile pipeline of /repo for one workspace (C09, C10):

  source ──parse──▶ AST ──toDesc──▶ unlinked descriptor ──link──▶ linked descriptor

* `Decl` / `SrcFile` stand for the source text *and* the AST (the yacc parser is not modelled;
  `parse` is an abstract function in the theorems).
* `toDesc` mirrors `parser/result.go` (`createFileDescriptor`, `addMessageBody`,
  `asFieldDescriptor`, `asGroupDescriptors`, `asMapDescriptors`, `processProto3OptionalFields`,
  `fillInMissingLabels`) on the modelled fields: names, numbers, labels, types, type names,
  extendees, JSON names, oneof indexes (incl. synthetic oneofs), map entries, groups,
  extension ranges, enums, services.  Options are carried as counts only.
* `link` mirrors `linker/resolve.go` (`resolve`, `fileScope`, `messageScope`,
  `resolveElementRelative`, `resolveElementInFile`, `matchesPkgNamespace`, `resolveInFile`,
  `resolveFieldTypes`, `resolveMethodTypes`) plus the one pseudo-option that changes a modelled
  field (`json_name`).
* `asParseResult` / `needsSourceInfo` mirror `compiler.go`.

Messages are kept in a flat pre-order list (`MsgD.path` is the chain of message names), so that
all proofs are plain list inductions.  Core Lean only.
-/
namespace PCV.Pipeline

abbrev Name := List String

def showName (n : Name) : String := ".".intercalate n
def parseName (s : String) : Name := if s == "" then [] else s.splitOn "."

/-- a type / extendee / request / response reference: optional leading dot + components
    (the split at dots is done by the adapter; identifiers cannot contain dots) -/
structure Ref where
  dotted : Bool
  name : Name
  deriving DecidableEq, Repr, Inhabited

def showRef (r : Ref) : String := (if r.dotted then "." else "") ++ showName r.name

/-- a reference as written in a descriptor: optional leading dot + components -/
def splitRef (s : String) : Ref :=
  match s.toList with
  | '.' :: cs => ⟨true, parseName (String.ofList cs)⟩
  | _ => ⟨false, parseName s⟩

inductive Label where
  | none | optional | required | repeated
  deriving DecidableEq, Repr, Inhabited

inductive Syn where
  | proto2 | proto3 | editions
  deriving DecidableEq, Repr, Inhabited

/-- Source-level declaration. -/
inductive Decl where
  | imp (path : String) (pub : Bool)
  | opt
  | msg (name : String) (body : List Decl)
  | enum (name : String) (body : List Decl)
  | oneof (name : String) (body : List Decl)
  | extend (extendee : Ref) (body : List Decl)
  | svc (name : String) (body : List Decl)
  | field (lbl : Label) (typ : Ref) (name : String) (num : Int) (json : Option String) (nopts : Nat)
  | mapf (kt : String) (vt : Ref) (name : String) (num : Int) (json : Option String) (nopts : Nat)
  | group (lbl : Label) (name : String) (num : Int) (nopts : Nat) (body : List Decl)
  | extRange (ranges : List (Int × Int)) (nopts : Nat)
  | rsvRange
  | rsvName
  | val (name : String) (num : Int) (nopts : Nat)
  | rpc (name : String) (inp out : Ref) (cs ss : Bool) (nopts : Option Nat)
  deriving Inhabited

structure SrcFile where
  path : String
  syn : Syn
  pkg : Name
  body : List Decl
  deriving Inhabited

/-! ## Descriptors (flat) -/

structure FieldD where
  name : String
  number : Int
  label : Nat            -- 0 unset, 1 optional, 2 required, 3 repeated
  typ : Nat              -- 0 unset, else FieldDescriptorProto.Type
  typeName : Option Ref
  extendee : Option Ref
  json : String
  pendingJson : Option String   -- uninterpreted `json_name` option
  oneof : Option Nat
  p3opt : Bool
  nopts : Nat
  deriving DecidableEq, Repr, Inhabited

structure EnumD where
  name : String
  vals : List (String × Int)
  nopts : Nat            -- uninterpreted options of the enum and of its values
  nrsv : Nat
  deriving DecidableEq, Repr, Inhabited

structure MsgD where
  path : Name            -- message names from the top-level message down to this one
  fields : List FieldD
  oneofs : List String
  enums : List EnumD
  ranges : List (Int × Int)
  exts : List FieldD
  mapEntry : Bool
  nopts : Nat            -- uninterpreted options of the message, its oneofs and extension ranges
  nrsv : Nat
  deriving DecidableEq, Repr, Inhabited

structure MethodD where
  name : String
  inp : Ref
  out : Ref
  cs : Bool
  ss : Bool
  deriving DecidableEq, Repr, Inhabited

structure SvcD where
  name : String
  methods : List MethodD
  nopts : Nat
  deriving DecidableEq, Repr, Inhabited

structure FileD where
  path : String
  pkg : Name
  syn : Syn
  deps : List String
  pubDeps : List Nat
  msgs : List MsgD
  enums : List EnumD
  exts : List FieldD
  svcs : List SvcD
  nopts : Nat
  deriving DecidableEq, Repr, Inhabited

/-! ## toDesc (parser/result.go) -/

def scalarType (s : String) : Nat :=
  if s == "double" then 1 else if s == "float" then 2 else if s == "int64" then 3
  else if s == "uint64" then 4 else if s == "int32" then 5 else if s == "fixed64" then 6
  else if s == "fixed32" then 7 else if s == "bool" then 8 else if s == "string" then 9
  else if s == "bytes" then 12 else if s == "uint32" then 13 else if s == "sfixed32" then 15
  else if s == "sfixed64" then 16 else if s == "sint32" then 17 else if s == "sint64" then 18
  else 0

def upperChar (c : Char) : Char := if 'a' ≤ c ∧ c ≤ 'z' then Char.ofNat (c.toNat - 32) else c
def lowerChar (c : Char) : Char := if 'A' ≤ c ∧ c ≤ 'Z' then Char.ofNat (c.toNat + 32) else c

/-- `cases.Converter{Case: Camel|Pascal, NaiveSplit, NoLowercase}`: split at `_`; the first
    rune of every word but (for Camel) the first word is upper-cased. -/
def camelAux : Bool → List Char → List Char
  | _, [] => []
  | up, c :: cs => if c == '_' then camelAux true cs
                   else (if up then upperChar c else c) :: camelAux false cs

def jsonName (s : String) : String := String.ofList (camelAux false s.toList)
def mapEntryName (s : String) : String := String.ofList (camelAux true s.toList) ++ "Entry"
def lowerStr (s : String) : String := String.ofList (s.toList.map lowerChar)

def labelNum : Label → Nat
  | .none => 0 | .optional => 1 | .required => 2 | .repeated => 3

/-- `fieldTypes[fieldType]`: only an undotted single identifier can name a scalar type -/
def scalarOfRef (r : Ref) : Nat :=
  match r.dotted, r.name with
  | false, [s] => scalarType s
  | _, _ => 0

/-- `newFieldDescriptor` -/
def newField (name : String) (typ : Ref) (num : Int) (lbl : Nat) : FieldD :=
  let t := scalarOfRef typ
  { name := name, number := num, label := lbl, typ := t,
    typeName := if t == 0 then some typ else none, extendee := none, json := jsonName name,
    pendingJson := none, oneof := none, p3opt := false, nopts := 0 }

def jsonCount : Option String → Nat
  | some _ => 1 | none => 0

/-- `asFieldDescriptor` -/
def asField (syn : Syn) (lbl : Label) (typ : Ref) (name : String) (num : Int) (json : Option String)
    (nopts : Nat) : FieldD :=
  let fd := newField name typ num (labelNum lbl)
  { fd with pendingJson := json, nopts := nopts + jsonCount json,
            p3opt := syn == .proto3 && lbl == .optional }

/-- field half of `asGroupDescriptors` -/
def asGroupField (lbl : Label) (name : String) (num : Int) (nopts : Nat) : FieldD :=
  let fname := lowerStr name
  { name := fname, number := num, label := labelNum lbl, typ := 10, typeName := some ⟨false, [name]⟩,
    extendee := none, json := jsonName fname, pendingJson := none, oneof := none, p3opt := false,
    nopts := nopts }

/-- field half of `asMapDescriptors` -/
def asMapField (name : String) (num : Int) (json : Option String) (nopts : Nat) : FieldD :=
  let fd := newField name ⟨false, [mapEntryName name]⟩ num 3
  { fd with pendingJson := json, nopts := nopts + jsonCount json }

def withOneof (i : Nat) (f : FieldD) : FieldD := { f with oneof := some i }
def withExtendee (e : Ref) (f : FieldD) : FieldD := { f with extendee := some e }

/-- fields contributed by the body of a oneof -/
def oneofFields (syn : Syn) (idx : Nat) : List Decl → List FieldD
  | [] => []
  | .field l t n num j k :: ds => withOneof idx (asField syn l t n num j k) :: oneofFields syn idx ds
  | .group l n num k _ :: ds => withOneof idx (asGroupField l n num k) :: oneofFields syn idx ds
  | _ :: ds => oneofFields syn idx ds

def countOpts : List Decl → Nat
  | [] => 0
  | .opt :: ds => 1 + countOpts ds
  | _ :: ds => countOpts ds

/-- `addMessageBody`, fields: declared order, oneof members inline; `n` = oneofs seen so far. -/
def bodyFields (syn : Syn) : Nat → List Decl → List FieldD
  | _, [] => []
  | n, .field l t nm num j k :: ds => asField syn l t nm num j k :: bodyFields syn n ds
  | n, .mapf _ _ nm num j k :: ds => asMapField nm num j k :: bodyFields syn n ds
  | n, .group l nm num k _ :: ds => asGroupField l nm num k :: bodyFields syn n ds
  | n, .oneof _ b :: ds => oneofFields syn n b ++ bodyFields syn (n + 1) ds
  | n, _ :: ds => bodyFields syn n ds

def bodyOneofs : List Decl → List String
  | [] => []
  | .oneof n _ :: ds => n :: bodyOneofs ds
  | _ :: ds => bodyOneofs ds

def bodyOneofOpts : List Decl → Nat
  | [] => 0
  | .oneof _ b :: ds => countOpts b + bodyOneofOpts ds
  | _ :: ds => bodyOneofOpts ds

def enumVals : List Decl → List (String × Int)
  | [] => []
  | .val n num _ :: ds => (n, num) :: enumVals ds
  | _ :: ds => enumVals ds

def enumValOpts : List Decl → Nat
  | [] => 0
  | .val _ _ k :: ds => k + enumValOpts ds
  | _ :: ds => enumValOpts ds

def countRsv : List Decl → Nat
  | [] => 0
  | .rsvRange :: ds => 1 + countRsv ds
  | _ :: ds => countRsv ds

/-- `asEnumDescriptor` -/
def asEnum (name : String) (body : List Decl) : EnumD :=
  { name := name, vals := enumVals body, nopts := countOpts body + enumValOpts body,
    nrsv := countRsv body }

def bodyEnums : List Decl → List EnumD
  | [] => []
  | .enum n b :: ds => asEnum n b :: bodyEnums ds
  | _ :: ds => bodyEnums ds

/-- `asExtensionRanges`: end is exclusive in the descriptor. -/
def bodyRanges : List Decl → List (Int × Int)
  | [] => []
  | .extRange rs _ :: ds => rs.map (fun (s, e) => (s, e + 1)) ++ bodyRanges ds
  | _ :: ds => bodyRanges ds

/-- the options of an `extensions` statement are attached to every range of the statement -/
def bodyRangeOpts : List Decl → Nat
  | [] => 0
  | .extRange rs k :: ds => rs.length * k + bodyRangeOpts ds
  | _ :: ds => bodyRangeOpts ds

/-- `addExtensions`, fields -/
def extendFields (syn : Syn) (extendee : Ref) : List Decl → List FieldD
  | [] => []
  | .field l t n num j k :: ds => withExtendee extendee (asField syn l t n num j k) :: extendFields syn extendee ds
  | .group l n num k _ :: ds => withExtendee extendee (asGroupField l n num k) :: extendFields syn extendee ds
  | _ :: ds => extendFields syn extendee ds

def bodyExts (syn : Syn) : List Decl → List FieldD
  | [] => []
  | .extend e b :: ds => extendFields syn e b ++ bodyExts syn ds
  | _ :: ds => bodyExts syn ds

/-- groups declared directly in a oneof / extend body -/
def groupNames : List Decl → List String
  | [] => []
  | .group _ n _ _ _ :: ds => n :: groupNames ds
  | _ :: ds => groupNames ds

/-- names of the nested types a body contributes (map entries, groups, messages), one level -/
def nestedNames : List Decl → List String
  | [] => []
  | .msg n _ :: ds => n :: nestedNames ds
  | .group _ n _ _ _ :: ds => n :: nestedNames ds
  | .mapf _ _ n _ _ _ :: ds => mapEntryName n :: nestedNames ds
  | .oneof _ b :: ds => groupNames b ++ nestedNames ds
  | .extend _ b :: ds => groupNames b ++ nestedNames ds
  | _ :: ds => nestedNames ds

/-- the `for { ... ooName = "X" + ooName }` loop of `processProto3OptionalFields` -/
def uniqueOneofName : Nat → List String → String → String
  | 0, _, n => n
  | fuel + 1, taken, n => if taken.contains n then uniqueOneofName fuel taken ("X" ++ n) else n

/-- `processProto3OptionalFields` over the field list: returns updated fields and the
    synthetic oneof names (appended after the declared ones). -/
def synthOneofs (nDeclared : Nat) : List String → List FieldD → List FieldD × List String
  | _, [] => ([], [])
  | taken, f :: fs =>
    if f.p3opt then
      let base := match f.name.toList with
        | '_' :: _ => f.name
        | _ => "_" ++ f.name
      let nm := uniqueOneofName (taken.length + 1) taken base
      let (fs', names) := synthOneofs (nDeclared + 1) (nm :: taken) fs
      ({ f with oneof := some nDeclared } :: fs', nm :: names)
    else
      let (fs', names) := synthOneofs nDeclared taken fs
      (f :: fs', names)

/-- `fillInMissingLabel` -/
def fillLabel (f : FieldD) : FieldD := if f.label == 0 then { f with label := 1 } else f

/-- one message (without its nested messages): `asMessageDescriptor`/`addMessageBody` -/
def mkMsg (syn : Syn) (path : Name) (body : List Decl) : MsgD :=
  let fields0 := bodyFields syn 0 body
  let oneofs0 := bodyOneofs body
  let enums := bodyEnums body
  let exts := bodyExts syn body
  let (fields1, synth) :=
    if syn == .proto3 then
      let all := fields0.map (·.name) ++ oneofs0 ++ exts.map (·.name) ++
        enums.flatMap (fun e => e.name :: e.vals.map (·.1)) ++ nestedNames body
      synthOneofs oneofs0.length all fields0
    else (fields0, [])
  { path := path, fields := fields1.map fillLabel, oneofs := oneofs0 ++ synth, enums := enums,
    ranges := bodyRanges body, exts := exts.map fillLabel, mapEntry := false,
    nopts := countOpts body + bodyOneofOpts body + bodyRangeOpts body, nrsv := countRsv body }

/-- message half of `asMapDescriptors` -/
def mapEntryMsg (path : Name) (kt : String) (vt : Ref) (name : String) : MsgD :=
  { path := path ++ [mapEntryName name],
    fields := [fillLabel (newField "key" ⟨false, [kt]⟩ 1 0), fillLabel (newField "value" vt 2 0)],
    oneofs := [], enums := [], ranges := [], exts := [], mapEntry := true, nopts := 0, nrsv := 0 }

mutual
/-- nested messages (flattened, pre-order) contributed by one declaration -/
def nestedOfDecl (syn : Syn) (path : Name) : Decl → List MsgD
  | .msg n b => mkMsg syn (path ++ [n]) b :: nestedOfBody syn (path ++ [n]) b
  | .group _ n _ _ b => mkMsg syn (path ++ [n]) b :: nestedOfBody syn (path ++ [n]) b
  | .mapf kt vt n _ _ _ => [mapEntryMsg path kt vt n]
  | .oneof _ b => nestedOfBody syn path b
  | .extend _ b => nestedOfBody syn path b
  | _ => []
def nestedOfBody (syn : Syn) (path : Name) : List Decl → List MsgD
  | [] => []
  | d :: ds => nestedOfDecl syn path d ++ nestedOfBody syn path ds
end

def fileDeps : List Decl → List String
  | [] => []
  | .imp p _ :: ds => p :: fileDeps ds
  | _ :: ds => fileDeps ds

def filePubDeps : Nat → List Decl → List Nat
  | _, [] => []
  | i, .imp _ pub :: ds => (if pub then [i] else []) ++ filePubDeps (i + 1) ds
  | i, _ :: ds => filePubDeps i ds

def rpcOpts : Option Nat → Nat
  | some k => k | none => 0

def svcMethods : List Decl → List MethodD
  | [] => []
  | .rpc n i o cs ss _ :: ds => { name := n, inp := i, out := o, cs := cs, ss := ss } :: svcMethods ds
  | _ :: ds => svcMethods ds

def svcMethodOpts : List Decl → Nat
  | [] => 0
  | .rpc _ _ _ _ _ k :: ds => rpcOpts k + svcMethodOpts ds
  | _ :: ds => svcMethodOpts ds

def fileSvcs : List Decl → List SvcD
  | [] => []
  | .svc n b :: ds => { name := n, methods := svcMethods b, nopts := countOpts b + svcMethodOpts b } :: fileSvcs ds
  | _ :: ds => fileSvcs ds

/-- `createFileDescriptor` + `fillInMissingLabels` -/
def toDesc (f : SrcFile) : FileD :=
  { path := f.path, pkg := f.pkg, syn := f.syn, deps := fileDeps f.body,
    pubDeps := filePubDeps 0 f.body, msgs := nestedOfBody f.syn [] f.body,
    enums := bodyEnums f.body, exts := (bodyExts f.syn f.body).map fillLabel,
    svcs := fileSvcs f.body, nopts := countOpts f.body }

/-! ## Symbols and resolution (linker/resolve.go) -/

inductive Kind where
  | msg | enum | svc | leaf
  deriving DecidableEq, Repr, Inhabited

/-- every descriptor of a file with its kind (`FindDescriptorByName`) -/
def enumSyms (scope : Name) (e : EnumD) : List (Name × Kind) :=
  (scope ++ [e.name], Kind.enum) :: e.vals.map (fun v => (scope ++ [v.1], Kind.leaf))

def msgSyms (pkg : Name) (m : MsgD) : List (Name × Kind) :=
  let fq := pkg ++ m.path
  (fq, Kind.msg) :: (m.fields.map (fun f => (fq ++ [f.name], Kind.leaf)) ++
    m.oneofs.map (fun o => (fq ++ [o], Kind.leaf)) ++
    m.enums.flatMap (enumSyms fq) ++
    m.exts.map (fun f => (fq ++ [f.name], Kind.leaf)))

def svcSyms (pkg : Name) (s : SvcD) : List (Name × Kind) :=
  (pkg ++ [s.name], Kind.svc) :: s.methods.map (fun m => (pkg ++ [s.name, m.name], Kind.leaf))

def fileSyms (f : FileD) : List (Name × Kind) :=
  f.msgs.flatMap (msgSyms f.pkg) ++ f.enums.flatMap (enumSyms f.pkg) ++
  f.exts.map (fun x => (f.pkg ++ [x.name], Kind.leaf)) ++ f.svcs.flatMap (svcSyms f.pkg)

def findSym (f : FileD) (n : Name) : Option Kind :=
  ((fileSyms f).find? (fun p => p.1 == n)).map (·.2)

/-- result of a lookup: nothing, "namespace exists but element does not" sentinel, or an element -/
inductive Res where
  | none
  | sentinel (n : Name)
  | found (n : Name) (k : Kind)
  deriving DecidableEq, Repr, Inhabited

def Res.isNone : Res → Bool
  | .none => true | _ => false

/-- `matchesPkgNamespace` on component lists -/
def matchesPkgNamespace (fqn pkg : Name) : Bool :=
  pkg != [] && fqn != [] && fqn.isPrefixOf pkg

/-- `resolveElementInFile` -/
def resolveElementInFile (n : Name) (f : FileD) : Res :=
  match findSym f n with
  | some k => .found n k
  | none => if matchesPkgNamespace n f.pkg then .sentinel n else .none

abbrev Env := List FileD

def findFile (env : Env) (p : String) : Option FileD := env.find? (fun f => f.path == p)

def isPublicDep (f : FileD) (i : Nat) : Bool := f.pubDeps.contains i

/-- the loop over `f.Imports()` of `resolveInFile`; `rec g` is the recursive call
    `resolveInFile(g, true, checked, fn)`; `publicOnly` as in the Go code -/
def searchImportsWith (rec : FileD → Res) (env : Env) (f : FileD) (publicOnly : Bool) :
    Nat → List String → Res
  | _, [] => .none
  | i, d :: ds =>
    if publicOnly && !isPublicDep f i then searchImportsWith rec env f publicOnly (i + 1) ds
    else
      match findFile env d with
      | none => searchImportsWith rec env f publicOnly (i + 1) ds
      | some g =>
        match rec g with
        | .none => searchImportsWith rec env f publicOnly (i + 1) ds
        | r => r

/-- `resolveInFile` with `fn = resolveElementInFile name`; `checked` is the chain of files
    being visited (cycle guard); fuel bounds the import depth. -/
def searchFile (env : Env) (n : Name) : Nat → FileD → Bool → List String → Res
  | 0, _, _, _ => .none
  | fuel + 1, f, publicOnly, checked =>
    if checked.contains f.path then .none
    else
      match resolveElementInFile n f with
      | .none =>
        searchImportsWith (fun g => searchFile env n fuel g true (f.path :: checked)) env f publicOnly 0 f.deps
      | r => r

/-- `(*result).resolveElement` (the leading dot has already been removed) -/
def resolveElement (env : Env) (f : FileD) (n : Name) : Res :=
  searchFile env n (env.length + 2) f false []

def isAggregate : Res → Bool
  | .sentinel _ => true
  | .found _ .msg => true
  | .found _ .enum => true
  | .found _ .svc => true
  | _ => false

/-- `resolveElementRelative` -/
def resolveElementRelative (first full : Name) (query : Name → Res) : Res :=
  match query first with
  | .none => .none
  | d =>
    if first == full then d
    else if !isAggregate d then .none
    else match query full with
      | .none => .sentinel full
      | d' => d'

/-- `internal.CreatePrefixList`: the package, its parents, the empty prefix -/
def prefixList (p : Name) : List Name :=
  (List.range (p.length + 1)).reverse.map (fun k => p.take k)

/-- `fileScope` -/
def fileScopeAux (env : Env) (f : FileD) (first : String) (full : Name) : List Name → Res
  | [] => .none
  | p :: ps =>
    match resolveElementRelative (p ++ [first]) (p ++ full) (resolveElement env f) with
    | .none => fileScopeAux env f first full ps
    | d => d

def fileScope (env : Env) (f : FileD) (first : String) (full : Name) : Res :=
  fileScopeAux env f first full (prefixList f.pkg)

/-- `messageScope` -/
def messageScope (f : FileD) (msg : Name) (first : String) (full : Name) : Res :=
  resolveElementRelative (msg ++ [first]) (msg ++ full) (fun n => resolveElementInFile n f)

def isTypeRes : Res → Bool
  | .found _ .msg => true
  | .found _ .enum => true
  | _ => false

/-- the loop of `resolve` over the scopes, innermost first; `scopes` holds the message
    scopes innermost first, the file scope comes last. -/
def resolveScopes (env : Env) (f : FileD) (onlyTypes : Bool) (first : String) (full : Name)
    (best : Res) : List Name → Res
  | [] =>
    match fileScope env f first full with
    | .none => best
    | d => if !onlyTypes || isTypeRes d || [first] != full then d
           else if best.isNone then d else best
  | s :: ss =>
    match messageScope f s first full with
    | .none => resolveScopes env f onlyTypes first full best ss
    | d => if !onlyTypes || isTypeRes d || [first] != full then d
           else resolveScopes env f onlyTypes first full (if best.isNone then d else best) ss

/-- `(*result).resolve`; `scopes` innermost first -/
def resolve (env : Env) (f : FileD) (ref : Ref) (onlyTypes : Bool) (scopes : List Name) : Res :=
  match ref with
  | ⟨true, n⟩ => resolveElement env f n
  | ⟨false, []⟩ => .none
  | ⟨false, first :: rest⟩ => resolveScopes env f onlyTypes first (first :: rest) .none scopes

/-- message scopes (innermost first) for an element declared inside message `path` -/
def scopesOf (pkg : Name) (p : Name) : List Name :=
  (List.range p.length).reverse.map (fun k => pkg ++ p.take (k + 1))

def dotted (n : Name) : Ref := ⟨true, n⟩

/-- `mapM` in `Except`, written out so that proofs are plain list inductions -/
def mapE {α β ε : Type} (g : α → Except ε β) : List α → Except ε (List β)
  | [] => .ok []
  | x :: xs =>
    match g x with
    | .error e => .error e
    | .ok y =>
      match mapE g xs with
      | .error e => .error e
      | .ok ys => .ok (y :: ys)

/-- the extendee half of `resolveFieldTypes` -/
def linkExtendee (env : Env) (f : FileD) (scopes : List Name) (fld : FieldD) : Except String FieldD :=
  match fld.extendee with
  | none => .ok fld
  | some e =>
    match resolve env f e false scopes with
    | .found n .msg => .ok { fld with extendee := some (dotted n) }
    | .none => .error s!"unknown extendee {showRef e}"
    | .sentinel _ => .error s!"unknown extendee {showRef e} (sentinel)"
    | .found _ _ => .error s!"extendee not a message {showRef e}"

/-- the type half of `resolveFieldTypes` -/
def linkType (env : Env) (f : FileD) (scopes : List Name) (fld : FieldD) : Except String FieldD :=
  match fld.typeName with
  | none => .ok fld
  | some t =>
    match resolve env f t true scopes with
    | .found n .msg =>
      if fld.typ == 0 then .ok { fld with typeName := some (dotted n), typ := 11 }
      else if fld.typ == 11 || fld.typ == 10 then .ok { fld with typeName := some (dotted n) }
      else .error s!"descriptor proto indicates type {fld.typ} but should be 11"
    | .found n .enum =>
      if fld.typ == 0 then .ok { fld with typeName := some (dotted n), typ := 14 }
      else if fld.typ == 14 then .ok { fld with typeName := some (dotted n) }
      else .error s!"descriptor proto indicates type {fld.typ} but should be 14"
    | .none => .error s!"unknown type {showRef t}"
    | .sentinel _ => .error s!"unknown type {showRef t} (sentinel)"
    | .found _ _ => .error s!"invalid type {showRef t}"

/-- options: interpreting `json_name` overwrites the JSON name; all options are consumed -/
def interpretFieldOpts (fld : FieldD) : FieldD :=
  match fld.pendingJson with
  | some j => { fld with json := j, pendingJson := none, nopts := 0 }
  | none => { fld with nopts := 0 }

/-- `resolveFieldTypes` (without tag-range checks) + option interpretation -/
def linkField (env : Env) (f : FileD) (scopes : List Name) (fld : FieldD) : Except String FieldD :=
  match linkExtendee env f scopes fld with
  | .error e => .error e
  | .ok fld1 =>
    match linkType env f scopes fld1 with
    | .error e => .error e
    | .ok fld2 => .ok (interpretFieldOpts fld2)

def clearEnumOpts (e : EnumD) : EnumD := { e with nopts := 0 }

def linkMsg (env : Env) (f : FileD) (m : MsgD) : Except String MsgD :=
  let scopes := scopesOf f.pkg m.path
  match mapE (linkField env f scopes) m.fields with
  | .error e => .error e
  | .ok fields =>
    match mapE (linkField env f scopes) m.exts with
    | .error e => .error e
    | .ok exts => .ok { m with fields := fields, exts := exts, nopts := 0, enums := m.enums.map clearEnumOpts }

/-- one half of `resolveMethodTypes` -/
def linkMsgRef (env : Env) (f : FileD) (scopes : List Name) (r : Ref) : Except String Ref :=
  match resolve env f r false scopes with
  | .found n .msg => .ok (dotted n)
  | _ => .error s!"bad request/response type {showRef r}"

/-- `resolveMethodTypes` -/
def linkMethod (env : Env) (f : FileD) (svc : String) (m : MethodD) : Except String MethodD :=
  let scopes := [f.pkg ++ [svc]]
  match linkMsgRef env f scopes m.inp with
  | .error e => .error e
  | .ok inp =>
    match linkMsgRef env f scopes m.out with
    | .error e => .error e
    | .ok out => .ok { m with inp := inp, out := out }

def linkSvc (env : Env) (f : FileD) (s : SvcD) : Except String SvcD :=
  match mapE (linkMethod env f s.name) s.methods with
  | .error e => .error e
  | .ok ms => .ok { s with methods := ms, nopts := 0 }

/-- `linker.Link` + `options.InterpretOptions` on the modelled fields.  `env` must contain
    every file of the workspace (found by path through the imports). -/
def link (env : Env) (f : FileD) : Except String FileD :=
  match mapE (linkMsg env f) f.msgs with
  | .error e => .error e
  | .ok msgs =>
    match mapE (linkField env f []) f.exts with
    | .error e => .error e
    | .ok exts =>
      match mapE (linkSvc env f) f.svcs with
      | .error e => .error e
      | .ok svcs => .ok { f with msgs := msgs, exts := exts, svcs := svcs, nopts := 0,
                                 enums := f.enums.map clearEnumOpts }

/-! ## Built-in files (`WithStandardImports`) -/

def builtinMsg (n : String) : MsgD :=
  { path := [n], fields := [], oneofs := [], enums := [], ranges := [(1000, 536870912)], exts := [],
    mapEntry := false, nopts := 0, nrsv := 0 }

def descriptorProto : FileD :=
  { path := "google/protobuf/descriptor.proto", pkg := ["google", "protobuf"], syn := .proto2,
    deps := [], pubDeps := [],
    msgs := ["FileDescriptorSet", "FileDescriptorProto", "DescriptorProto", "FieldDescriptorProto",
      "FileOptions", "MessageOptions", "FieldOptions", "OneofOptions", "EnumOptions",
      "EnumValueOptions", "ServiceOptions", "MethodOptions", "ExtensionRangeOptions", "FeatureSet",
      "UninterpretedOption", "SourceCodeInfo", "GeneratedCodeInfo"].map builtinMsg,
    enums := [], exts := [], svcs := [], nopts := 0 }

def anyProto : FileD :=
  { path := "google/protobuf/any.proto", pkg := ["google", "protobuf"], syn := .proto3,
    deps := [], pubDeps := [], msgs := [builtinMsg "Any"], enums := [], exts := [], svcs := [],
    nopts := 0 }

def builtins : Env := [descriptorProto, anyProto]

/-! ## compiler.go: input forms -/

inductive SIMode where
  | none | standard | extra
  deriving DecidableEq, Repr, Inhabited

/-- what `task.link` does with `SourceCodeInfo` -/
inductive SrcInfo where
  | absent
  | generated (m : SIMode)      -- computed from the AST in mode m
  | supplied (tag : Nat)         -- carried by the supplied descriptor proto
  deriving DecidableEq, Repr, Inhabited

/-- a parse result: descriptor, whether an AST is attached, the source info its proto carries -/
structure ParseRes where
  desc : FileD
  hasAST : Bool
  sci : SrcInfo
  deriving DecidableEq, Repr, Inhabited

/-- `SearchResult` with abstract source text type `σ` -/
structure SearchResult (σ : Type) where
  source : Option σ := none
  ast : Option SrcFile := none
  proto : Option (FileD × SrcInfo) := none
  parseResult : Option ParseRes := none

/-- `task.asParseResult` / `task.asAST`: priority ParseResult > Proto > AST > Source. -/
def asParseResult {σ : Type} (parse : σ → SrcFile) (r : SearchResult σ) : Option ParseRes :=
  match r.parseResult with
  | some pr => some pr                                       -- parser.Clone
  | none =>
    match r.proto with
    | some (d, sci) => some { desc := d, hasAST := false, sci := sci }   -- proto.Clone + ResultWithoutAST
    | none =>
      match r.ast with
      | some a => some { desc := toDesc a, hasAST := true, sci := .absent }
      | none =>
        match r.source with
        | some s => some { desc := toDesc (parse s), hasAST := true, sci := .absent }
        | none => none

/-- `needsSourceInfo` and the `else if` branch of `task.link` -/
def finalSrcInfo (mode : SIMode) (pr : ParseRes) : SrcInfo :=
  if mode != .none && pr.hasAST && pr.sci == .absent then .generated mode
  else if mode == .none then .absent
  else pr.sci

/-- compile one file given the unlinked descriptors of the whole workspace -/
def compileFile (env : Env) (mode : SIMode) (pr : ParseRes) : Except String (FileD × SrcInfo) := do
  let d ← link env pr.desc
  pure (d, finalSrcInfo mode pr)

/-! ## The supplied objects on a heap (the "defensive copies" of `asParseResult`)

Go objects are mutable and shared by pointer; `linker.Link` and `options.InterpretOptions`
mutate the descriptor proto of the parse result they are given.  The model keeps parse
results in a heap (id = index) and distinguishes the ids supplied by the resolver from the
working copies a task allocates. -/

structure Heap where
  objs : List ParseRes
  deriving Repr, Inhabited

def Heap.alloc (h : Heap) (o : ParseRes) : Heap × Nat := (⟨h.objs ++ [o]⟩, h.objs.length)
def Heap.write (h : Heap) (i : Nat) (o : ParseRes) : Heap := ⟨h.objs.set i o⟩

/-- what the resolver hands over: references to shared objects, or values -/
inductive Supplied (σ : Type) where
  | parseResult (id : Nat)
  | proto (id : Nat)
  | ast (a : SrcFile)
  | source (s : σ)

/-- `task.asParseResult`: `parser.Clone` / `proto.Clone` allocate the working copy -/
def taskAsParseResult {σ : Type} (parse : σ → SrcFile) (h : Heap) : Supplied σ → Option (Heap × Nat)
  | .parseResult id => (h.objs[id]?).map (fun o => h.alloc o)
  | .proto id => (h.objs[id]?).map (fun o => h.alloc { o with hasAST := false })
  | .ast a => some (h.alloc { desc := toDesc a, hasAST := true, sci := .absent })
  | .source s => some (h.alloc { desc := toDesc (parse s), hasAST := true, sci := .absent })

/-- `task.link`: links the working copy IN PLACE (a failed link may leave it partially
    linked: modelled by writing whatever `partial` says) -/
def taskLink (env : Env) (mode : SIMode) (partialWrite : ParseRes → ParseRes) (h : Heap) (id : Nat) : Heap :=
  match h.objs[id]? with
  | none => h
  | some pr =>
    match link env pr.desc with
    | .ok d => h.write id { pr with desc := d, sci := finalSrcInfo mode pr }
    | .error _ => h.write id (partialWrite pr)

/-- one step of some compilation running against the shared heap -/
inductive Step (σ : Type) where
  | load (sup : Supplied σ)                 -- a task obtains its working copy
  | link (env : Env) (mode : SIMode) (partialWrite : ParseRes → ParseRes) (k : Nat)
      -- a task links the k-th working copy allocated so far (tasks only link their own copies)

/-- run a schedule (any interleaving of the steps of any number of compilations);
    `owned` lists the working copies allocated so far -/
def runSteps {σ : Type} (parse : σ → SrcFile) : List (Step σ) → Heap × List Nat → Heap × List Nat
  | [], st => st
  | .load sup :: rest, (h, owned) =>
    match taskAsParseResult parse h sup with
    | some (h', id) => runSteps parse rest (h', owned ++ [id])
    | none => runSteps parse rest (h, owned)
  | .link env mode pw k :: rest, (h, owned) =>
    match owned[k]? with
    | some id => runSteps parse rest (taskLink env mode pw h id, owned)
    | none => runSteps parse rest (h, owned)

/-- compile the whole workspace from source: toDesc every file, link every file -/
def compileAll (files : List SrcFile) : Except String (List FileD) :=
  let descs := files.map toDesc
  mapE (link (descs ++ builtins)) descs

/-- feed the linked output back as unlinked protos (C10) -/
def relinkAll (linked : List FileD) : Except String (List FileD) :=
  mapE (link (linked ++ builtins)) linked

end PCV.Pipeline
