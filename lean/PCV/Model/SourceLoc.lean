/-
Model of `experimental/source/file.go`: `(*File).lines`, `LineByOffset`, `Location`/`location`,
`LineOffsets`, `InverseLocation`/`inverseLocation` for the length units Bytes, UTF16 and Runes
(TermWidth is out of scope: `inverseLocation` panics on it).

A text is a byte list.  Offsets, line numbers are naturals (the engine only feeds in-range
values; out-of-range values make the Go code panic on a slice/index expression).  Columns are
integers because `inverseLocation` does signed arithmetic on them.

The model follows the Go control flow, including its defects:
* `lines`        : the `strings.IndexByte` loop (fuel = length + 1);
* `binarySearch` : the loop of `slices.BinarySearch` (fuel = length + 1);
* `goRange`      : `for i, r := range s` (pairs (byte index, rune); invalid bytes decode to
                   (U+FFFD, width 1) exactly as `utf8.DecodeRuneInString`);
* `invRunesLoop`/`invU16Loop` : the two `for offset[, r] = range chunk { …; break }` loops, which
                   leave `offset` at the start of the LAST rune when they run off the end of the
                   chunk (this is what makes `InverseLocation` wrong at EOF).
-/
import PCV.Model.Utf8
namespace PCV.SourceLoc
open PCV.Utf8

/-- `length.Unit` restricted to the invertible units. -/
inductive LUnit where
  | bytes | utf16 | runes
  deriving DecidableEq, Repr

def NL : UInt8 := 10

/-- `strings.IndexByte(text, '\n')`; `none` is `-1`. -/
def indexNL : List UInt8 → Option Nat
  | [] => none
  | b :: bs => if b = NL then some 0 else (indexNL bs).map (· + 1)

/-- The `for { … }` loop of `(*File).lines`: `text` is the unscanned rest, `next` the offset of
    its first byte.  Returns the elements appended to `lineIndex`. -/
def linesLoop : Nat → List UInt8 → Nat → List Nat
  | 0, _, next => [next]
  | f + 1, text, next =>
    match indexNL text with
    | none => [next]
    | some i => next :: linesLoop f (text.drop (i + 1)) (next + (i + 1))

/-- `(*File).lines`. -/
def lines (t : List UInt8) : List Nat := linesLoop (t.length + 1) t 0

/-- Loop of `slices.BinarySearch`. -/
def bsLoop : Nat → List Nat → Nat → Nat → Nat → Nat
  | 0, _, _, i, _ => i
  | f + 1, x, target, i, j =>
    if i < j then
      let h := (i + j) / 2
      if x.getD h 0 < target then bsLoop f x target (h + 1) j else bsLoop f x target i h
    else i

/-- `slices.BinarySearch(x, target)`. -/
def binarySearch (x : List Nat) (target : Nat) : Nat × Bool :=
  let i := bsLoop (x.length + 1) x target 0 x.length
  (i, decide (i < x.length) && x.getD i 0 == target)

/-- `line, exact := slices.BinarySearch(lines, offset); if !exact { line-- }`
    (`LineByOffset`, and the head of `location`). -/
def lineIndex (ls : List Nat) (offset : Nat) : Nat :=
  let (line, exact) := binarySearch ls offset
  if exact then line else line - 1

/-- `(*File).LineByOffset`. -/
def lineByOffset (t : List UInt8) (offset : Nat) : Nat := lineIndex (lines t) offset

/-- Go slice expression `t[a:b]` (for `a ≤ b ≤ len t`). -/
def slice (t : List UInt8) (a b : Nat) : List UInt8 := (t.drop a).take (b - a)

/-- `for i, r := range s`: `skip` bytes still belong to the previous rune, `pos` is the index of
    the head byte. -/
def goRangeFrom : List UInt8 → Nat → Nat → List (Nat × Nat)
  | [], _, _ => []
  | b :: bs, 0, pos => (pos, (decodeRune (b :: bs)).1) :: goRangeFrom bs ((decodeRune (b :: bs)).2 - 1) (pos + 1)
  | _ :: bs, k + 1, pos => goRangeFrom bs k (pos + 1)

def goRange (s : List UInt8) : List (Nat × Nat) := goRangeFrom s 0 0

/-- `utf16.RuneLen`. -/
def utf16RuneLen (r : Nat) : Int :=
  if r < 0xD800 then 1
  else if 0xE000 ≤ r ∧ r < 0x10000 then 1
  else if 0x10000 ≤ r ∧ r ≤ 0x10FFFF then 2
  else -1

/-- `for _, r := range chunk { column += utf16.RuneLen(r) }`. -/
def utf16Len (rs : List (Nat × Nat)) : Int := (rs.map (fun p => utf16RuneLen p.2)).sum

/-- The unexported `location` (0-based column computed over `text[lines[line]:offset]`). -/
def locationRaw (t : List UInt8) (offset : Nat) (u : LUnit) : Nat × Int :=
  let ls := lines t
  let line := lineIndex ls offset
  let chunk := slice t (ls.getD line 0) offset
  let column : Int :=
    match u with
    | .runes => ((goRange chunk).length : Int)
    | .bytes => (chunk.length : Int)
    | .utf16 => utf16Len (goRange chunk)
  (line + 1, column + 1)

/-- `(*File).Location` (non-nil receiver): (Line, Column). -/
def location (t : List UInt8) (offset : Nat) (u : LUnit) : Nat × Int :=
  if offset = 0 then (1, 1) else locationRaw t offset u

/-- `(*File).LineOffsets` for `1 ≤ line ≤ len(lines)`. -/
def lineOffsets (t : List UInt8) (line : Nat) : Nat × Nat :=
  let ls := lines t
  if ls.length = line then (ls.getD (line - 1) 0, t.length)
  else (ls.getD (line - 1) 0, ls.getD line 0)

/-- `for offset = range chunk { column--; if column <= 0 { break } }` — state (offset, column). -/
def invRunesLoop : List (Nat × Nat) → Int → Int → Int × Int
  | [], off, col => (off, col)
  | (i, _) :: rest, _, col =>
    if col - 1 ≤ 0 then ((i : Int), col - 1) else invRunesLoop rest (i : Int) (col - 1)

/-- `for offset, r = range chunk { column -= utf16.RuneLen(r); if column <= 0 { break } }`. -/
def invU16Loop : List (Nat × Nat) → Int → Int → Int × Int
  | [], off, col => (off, col)
  | (i, r) :: rest, _, col =>
    if col - utf16RuneLen r ≤ 0 then ((i : Int), col - utf16RuneLen r)
    else invU16Loop rest (i : Int) (col - utf16RuneLen r)

/-- The unexported `inverseLocation`. -/
def inverseLocationRaw (t : List UInt8) (line : Nat) (column : Int) (u : LUnit) : Int :=
  let se := lineOffsets t line
  let chunk := slice t se.1 se.2
  let offset : Int :=
    match u with
    | .runes =>
      let r := invRunesLoop (goRange chunk) 0 column
      r.1 + r.2
    | .bytes => column - 1
    | .utf16 =>
      let r := invU16Loop (goRange chunk) 0 column
      if r.2 > 0 then r.1 + r.2 else r.1
  (se.1 : Int) + offset

/-- `(*File).InverseLocation` (non-nil receiver): the Offset field. -/
def inverseLocation (t : List UInt8) (line : Nat) (column : Int) (u : LUnit) : Int :=
  if line = 1 ∧ column = 1 then 0 else inverseLocationRaw t line column u

/-- Offset → (line, column) → offset. -/
def roundTrip (t : List UInt8) (offset : Nat) (u : LUnit) : Int :=
  let lc := location t offset u
  inverseLocation t lc.1 lc.2 u

/-! ### Reference notions used by the property (not by the model) -/

/-- Offsets just after each newline of `bs`, where `p` is the offset of the head byte. -/
def nlAfter : List UInt8 → Nat → List Nat
  | [], _ => []
  | b :: bs, p => if b = NL then (p + 1) :: nlAfter bs (p + 1) else nlAfter bs (p + 1)

/-- `o` is a character boundary of `t`: reachable from 0 by whole decoding steps
    (so `t.length` is a boundary; ill-formed bytes count as one-byte characters, as in Go). -/
inductive IsBoundary : List UInt8 → Nat → Prop
  | zero (t : List UInt8) : IsBoundary t 0
  | step (t : List UInt8) (o : Nat) : t ≠ [] →
      IsBoundary (t.drop (decodeRune t).2) o → IsBoundary t ((decodeRune t).2 + o)

/-- All boundaries of `t`, ascending (executable counterpart of `IsBoundary`). -/
def boundaries (t : List UInt8) : List Nat := (goRange t).map (·.1) ++ [t.length]

end PCV.SourceLoc
