/-
Model of `internal/trie` (trie.go, nybbles.go): a nybble radix trie stored in two
tables `hi`, `lo` of 16-entry rows of indices of width `bits` (8/16/32/64).  The all-ones
index `sent = 2^bits-1` (more generally any index ≥ the table length) means "no child".

Mirrors the Go control flow:
* `insStep`     one iteration of the `for i := range len(key)` loop of `nybbles.insert`
* `insertLoop`  that loop;   `nybInsert` = `nybbles.insert` (root allocation, loop, `set`)
* `grow`        `grow[To, From]`
* `insertAgain` the `again:` retry loop of `Trie.Insert` with the type switch
* `stepFrom`/`step`  `nybbles.step` (the `for ; s.i <= len(key); s.i++` loop / the whole function)
* `prefixes`    the `for { s = step(key, s) … }` loop of `Trie.Prefixes`;  `get` = `Trie.Get`

Abstractions (documented in checks.d/C41.json): `hasValue []uint` (a bitset grown by whole
words) is a `List Bool` grown to exactly the index; `t.impl == nil` is `impl = none`; the
`uint32(*m1)` truncation in `insert` is not modelled (it is the identity below 2^32 lo nodes).
-/
namespace PCV.Trie

abbrev Row := List Nat
abbrev Key := List UInt8

structure Nyb where
  bits : Nat
  hi : List Row
  lo : List Row
  has : List Bool
deriving Repr

def Nyb.sent (t : Nyb) : Nat := 2 ^ t.bits - 1

def allOnes (s : Nat) : Row := List.replicate 16 s

/-- `a[n][h]` -/
def get2 (a : List Row) (n h : Nat) : Nat := (a.getD n []).getD h 0

/-- `a[n][h] = v` -/
def set2 (a : List Row) (n h v : Nat) : List Row := a.set n ((a.getD n []).set h v)

/-- `t.has(n)` -/
def Nyb.hasV (t : Nyb) (n : Nat) : Bool := t.has.getD n false

/-- `t.set(n)` on the bitset -/
def setHas (has : List Bool) (n : Nat) : List Bool :=
  if has.length ≤ n then has ++ List.replicate (n - has.length) false ++ [true]
  else has.set n true

/-- One iteration of the loop of `nybbles.insert` at node `n` for byte `b`:
    the mutated trie and the next node (`none` = `return -1`). -/
def insStep (t : Nyb) (b : UInt8) (n : Nat) : Nyb × Option Nat :=
  let h := b.toNat / 16
  let l := b.toNat % 16
  let m1 := get2 t.hi n h
  let t1 : Nyb :=
    if t.lo.length ≤ m1 then
      { t with hi := set2 t.hi n h (t.lo.length % 2 ^ t.bits), lo := t.lo ++ [allOnes t.sent] }
    else t
  let m1' := get2 t1.hi n h
  let m2 := get2 t1.lo m1' l
  if t1.hi.length ≤ m2 then
    if t1.hi.length = t1.sent then (t1, none)
    else
      let t2 : Nyb :=
        { t1 with lo := set2 t1.lo m1' l (t1.hi.length % 2 ^ t1.bits),
                  hi := t1.hi ++ [allOnes t1.sent] }
      (t2, some (get2 t2.lo m1' l))
  else (t1, some m2)

def insertLoop (t : Nyb) : Key → Nat → Nyb × Option Nat
  | [], n => (t, some n)
  | b :: rest, n =>
    match insStep t b n with
    | (t', some n') => insertLoop t' rest n'
    | (t', none) => (t', none)

/-- `nybbles.insert` -/
def nybInsert (t : Nyb) (key : Key) : Nyb × Option Nat :=
  let t0 : Nyb := if t.hi.isEmpty then { t with hi := [allOnes t.sent] } else t
  match insertLoop t0 key 0 with
  | (t', some n) => ({ t' with has := setHas t'.has n }, some n)
  | (t', none) => (t', none)

/-- `grow[To, From]`: all-ones entries become the new all-ones, others are kept. -/
def grow (w : Nat) (t : Nyb) : Nyb :=
  let conv := fun (a : List Row) => a.map (fun r => r.map (fun x => if x = t.sent then 2 ^ w - 1 else x))
  { bits := w, hi := conv t.hi, lo := conv t.lo, has := t.has }

/-- the type switch in `Trie.Insert` -/
def nextBits (b : Nat) : Option Nat :=
  if b = 8 then some 16 else if b = 16 then some 32 else if b = 32 then some 64 else none

/-- the `again:` loop of `Trie.Insert` (at most three growths; `none` = panic("unreachable")) -/
def insertAgain : Nat → Nyb → Key → Option (Nyb × Nat)
  | 0, _, _ => none
  | f + 1, t, key =>
    match nybInsert t key with
    | (t', some n) => some (t', n)
    | (t', none) =>
      match nextBits t'.bits with
      | some w => insertAgain f (grow w t') key
      | none => none

structure Trie where
  impl : Option Nyb := none
  vals : List Nat := []
deriving Repr

def emptyNyb : Nyb := { bits := 8, hi := [], lo := [], has := [] }

/-- `values[n] = value` after growing `values` to length `n+1` -/
def setVal (vals : List Nat) (n v : Nat) : List Nat :=
  let vals := if vals.length ≤ n then vals ++ List.replicate (n + 1 - vals.length) 0 else vals
  vals.set n v

/-- `Trie.Insert`; `none` = panic("unreachable") -/
def Trie.insert (t : Trie) (key : Key) (v : Nat) : Option Trie :=
  let impl := match t.impl with | some i => i | none => emptyNyb
  match insertAgain 4 impl key with
  | some (impl', n) => some { impl := some impl', vals := setVal t.vals n v }
  | none => none

/-- `searcher`: `i` = bytes examined so far plus one, `n` = entry being examined. -/
structure Searcher where
  i : Nat
  n : Nat
deriving Repr

/-- the `for ; s.i <= len(key); s.i++` loop of `nybbles.step`; `rest = key[s.i-1:]`;
    `none` = the final `s.n = -1`. -/
def stepFrom (t : Nyb) : Key → Nat → Nat → Option Searcher
  | [], _, _ => none
  | b :: rest, i, n =>
    if t.hi.length ≤ n then none
    else
      let m := get2 t.hi n (b.toNat / 16)
      if t.lo.length ≤ m then none
      else
        let n' := get2 t.lo m (b.toNat % 16)
        if t.hasV n' then some { i := i + 1, n := n' }
        else stepFrom t rest (i + 1) n'

/-- `nybbles.step` -/
def step (t : Nyb) (key : Key) (s : Searcher) : Option Searcher :=
  if s.i = 0 then
    if t.hasV 0 then some { i := 1, n := s.n }
    else stepFrom t key 1 s.n
  else stepFrom t (key.drop (s.i - 1)) s.i s.n

/-- the loop of `Trie.Prefixes` -/
def prefixesLoop (t : Nyb) (vals : List Nat) (key : Key) : Nat → Searcher → List (Key × Nat)
  | 0, _ => []
  | f + 1, s =>
    match step t key s with
    | none => []
    | some s' => (key.take (s'.i - 1), vals.getD s'.n 0) :: prefixesLoop t vals key f s'

/-- `Trie.Prefixes` collected into a list -/
def Trie.prefixes (t : Trie) (key : Key) : List (Key × Nat) :=
  match t.impl with
  | none => []
  | some impl => prefixesLoop impl t.vals key (key.length + 2) { i := 0, n := 0 }

/-- `Trie.Get` = `iterx.Last2(t.Prefixes(key))` -/
def Trie.get (t : Trie) (key : Key) : Key × Nat :=
  ((t.prefixes key).getLast?).getD ([], 0)

end PCV.Trie
