/-
Model of `internal/intern` (char6.go, intern.go) and of the way it uses `syncx.Log`.

* Strings are byte lists.  An `ID` (Go `int32`) is modelled by its 32-bit two's-complement
  pattern as a `Nat < 2^32`; `id <= 0` in Go is `id = 0 ∨ 2^31 ≤ id` here.
* `encodeChar6` / `decodeChar6` mirror the Go loops (shift, or, and, arithmetic shift).
* `Table.Intern` is modelled as a small-step machine (`stepCall`): every access to shared
  memory (`index.Load`, `p.Load`, `index.LoadOrStore`, `table.Append`, `index.Store(key,nil)`,
  `p.Store`) is one atomic step of one call, so that arbitrary interleavings of arbitrary many
  concurrent `Intern` calls are the paths of `applyAct`.  A sequential `Intern` is a call that
  is stepped to completion alone (`internSeq`).
* The `*atomic.Int32` cell allocated by `internSlow` for a key is unique per key (only
  `LoadOrStore` ever installs one), so the model keeps the cell value inside the index entry
  of the key; `poisoned` says that the index now maps the key to a nil pointer.  `owner` is a
  ghost field (pointer identity: which call allocated the cell); it is never read by a step.
* `syncx.Log.Append` is one atomic step: it returns the old value of `next` and fails when the
  incremented 32-bit counter is negative.  (Wrap-around of `next` after 2^31 *failed* appends
  is not modelled.)  `Act.full` is `SetFullForTesting`.
-/
namespace PCV.Intern

abbrev Str := List UInt8

/-! ### char6.go -/

/-- `char6ToByte` ("0123456789abcdefghijklmnopqrstuvwxyzABCDEFGHIJKLMNOPQRSTUVWXYZ_.") -/
def alphabet : List UInt8 :=
  [48, 49, 50, 51, 52, 53, 54, 55, 56, 57,
   97, 98, 99, 100, 101, 102, 103, 104, 105, 106, 107, 108, 109, 110, 111, 112, 113, 114, 115,
   116, 117, 118, 119, 120, 121, 122,
   65, 66, 67, 68, 69, 70, 71, 72, 73, 74, 75, 76, 77, 78, 79, 80, 81, 82, 83, 84, 85, 86, 87,
   88, 89, 90, 95, 46]

def DOT : UInt8 := 46

def char6ToByte (j : Nat) : UInt8 := alphabet.getD j 0

/-- the initialiser of `byteToChar6`: `out[b] = j` for every `(j, b)` of the alphabet, in order;
    entries never written stay `0xff`. -/
def sextetAux (b : UInt8) : List UInt8 → Nat → Nat → Nat
  | [], _, acc => acc
  | c :: cs, j, acc => sextetAux b cs (j + 1) (if c = b then j else acc)

def byteToChar6 (b : UInt8) : Nat := sextetAux b alphabet 0 0xff

def U32 : Nat := 4294967296
def SIGN : Nat := 2147483648

def hasDotSuffix (s : Str) : Bool := s.getLast? == some DOT

/-- `encodeOutlined`: `value := -1; for i := len-1 … 0 { value <<= 6; value |= sextet }`.
    `none` is the `(0, false)` return. -/
def encodeOutlined : Str → Option Nat
  | [] => some 0xFFFFFFFF
  | c :: cs =>
    match encodeOutlined cs with
    | none => none
    | some v =>
      let sx := byteToChar6 c
      if sx = 0xff then none else some (((v <<< 6) % U32) ||| sx)

/-- `encodeChar6`; `none` is `(0, false)`. -/
def encodeChar6 (s : Str) : Option Nat :=
  if s = [] then some 0
  else if s.length > 5 ∨ hasDotSuffix s then none
  else encodeOutlined s

/-- `id >>= 6` on an `int32` (arithmetic shift) -/
def sshr6 (v : Nat) : Nat := if SIGN ≤ v then (v >>> 6) ||| 0xFC000000 else v >>> 6

/-- the loop filling `buf` -/
def decBuf : Nat → Nat → List UInt8
  | 0, _ => []
  | n + 1, id => char6ToByte (id &&& 63) :: decBuf n (sshr6 id)

/-- `n := 5; for ; n > 0; n-- { if buf[n-1] != '.' { break } }` -/
def trimLen (buf : List UInt8) : Nat → Nat
  | 0 => 0
  | n + 1 => if buf.getD n 0 ≠ DOT then n + 1 else trimLen buf n

def decodeChar6 (id : Nat) : Str :=
  if id = 0 then []
  else
    let buf := decBuf 5 id
    buf.take (trimLen buf 5)

/-! ### intern.go -/

structure Entry where
  /-- value of the `*atomic.Int32` allocated for this key -/
  cell : Nat
  /-- the index maps the key to a nil pointer -/
  poisoned : Bool
  /-- ghost: index of the call that allocated the cell -/
  owner : Nat
deriving DecidableEq, Repr

structure Shared where
  /-- `Table.index` (sync.Map) -/
  index : Str → Option Entry
  /-- published contents of `Table.table` (syncx.Log) -/
  log : List Str
  /-- `syncx.Log.next` -/
  next : Nat

def MAXI32 : Nat := 2147483647

/-- program counter of one `Table.Intern(s)` call -/
inductive PC where
  | qLoad            -- Query: about to `t.index.Load(s)` (encodeChar6 failed)
  | qCell            -- Query: got a non-nil `p`; about to `p.Load()`
  | slow             -- internSlow, label `again`: about to `LoadOrStore`
  | slowCell         -- internSlow: loaded a non-nil `p`; about to `p.Load()`
  | append           -- leader: about to `t.table.Append(s)`
  | poison           -- leader: Append failed; about to `t.index.Store(key, nil)` and panic
  | commit (i : Nat) -- leader: Append returned `i`; about to `p.Store(i+1)` and return
  | ret (id : Nat)   -- returned `id`
  | panicked         -- panicked with ErrLogExhausted
deriving DecidableEq, Repr

structure Call where
  s : Str
  pc : PC
deriving DecidableEq, Repr

structure Sys where
  sh : Shared
  calls : List Call

def setIdx (idx : Str → Option Entry) (k : Str) (e : Entry) : Str → Option Entry :=
  fun k' => if k' = k then some e else idx k'

/-- One atomic step of call number `me`. -/
def stepCall (me : Nat) (sh : Shared) (c : Call) : Shared × Call :=
  match c.pc with
  | .qLoad =>
    match sh.index c.s with
    | none => (sh, { c with pc := .slow })
    | some e => if e.poisoned then (sh, { c with pc := .slow }) else (sh, { c with pc := .qCell })
  | .qCell =>
    match sh.index c.s with
    | none => (sh, { c with pc := .slow })          -- unreachable: `p` was loaded from the index
    | some e => if e.cell = 0 then (sh, { c with pc := .slow }) else (sh, { c with pc := .ret e.cell })
  | .slow =>
    match sh.index c.s with
    | none => ({ sh with index := setIdx sh.index c.s ⟨0, false, me⟩ }, { c with pc := .append })
    | some e => if e.poisoned then (sh, { c with pc := .panicked }) else (sh, { c with pc := .slowCell })
  | .slowCell =>
    match sh.index c.s with
    | none => (sh, { c with pc := .slow })          -- unreachable
    | some e => if e.cell = 0 then (sh, { c with pc := .slow })   -- Gosched; goto again
                else (sh, { c with pc := .ret e.cell })
  | .append =>
    let i := sh.next
    if MAXI32 ≤ i then ({ sh with next := i + 1 }, { c with pc := .poison })
    else ({ sh with next := i + 1, log := sh.log ++ [c.s] }, { c with pc := .commit i })
  | .poison =>
    let e0 := (sh.index c.s).getD ⟨0, false, me⟩
    ({ sh with index := setIdx sh.index c.s { e0 with poisoned := true } }, { c with pc := .panicked })
  | .commit i =>
    let e0 := (sh.index c.s).getD ⟨0, false, me⟩
    ({ sh with index := setIdx sh.index c.s { e0 with cell := i + 1 } }, { c with pc := .ret (i + 1) })
  | .ret _ => (sh, c)
  | .panicked => (sh, c)

/-- entry of `Table.Intern`: the inline check of `Query` touches no shared state. -/
def newCall (s : Str) : Call :=
  match encodeChar6 s with
  | some id => ⟨s, .ret id⟩
  | none => ⟨s, .qLoad⟩

inductive Act where
  | spawn (s : Str)   -- some goroutine calls `Intern(s)`
  | step (j : Nat)    -- call `j` performs its next atomic step
  | full              -- `SetFullForTesting`
deriving Repr

def applyAct (S : Sys) : Act → Sys
  | .spawn s => { S with calls := S.calls ++ [newCall s] }
  | .step j =>
    match S.calls[j]? with
    | none => S
    | some c => ⟨(stepCall j S.sh c).1, S.calls.set j (stepCall j S.sh c).2⟩
  | .full => { S with sh := { S.sh with next := MAXI32 } }

def init : Sys := ⟨⟨fun _ => none, [], 0⟩, []⟩

/-- `Table.Query` (all loads of one call merged: the observable result is that of the
    second load). -/
def query (sh : Shared) (s : Str) : Nat × Bool :=
  match encodeChar6 s with
  | some id => (id, true)
  | none =>
    match sh.index s with
    | none => (0, false)
    | some e => if e.poisoned then (0, false) else if e.cell = 0 then (0, false) else (e.cell, true)

/-- `Table.Value`; `none` is the index-out-of-range panic of `Log.Load`. -/
def value (sh : Shared) (id : Nat) : Option Str :=
  if id = 0 ∨ SIGN ≤ id then some (decodeChar6 id) else sh.log[id - 1]?

def PC.done : PC → Bool
  | .ret _ => true
  | .panicked => true
  | _ => false

/-- step call `j` alone until it is done (or the fuel runs out) -/
def runCall : Nat → Sys → Nat → Sys
  | 0, S, _ => S
  | f + 1, S, j =>
    match S.calls[j]? with
    | none => S
    | some c => if c.pc.done then S else runCall f (applyAct S (.step j)) j

/-- result of a finished call: `some (some id)` returned, `some none` panicked, `none` still running -/
def Call.result (c : Call) : Option (Option Nat) :=
  match c.pc with
  | .ret id => some (some id)
  | .panicked => some none
  | _ => none

/-- A sequential `Intern(s)`: spawn the call and run it to completion. -/
def internSeq (S : Sys) (s : Str) : Sys × Option (Option Nat) :=
  let j := S.calls.length
  let S' := runCall 6 (applyAct S (.spawn s)) j
  (S', (S'.calls[j]?).bind Call.result)

end PCV.Intern
