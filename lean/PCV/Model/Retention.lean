/-
Model of `options/source_retention_options.go` (the whole file):
`StripSourceRetentionOptionsFromFile` and everything below it.

Abstraction.  A descriptor is a tree of *elements* (file, message, field, oneof, extension
range, enum, enum value, service, method).  An element has an optional options message and
child elements; each child carries the descriptor.proto field number (`tag`) and the index in
its repeated field under which the parent holds it, because that is what the Go code pushes on
the source path.  An options message is a list of populated fields (what
`protoreflect.Message.Range` visits, sorted by field number by the harness); every field is an
`OTree` node: field number, the `retention` declared on the field's descriptor, a value
digest, and — for message-typed values — the populated fields of the value (for repeated
fields: one `item` node per element).  Source code info is the list of location paths.

Mutation / pointer identity are modelled by returned values: every Go function that returns
"the same pointer if nothing changed" returns `(value, changed)` here.  `removedPaths.addPath`
calls are collected in call order and folded into the trie afterwards (the trie is only read
after all insertions).  Core Lean only.
-/
namespace PCV.Retention

abbrev Path := List Nat

/-- `FieldOptions.retention` as declared on an option field's descriptor.
    `unset`: no `retention` option at all; `unknown`: explicit `RETENTION_UNKNOWN`;
    `item`: the node is an element of a repeated field, not a field. -/
inductive Ret where
  | unset | unknown | runtime | source | item
  deriving DecidableEq, Repr, Inhabited

/-- One populated field of an options message (or of a message nested in an option value). -/
inductive OTree where
  | node (num : Nat) (ret : Ret) (val : Nat) (kids : List OTree)
  deriving Repr, Inhabited

namespace OTree
def num : OTree → Nat | node n _ _ _ => n
def ret : OTree → Ret | node _ r _ _ => r
def val : OTree → Nat | node _ _ v _ => v
def kids : OTree → List OTree | node _ _ _ ks => ks
/-- `fieldOpts.GetRetention() == descriptorpb.FieldOptions_RETENTION_SOURCE` -/
def isSrc (t : OTree) : Bool := decide (t.ret = Ret.source)
end OTree

inductive Kind where
  | file | message | field | oneof | extRange | enum | enumValue | service | method
  deriving DecidableEq, Repr, Inhabited

/-- `tags.File_Options`, `tags.Message_Options`, … : field number of `options` in each
    descriptor message. -/
def optTag : Kind → Nat
  | .file => 8 | .message => 7 | .field => 8 | .oneof => 2 | .extRange => 3
  | .enum => 3 | .enumValue => 3 | .service => 3 | .method => 4

/-- Which repeated fields of a descriptor the Go code walks (`stripOptionsFromAll` calls) and
    with which `stripSourceRetentionOptionsFrom…` function (named by the child's kind). -/
def childKind : Kind → Nat → Option Kind
  | .file, 4 => some .message      -- tags.File_MessageType
  | .file, 5 => some .enum         -- tags.File_EnumType
  | .file, 6 => some .service      -- tags.File_Service
  | .file, 7 => some .field        -- tags.File_Extension
  | .message, 2 => some .field     -- tags.Message_Field
  | .message, 3 => some .message   -- tags.Message_NestedType
  | .message, 4 => some .enum      -- tags.Message_EnumType
  | .message, 5 => some .extRange  -- tags.Message_ExtensionRange
  | .message, 6 => some .field     -- tags.Message_Extension
  | .message, 8 => some .oneof     -- tags.Message_OneofDecl
  | .enum, 2 => some .enumValue    -- tags.Enum_Value
  | .service, 2 => some .method    -- tags.Service_Method
  | _, _ => none

/-- A descriptor element. `tag`/`idx`: position under the parent (unused for the file). -/
inductive Elem where
  | mk (kind : Kind) (tag idx : Nat) (opts : Option (List OTree)) (kids : List Elem)
  deriving Repr, Inhabited

namespace Elem
def kind : Elem → Kind | mk k _ _ _ _ => k
def tag : Elem → Nat | mk _ t _ _ _ => t
def idx : Elem → Nat | mk _ _ i _ _ => i
def opts : Elem → Option (List OTree) | mk _ _ _ o _ => o
def kids : Elem → List Elem | mk _ _ _ _ ks => ks
end Elem

/-- Does the strip function of a `k` element descend into child `e`? -/
def visits (k : Kind) (e : Elem) : Bool := decide (childKind k e.tag = some e.kind)

/-! ### `sourcePathTrie` -/

/-- `sourcePathTrie{removed, children}`; the Go map is an association list here. -/
inductive Trie where
  | node (removed : Bool) (children : List (Nat × Trie))
  deriving Repr, Inhabited

def Trie.empty : Trie := .node false []

def getKid : List (Nat × Trie) → Nat → Option Trie
  | [], _ => none
  | (k, c) :: rest, x => if k = x then some c else getKid rest x

def setKid : List (Nat × Trie) → Nat → Trie → List (Nat × Trie)
  | [], x, v => [(x, v)]
  | (k, c) :: rest, x, v => if k = x then (k, v) :: rest else (k, c) :: setKid rest x v

/-- `(*sourcePathTrie).addPath` (the receiver is never nil in the model: the nil case is the
    `locs` case split in `stripFile`). -/
def addPath : Path → Trie → Trie
  | [], .node _ cs => .node true cs
  | x :: p, .node r cs =>
    let child := match getKid cs x with
      | some c => c
      | none => Trie.empty
    .node r (setKid cs x (addPath p child))

/-- `(*sourcePathTrie).isRemoved` -/
def isRemoved : Trie → Path → Bool
  | .node true _, _ => true
  | .node false _, [] => false
  | .node false cs, x :: p =>
    match getKid cs x with
    | none => false
    | some c => isRemoved c p

def buildTrie (ps : List Path) : Trie := ps.foldl (fun t p => addPath p t) Trie.empty

/-! ### `stripSourceRetentionOptions` -/

/-- Result of a strip function: new value, "pointer changed", `addPath` arguments. -/
abbrev Res (α : Type) := α × Bool × List Path

/-- `stripSourceRetentionOptions(options, path, removedPaths)`.  Only the fields of the options
    message itself are inspected (the `Range` callback never looks inside values). -/
def stripOpts (opts : Option (List OTree)) (path : Path) : Res (Option (List OTree)) :=
  match opts with
  | none => (none, false, [])            -- nil message: Range visits nothing
  | some fs =>
    let hasFieldToStrip := fs.any OTree.isSrc
    let numFieldsToKeep := (fs.filter (fun f => !f.isSrc)).length
    if !hasFieldToStrip then (some fs, false, [])
    else if numFieldsToKeep == 0 then (none, true, [path])
    else (some (fs.filter (fun f => !f.isSrc)), true,
          (fs.filter OTree.isSrc).map (fun f => path ++ [f.num]))

mutual
/-- `stripSourceRetentionOptionsFrom{Message,Field,Oneof,ExtensionRange,Enum,EnumValue,Service,Method}`
    and the body of `StripSourceRetentionOptionsFromFile` up to `if !dirty`. -/
def stripElem (path : Path) : Elem → Res Elem
  | .mk k tag idx opts kids =>
    let ro := stripOpts opts (path ++ [optTag k])
    let rk := stripKids k path kids
    if ro.2.1 || rk.2.1 then (.mk k tag idx ro.1 rk.1, true, ro.2.2 ++ rk.2.2)
    else (.mk k tag idx opts kids, false, ro.2.2 ++ rk.2.2)
/-- all `stripOptionsFromAll` calls of one element -/
def stripKids (k : Kind) (path : Path) : List Elem → Res (List Elem)
  | [] => ([], false, [])
  | e :: es =>
    let re := if visits k e then stripElem (path ++ [e.tag, e.idx]) e else (e, false, [])
    let rs := stripKids k path es
    (re.1 :: rs.1, re.2.1 || rs.2.1, re.2.2 ++ rs.2.2)
end

/-- `stripSourcePathsForSourceRetentionOptions` on the list of location paths. -/
def stripLocs (locs : List Path) (t : Trie) : List Path :=
  locs.filter (fun p => !isRemoved t p)

/-- `StripSourceRetentionOptionsFromFile`.  `locs = none`: `SourceCodeInfo == nil`.
    Returns (file, result is a new pointer, locations). -/
def stripFile (f : Elem) (locs : Option (List Path)) : Elem × Bool × Option (List Path) :=
  let r := stripElem [] f
  if !r.2.1 then (f, false, locs)
  else
    let locs' := match locs with
      | none => none
      | some [] => some []          -- `path`/`removedPaths` stay nil; source info returned as is
      | some ls => some (stripLocs ls (buildTrie r.2.2))
    (r.1, true, locs')

/-! ### Reference semantics (specification side)

`ideal…`: what the property demands — source-retention fields are removed at *every* depth, in
*every* element, and exactly the locations under a removed field (or under an options message
removed as a whole) disappear.  `top…`: the same with depth 0 only (what the code does). -/

mutual
def pruneO : OTree → OTree
  | .node n r v ks => .node n r v (pruneOs ks)
def pruneOs : List OTree → List OTree
  | [] => []
  | t :: ts => if t.isSrc then pruneOs ts else pruneO t :: pruneOs ts
end

/-- An options message all of whose (≥ 1) fields are source-retention is dropped entirely. -/
def wholeRemoved (fs : List OTree) : Bool := fs.any OTree.isSrc && fs.all OTree.isSrc

def idealOpts : Option (List OTree) → Option (List OTree)
  | none => none
  | some fs => if wholeRemoved fs then none else some (pruneOs fs)

def topOpts : Option (List OTree) → Option (List OTree)
  | none => none
  | some fs => if wholeRemoved fs then none else some (fs.filter (fun f => !f.isSrc))

mutual
/-- paths of the outermost source-retention nodes below `base` -/
def srcPathsO (base : Path) : OTree → List Path
  | .node n r _ ks => if decide (r = Ret.source) then [base ++ [n]] else srcPaths (base ++ [n]) ks
def srcPaths (base : Path) : List OTree → List Path
  | [] => []
  | t :: ts => srcPathsO base t ++ srcPaths base ts
end

def idealRemovedOpts (path : Path) : Option (List OTree) → List Path
  | none => []
  | some fs => if wholeRemoved fs then [path] else srcPaths path fs

def topRemovedOpts (path : Path) : Option (List OTree) → List Path
  | none => []
  | some fs => if wholeRemoved fs then [path]
               else (fs.filter OTree.isSrc).map (fun f => path ++ [f.num])

mutual
def idealElem : Elem → Elem
  | .mk k tag idx opts kids => .mk k tag idx (idealOpts opts) (idealKids kids)
def idealKids : List Elem → List Elem
  | [] => []
  | e :: es => idealElem e :: idealKids es
end

mutual
def topElem : Elem → Elem
  | .mk k tag idx opts kids => .mk k tag idx (topOpts opts) (topKids kids)
def topKids : List Elem → List Elem
  | [] => []
  | e :: es => topElem e :: topKids es
end

mutual
def idealRemoved (path : Path) : Elem → List Path
  | .mk k _ _ opts kids => idealRemovedOpts (path ++ [optTag k]) opts ++ idealRemovedKids path kids
def idealRemovedKids (path : Path) : List Elem → List Path
  | [] => []
  | e :: es => idealRemoved (path ++ [e.tag, e.idx]) e ++ idealRemovedKids path es
end

mutual
def topRemoved (path : Path) : Elem → List Path
  | .mk k _ _ opts kids => topRemovedOpts (path ++ [optTag k]) opts ++ topRemovedKids path kids
def topRemovedKids (path : Path) : List Elem → List Path
  | [] => []
  | e :: es => topRemoved (path ++ [e.tag, e.idx]) e ++ topRemovedKids path es
end

/-- a location survives iff no removed path is a prefix of its path -/
def keepLocs (removed : List Path) (locs : List Path) : List Path :=
  locs.filter (fun p => !removed.any (fun q => q.isPrefixOf p))

def idealFile (f : Elem) (locs : Option (List Path)) : Elem × Option (List Path) :=
  (idealElem f, locs.map (keepLocs (idealRemoved [] f)))

def topFile (f : Elem) (locs : Option (List Path)) : Elem × Option (List Path) :=
  (topElem f, locs.map (keepLocs (topRemoved [] f)))

/-! ### Shape predicates -/

mutual
/-- Every child sits under a repeated field that the Go code walks with the function for the
    child's kind — i.e. the tree has the shape of a real `FileDescriptorProto`. -/
def wf : Elem → Bool
  | .mk k _ _ _ kids => wfKids k kids
def wfKids (k : Kind) : List Elem → Bool
  | [] => true
  | e :: es => visits k e && wf e && wfKids k es
end

mutual
/-- no source-retention node anywhere in the forest -/
def deepCleanO : OTree → Bool
  | .node _ r _ ks => !decide (r = Ret.source) && deepClean ks
def deepClean : List OTree → Bool
  | [] => true
  | t :: ts => deepCleanO t && deepClean ts
end

/-- every source-retention field of the options message is a top-level one -/
def nestedCleanFields : List OTree → Bool
  | [] => true
  | t :: ts => (t.isSrc || deepClean t.kids) && nestedCleanFields ts

def nestedCleanOpts : Option (List OTree) → Bool
  | none => true
  | some fs => nestedCleanFields fs

mutual
def nestedClean : Elem → Bool
  | .mk _ _ _ opts kids => nestedCleanOpts opts && nestedCleanKids kids
def nestedCleanKids : List Elem → Bool
  | [] => true
  | e :: es => nestedClean e && nestedCleanKids es
end

/-- some field of the options message itself is source-retention -/
def hasSrc : Option (List OTree) → Bool
  | none => false
  | some fs => fs.any OTree.isSrc

mutual
/-- some walked element has a top-level source-retention option field -/
def hasTopSrc : Elem → Bool
  | .mk k _ _ opts kids => hasSrc opts || hasTopSrcKids k kids
def hasTopSrcKids (k : Kind) : List Elem → Bool
  | [] => false
  | e :: es => (visits k e && hasTopSrc e) || hasTopSrcKids k es
end

mutual
/-- pre-order list of the "was copied" flag of every element (the dirty flag each Go call
    computes), used to print sharing in the engine answer -/
def shareFlags (path : Path) : Elem → List Bool
  | .mk k tag idx opts kids =>
    (stripElem path (.mk k tag idx opts kids)).2.1 :: shareFlagsKids k path kids
def shareFlagsKids (k : Kind) (path : Path) : List Elem → List Bool
  | [] => []
  | e :: es =>
    (if visits k e then shareFlags (path ++ [e.tag, e.idx]) e else shareFlagsOff e)
      ++ shareFlagsKids k path es
def shareFlagsOff : Elem → List Bool
  | .mk _ _ _ _ kids => false :: shareFlagsOffKids kids
def shareFlagsOffKids : List Elem → List Bool
  | [] => []
  | e :: es => shareFlagsOff e ++ shareFlagsOffKids es
end

end PCV.Retention
