/-
Wire format of the `options` / `optmodes` engines: parsing of `schema` and `opt` op lines into the
model's types, and printing of results (see PCV/Engines/Options.lean for the grammar).
-/
import PCV.Util.Wire
import PCV.Model.Options
namespace PCV.Options
open PCV.Wire

namespace OptionsWire

abbrev P := StateT (List String) Option

def tok : P String := fun ts => match ts with | [] => none | t :: r => some (t, r)
def nat : P Nat := do let t ← tok; (t.toNat? : Option Nat)
def int : P Int := do let t ← tok; (t.toInt? : Option Int)
def expect (s : String) : P Unit := do let t ← tok; if t == s then pure () else failure
def bool01 : P Bool := do let t ← tok; if t == "1" then pure true else if t == "0" then pure false else failure

def rep {α} (p : P α) : Nat → P (List α)
  | 0 => pure []
  | n + 1 => do let a ← p; let r ← rep p n; pure (a :: r)

def undash (s : String) : String := if s == "-" then "" else s

def parseKind (t : String) : Option Kind :=
  match t with
  | "i32" => some .i32 | "i64" => some .i64 | "u32" => some .u32 | "u64" => some .u64
  | "s32" => some .s32 | "s64" => some .s64 | "fx32" => some .fx32 | "fx64" => some .fx64
  | "sfx32" => some .sfx32 | "sfx64" => some .sfx64 | "flt" => some .flt | "dbl" => some .dbl
  | "bool" => some .bool | "str" => some .str | "byt" => some .bytes
  | _ =>
    match t.toList with
    | 'e' :: r => (String.ofList r).toNat?.map .enum
    | 'm' :: r => (String.ofList r).toNat?.map .msg
    | 'g' :: r => (String.ofList r).toNat?.map .group
    | _ => none

def parseCard (t : String) : Option Card :=
  match t with | "o" => some .opt | "q" => some .req | "r" => some .rep | _ => none

def field : P FieldS := do
  let name ← tok
  let num ← nat
  let k ← tok
  let kind ← (parseKind k : Option Kind)
  let c ← tok
  let card ← (parseCard c : Option Card)
  let isMap ← bool01
  let presence ← bool01
  let oo ← tok
  let oneof ← if oo == "-" then pure none else (oo.toNat?.map some : Option (Option Nat))
  let tg ← tok
  let targets ← if tg == "-" then pure [] else (((tg.splitOn ".").mapM String.toNat?) : Option (List Nat))
  let intro ← nat
  let removed ← nat
  let full ← tok
  let ext ← tok
  let utf8 ← bool01
  pure { name, num, kind, card, isMap, presence, oneof, targets, intro, removed, full, extendee := undash ext, utf8 }

def enumP : P EnumS := do
  expect "E"
  let full ← tok
  let closed ← bool01
  let n ← nat
  let vals4 ← rep (do let nm ← tok; let v ← int; let i ← nat; let r ← nat; pure (nm, v, i, r)) n
  pure { full, closed, vals := vals4.map (fun x => (x.1, x.2.1)),
         life := (vals4.filter (fun x => x.2.2.1 != 0 || x.2.2.2 != 0)).map (fun x => (x.2.1, x.2.2.1, x.2.2.2)) }

def msgP : P MsgS := do
  expect "M"
  let full ← tok
  let short ← tok
  let parent ← tok
  let msgSet ← bool01
  let n ← nat
  let fields ← rep field n
  pure { full, short, parent := undash parent, fields, msgSet }

def schemaP : P Schema := do
  let ne ← nat
  let enums ← rep enumP ne
  let nm ← nat
  let msgs ← rep msgP nm
  let nx ← nat
  let exts ← rep (do expect "X"; field) nx
  expect "K"
  let optIdx ← rep nat 9
  expect "D"
  let dynDescriptor ← bool01
  pure { enums, msgs, exts, optIdx, dynDescriptor }

def hexNat (s : String) : Option Nat :=
  if s.length != 16 then none else
  s.toList.foldlM (fun acc c => (hexVal c).map (fun d => acc * 16 + d)) 0

def isIdentChar (c : Char) : Bool := c == '_' || c.isAlphanum
def isIdent (s : String) : Bool :=
  match s.toList with
  | [] => false
  | c :: r => (c == '_' || c.isAlpha) && r.all isIdentChar

def isQName (s : String) : Bool := (s.splitOn ".").all isIdent

def isDec (s : String) : Bool :=
  s.length > 0 && s.length ≤ 40 && s.toList.all Char.isDigit && (s.length == 1 || s.front != '0')

def dropPrefix? (s pre : String) : Option String :=
  if s.startsWith pre then some (s.drop pre.length).toString else none

def two63 : Nat := 9223372036854775808
def two64 : Nat := 18446744073709551616

/-- value of `-<ident>` (ast.NewSpecialFloatLiteralNode, negated) -/
def signedSpecial (s : String) : Nat :=
  let l := s.toLower
  if l == "inf" || l == "infinity" then inf64 + two63 else nan64 + two63

def parseFName (t : String) : Option FName :=
  match dropPrefix? t "n:" with
  | some n => if isIdent n then some (.plain n) else none
  | none =>
    match dropPrefix? t "x:" with
    | some n => if isQName n then some (.ext n) else none
    | none =>
      match dropPrefix? t "a:" with
      | some n =>
        match n.splitOn "/" with
        | [h, m] => if isQName h && isQName m then some (.any h m) else none
        | _ => none
      | none => none

def digitsVal (base : Nat) (s : String) : Option Nat :=
  if s.isEmpty || s.length > 40 then none else
  s.toList.foldlM (fun acc c => (hexVal c).bind (fun d => if d < base then some (acc * base + d) else none)) 0

/-- integer literals spelled in hex (`ux:`/`ix:`, rendered 0x…) or octal (`uo:`/`io:`, rendered 0…);
    `i…` = written with a minus sign -/
def parseRadix (t : String) : Option AV :=
  let mk (neg : Bool) (n : Nat) : Option AV :=
    if neg then (if n ≤ two63 then some (.sint (-(n : Int))) else none)
    else (if n < two64 then some (.uint n) else none)
  match dropPrefix? t "ux:" with
  | some d => (digitsVal 16 d).bind (mk false)
  | none =>
  match dropPrefix? t "ix:" with
  | some d => (digitsVal 16 d).bind (mk true)
  | none =>
  match dropPrefix? t "uo:" with
  | some d => (digitsVal 8 d).bind (mk false)
  | none =>
  match dropPrefix? t "io:" with
  | some d => (digitsVal 8 d).bind (mk true)
  | none => none

def parseScalar (t : String) : Option AV :=
  match parseRadix t with
  | some v => some v
  | none =>
  match dropPrefix? t "u:" with
  | some d => if isDec d then d.toNat?.bind (fun n => if n < two64 then some (.uint n) else none) else none
  | none =>
  match dropPrefix? t "i:" with
  | some d => if isDec d then d.toNat?.bind (fun n => if n ≤ two63 then some (.sint (-(n : Int))) else none) else none
  | none =>
  match dropPrefix? t "nf:" with
  | some h => (hexNat h).bind (fun b => if b < inf64 then some (.flt (b + two63)) else none)
  | none =>
  match dropPrefix? t "f:" with
  | some h => (hexNat h).bind (fun b => if b < inf64 then some (.flt b) else none)
  | none =>
  match dropPrefix? t "bu:" with
  | some h => (hexNat h).bind (fun b => if b < inf64 then some (.flt b) else none)
  | none =>
  match dropPrefix? t "bn:" with
  | some h => (hexNat h).bind (fun b => if b < inf64 then some (.flt (b + two63)) else none)
  | none =>
  match dropPrefix? t "id:" with
  | some s => if isIdent s then some (.ident s) else none
  | none =>
  match dropPrefix? t "ni:" with
  | some s => if isIdent s then some (.flt (signedSpecial s)) else none
  | none =>
  match dropPrefix? t "s:" with
  | some h => (bytesOfHex h).map .str
  | none => none

mutual
def parseVal : Nat → List String → Option (AV × List String)
  | 0, _ => none
  | _ + 1, [] => none
  | fuel + 1, t :: rest =>
    if t == "{" then (parseFields fuel rest).map (fun (fs, r) => (.msg fs, r))
    else if t == "[" then (parseElems fuel rest).map (fun (vs, r) => (.arr vs, r))
    else (parseScalar t).map (fun v => (v, rest))
def parseFields : Nat → List String → Option (AFs × List String)
  | 0, _ => none
  | _ + 1, [] => none
  | fuel + 1, t :: rest =>
    if t == "}" then some (.nil, rest)
    else
      match parseFName t, rest with
      | some nm, sep :: rest2 =>
        if sep != ":" && sep != "_" then none else
        match parseVal fuel rest2 with
        | none => none
        | some (v, r3) =>
          match parseFields fuel r3 with
          | none => none
          | some (fs, r4) => some (.cons nm (sep == ":") v fs, r4)
      | _, _ => none
def parseElems : Nat → List String → Option (AVs × List String)
  | 0, _ => none
  | _ + 1, [] => none
  | fuel + 1, t :: rest =>
    if t == "]" then some (.nil, rest)
    else
      match parseVal fuel (t :: rest) with
      | none => none
      | some (v, r2) =>
        match parseElems fuel r2 with
        | none => none
        | some (vs, r3) => some (.cons v vs, r3)
end

def parsePart (t : String) : Option NamePart :=
  match dropPrefix? t "n:" with
  | some n => if isIdent n then some ⟨false, n⟩ else none
  | none =>
    match dropPrefix? t "x:" with
    | some n => if isQName n then some ⟨true, n⟩ else none
    | none => none

def stmtP : P Stmt := fun ts =>
  match ts with
  | [] => none
  | t :: rest =>
    match t.toNat? with
    | none => none
    | some np =>
      if np < 1 || np > 16 || rest.length < np then none else
      match (rest.take np).mapM parsePart with
      | none => none
      | some parts =>
        match parseVal (rest.length + 1) (rest.drop np) with
        | none => none
        | some (.arr _, _) => none
        | some (v, r) => some (⟨parts, v⟩, r)

/-- the element(s) that carry the statements -/
structure Elem where
  kind : String
  optsIdx : Nat       -- position in Schema.optIdx
  target : Nat
  fc : Option FieldCtx
  /-- number of elements that share the one options clause (ranges of one `extensions` statement);
      each of them is interpreted on its own, from the same statements -/
  count : Nat := 1

def parseElem (t : String) : Option Elem :=
  match t.splitOn ":" with
  | ["file"] => some ⟨"file", 0, 1, none, 1⟩
  | ["message"] => some ⟨"message", 1, 3, none, 1⟩
  | ["groupmsg"] => some ⟨"groupmsg", 1, 3, none, 1⟩
  | ["nmessage"] => some ⟨"nmessage", 1, 3, none, 1⟩
  | ["oneof"] => some ⟨"oneof", 3, 5, none, 1⟩
  | ["extrange"] => some ⟨"extrange", 4, 2, none, 1⟩
  | ["extrange", c] =>
    match c.toNat? with
    | some k => if 2 ≤ k && k ≤ 4 then some ⟨"extrange", 4, 2, none, k⟩ else none
    | none => none
  | ["enum"] => some ⟨"enum", 5, 6, none, 1⟩
  | ["nenum"] => some ⟨"nenum", 5, 6, none, 1⟩
  | ["enumvalue"] => some ⟨"enumvalue", 6, 7, none, 1⟩
  | ["nenumvalue"] => some ⟨"nenumvalue", 6, 7, none, 1⟩
  | ["service"] => some ⟨"service", 7, 8, none, 1⟩
  | ["method"] => some ⟨"method", 8, 9, none, 1⟩
  -- a map field is a repeated message field, a group field has TYPE_GROUP already before linking
  | ["mapfield"] => some ⟨"mapfield", 2, 4, some ⟨.msg 0, true, false, "f"⟩, 1⟩
  | ["groupfield"] => some ⟨"groupfield", 2, 4, some ⟨.group 0, false, false, "g"⟩, 1⟩
  | [e, k, l] =>
    if e != "field" && e != "extfield" && e != "oneoffield" && e != "nfield" && e != "nextfield" then none else
    match parseKind k, parseCard l with
    | some kind, some card =>
      if e == "oneoffield" && card != .opt then none else
      match kind with
      | .group _ => none
      | _ =>
        let isExt := e == "extfield" || e == "nextfield"
        some ⟨e, 2, 4, some ⟨kind, card == .rep, isExt, if isExt then "ux" else "f"⟩, 1⟩
    | _, _ => none
  | _ => none

structure Op where
  syntaxTok : String
  elem : Elem
  stmts : List Stmt

def parseOp (ws : List String) : Option Op :=
  match ws with
  | "opt" :: syn :: el :: n :: rest =>
    if syn != "p2" && syn != "p3" && syn != "e23" && syn != "e23s" then none else
    match parseElem el, n.toNat? with
    | some e, some k =>
      if k > 64 then none else
      match (rep stmtP k) rest with
      | some (stmts, []) => some ⟨syn, e, stmts⟩
      | _ => none
    | _, _ => none
  | _ => none

/-- `-<ident>` is accepted by the grammar only for inf/nan (top level, exact spelling) and
    inf/infinity/nan (inside a message literal, any case) -/
def signedIdentsOK : List String → Nat → Bool
  | [], _ => true
  | t :: r, depth =>
    if t == "{" then signedIdentsOK r (depth + 1)
    else if t == "}" then signedIdentsOK r (depth - 1)
    else match dropPrefix? t "ni:" with
      | some s =>
        (if depth == 0 then s == "inf" || s == "nan"
         else s.toLower == "inf" || s.toLower == "infinity" || s.toLower == "nan") && signedIdentsOK r depth
      | none => signedIdentsOK r depth

/- extension names mentioned anywhere in the statement (name parts and message literals) -/
mutual
def extsOfV : AV → List String
  | .msg fs => extsOfF fs
  | .arr vs => extsOfL vs
  | _ => []
def extsOfF : AFs → List String
  | .nil => []
  | .cons (.ext n) _ v r => n :: (extsOfV v ++ extsOfF r)
  | .cons _ _ v r => extsOfV v ++ extsOfF r
def extsOfL : AVs → List String
  | .nil => []
  | .cons v r => extsOfV v ++ extsOfL r
end

def stmtExts (st : Stmt) : List String :=
  (st.parts.filter (·.isExt)).map (·.name) ++ extsOfV st.val

/- grammar: a field without ':' takes a message literal or a list of message literals; list elements
   are scalars or message literals (no nested lists) -/
mutual
def wfV : AV → Bool
  | .msg fs => wfF fs
  | .arr vs => wfL vs
  | _ => true
def wfF : AFs → Bool
  | .nil => true
  | .cons _ sep v r =>
    (sep || (match v with
      | .msg _ => true
      | .arr vs => allMsgs vs
      | _ => false)) && wfV v && wfF r
def wfL : AVs → Bool
  | .nil => true
  | .cons v r => !v.isArr && wfV v && wfL r
def allMsgs : AVs → Bool
  | .nil => true
  | .cons v r => v.isMsg && allMsgs r
end

/-- parser.ResultFromAST rejects `features…` in a file that does not use editions -/
def featuresOutsideEditions (op : Op) : Bool :=
  op.syntaxTok != "e23" && op.syntaxTok != "e23s" && op.stmts.any (fun st => !firstIsExt st && firstName st == "features")

def edition (syn : String) : Nat := if syn == "e23" || syn == "e23s" then 1000 else 0

/-- `e23s`: the edition-2023 file itself declares `message UF { int32 a = 1; }` and
    `extend google.protobuf.FeatureSet { UF uf = 9990; }` — a feature defined in the file that uses it -/
def withOwnFeature (s : Schema) : Schema :=
  { s with
    msgs := s.msgs ++ [⟨"UF", "UF", "", [⟨"a", 1, .i32, .opt, false, true, none, [], 0, 0, "UF.a", "", false, false⟩], false⟩],
    exts := s.exts ++ [⟨"uf", 9990, .msg s.msgs.length, .opt, false, true, none, [], 0, 0, "uf",
                        "google.protobuf.FeatureSet", false, true⟩] }

def schemaFor (s : Schema) (syn : String) : Schema := if syn == "e23s" then withOwnFeature s else s

def showRest : List Nat → List Nat → List String
  | [], _ => []
  | i :: r, seen => (if seen.contains i then "?" else toString i) :: showRest r (i :: seen)

def showOptBytes : Option (List UInt8) → String
  | none => "-"
  | some b => "x" ++ hexBytes b

def showR (s : Schema) (mi : Nat) (e : Elem) (r : ElemR) : String :=
  match r.fatal with
  | some er => "err " ++ er.toString
  | none =>
    let rest := showRest r.remain []
    let base := "ok " ++ (if serializable s mi r.opts then dumpPM r.opts else "marshal-error") ++ " r=" ++ (if rest.isEmpty then "-" else ",".intercalate rest) ++
      (if e.count > 1 then " n=" ++ toString e.count else "")
    match e.fc with
    | none => base
    | some fc =>
      let j := match r.json with | some b => b | none => (jsonName fc.name).toUTF8.toList
      base ++ " d=" ++ showOptBytes r.dflt ++ " j=x" ++ hexBytes j

def runMode (s : Schema) (op : Op) (m : Mode) (stmts : List Stmt) : ElemR :=
  runElem s m op.elem.target (edition op.syntaxTok) (s.optIdx.getD op.elem.optsIdx 0) op.elem.fc stmts

def linkOK (s : Schema) (op : Op) : Bool :=
  op.stmts.all (fun st => (stmtExts st).all (fun n => (s.findExt n).isSome))

def strictAns (s : Schema) (op : Op) (stmts : List Stmt) : String :=
  if !linkOK s { op with stmts := stmts } then "linkerr unkext"
  else showR s (s.optIdx.getD op.elem.optsIdx 0) op.elem (runMode s op ⟨false, true⟩ stmts)

def lenientAns (s : Schema) (op : Op) : String :=
  if !linkOK s op then "linkerr unkext"
  else showR s (s.optIdx.getD op.elem.optsIdx 0) op.elem (runMode s op ⟨true, true⟩ op.stmts)

def keepNotIn (l : List Stmt) (drop : List Nat) : List Stmt :=
  ((zipIdxFrom l 0).filter (fun p => !drop.contains p.1)).map (·.2)

def modelAnswer (both : Bool) (st : Option Schema) (line : String) : Option Schema × String :=
  let ws := match words line with
    | "calib" :: _ :: rest => rest     -- the expectation is for the oracle only
    | ws => ws
  match ws with
  | "schema" :: _ :: _ :: "ABS" :: rest =>
    match schemaP rest with
    | some (s, []) => (some s, s!"ok {s.enums.length} {s.msgs.length} {s.exts.length}")
    | _ => (none, "bad-op")
  | "opt" :: _ =>
    match st with
    | none => (st, "no-schema")
    | some s =>
      match parseOp ws with
      | none => (st, "bad-op")
      | some op =>
        let s := schemaFor s op.syntaxTok
        if !signedIdentsOK ws 0 || featuresOutsideEditions op || !op.stmts.all (fun st => wfV st.val) then
          (st, if both then "S=parseerr L=parseerr U=parseerr C=-" else "parseerr")
        else
          let sa := strictAns s op op.stmts
          if !both then (st, sa) else
          let u := runMode s op ⟨true, false⟩ op.stmts
          let c := match u.fatal with
            | some _ => "-"
            | none => strictAns s op (keepNotIn op.stmts u.remain)
          (st, "S=" ++ sa ++ " L=" ++ lenientAns s op ++ " U=" ++ showR s (s.optIdx.getD op.elem.optsIdx 0) op.elem u ++ " C=" ++ c)
  | _ => (st, "bad-op")

end OptionsWire

end PCV.Options
