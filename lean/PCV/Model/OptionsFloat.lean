/-
Exact integer → binary32/binary64 and binary64 → binary32 conversions on IEEE bit patterns
(round to nearest, ties to even), as pure functions on `Nat` — what Go's `float32(u)`,
`float64(u)` (u an integer) and `float32(d)` (d a float64) compute. Used by the options model
(PCV.Model.Options) and by the protoc reference (PCV.Spec.Options): an integer literal assigned to
a float option is rounded ONCE (`float32(i)`), not via float64.
-/
namespace PCV.Options

/-- `n` rounded to at most `p` significant bits: `(m, e)` with value `m * 2^e`, `m < 2^p` or
    `m = 2^p` (carry); round half to even. No shift (`e = 0`) when `n` already fits. -/
def roundToSig (p n : Nat) : Nat × Nat :=
  let len := if n = 0 then 0 else n.log2 + 1
  if len ≤ p then (n, 0)
  else
    let s := len - p
    let q := n / 2 ^ s
    let r := n % 2 ^ s
    let half := 2 ^ (s - 1)
    if r > half || (r == half && q % 2 == 1) then (q + 1, s) else (q, s)

/-- bit pattern of the non-negative value `m * 2^e` (`0 < m ≤ 2^p`), for a format with `p`
    significand bits (hidden bit included), exponent bias `bias` and `expMax` = all-ones exponent -/
def packSig (p bias expMax : Nat) (m e : Nat) : Nat :=
  if m = 0 then 0 else
  let len := m.log2 + 1                    -- 1 ≤ len ≤ p + 1
  -- normalise to exactly p bits: m' * 2^e' with 2^(p-1) ≤ m' < 2^p
  let m' := if len ≤ p then m * 2 ^ (p - len) else m / 2 ^ (len - p)
  let eUnb : Nat := e + len - 1            -- exponent of the leading bit
  let biased := eUnb + bias
  if biased ≥ expMax then expMax * 2 ^ (p - 1)        -- overflow: +inf
  else biased * 2 ^ (p - 1) + (m' - 2 ^ (p - 1))

/-- `float32(n)` for a non-negative integer -/
def natToF32 (n : Nat) : Nat :=
  let r := roundToSig 24 n
  packSig 24 127 255 r.1 r.2

/-- `float64(n)` for a non-negative integer -/
def natToF64 (n : Nat) : Nat :=
  let r := roundToSig 53 n
  packSig 53 1023 2047 r.1 r.2

/-- `float32(i)` / `float64(i)` for a signed integer (sign bit + magnitude; `-0` cannot arise) -/
def intToF32 (i : Int) : Nat := if i < 0 then 2147483648 + natToF32 i.natAbs else natToF32 i.toNat
def intToF64 (i : Int) : Nat := if i < 0 then 9223372036854775808 + natToF64 i.natAbs else natToF64 i.toNat

/-- `float32(d)` for a float64 given by its bits; NaNs become the canonical quiet NaN -/
def f64ToF32 (b : Nat) : Nat :=
  let sign := (b / 9223372036854775808) % 2
  let e := (b / 4503599627370496) % 2048
  let f := b % 4503599627370496
  let sbit := sign * 2147483648
  if e = 2047 then (if f = 0 then sbit + 0x7f800000 else 0x7fc00000)
  else if e = 0 then sbit                                  -- zero and float64 subnormals: far below float32
  else
    let mant := 4503599627370496 + f                        -- 53 bits
    -- value = mant * 2^(e - 1075); float32 normal range: leading-bit exponent E = e - 1023 ≥ -126
    if e ≥ 897 then                                         -- E ≥ -126: normal (or overflow)
      let q := mant / 536870912                             -- drop 29 bits
      let r := mant % 536870912
      let q' := if r > 268435456 || (r == 268435456 && q % 2 == 1) then q + 1 else q
      -- q' in [2^23, 2^24]; biased exponent e - 1023 + 127 = e - 896
      let (q'', eb) := if q' = 16777216 then (8388608, e - 896 + 1) else (q', e - 896)
      if eb ≥ 255 then sbit + 0x7f800000 else sbit + eb * 8388608 + (q'' - 8388608)
    else
      -- subnormal float32: value = q * 2^(-149), shift = 29 + (897 - e)
      let sh := 29 + (897 - e)
      let q := mant / 2 ^ sh
      let r := mant % 2 ^ sh
      let half := 2 ^ (sh - 1)
      let q' := if r > half || (r == half && q % 2 == 1) then q + 1 else q
      sbit + q'                                              -- q' = 2^23 is the smallest normal: same bits

end PCV.Options
