/-
The diagnostic collection walk of `incremental.Run`
(experimental/incremental/executor.go, "Record all diagnostics generates by the queries").

    tasks := the tasks of the requested queries, in request order
    for n := len(tasks); n > 0; n = len(tasks) {
        node := tasks[n-1]; tasks = tasks[:n-1]          -- pop the LAST element
        if node ∈ dedup { continue }
        node.deps.Range(func(dep) { tasks = append(tasks, dep) })   -- sync.Map: ANY order
        dedup[node] = {}
        report.Diagnostics = append(report.Diagnostics, node.report.Diagnostics...)
    }
    report.Canonicalize()

The stack is modelled with its top at the head of a list: appending `d₁ … d_k` makes `d_k` the
top, so the new stack is `(rng node).reverse ++ rest`, where `rng node` is the order in which
`sync.Map.Range` happened to enumerate the dependencies in this run (a parameter: the Go
runtime fixes no order).  `seen` is the dedup set, newest first.
-/
namespace PCV.ReportCollect

/-- The worklist loop with an iteration budget; `none` = budget exhausted. -/
def collect {α δ : Type} [DecidableEq α] (rng : α → List α) (diag : α → List δ) :
    Nat → List α → List α → List δ → Option (List α × List δ)
  | 0, _, _, _ => none
  | _ + 1, [], seen, acc => some (seen, acc)
  | f + 1, x :: st, seen, acc =>
    if x ∈ seen then collect rng diag f st seen acc
    else collect rng diag f ((rng x).reverse ++ st) (x :: seen) (acc ++ diag x)

/-- `Run`'s collection for the requested roots (in request order). -/
def runCollect {α δ : Type} [DecidableEq α] (rng : α → List α) (diag : α → List δ)
    (fuel : Nat) (roots : List α) : Option (List α × List δ) :=
  collect rng diag fuel roots.reverse [] []

/-- An iteration budget that always suffices when every task that can be met lies in `univ`. -/
def budget {α : Type} (rng : α → List α) (univ roots : List α) : Nat :=
  roots.length + (univ.map (fun x => 2 + (rng x).length)).sum + 1

end PCV.ReportCollect
