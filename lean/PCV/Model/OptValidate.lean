/-
OptValidate — executable model of the OPTION-DEPENDENT validation of /repo/linker/validate.go
(ValidateOptions: validateFile, validateField, validatePacked, validateFieldFeatures,
validateExtension, validateExtensionDeclarations + symbols.AddExtensionDeclaration), engine
`optvalidate`, second engine of property C01 (the `link` engine's MiniProto has no options).

Input: an abstract description of a small file set (`Files`): per file the syntax/edition, the file
options that matter (optimize_for, java_string_check_utf8, features.field_presence / enum_type /
message_encoding), imports (indices of EARLIER files), enums (their enum_type feature), messages
(message_set_wire_format, `extensions` statements with their spans, verification and declarations,
fields with label / type / oneof membership and the relevant options and features) and extensions.
The Go harness renders the same description to real .proto sources; names are derived from
positions (file i = `f<i>.proto`, package `p<i>`, message `M<j>`, enum `E<k>`, field `f<l>` with
number l+1, extension `x<n>`, group field `f<l>` = `group F<l>`), so that the full names needed by
the declaration-matching rules can be computed here.

The model mirrors the code THAT EXISTS, rule by rule and in the order of the code, and returns for
every file the list of ALL errors ValidateOptions reports when the reporter lets it continue
(`fileErrs`); `validate` is the verdict of a fail-fast compile: the FIRST error class of the first
file that fails. Things that look odd but are modelled as they are:
  * three error sites panic instead of reporting (a panic ends the validation of the file; the
    compile still fails, with a PanicError): validatePacked takes the position of the field's LABEL
    node, which is nil when `packed = true` stands on a field written without a label (proto3
    singular field, oneof member) (`Err.panicNilLabel`); validateExtension does the same when the
    declared `repeated` differs and the extension has no label keyword (editions); and its
    "no declaration found" branch looks the extension-range node up in the file of the EXTENSION
    instead of the extendee's file, which panics whenever the two differ (`Err.panicRangeNode`);
  * three rules are dead code behind earlier phases and are modelled nevertheless:
    `packedEditions` (parser/validate.go rejects `packed` in editions first), `ctype2024` (the
    parser rejects edition 2024), `extTagTooHigh` (linker/resolve.go has already checked that the
    tag lies in an extension range of the extendee, whose end is at most FieldMax+1);
  * the range loop of validateExtension has no `break` after a matching range;
  * features of a map field are copied to the synthetic key/value fields, so the closed-enum rule
    on a map VALUE looks at the map field's `features.field_presence`.
A handful of rules of EARLIER phases that the abstract syntax can violate are modelled only as
"rejected before ValidateOptions" (`Outcome.pre`): see `parsePre`, `linkPre`.

Core Lean only. Names are `List Char` (so that `decide` can evaluate the model in proofs).
-/
namespace PCV.OptValidate

/-! ## abstract syntax -/

inductive Syn | proto2 | proto3 | ed2023 | ed2024
  deriving DecidableEq, Repr, Inhabited
inductive OptFor | speed | codeSize | lite
  deriving DecidableEq, Repr
inductive Presence | explicit | implicit | legacyRequired
  deriving DecidableEq, Repr
inductive EnumType | open | closed
  deriving DecidableEq, Repr
inductive MsgEnc | lengthPrefixed | delimited
  deriving DecidableEq, Repr
inductive RepEnc | packed | expanded
  deriving DecidableEq, Repr
inductive Utf8 | verify | none
  deriving DecidableEq, Repr
inductive JsType | normal | string | number
  deriving DecidableEq, Repr
inductive CType | string | cord | stringPiece
  deriving DecidableEq, Repr
inductive Verif | declaration | unverified
  deriving DecidableEq, Repr
inductive Label | none | optional | required | repeated
  deriving DecidableEq, Repr

inductive Scalar
  | int32 | int64 | uint32 | uint64 | sint32 | sint64 | fixed32 | fixed64 | sfixed32 | sfixed64
  | bool | float | double | string | bytes
  deriving DecidableEq, Repr

/-- reference to message / enum number `idx` of file number `file` -/
structure Ref where
  file : Nat
  idx : Nat
  deriving DecidableEq, Repr

inductive MapVal
  | scalar (s : Scalar) | enum (r : Ref) | message (r : Ref)
  deriving DecidableEq, Repr

inductive FType
  | scalar (s : Scalar) | enum (r : Ref) | message (r : Ref)
  | group                                   -- proto2 `group` with an empty body
  | map (key : Scalar) (val : MapVal)
  deriving DecidableEq, Repr

structure FieldOpts where
  hasDefault : Bool := false
  packed : Option Bool := none
  lazy : Option Bool := none
  unverifiedLazy : Option Bool := none
  jstype : Option JsType := none
  ctype : Option CType := none
  presence : Option Presence := none        -- features.field_presence
  repEnc : Option RepEnc := none            -- features.repeated_field_encoding
  utf8 : Option Utf8 := none                -- features.utf8_validation
  msgEnc : Option MsgEnc := none            -- features.message_encoding
  deriving DecidableEq, Repr

structure Field where
  label : Label
  ty : FType
  oneof : Option Nat := none
  opts : FieldOpts := {}
  deriving DecidableEq, Repr

structure Ext where
  extendee : Ref
  number : Nat
  label : Label
  ty : FType
  opts : FieldOpts := {}
  deriving DecidableEq, Repr

abbrev Name := List Char

structure Decl where
  number : Option Int := none
  fullName : Option Name := none
  type : Option Name := none
  reserved : Option Bool := none
  repeated : Option Bool := none
  deriving DecidableEq, Repr

/-- one span `lo to hi` (inclusive, as written) of an `extensions` statement -/
structure Span where
  lo : Nat
  hi : Nat
  deriving DecidableEq, Repr

/-- `extensions <spans> [verification = …, declaration = {…}, …];` — every span becomes one
    ExtensionRange of the descriptor and all of them share the options -/
structure ExtStmt where
  verification : Option Verif := none
  spans : List Span
  decls : List Decl := []
  deriving DecidableEq, Repr

structure Message where
  msgSet : Option Bool := none              -- option message_set_wire_format
  stmts : List ExtStmt := []
  fields : List Field := []
  deriving DecidableEq, Repr

structure File where
  syn : Syn
  optFor : Option OptFor := none
  javaUtf8 : Option Bool := none            -- option java_string_check_utf8
  presence : Option Presence := none        -- option features.field_presence
  enumType : Option EnumType := none        -- option features.enum_type
  msgEnc : Option MsgEnc := none            -- option features.message_encoding
  imports : List Nat := []
  enums : List (Option EnumType) := []      -- per enum: option features.enum_type
  msgs : List Message := []
  exts : List Ext := []
  deriving DecidableEq, Repr

abbrev Files := List File

/-! ## error classes: one constructor per `HandleErrorf` site of ValidateOptions -/

inductive Err
  -- validateFile
  | liteImport | fileLegacyRequired | javaUtf8Editions
  -- validatePacked
  | packedEditions | packedNonRepeated | packedNonPackable | panicNilLabel
  | panicRangeNode            -- validateExtension, the `!found` branch (see matchDecls)
  -- validateField
  | closedEnumImplicit | defaultImplicit | ctype2024 | lazyNonMessage | ulazyNonMessage | jstypeNon64
  -- validateFieldFeatures
  | presenceOneof | presenceRepeated | presenceExtension | presenceImplicitMessage
  | rencNonRepeated | rencPackedNonPackable | utf8NonString | mencNonMessage
  -- validateExtension
  | msgSetScalarExt | msgSetRepeatedExt | extTagTooHigh | liteExtendsNonLite
  | extReserved | extNameMismatch | extTypeMismatch | extRepeatedMismatch | extNotDeclared
  -- validateExtensionDeclarations
  | declUnverified | declNoNumber | declOutOfRange | declDupNumber | declNoName | declNameNoDot
  | declNameInvalid | declNameDup | declNoType | declTypeInvalid | declTypeNotBuiltin | declReservedHalf
  deriving DecidableEq, Repr

def Err.toString : Err → String
  | .liteImport => "lite-import" | .fileLegacyRequired => "file-legacy-required"
  | .javaUtf8Editions => "java-utf8-editions"
  | .packedEditions => "packed-editions" | .packedNonRepeated => "packed-non-repeated"
  | .packedNonPackable => "packed-non-packable" | .panicNilLabel => "PANIC" | .panicRangeNode => "PANIC"
  | .closedEnumImplicit => "closed-enum-implicit" | .defaultImplicit => "default-implicit"
  | .ctype2024 => "ctype-2024" | .lazyNonMessage => "lazy-non-message"
  | .ulazyNonMessage => "ulazy-non-message" | .jstypeNon64 => "jstype-non-64"
  | .presenceOneof => "presence-oneof" | .presenceRepeated => "presence-repeated"
  | .presenceExtension => "presence-extension" | .presenceImplicitMessage => "presence-implicit-message"
  | .rencNonRepeated => "renc-non-repeated" | .rencPackedNonPackable => "renc-packed-non-packable"
  | .utf8NonString => "utf8-non-string" | .mencNonMessage => "menc-non-message"
  | .msgSetScalarExt => "msgset-scalar-ext" | .msgSetRepeatedExt => "msgset-repeated-ext"
  | .extTagTooHigh => "ext-tag-too-high" | .liteExtendsNonLite => "lite-extends-nonlite"
  | .extReserved => "ext-reserved" | .extNameMismatch => "ext-name-mismatch"
  | .extTypeMismatch => "ext-type-mismatch" | .extRepeatedMismatch => "ext-repeated-mismatch"
  | .extNotDeclared => "ext-not-declared"
  | .declUnverified => "decl-unverified" | .declNoNumber => "decl-no-number"
  | .declOutOfRange => "decl-out-of-range" | .declDupNumber => "decl-dup-number"
  | .declNoName => "decl-no-name" | .declNameNoDot => "decl-name-no-dot"
  | .declNameInvalid => "decl-name-invalid" | .declNameDup => "decl-name-dup"
  | .declNoType => "decl-no-type" | .declTypeInvalid => "decl-type-invalid"
  | .declTypeNotBuiltin => "decl-type-not-builtin" | .declReservedHalf => "decl-reserved-half"

/-- the two places where ValidateOptions panics instead of reporting -/
def Err.isPanic : Err → Bool
  | .panicNilLabel | .panicRangeNode => true
  | _ => false

/-- `if c then [e] else []` -/
@[inline] def errIf (c : Bool) (e : Err) : List Err := if c then [e] else []

/-! ## names (derived from positions, as the harness renders them) -/

def natName (n : Nat) : Name := Nat.toDigits 10 n

def pkgName (file : Nat) : Name := 'p' :: natName file
def msgFullName (r : Ref) : Name := pkgName r.file ++ '.' :: 'M' :: natName r.idx
def enumFullName (r : Ref) : Name := pkgName r.file ++ '.' :: 'E' :: natName r.idx
/-- extension number `n` (position) of file `file` -/
def extFullName (file n : Nat) : Name := pkgName file ++ '.' :: 'x' :: natName n
/-- the message of a group extension `group X<n>` -/
def extGroupFullName (file n : Nat) : Name := pkgName file ++ '.' :: 'X' :: natName n
/-- the message of a group field `group F<l>` of a message -/
def fieldGroupFullName (msg : Ref) (l : Nat) : Name := msgFullName msg ++ '.' :: 'F' :: natName l

def Scalar.name : Scalar → Name
  | .int32 => "int32".toList | .int64 => "int64".toList | .uint32 => "uint32".toList
  | .uint64 => "uint64".toList | .sint32 => "sint32".toList | .sint64 => "sint64".toList
  | .fixed32 => "fixed32".toList | .fixed64 => "fixed64".toList | .sfixed32 => "sfixed32".toList
  | .sfixed64 => "sfixed64".toList | .bool => "bool".toList | .float => "float".toList
  | .double => "double".toList | .string => "string".toList | .bytes => "bytes".toList

def allScalars : List Scalar :=
  [.int32, .int64, .uint32, .uint64, .sint32, .sint64, .fixed32, .fixed64, .sfixed32, .sfixed64,
   .bool, .float, .double, .string, .bytes]

/-- validate.go isBuiltinTypeName -/
def isBuiltinTypeName (t : Name) : Bool := allScalars.any (fun s => s.name == t)

def isLetter (c : Char) : Bool := c == '_' || ('a' ≤ c && c ≤ 'z') || ('A' ≤ c && c ≤ 'Z')
def isLetterDigit (c : Char) : Bool := isLetter c || ('0' ≤ c && c ≤ '9')

/-- protoreflect.FullName.IsValid: non-empty identifiers separated by single dots -/
def fullNameValidAux : Bool → List Char → Bool
  | true, [] => false
  | false, [] => true
  | true, c :: r => isLetter c && fullNameValidAux false r
  | false, c :: r => if c == '.' then fullNameValidAux true r else isLetterDigit c && fullNameValidAux false r

def fullNameValid (s : Name) : Bool := fullNameValidAux true s

def hasDotPrefix : Name → Bool
  | '.' :: _ => true
  | _ => false

/-! ## the view of a field that validateField works on -/

/-- a field, an extension or a synthetic map-entry value field, with what validateField needs -/
structure FieldView where
  label : Label
  ty : FType
  oneof : Option Nat
  opts : FieldOpts
  isExt : Bool
  inMapEntry : Bool
  deriving DecidableEq, Repr

def Field.view (f : Field) : FieldView :=
  { label := f.label, ty := f.ty, oneof := f.oneof, opts := f.opts, isExt := false, inMapEntry := false }

def Ext.view (x : Ext) : FieldView :=
  { label := x.label, ty := x.ty, oneof := none, opts := x.opts, isExt := true, inMapEntry := false }

def MapVal.toFType : MapVal → FType
  | .scalar s => .scalar s | .enum r => .enum r | .message r => .message r

/-- the `value` field of the synthetic entry message of a map field: no label keyword, no options
    except the FEATURES of the map field, which options.go copies down -/
def mapValueView (f : Field) (v : MapVal) : FieldView :=
  { label := .none, ty := v.toFType, oneof := none,
    opts := { presence := f.opts.presence, repEnc := f.opts.repEnc, utf8 := f.opts.utf8, msgEnc := f.opts.msgEnc },
    isExt := false, inMapEntry := true }

/-- the synthetic value field of a map field, if the field is a map -/
def mapValueViewOf (fl : Field) : Option FieldView :=
  match fl.ty with
  | .map _ v => some (mapValueView fl v)
  | _ => none

def File.isEditions (f : File) : Bool := f.syn == .ed2023 || f.syn == .ed2024

def FType.isMap : FType → Bool
  | .map _ _ => true
  | _ => false

/-- descriptor label is LABEL_REPEATED (map fields are repeated fields of the entry message) -/
def FieldView.isRepeated (v : FieldView) : Bool := v.label == .repeated || v.ty.isMap

/-- fd.Message() != nil -/
def FType.hasMessage : FType → Bool
  | .message _ | .group | .map _ _ => true
  | _ => false

/-- protoreflect kinds as far as the rules distinguish them -/
inductive Kind | scalar (s : Scalar) | enum | message | group
  deriving DecidableEq, Repr

/-- resolved features.message_encoding of a field (field, then file, then the edition default) -/
def resolvedMsgEnc (f : File) (v : FieldView) : MsgEnc :=
  match v.opts.msgEnc with
  | some e => e
  | none => match f.msgEnc with
    | some e => e
    | none => .lengthPrefixed

/-- fldDescriptor.Kind(): in editions a message field with DELIMITED encoding reports GroupKind,
    except map fields and the fields of map entries -/
def kind (f : File) (v : FieldView) : Kind :=
  match v.ty with
  | .scalar s => .scalar s
  | .enum _ => .enum
  | .group => .group
  | .map _ _ => .message
  | .message _ =>
    if f.isEditions && !v.inMapEntry && resolvedMsgEnc f v == .delimited then .group else .message

/-- resolved features.field_presence (proto2/proto3: the fixed defaults of the syntax) -/
def resolvedPresence (f : File) (v : FieldView) : Presence :=
  match f.syn with
  | .proto2 => .explicit
  | .proto3 => .implicit
  | _ => match v.opts.presence with
    | some p => p
    | none => match f.presence with
      | some p => p
      | none => .explicit

/-- OneofIndex != nil: a declared oneof, or the synthetic oneof of a proto3 `optional` field -/
def FieldView.inOneof (f : File) (v : FieldView) : Bool :=
  v.oneof.isSome || (f.syn == .proto3 && v.label == .optional && !v.isExt)

/-- fldDescriptor.HasPresence() -/
def hasPresence (f : File) (v : FieldView) : Bool :=
  if v.isRepeated then false
  else if v.isExt || kind f v == .message || kind f v == .group || v.inOneof f then true
  else resolvedPresence f v == .explicit || resolvedPresence f v == .legacyRequired

/-- enumDescriptor.IsClosed() of the referenced enum (false for a dangling reference) -/
def enumClosed (fs : Files) (r : Ref) : Bool :=
  match fs[r.file]? with
  | none => false
  | some f => match f.syn with
    | .proto2 => true
    | .proto3 => false
    | _ => match f.enums[r.idx]? with
      | some (some t) => t == .closed
      | _ => f.enumType == some .closed

def Kind.is64BitInt : Kind → Bool
  | .scalar .int64 | .scalar .uint64 | .scalar .sint64 | .scalar .fixed64 | .scalar .sfixed64 => true
  | _ => false

/-- internal.CanPack -/
def Kind.canPack : Kind → Bool
  | .scalar .string | .scalar .bytes | .message | .group => false
  | _ => true

/-- descriptor TYPE_STRING / BYTES / MESSAGE / GROUP (validatePacked looks at the proto type) -/
def FType.unpackableProtoType : FType → Bool
  | .scalar .string | .scalar .bytes | .message _ | .group | .map _ _ => true
  | _ => false

/-! ## validatePacked / validateFieldFeatures / validateField -/

def packedErrs (f : File) (v : FieldView) : List Err :=
  errIf (v.opts.packed.isSome && f.isEditions) .packedEditions ++
  (if v.opts.packed != some true then []
   else
     (if !v.isRepeated then
        -- r.FieldNode(fd.proto).FieldLabel() is a nil node when the label keyword is absent
        (if v.label == .none then [.panicNilLabel] else [.packedNonRepeated])
      else []) ++
     errIf v.ty.unpackableProtoType .packedNonPackable)

def mapKeyIsString : FType → Bool
  | .map .string _ => true
  | _ => false
def mapValIsString : FType → Bool
  | .map _ (.scalar .string) => true
  | _ => false

def presenceErrs (f : File) (v : FieldView) : List Err :=
  match v.opts.presence with
  | none => []
  | some p =>
    if v.inOneof f then [.presenceOneof]
    else if v.isRepeated then [.presenceRepeated]
    else if v.isExt then [.presenceExtension]
    else errIf (v.ty.hasMessage && p == .implicit) .presenceImplicitMessage

def rencErrs (f : File) (v : FieldView) : List Err :=
  match v.opts.repEnc with
  | none => []
  | some e =>
    if !v.isRepeated then [.rencNonRepeated]
    else errIf (!(kind f v).canPack && e == .packed) .rencPackedNonPackable

def utf8Errs (f : File) (v : FieldView) : List Err :=
  match v.opts.utf8 with
  | none => []
  | some _ =>
    errIf ((!v.ty.isMap && kind f v != .scalar .string) ||
           (v.ty.isMap && !mapKeyIsString v.ty && !mapValIsString v.ty)) .utf8NonString

def mencErrs (v : FieldView) : List Err :=
  match v.opts.msgEnc with
  | none => []
  | some _ => errIf (!v.ty.hasMessage || v.ty.isMap) .mencNonMessage

/-- validateFieldFeatures (skipped for the fields of map entries) -/
def featureErrs (f : File) (v : FieldView) : List Err :=
  if v.inMapEntry then []
  else presenceErrs f v ++ rencErrs f v ++ utf8Errs f v ++ mencErrs v

def closedEnumErrs (fs : Files) (f : File) (v : FieldView) : List Err :=
  match v.ty with
  | .enum r => errIf (!(v.label == .repeated) && !hasPresence f v && enumClosed fs r) .closedEnumImplicit
  | _ => []

def lazyErrs (f : File) (v : FieldView) : List Err :=
  if (v.opts.lazy == some true || v.opts.unverifiedLazy == some true) && kind f v != .message then
    [if v.opts.lazy == some true then .lazyNonMessage else .ulazyNonMessage]
  else []

def jstypeErrs (f : File) (v : FieldView) : List Err :=
  match v.opts.jstype with
  | none | some .normal => []
  | some _ => errIf (!(kind f v).is64BitInt) .jstypeNon64

/-- validateField without the extension part -/
def fieldCoreErrs (fs : Files) (f : File) (v : FieldView) : List Err :=
  packedErrs f v ++
  closedEnumErrs fs f v ++
  errIf (v.opts.hasDefault && !hasPresence f v) .defaultImplicit ++
  errIf (v.opts.ctype.isSome && f.syn == .ed2024) .ctype2024 ++
  lazyErrs f v ++
  jstypeErrs f v ++
  (if f.isEditions then featureErrs f v else [])

/-! ## validateExtension -/

def fieldMax : Nat := 536870911          -- tags.FieldMax  = 2^29 - 1
def messageSetMax : Nat := 2147483646    -- tags.MessageSetMax = 2^31 - 2

def lookupMsg (fs : Files) (r : Ref) : Option (File × Message) :=
  match fs[r.file]? with
  | none => none
  | some f => match f.msgs[r.idx]? with
    | none => none
    | some m => some (f, m)

/-- validate.go getTypeName for extension number `n` (position) of file `file` -/
def extTypeName (file n : Nat) (x : Ext) : Name :=
  match x.ty with
  | .message r => '.' :: msgFullName r
  | .group => '.' :: extGroupFullName file n
  | .enum r => '.' :: enumFullName r
  | .scalar s => s.name
  | .map _ _ => []       -- extensions cannot be maps (excluded by well-formedness)

/-- what the extension brings to the declaration check -/
structure ExtInfo where
  number : Nat
  fullName : Name
  typeName : Name
  isRep : Bool
  /-- the extension is written without a label keyword (editions) -/
  noLabel : Bool
  /-- the extendee lives in another file than the extension -/
  otherFile : Bool

/-- the inner loop over the declarations of the matching range: the FIRST declaration with the
    extension's number decides (`break`).
    Two of the error sites panic instead of reporting:
    * "expected … to be repeated/optional" takes the position of the extension's LABEL node, which
      is nil when the extension has no label keyword (editions);
    * "… but no declaration found" looks the extension RANGE node up in `fd.ParentFile()` — the
      file of the extension — instead of the extendee's file (every other site passes
      `msg.ParentFile()`): `ExtensionsNode` of a range of another file is a nil interface and the
      type assertion panics. -/
def matchDecls (x : ExtInfo) : List Decl → List Err
  | [] => if x.otherFile then [.panicRangeNode] else [.extNotDeclared]
  | d :: rest =>
    if d.number.getD 0 != (x.number : Int) then matchDecls x rest
    else if d.reserved.getD false then [.extReserved]
    else
      errIf (d.fullName.getD [] != '.' :: x.fullName) .extNameMismatch ++
      errIf (d.type.getD [] != x.typeName) .extTypeMismatch ++
      (if d.repeated.getD false != x.isRep then
         (if x.noLabel then [.panicNilLabel] else [.extRepeatedMismatch])
       else [])

/-- the ExtensionRange entries of a message: one per span, all spans of a statement share the
    statement's options -/
def Message.ranges (m : Message) : List (Span × ExtStmt) :=
  m.stmts.flatMap (fun st => st.spans.map (fun sp => (sp, st)))

/-- the outer loop over the extendee's ranges (`continue` if the number is outside; `break` when
    the range has no options or is unverified; NO break after a verified range) -/
def matchRanges (x : ExtInfo) : List (Span × ExtStmt) → List Err
  | [] => []
  | (sp, st) :: rest =>
    if x.number < sp.lo || sp.hi < x.number then matchRanges x rest
    else if st.decls.isEmpty && st.verification != some .declaration then []
    else matchDecls x st.decls ++ matchRanges x rest

def extInfo (file n : Nat) (x : Ext) : ExtInfo :=
  { number := x.number, fullName := extFullName file n, typeName := extTypeName file n x,
    isRep := x.view.isRepeated, noLabel := x.label == .none, otherFile := x.extendee.file != file }

/-- message-set rules, or the tag bound when the extendee is not a message set -/
def msgSetErrs (f : File) (m : Message) (x : Ext) : List Err :=
  if m.msgSet == some true then
    errIf (kind f x.view != .message) .msgSetScalarExt ++
    errIf x.view.isRepeated .msgSetRepeatedExt
  else errIf (fieldMax < x.number) .extTagTooHigh

def extErrs (fs : Files) (file : Nat) (f : File) (n : Nat) (x : Ext) : List Err :=
  match lookupMsg fs x.extendee with
  | none => []
  | some (ef, m) =>
    msgSetErrs f m x ++
    errIf (f.optFor == some .lite && ef.optFor != some .lite) .liteExtendsNonLite ++
    matchRanges (extInfo file n x) m.ranges

/-! ## validateExtensionDeclarations (+ symbols.AddExtensionDeclaration) -/

/-- the extension-declaration part of linker.Symbols: declared name ↦ (extendee, tag) -/
abbrev Syms := List (Name × Name × Int)

def symLookup (s : Syms) (n : Name) : Option (Name × Int) :=
  match s.find? (fun e => e.1 == n) with
  | some e => some e.2
  | none => none

/-- AddExtensionDeclaration: a second declaration of a name is an error unless it has the same
    extendee and tag -/
def addDecl (s : Syms) (name extendee : Name) (tag : Int) : List Err × Syms :=
  match symLookup s name with
  | some (e, t) => if e == extendee && t == tag then ([], s) else ([.declNameDup], s)
  | none => ([], s ++ [(name, extendee, tag)])

/-- the number of a declaration: required, inside the range, not declared before in this range
    (`seen` = declsByTag, only numbers inside the range are recorded) -/
def declNumErrs (sp : Span) (d : Decl) (seen : List Int) : List Err × List Int :=
  match d.number with
  | none => ([.declNoNumber], seen)
  | some n =>
    if n < (sp.lo : Int) || (sp.hi : Int) < n then ([.declOutOfRange], seen)
    else if seen.contains n then ([.declDupNumber], seen)
    else ([], n :: seen)

/-- the full_name of a declaration; AddExtensionDeclaration is called whenever it is present -/
def declNameErrs (msgName : Name) (d : Decl) (syms : Syms) : List Err × Syms :=
  match d.fullName with
  | none => (errIf (!d.reserved.getD false) .declNoName, syms)
  | some s =>
    let nm := if hasDotPrefix s then s.drop 1 else s
    let r := addDecl syms nm msgName (d.number.getD 0)
    (errIf (!hasDotPrefix s) .declNameNoDot ++ errIf (!fullNameValid nm) .declNameInvalid ++ r.1, r.2)

def declTypeErrs (d : Decl) : List Err :=
  match d.type with
  | none => errIf (!d.reserved.getD false) .declNoType
  | some t =>
    if hasDotPrefix t then errIf (!fullNameValid (t.drop 1)) .declTypeInvalid
    else errIf (!isBuiltinTypeName t) .declTypeNotBuiltin

def declRsvdErrs (d : Decl) : List Err :=
  errIf (d.reserved.getD false && (d.fullName.isNone != d.type.isNone)) .declReservedHalf

/-- one iteration of the loop over the declarations of a range -/
def declOne (msgName : Name) (sp : Span) (d : Decl) (seen : List Int) (syms : Syms) :
    List Err × List Int × Syms :=
  let rn := declNumErrs sp d seen
  let rm := declNameErrs msgName d syms
  (rn.1 ++ rm.1 ++ declTypeErrs d ++ declRsvdErrs d, rn.2, rm.2)

def declLoop (msgName : Name) (sp : Span) : List Decl → List Int → Syms → List Err × Syms
  | [], _, syms => ([], syms)
  | d :: rest, seen, syms =>
    let r := declOne msgName sp d seen syms
    let r2 := declLoop msgName sp rest r.2.1 r.2.2
    (r.1 ++ r2.1, r2.2)

/-- one ExtensionRange of the message -/
def declRange (msgName : Name) (sp : Span) (st : ExtStmt) (syms : Syms) : List Err × Syms :=
  if st.decls.isEmpty then ([], syms)
  else
    let r := declLoop msgName sp st.decls [] syms
    (errIf (st.verification == some .unverified) .declUnverified ++ r.1, r.2)

def declRanges (msgName : Name) : List (Span × ExtStmt) → Syms → List Err × Syms
  | [], syms => ([], syms)
  | (sp, st) :: rest, syms =>
    let r := declRange msgName sp st syms
    let r2 := declRanges msgName rest r.2
    (r.1 ++ r2.1, r2.2)

/-! ## the walk: one message, one file -/

/-- the nested messages of a message, in order: groups have an empty body, a map entry has the
    fields `key` (no rule can fire) and `value` -/
def nestedErrs (fs : Files) (f : File) (fl : Field) : List Err :=
  match fl.ty with
  | .map _ v => fieldCoreErrs fs f (mapValueView fl v)
  | _ => []

/-- walk.Descriptors on one top-level message: validateMessage (declarations), its fields, its
    nested messages -/
def messageErrs (fs : Files) (file : Nat) (f : File) (j : Nat) (m : Message) (syms : Syms) : List Err × Syms :=
  let r := declRanges (msgFullName ⟨file, j⟩) m.ranges syms
  (r.1 ++ m.fields.flatMap (fun fl => fieldCoreErrs fs f fl.view) ++ m.fields.flatMap (nestedErrs fs f), r.2)

def messagesErrs (fs : Files) (file : Nat) (f : File) : Nat → List Message → Syms → List Err
  | _, [], _ => []
  | j, m :: rest, syms =>
    let r := messageErrs fs file f j m syms
    r.1 ++ messagesErrs fs file f (j + 1) rest r.2

def extsErrs (fs : Files) (file : Nat) (f : File) : Nat → List Ext → List Err
  | _, [] => []
  | n, x :: rest => (fieldCoreErrs fs f x.view ++ extErrs fs file f n x) ++ extsErrs fs file f (n + 1) rest

def importIsLite (fs : Files) (k : Nat) : Bool :=
  match fs[k]? with
  | some d => d.optFor == some .lite
  | none => false

def validateFileErrs (fs : Files) (f : File) : List Err :=
  (if f.optFor != some .lite then f.imports.flatMap (fun k => errIf (importIsLite fs k) .liteImport) else []) ++
  (if f.isEditions then
     errIf (f.presence == some .legacyRequired) .fileLegacyRequired ++
     errIf f.javaUtf8.isSome .javaUtf8Editions
   else [])

/-- every error ValidateOptions reports for file number `file` when the reporter lets it go on
    (no truncation at a panic yet) -/
def fileErrsRaw (fs : Files) (file : Nat) (f : File) : List Err :=
  validateFileErrs fs f ++ messagesErrs fs file f 0 f.msgs [] ++ extsErrs fs file f 0 f.exts

/-- a panic ends the validation of the file: keep the errors up to and including the marker -/
def truncPanic : List Err → List Err
  | [] => []
  | e :: rest => if e.isPanic then [e] else e :: truncPanic rest

def fileErrs (fs : Files) (file : Nat) (f : File) : List Err := truncPanic (fileErrsRaw fs file f)

/-! ## rules of earlier phases, known only as "rejected before ValidateOptions" -/

def FieldOpts.anyFeature (o : FieldOpts) : Bool :=
  o.presence.isSome || o.repEnc.isSome || o.utf8.isSome || o.msgEnc.isSome

/-- parser phase (parser/result.go, parser/validate.go) -/
def parsePre (f : File) : Bool :=
  f.syn == .ed2024 ||
  -- `packed` is not allowed in editions
  (f.isEditions && (f.msgs.any (fun m => m.fields.any (fun fl => fl.opts.packed.isSome)) ||
                    f.exts.any (fun x => x.opts.packed.isSome))) ||
  -- option `features` only in editions
  (!f.isEditions && (f.presence.isSome || f.enumType.isSome || f.msgEnc.isSome ||
                     f.enums.any (fun e => e.isSome) ||
                     f.msgs.any (fun m => m.fields.any (fun fl => fl.opts.anyFeature)) ||
                     f.exts.any (fun x => x.opts.anyFeature))) ||
  -- message_set_wire_format: not in proto3, no fields, at least one extension range
  f.msgs.any (fun m => m.msgSet == some true &&
                (f.syn == .proto3 || !m.fields.isEmpty || m.ranges.isEmpty)) ||
  -- default values are not allowed in proto3
  (f.syn == .proto3 && (f.msgs.any (fun m => m.fields.any (fun fl => fl.opts.hasDefault)) ||
                        f.exts.any (fun x => x.opts.hasDefault)))

/-- a test on the extendee of an extension (false for a dangling reference) -/
def onExtendee (fs : Files) (x : Ext) (g : Message → Bool) : Bool :=
  match lookupMsg fs x.extendee with
  | some (_, m) => g m
  | none => false

def inSomeRange (m : Message) (n : Nat) : Bool := m.ranges.any (fun r => r.1.lo ≤ n && n ≤ r.1.hi)

/-- link / option-interpretation phase (linker/resolve.go, options/options.go) -/
def linkPre (fs : Files) (f : File) : Bool :=
  -- extension tag outside the extension ranges of the extendee
  f.exts.any (fun x => onExtendee fs x (fun m => !inSomeRange m x.number)) ||
  -- default on a repeated field or on a message / group / map field
  f.msgs.any (fun m => m.fields.any (fun fl => fl.opts.hasDefault && (fl.view.isRepeated || fl.ty.hasMessage))) ||
  f.exts.any (fun x => x.opts.hasDefault && (x.view.isRepeated || x.ty.hasMessage))

/-! ## per-file outcomes and the verdict of the whole set -/

inductive Outcome
  | ok
  | dep                       -- not linked: a dependency failed
  | pre                       -- rejected by an earlier phase
  | crash                     -- validation panicked before reporting anything
  | errs (l : List Err)       -- ValidateOptions reported these (in order)
  deriving DecidableEq, Repr

def Outcome.isOk : Outcome → Bool
  | .ok => true
  | _ => false

/-- import `k` did not compile (or is not an earlier file) -/
def importBad (done : List Outcome) (k : Nat) : Bool :=
  match done[k]? with
  | some o => !o.isOk
  | none => true

/-- outcome of file number `done.length`, given the outcomes of the earlier files -/
def fileOutcome (fs : Files) (done : List Outcome) (f : File) : Outcome :=
  if parsePre f then .pre
  else if f.imports.any (importBad done) then .dep
  else if linkPre fs f then .pre
  else match fileErrs fs done.length f with
    | [] => .ok
    | l => if l.all Err.isPanic then .crash else .errs (l.filter (fun e => !e.isPanic))

def outcomesAux (fs : Files) : List Outcome → List File → List Outcome
  | done, [] => done
  | done, f :: rest => outcomesAux fs (done ++ [fileOutcome fs done f]) rest

/-- the outcome of every file, in the listed order -/
def outcomes (fs : Files) : List Outcome := outcomesAux fs [] fs

inductive Verdict
  | ok
  | pre
  | crash
  | dep                       -- only for ill-formed sets (an import that is not an earlier file)
  | err (e : Err)             -- the first error class a fail-fast compile reports
  deriving DecidableEq, Repr

def verdictOf : List Outcome → Verdict
  | [] => .ok
  | .ok :: rest => verdictOf rest
  | .dep :: _ => .dep
  | .pre :: _ => .pre
  | .crash :: _ => .crash
  | .errs (e :: _) :: _ => .err e
  | .errs [] :: _ => .crash      -- (never produced by fileOutcome)

/-- accept/reject (and first error class) of compiling the whole set -/
def validate (fs : Files) : Verdict := verdictOf (outcomes fs)

def accepts (fs : Files) : Bool := validate fs == .ok

/-! ## well-formedness: the inputs on which the model claims to describe the real compiler
    (everything else is rejected by grammar / earlier rules that are not modelled) -/

def scalarIsMapKey : Scalar → Bool
  | .float | .double | .bytes => false
  | _ => true

def refOk (fs : Files) (self : Nat) (imports : List Nat) (isEnum : Bool) (r : Ref) : Bool :=
  (r.file == self || imports.contains r.file) &&
  match fs[r.file]? with
  | none => false
  | some f => if isEnum then r.idx < f.enums.length else r.idx < f.msgs.length

def typeOk (fs : Files) (self : Nat) (f : File) : FType → Bool
  | .scalar _ => true
  | .enum r => refOk fs self f.imports true r
  | .message r => refOk fs self f.imports false r
  | .group => f.syn == .proto2
  | .map k v => scalarIsMapKey k && (match v with
      | .scalar _ => true
      | .enum r => refOk fs self f.imports true r
      | .message r => refOk fs self f.imports false r)

/-- label keywords the grammar / validateBasic accept -/
def fieldLabelOk (f : File) (fl : Field) : Bool :=
  if fl.oneof.isSome then fl.label == .none && !fl.ty.isMap
  else if fl.ty.isMap then fl.label == .none
  else match f.syn with
    | .proto2 => fl.label != .none
    | .proto3 => fl.label != .required
    | _ => fl.label == .none || fl.label == .repeated

def extLabelOk (f : File) (x : Ext) : Bool :=
  !x.ty.isMap && match f.syn with
    | .proto2 => x.label == .optional || x.label == .repeated
    | .proto3 => false            -- proto3 files may only extend descriptor options
    | _ => x.label == .none || x.label == .repeated

def spansDisjoint : List Span → Bool
  | [] => true
  | s :: rest => rest.all (fun t => s.hi < t.lo || t.hi < s.lo) && spansDisjoint rest

def declStringsOk (d : Decl) : Bool :=
  (match d.number with
   | some n => -2147483648 ≤ n && n ≤ 2147483647
   | none => true)

def messageOk (fs : Files) (self : Nat) (f : File) (m : Message) : Bool :=
  let maxTag := if m.msgSet == some true then messageSetMax else fieldMax
  m.fields.all (fun fl => typeOk fs self f fl.ty && fieldLabelOk f fl) &&
  (m.stmts.isEmpty || f.syn != .proto3) &&
  m.stmts.all (fun st => !st.spans.isEmpty && st.decls.all declStringsOk) &&
  m.ranges.all (fun r => m.fields.length < r.1.lo && r.1.lo ≤ r.1.hi && r.1.hi ≤ maxTag) &&
  spansDisjoint (m.ranges.map (·.1))

def extNumbersDistinct : List Ext → Bool
  | [] => true
  | x :: rest => rest.all (fun y => !(y.extendee == x.extendee && y.number == x.number)) && extNumbersDistinct rest

def fileOk (fs : Files) (self : Nat) (f : File) : Bool :=
  f.imports.all (fun k => k < self) && f.imports.Nodup &&
  f.msgs.all (messageOk fs self f) &&
  f.exts.all (fun x => typeOk fs self f x.ty && extLabelOk f x && refOk fs self f.imports false x.extendee && 0 < x.number)

def filesOkAux (fs : Files) : Nat → List File → Bool
  | _, [] => true
  | i, f :: rest => fileOk fs i f && filesOkAux fs (i + 1) rest

/-- the declared extension names (normalised as AddExtensionDeclaration sees them) of a file -/
def declNames (f : File) : List Name :=
  f.msgs.flatMap (fun m => m.stmts.flatMap (fun st => st.decls.filterMap (fun d =>
    d.fullName.map (fun s => if hasDotPrefix s then s.drop 1 else s))))

def allExts (fs : Files) : List Ext := fs.flatMap (·.exts)

/-- well-formed file set. The last two conditions keep the SHARED symbol table out of the picture:
    the order in which concurrently compiled files reach it is not determined. -/
def wellFormed (fs : Files) : Bool :=
  !fs.isEmpty && filesOkAux fs 0 fs &&
  extNumbersDistinct (allExts fs) &&
  (fs.zipIdx.all (fun (f, i) => fs.zipIdx.all (fun (g, j) =>
      i == j || (declNames f).all (fun n => !(declNames g).contains n))))

/-! ## answer line -/

def Outcome.toString : Outcome → String
  | .ok => "ok"
  | .dep => "dep"
  | .pre => "pre"
  | .crash => "crash"
  | .errs l => "v:" ++ ",".intercalate (l.map Err.toString)

def answer (fs : Files) : String := " ".intercalate ((outcomes fs).map Outcome.toString)

end PCV.OptValidate
