/-
The compiler queries of `experimental/incremental/queries` (file.go, ast.go, ir.go, link.go) as
query bodies for the executor models: only their KEYS and DEPENDENCY STRUCTURE are modelled; the
values are opaque content identifiers.

  key                     Go query
  qk 0 p  (F0)            File{Path p, ReportError:false}   -- the only query that calls Opener.Open
  qk 1 p  (F1)            File{Path p, ReportError:true}    -- resolves F0 p
  qk 2 p  (A)             AST{Path p}                        -- resolves F1 p
  qk 3 p  (I)             IR{Path p}                         -- resolves A p, F0 descriptor, F0 q for each
                                                                import q (one by one), then in one Resolve
                                                                I q (or ZeroQuery if q cannot be opened)
                                                                for every import and I descriptor
  qL w                    Link{Workspace w}                  -- resolves I p for every path of w
  qZ                      incremental.ZeroQuery
  qS w / qP p ord         FDS{Workspace w} / FDP{IR file}  (see `qBodyFds`; engine model only)

Paths are numbers; path 0 is google/protobuf/descriptor.proto (always present).
`env p = some id` : file p currently has content `id`; `table id = (path, imports)` describes a
content ever written (its import statements).  The value of F0/F1/A/I of p is `ok id`.
`selfEdge = true` reproduces that IR{descriptor.proto} also resolves itself (it gets an
`ErrCycle` for that and ignores it); with `false` the bodies form a DAG (used by C35's theorem).
Core Lean only.
-/
import PCV.Model.Incr
namespace PCV.IncrQueries
open PCV.Incr

def qk (kind p : Nat) : Key := 8 * p + kind
def qL (w : Nat) : Key := 8 * w + 4
def qZ : Key := 5
/-- FDS{Workspace w} -/
def qS (w : Nat) : Key := 8 * w + 6
/-- FDP{File: an IR file object}: `p` the path, `ord` the ordinal of that IR object among the IR
    objects of `p` that ever got an FDP task (FDP is keyed by IR file identity) -/
def qP (p ord : Nat) : Key := 8 * (p + 4096 * ord) + 7

structure Content where
  path : Nat
  imports : List Nat

def isOk : Res → Bool
  | .ok _ => true
  | _ => false

def firstFailure : List Res → Option Res
  | [] => none
  | .ok _ :: rs => firstFailure rs
  | r :: _ => some r

/-- the loop over the import declarations in `IR.Execute`: `Resolve(File{import})` one at a time,
    building the query list for the final `Resolve` -/
def importLoop : List Nat → List Key → (List Key → Script) → Script
  | [], acc, k => k acc
  | q :: rest, acc, k =>
    .resolve [qk 0 q] (fun rs =>
      if (rs.headD (.fatal 2)) |> isOk then importLoop rest (acc ++ [qk 3 q]) k
      else importLoop rest (acc ++ [qZ]) k)

def qBody (selfEdge : Bool) (table : Nat → Content) (wss : Nat → List Nat) (env : Nat → Option Nat) :
    Key → Script := fun k =>
  let p := k / 8
  match k % 8 with
  | 0 => if p = 0 then .ret (.ok (-1))
         else match env p with
           | some id => .ret (.ok id)
           | none => .ret (.fatal 1)            -- fs.ErrNotExist
  | 1 => .resolve [qk 0 p] (fun rs => .ret (rs.headD (.fatal 2)))
  | 2 => .resolve [qk 1 p] (fun rs => .ret (rs.headD (.fatal 2)))
  | 3 =>
    .resolve [qk 2 p] (fun rs =>
      match rs.headD (.fatal 2) with
      | .ok id =>
        .resolve [qk 0 0] (fun rs2 =>
          if !(isOk (rs2.headD (.fatal 2))) then .ret (rs2.headD (.fatal 2))
          else if p = 0 then
            (if selfEdge then .resolve [qk 3 0] (fun _ => .ret (.ok id)) else .ret (.ok id))
          else if id < 0 ∨ (table id.toNat).path ≠ p then .ret (.fatal 3)
          else importLoop (table id.toNat).imports [] (fun qs => .resolve (qs ++ [qk 3 0]) (fun _ => .ret (.ok id))))
      | f => .ret f)
  | 4 => .resolve ((wss p).map (qk 3)) (fun rs =>
      match firstFailure rs with
      | some f => .ret f                        -- results.Slice() returns the first fatal
      | none => .ret (.ok 0))
  | _ => .ret (.ok 0)

/-- `queries.FDS` and `queries.FDP` on top of `qBody`: FDS{w} resolves Link{w} and then, in one
    `Resolve`, the FDP query of every IR file in the import closure of the workspace (`plan w`,
    which depends on the identity of the current IR file objects and is therefore supplied by
    the caller); FDP resolves nothing.  Not part of C35's theorem (FDP keys are object
    identities, not functions of the inputs); used by the engine model only. -/
def qBodyFds (plan : Nat → List Key) (base : Key → Script) : Key → Script := fun k =>
  match k % 8 with
  | 6 => .resolve [qL (k / 8)] (fun rs =>
      if isOk (rs.headD (.fatal 2)) then
        (match plan (k / 8) with
         | [] => .ret (.ok 0)
         | ps => .resolve ps (fun _ => .ret (.ok 0)))
      else .ret (rs.headD (.fatal 2)))
  | 7 => .ret (.ok 0)
  | _ => base k

end PCV.IncrQueries
