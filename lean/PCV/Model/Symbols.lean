/-
Model of `linker.Symbols` (linker/symbols.go), sequential semantics.
The package trie is kept flat: a node per registered package name ("" = root); in the Go
code `children[p]` exists iff package `p` was registered by `importPackage`, which is exactly
"node `p` exists" here.  Names are lists of components ("a.b.M" = ["a","b","M"]; the root
package / no package is []), so that everything reduces in the kernel.
-/
namespace PCV.Symbols

abbrev Name := List String

structure Entry where
  /-- file path of the span stored for the symbol -/
  path : String
  isEnumValue : Bool := false
  isPackage : Bool := false
deriving Repr, DecidableEq, BEq

structure Node where
  symbols : List (Name × Entry) := []
  exts : List ((Name × Nat) × String) := []
  files : List Nat := []
deriving Repr, DecidableEq, BEq

abbrev Table := List (Name × Node)

inductive SymKind | msg | field | enum | enumValue | ext (extendee : Name) (tag : Nat) | other
deriving Repr, DecidableEq, BEq

structure FileDef where
  id : Nat
  path : String
  pkg : Name              -- [] for no package
  deps : List Nat
  hasSource : Bool
  /-- descriptors in `walk.Descriptors` order -/
  syms : List (Name × SymKind)
deriving Repr, DecidableEq, BEq

def lookupAssoc {α} (k : Name) : List (Name × α) → Option α
  | [] => none
  | (k', v) :: r => if k' == k then some v else lookupAssoc k r

def setAssoc {α} (k : Name) (v : α) : List (Name × α) → List (Name × α)
  | [] => [(k, v)]
  | (k', v') :: r => if k' == k then (k, v) :: r else (k', v') :: setAssoc k v r

def getNode (t : Table) (p : Name) : Node := (lookupAssoc p t).getD {}
def hasNode (t : Table) (p : Name) : Bool := p == [] || (lookupAssoc p t).isSome

/-- non-empty prefixes of a name, shortest first: a.b.c ↦ [a, a.b, a.b.c] (`nameEnumerator`). -/
def prefixesAux (acc : Name) : Name → List Name
  | [] => []
  | c :: cs => (acc ++ [c]) :: prefixesAux (acc ++ [c]) cs

def prefixes (name : Name) : List Name := prefixesAux [] name

/-- the reporter attached to the handler used for an import: strict returns the error
    (abort at first), lenient returns nil (continue). -/
inductive Mode | strict | lenient
deriving Repr, DecidableEq, BEq

/-- what gets reported -/
inductive Rep
  | sym (name : Name)
  | ext (extendee : Name) (tag : Nat)
  | missingPkg (pkg : Name)
  | badExtendee (extendee pkg : Name)
deriving Repr, DecidableEq, BEq

/-- handler state for one Import call: reported errors and whether we aborted -/
structure H where
  mode : Mode
  reported : List Rep := []
deriving Repr, DecidableEq

def H.failed (h : H) : Bool := !h.reported.isEmpty

/-- `handler.HandleErrorf`: returns `true` when the call returns a non-nil error (abort). -/
def H.report (h : H) (r : Rep) : H × Bool :=
  match h.mode with
  | .strict => if h.reported.isEmpty then ({ h with reported := [r] }, true) else (h, true)
  | .lenient => ({ h with reported := h.reported ++ [r] }, false)

/-- `importPackages`: walk/register every prefix of `pkg`. Returns the table, handler and
    `some node` for the file's package node (none ⇒ error/abort). -/
def importPackages (t : Table) (h : H) (path : String) (pkg : Name) : Table × H × Option Name × Bool :=
  let rec go (t : Table) (h : H) (cur : Name) : List Name → Table × H × Option Name × Bool
    | [] => (t, h, some cur, false)
    | p :: ps =>
      let n := getNode t cur
      match lookupAssoc p n.symbols with
      | some e =>
        if e.isPackage then go t h p ps
        else
          -- reportSymbolCollision; whether or not the reporter aborts, importPackage returns
          -- (nil, err) and importPackages propagates err (nil err ⇒ `cur == nil` ⇒ return nil,nil)
          let (h', ab) := h.report (.sym p)
          (t, h', none, ab)
      | none =>
        let n' := { n with symbols := n.symbols ++ [(p, { path := path, isPackage := true })] }
        let t' := setAssoc cur n' t
        let t'' := if (lookupAssoc p t').isSome then t' else t' ++ [(p, {})]
        go t'' h p ps
  go t h [] (prefixes pkg)

/-- `getPackage(pkg, exact)` -/
def getPackage (t : Table) (name : Name) (exact : Bool) : Option Name :=
  let rec go (cur : Name) : List Name → Option Name
    | [] => some cur
    | p :: ps => if (lookupAssoc p t).isSome then go p ps else (if exact then none else some cur)
  go [] (prefixes name)

def isEnumVal : SymKind → Bool
  | .enumValue => true
  | _ => false

/-- `checkFileLocked` / `checkResultLocked`: report every symbol already present (and, for
    results with source, duplicates inside the file). Returns handler and "aborted". -/
def checkFile (n : Node) (f : FileDef) (h : H) : H × Bool :=
  let rec go (h : H) (seen : List Name) : List (Name × SymKind) → H × Bool
    | [] => (h, false)
    | (name, _) :: rest =>
      let (h1, ab1) :=
        if (lookupAssoc name n.symbols).isSome then h.report (.sym name) else (h, false)
      if ab1 then (h1, true) else
      let (h2, ab2) :=
        if f.hasSource && seen.contains name then h1.report (.sym name) else (h1, false)
      if ab2 then (h2, true) else go h2 (name :: seen) rest
  go h [] f.syms

/-- `commitFileLocked` -/
def commitFile (n : Node) (f : FileDef) : Node :=
  { n with
    symbols := f.syms.foldl (fun acc (name, k) =>
      setAssoc name { path := f.path, isEnumValue := isEnumVal k } acc) n.symbols,
    files := n.files ++ [f.id] }

def pkgOf (defs : List FileDef) (f : FileDef) (extendee : Name) : Option Name :=
  -- `packageFor(extendee)`: package of the file defining the extendee message — the file itself
  -- or one of its direct dependencies (that is where the linker resolved it)
  let visible := f :: defs.filter (fun d => f.deps.contains d.id)
  (visible.find? (fun d => d.syms.any (fun (n, k) => n == extendee && k == .msg))).map (·.pkg)

/-- `AddExtension` -/
def addExtension (t : Table) (h : H) (pkg extendee : Name) (tag : Nat) (path : String) :
    Table × H × Bool :=
  if pkg != [] && !(pkg.isPrefixOf extendee && pkg.length < extendee.length) then
    let (h', ab) := h.report (.badExtendee extendee pkg); (t, h', ab)
  else match getPackage t pkg true with
    | none => let (h', ab) := h.report (.missingPkg pkg); (t, h', ab)
    | some p =>
      let n := getNode t p
      if (n.exts.find? (fun e => e.1 == (extendee, tag))).isSome then
        let (h', ab) := h.report (.ext extendee tag); (t, h', ab)
      else
        (setAssoc p { n with exts := n.exts ++ [((extendee, tag), path)] } t, h, false)

/-- the extension walk after a successful commit: stops at the first call that returns an error -/
def addExtensions (defs : List FileDef) (f : FileDef) : Table → H → List (Name × SymKind) → Table × H × Bool
  | t, h, [] => (t, h, false)
  | t, h, (_, .ext extendee tag) :: rest =>
    let pkg := (pkgOf defs f extendee).getD []
    let (t', h', ab) := addExtension t h pkg extendee tag f.path
    if ab then (t', h', true) else addExtensions defs f t' h' rest
  | t, h, _ :: rest => addExtensions defs f t h rest

inductive Res | ok | err
deriving Repr, DecidableEq, BEq

/-- the dependency loop of `Import`: import each dependency with `imp`, stop at the first error -/
def importDeps (defs : List FileDef) (imp : Table → H → FileDef → Table × H × Res) :
    Table → H → List Nat → Table × H × Res
  | t, h, [] => (t, h, .ok)
  | t, h, d :: ds =>
    match defs.find? (·.id == d) with
    | none => (t, h, .err)
    | some df =>
      match imp t h df with
      | (t', h', .ok) => importDeps defs imp t' h' ds
      | r => r

/-- `Symbols.Import` for file `f` (fuel bounds the dependency recursion). -/
def importFile (defs : List FileDef) : Nat → Table → H → FileDef → Table × H × Res
  | 0, t, h, _ => (t, h, .err)
  | fuel+1, t, h, f =>
    let (t1, h1, pk, ab0) := importPackages t h f.path f.pkg
    match pk with
    | none => (t1, h1, if ab0 then .err else .ok)
    | some p =>
      if (getNode t1 p).files.contains f.id then (t1, h1, .ok) else
      -- dependencies first
      match importDeps defs (importFile defs fuel) t1 h1 f.deps with
      | (t2, h2, .err) => (t2, h2, .err)
      | (t2, h2, .ok) =>
        let n := getNode t2 p
        let (h3, ab) := checkFile n f h2
        if ab || h3.failed then (t2, h3, .err) else
        let t3 := setAssoc p (commitFile n f) t2
        let (t4, h4, ab4) := addExtensions defs f t3 h3 f.syms
        (t4, h4, if ab4 then .err else .ok)

/-- `Lookup(name)`: path of the stored span -/
def lookup (t : Table) (name : Name) : Option String :=
  match getPackage t name false with
  | none => none
  | some p => (lookupAssoc name (getNode t p).symbols).map (·.path)

/-- `LookupExtension(msg, tag)` -/
def lookupExt (t : Table) (msg : Name) (tag : Nat) : Option String :=
  match getPackage t msg false with
  | none => none
  | some p => ((getNode t p).exts.find? (fun e => e.1 == (msg, tag))).map (·.2)

end PCV.Symbols
