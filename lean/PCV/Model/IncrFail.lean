/-
E-INCR, failing paths on ONE goroutine: model of `task.start/run/waitUntilDone/checkCycle` and of
the deferred recover in `task.run` (experimental/incremental/task.go) for executions in which
every `Resolve` call has exactly one query and `Run` has one root — then the whole run happens
synchronously on the goroutine that called `Run`, for every parallelism, and is deterministic.

Scripts are *well-behaved* queries: when `Resolve` returns a non-nil error (the context of the
run was cancelled because a query panicked) the query returns that error as its fatal error, as
the documentation of `Resolve` demands and as every query in `queries/` does.

Also models the one two-goroutine scenario used by C34 (`runW`): a second `Run` parks in
`waitUntilDone` on a task whose leader (first `Run`) is still inside `Execute`.
Core Lean only.
-/
import PCV.Model.Incr
namespace PCV.IncrFail
open PCV.Incr

structure FSt where
  s : St := {}
  /-- cause of the cancellation of the current `Run`'s context: the first query that panicked -/
  cancelled : Option Key := none

/-! ### `task.checkCycle` -/

/-- `node.deps.Range`: enqueue every dep that has no parent yet -/
def bfsVisit (node : Key) : List Key → List Key × List (Key × Key) → List Key × List (Key × Key)
  | [], acc => acc
  | dep :: ds, (q, parent) =>
    if (parent.lookup dep).isSome then bfsVisit node ds (q, parent)
    else bfsVisit node ds (q ++ [dep], parent ++ [(dep, node)])

/-- the BFS loop: `some (found, parent)`; `none` = out of fuel -/
def bfsLoop (m : TaskMap) (c : Key) : Nat → List Key → List (Key × Key) → Option (Bool × List (Key × Key))
  | 0, _, _ => none
  | _ + 1, [], parent => some (false, parent)
  | fuel + 1, node :: q, parent =>
    if node = c then some (true, parent)
    else
      let (q', parent') := bfsVisit node (depsOf m node) (q, parent)
      bfsLoop m c fuel q' parent'

/-- `for current := parent[caller]; current != nil && current != t; current = parent[current]` -/
def walkBack (parent : List (Key × Key)) (t : Key) : Nat → Option Key → List Key → List Key
  | 0, _, acc => acc
  | _ + 1, none, acc => acc
  | fuel + 1, some cur, acc =>
    if cur = t then acc else walkBack parent t fuel (parent.lookup cur) (acc ++ [cur])

inductive CycleCheck where
  | fuel
  | noCycle
  | cycle (path : List Key)
deriving DecidableEq, Repr

/-- `t.checkCycle(caller, q)` for the awaited task `t`; `caller = none` is the root task of
    `Run` (its `task` pointer is nil and never equals a node). -/
def checkCycle (m : TaskMap) (fuel : Nat) (caller : Option Key) (t : Key) : CycleCheck :=
  match caller with
  | none => .noCycle
  | some c =>
    match bfsLoop m c fuel [t] [] with
    | none => .fuel
    | some (false, _) => .noCycle
    | some (true, parent) =>
      let back := walkBack parent t (parent.length + 1) (parent.lookup c) [c]
      .cycle ((back ++ [t]).reverse ++ [t])

/-! ### start / run with panics -/

inductive Out (α : Type) where
  /-- model out of fuel -/
  | fuel
  /-- a goroutine would wait for ever on a pending task (no cycle found, nobody to wake it) -/
  | block
  | ok (st : FSt) (a : α)

/-- what the `done` callback of `Resolve` sees: `none` is a nil `*result` -/
abbrev Seen := Option Result

def seenRes : Seen → Res
  | some r => r.val
  | none => .ok 0          -- zero Value, nil Fatal

def seenChanged (gen : Nat) : Seen → Bool
  | some r => r.runID == gen
  | none => false

inductive Ended where
  | returned (r : Res)
  | panicked

/-- `Resolve(caller, q)` with one query, then the rest of the body -/
def runScriptF (ex : FSt → Key → Out Seen) (gen : Nat) (self : Key) : FSt → Script → Out Ended
  | st, .ret r => .ok st (.returned r)
  | st, .panic => .ok st .panicked
  | st, .resolve ks cont =>
    let st1 : FSt := { st with s := { st.s with tasks := recordEdges st.s.tasks (some self) ks } }
    -- one goroutine: start the queries one after the other
    let rec many : FSt → List Key → Out (List Seen)
      | st, [] => .ok st []
      | st, k :: ks =>
        match ex st k with
        | .fuel => .fuel
        | .block => .block
        | .ok st1 r =>
          let st1' : FSt := { st1 with s := { st1.s with obs := st1.s.obs ++ [(gen, k, seenChanged gen r)] } }
          match many st1' ks with
          | .fuel => .fuel
          | .block => .block
          | .ok st2 rs => .ok st2 (r :: rs)
    match many st1 ks with
    | .fuel => .fuel
    | .block => .block
    | .ok st2 rs =>
      match st2.cancelled with
      | some p => .ok st2 (.returned (.pan p))       -- `return nil, err` with err = context.Cause
      | none => runScriptF ex gen self st2 (cont (rs.map seenRes))

/-- `task.start(caller, q, sync = true)`.
    `foreign = some (k, g)`: task `k`, if it has to be executed, is executed by ANOTHER Run
    (generation `g`) whose goroutine is already inside `Execute` of `k` (scenario `runW`); a panic
    there cancels that other Run's context and leaves the present caller parked for ever. -/
def startF (fx : Bool) (body : Key → Script) (bfsFuel : Nat) (foreign : Option (Key × Nat)) (gen : Nat) :
    Nat → FSt → Option Key → Key → Out Seen
  | 0, _, _, _ => .fuel
  | fuel + 1, st, caller, k =>
    match resultOf st.s.tasks k with
    | .done r => .ok st (some r)                         -- cache hit
    | .pending =>
      -- waitUntilDone
      match checkCycle st.s.tasks bfsFuel caller k with
      | .fuel => .fuel
      | .cycle path => .ok st (some { val := .cyc path, runID := 0 })   -- output.Fatal = err; return output
      | .noCycle => .block
    | .none =>
      let g := match foreign with
        | some (fk, fg) => if fk = k then fg else gen
        | none => gen
      let st0 : FSt := { s := { st.s with tasks := setResult st.s.tasks k .pending },
                         cancelled := if g = gen then st.cancelled else none }
      match runScriptF (fun st' k' => startF fx body bfsFuel foreign g fuel st' (some k) k') g k st0 (body k) with
      | .fuel => .fuel
      | .block => .block
      | .ok st1 .panicked =>
        -- deferred recover: CompareAndSwap(output, nil); cancel(ErrPanic); `done` is NOT closed
        let tasks := setResult st1.s.tasks k .none
        if g = gen then
          .ok { st1 with s := { st1.s with tasks := tasks, log := st1.s.log ++ [k] },
                         cancelled := match st1.cancelled with | some p => some p | none => some k } none
        else if fx then
          -- candidate fix: `done` is closed; the waiter of the other Run computes the query itself
          startF fx body bfsFuel none gen fuel
            { s := { st1.s with tasks := tasks, log := st1.s.log ++ [k] }, cancelled := st.cancelled } caller k
        else .block      -- the leader belongs to the other Run: nobody wakes this waiter
      | .ok st1 (.returned v) =>
        if fx && st1.cancelled.isSome then
          -- candidate fix: a result computed in a cancelled Run is not memoized
          let tasks := setResult st1.s.tasks k .none
          if g = gen then
            .ok { st1 with s := { st1.s with tasks := tasks, log := st1.s.log ++ [k] } } none
          else
            startF fx body bfsFuel none gen fuel
              { s := { st1.s with tasks := tasks, log := st1.s.log ++ [k] }, cancelled := st.cancelled } caller k
        else
        let r : Result := { val := v, runID := g }
        .ok { s := { st1.s with tasks := setResult st1.s.tasks k (.done r), log := st1.s.log ++ [k] },
              cancelled := if g = gen then st1.cancelled else st.cancelled } (some r)

inductive RunOut where
  /-- `Run` returned `(nil, nil, *ErrPanic{k})` -/
  | failed (k : Key)
  | results (rs : List (Res × Bool))
deriving Repr

/-- `incremental.Run` with the given roots started one after the other on the calling goroutine
    (exact for one root). -/
def runF (fx : Bool) (body : Key → Script) (fuel bfsFuel : Nat) (foreign : Option (Key × Nat)) (st : FSt)
    (roots : List Key) : Out RunOut :=
  let gen := st.s.counter + 1
  let st0 : FSt := { s := { st.s with counter := gen, tasks := recordEdges st.s.tasks none roots }, cancelled := none }
  let rec many : FSt → List Key → Out (List Seen)
    | st, [] => .ok st []
    | st, k :: ks =>
      match startF fx body bfsFuel foreign gen fuel st none k with
      | .fuel => .fuel
      | .block => .block
      | .ok st1 r =>
        let st1' : FSt := { st1 with s := { st1.s with obs := st1.s.obs ++ [(gen, k, seenChanged gen r)] } }
        match many st1' ks with
        | .fuel => .fuel
        | .block => .block
        | .ok st2 rs => .ok st2 (r :: rs)
  match many st0 roots with
  | .fuel => .fuel
  | .block => .block
  | .ok st1 rs =>
    match st1.cancelled with
    | some p => .ok st1 (.failed p)
    | none => .ok st1 (.results (rs.map (fun r => (seenRes r, seenChanged gen r))))

/-- `Run(k, others…)` at parallelism 1 in the schedule where the goroutines of `others` have all
    become leaders (CAS done) and are parked in `Task.acquire` when `Execute(k)` — the synchronous
    first query, which holds the only permit — panics: their `acquire` fails because the context
    is cancelled and `task.run` returns nil WITHOUT withdrawing the pending result.
    `none` if the scenario does not apply (k must panic before resolving anything). -/
def runP (fx : Bool) (body : Key → Script) (fuel bfsFuel : Nat) (st : FSt) (k : Key) (others : List Key) :
    Option (Out RunOut) :=
  match body k with
  | .panic =>
    let gen := st.s.counter + 1
    let tasks0 := recordEdges st.s.tasks none (k :: others)
    if others.all (fun o => resultOf tasks0 o == .none && o != k) && resultOf tasks0 k == .none then
      -- leaders parked in acquire: results pending
      let tasks1 := others.foldl (fun m o => setResult m o .pending) tasks0
      let st1 : FSt := { s := { st.s with counter := gen, tasks := tasks1 }, cancelled := none }
      match startF fx body bfsFuel none gen fuel st1 none k with
      | .fuel => some .fuel
      | .block => some .block
      | .ok st2 _ =>
        -- candidate fix: every leader that gives up withdraws its result
        let tasks2 := if fx then others.foldl (fun m o => setResult m o .none) st2.s.tasks else st2.s.tasks
        some (.ok { st2 with s := { st2.s with tasks := tasks2 } } (.failed k))
    else none
  | _ => none

end PCV.IncrFail
