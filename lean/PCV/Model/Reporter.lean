/-
Model of `reporter.Handler` (reporter/reporter.go): a root handler with child handlers.
Errors are identified by natural numbers. The configured reporter is a *parameter*:
`rep k e` is what the reporter returns on its `k`-th invocation when given error `e`
(`none` = nil = "continue"). Every call is atomic: the root mutex serialises them
(lock-site table, see PCV.Gen.LockSites / Props.C08).
-/
namespace PCV.Reporter

abbrev Err := Nat
/-- the sentinel `ErrInvalidSource` -/
def errInvalidSource : Err := 0

structure HState where
  errsReported : Bool := false
  err : Option Err := none
deriving Repr, DecidableEq

structure State where
  root : HState := {}
  /-- child handlers by index -/
  children : List HState := []
  /-- errors passed to the reporter so far (its invocation log), oldest first -/
  reported : List Err := []
  /-- warnings passed to the reporter so far -/
  warned : List Err := []
deriving Repr, DecidableEq

inductive Op where
  | newChild
  /-- `HandleError` on handler `h` (0 = root, i+1 = child i); `withPos` = is an ErrorWithPos -/
  | handleError (h : Nat) (withPos : Bool) (e : Err)
  | handleWarning (h : Nat) (e : Err)
  | error (h : Nat)
  | reporterError (h : Nat)
deriving Repr, DecidableEq

/-- what an op returns: an optional error (nil = none) -/
abbrev Out := Option Err

/-- root `HandleError` -/
def rootHandle (rep : Nat → Err → Option Err) (s : State) (withPos : Bool) (e : Err) : State × Out :=
  match s.root.err with
  | some l => (s, some l)
  | none =>
    if withPos then
      let r := rep s.reported.length e
      ({ s with root := { errsReported := true, err := r }, reported := s.reported ++ [e] }, r)
    else
      ({ s with root := { s.root with err := some e } }, some e)

def hError (h : HState) : Out :=
  if h.errsReported && h.err.isNone then some errInvalidSource else h.err

def step (rep : Nat → Err → Option Err) (s : State) : Op → State × Out
  | .newChild => ({ s with children := s.children ++ [{}] }, none)
  | .handleError 0 wp e => rootHandle rep s wp e
  | .handleError (i+1) wp e =>
    if i < s.children.length then
      let (s', r) := rootHandle rep s wp e
      let c := s'.children.getD i {}
      let c' : HState := { errsReported := c.errsReported || wp, err := r }
      ({ s' with children := s'.children.set i c' }, r)
    else (s, none)
  | .handleWarning _ e => ({ s with warned := s.warned ++ [e] }, none)
  | .error 0 => (s, hError s.root)
  | .error (i+1) => (s, hError (s.children.getD i {}))
  | .reporterError 0 => (s, s.root.err)
  | .reporterError (i+1) => (s, (s.children.getD i {}).err)

def run (rep : Nat → Err → Option Err) (s : State) : List Op → State
  | [] => s
  | op :: ops => run rep (step rep s op).1 ops

def init : State := {}

end PCV.Reporter
