/-
Model of the experimental lexer main loop: /repo/experimental/internal/lexer/{lexer,loop,string,number}.go
as configured by /repo/experimental/parser/parse.go (`lex`).

The model works on the bytes of the file and on byte offsets exactly like the Go code
(`cursor`, `rest() = text[cursor:]`, `peek`, `pop`, `takeWhile`, `seekInclusive`, ...). Unicode
class membership of a rune (`unicode.In(r, Pattern_White_Space)`, `unicode.IsDigit`, `IsLetter`,
`unicodex.IsXIDStart/IsXIDContinue`, `unicode.IsPrint`) is a parameter `cls : Nat → Nat`
(bit mask); `asciiCls` is the built-in table for runes < 0x80 and the harness supplies the masks
of the other runes of an input from Go's own tables. All theorems quantify over every `cls`.

Not modelled (no influence on token boundaries, fusing or the tracked diagnostics): the value
parsing after a number/string token has been pushed (`lexNumber` after `lexRawNumber`,
string escape values and `tokenmeta`), and all diagnostics other than the classes listed in
`TokenStream.Diag`.

Mirrors /repo at commit cb845bb5 (fixes d839c04c: lone backslash at EOF no longer panics;
cb845bb5: unrecognised bytes are flushed after the main loop).
-/
import PCV.Model.Utf8
import PCV.Model.TokenStream
namespace PCV.XLexer
open PCV.TokenStream

/-! ### character classes -/

def cWhite : Nat := 1     -- unicode.In(r, unicode.Pattern_White_Space)
def cDigit : Nat := 2     -- unicode.IsDigit
def cLetter : Nat := 4    -- unicode.IsLetter
def cXidS : Nat := 8      -- unicodex.IsXIDStart
def cXidC : Nat := 16     -- unicodex.IsXIDContinue
def cPrint : Nat := 32    -- unicode.IsPrint

def asciiCls (r : Nat) : Nat :=
  let white := if (9 ≤ r ∧ r ≤ 13) ∨ r = 32 then cWhite else 0
  let digit := if 48 ≤ r ∧ r ≤ 57 then cDigit else 0
  let isL := (65 ≤ r ∧ r ≤ 90) ∨ (97 ≤ r ∧ r ≤ 122)
  let letter := if isL then cLetter else 0
  let xs := if isL ∨ r = 95 then cXidS else 0
  let xc := if isL ∨ r = 95 ∨ (48 ≤ r ∧ r ≤ 57) then cXidC else 0
  let pr := if 32 ≤ r ∧ r ≤ 126 then cPrint else 0
  white + digit + letter + xs + xc + pr

structure Env where
  text : Bytes
  cls : Nat → Nat

def Env.n (E : Env) : Nat := E.text.length
def Env.has (E : Env) (bit r : Nat) : Bool := (E.cls r / bit) % 2 == 1

/-! ### keyword table (`keyword.All()` minus the fused bracket keywords, with `lex.OnKeyword`) -/

/-- id, text, action (0 discard, 1 hard, 2 soft, 3 bracket, 4 line comment, 5 block comment),
    IsReservedWord -/
structure KwEntry where
  id : Nat
  text : Bytes
  act : Nat
  word : Bool
deriving Repr, DecidableEq

def kwTable : List KwEntry := [
  ⟨1, [115, 121, 110, 116, 97, 120], 2, true⟩,
  ⟨2, [101, 100, 105, 116, 105, 111, 110], 2, true⟩,
  ⟨3, [105, 109, 112, 111, 114, 116], 2, true⟩,
  ⟨4, [119, 101, 97, 107], 2, true⟩,
  ⟨5, [112, 117, 98, 108, 105, 99], 2, true⟩,
  ⟨6, [112, 97, 99, 107, 97, 103, 101], 2, true⟩,
  ⟨7, [109, 101, 115, 115, 97, 103, 101], 2, true⟩,
  ⟨8, [101, 110, 117, 109], 2, true⟩,
  ⟨9, [115, 101, 114, 118, 105, 99, 101], 2, true⟩,
  ⟨10, [101, 120, 116, 101, 110, 100], 2, true⟩,
  ⟨11, [111, 112, 116, 105, 111, 110], 2, true⟩,
  ⟨12, [103, 114, 111, 117, 112], 2, true⟩,
  ⟨13, [111, 110, 101, 111, 102], 2, true⟩,
  ⟨14, [101, 120, 116, 101, 110, 115, 105, 111, 110, 115], 2, true⟩,
  ⟨15, [114, 101, 115, 101, 114, 118, 101, 100], 2, true⟩,
  ⟨16, [114, 112, 99], 2, true⟩,
  ⟨17, [114, 101, 116, 117, 114, 110, 115], 2, true⟩,
  ⟨18, [116, 111], 2, true⟩,
  ⟨19, [111, 112, 116, 105, 111, 110, 97, 108], 2, true⟩,
  ⟨20, [114, 101, 112, 101, 97, 116, 101, 100], 2, true⟩,
  ⟨21, [114, 101, 113, 117, 105, 114, 101, 100], 2, true⟩,
  ⟨22, [115, 116, 114, 101, 97, 109], 2, true⟩,
  ⟨23, [101, 120, 112, 111, 114, 116], 2, true⟩,
  ⟨24, [108, 111, 99, 97, 108], 2, true⟩,
  ⟨25, [105, 110, 116, 51, 50], 2, true⟩,
  ⟨26, [105, 110, 116, 54, 52], 2, true⟩,
  ⟨27, [117, 105, 110, 116, 51, 50], 2, true⟩,
  ⟨28, [117, 105, 110, 116, 54, 52], 2, true⟩,
  ⟨29, [115, 105, 110, 116, 51, 50], 2, true⟩,
  ⟨30, [115, 105, 110, 116, 54, 52], 2, true⟩,
  ⟨31, [102, 105, 120, 101, 100, 51, 50], 2, true⟩,
  ⟨32, [102, 105, 120, 101, 100, 54, 52], 2, true⟩,
  ⟨33, [115, 102, 105, 120, 101, 100, 51, 50], 2, true⟩,
  ⟨34, [115, 102, 105, 120, 101, 100, 54, 52], 2, true⟩,
  ⟨35, [102, 108, 111, 97, 116], 2, true⟩,
  ⟨36, [100, 111, 117, 98, 108, 101], 2, true⟩,
  ⟨37, [98, 111, 111, 108], 2, true⟩,
  ⟨38, [115, 116, 114, 105, 110, 103], 2, true⟩,
  ⟨39, [98, 121, 116, 101, 115], 2, true⟩,
  ⟨40, [105, 110, 102], 2, true⟩,
  ⟨41, [110, 97, 110], 2, true⟩,
  ⟨42, [116, 114, 117, 101], 2, true⟩,
  ⟨43, [102, 97, 108, 115, 101], 2, true⟩,
  ⟨44, [110, 117, 108, 108], 2, true⟩,
  ⟨45, [109, 97, 112], 2, true⟩,
  ⟨46, [109, 97, 120], 2, true⟩,
  ⟨47, [114, 101, 116, 117, 114, 110], 0, true⟩,
  ⟨48, [98, 114, 101, 97, 107], 0, true⟩,
  ⟨49, [99, 111, 110, 116, 105, 110, 117, 101], 0, true⟩,
  ⟨50, [121, 105, 101, 108, 100], 0, true⟩,
  ⟨51, [100, 101, 102, 101, 114], 0, true⟩,
  ⟨52, [116, 114, 121], 0, true⟩,
  ⟨53, [99, 97, 116, 99, 104], 0, true⟩,
  ⟨54, [105, 102], 0, true⟩,
  ⟨55, [117, 110, 108, 101, 115, 115], 0, true⟩,
  ⟨56, [101, 108, 115, 101], 0, true⟩,
  ⟨57, [108, 111, 111, 112], 0, true⟩,
  ⟨58, [119, 104, 105, 108, 101], 0, true⟩,
  ⟨59, [100, 111], 0, true⟩,
  ⟨60, [102, 111, 114], 0, true⟩,
  ⟨61, [105, 110], 2, true⟩,
  ⟨62, [115, 119, 105, 116, 99, 104], 0, true⟩,
  ⟨63, [109, 97, 116, 99, 104], 0, true⟩,
  ⟨64, [99, 97, 115, 101], 0, true⟩,
  ⟨65, [97, 115], 0, true⟩,
  ⟨66, [102, 117, 110, 99], 0, true⟩,
  ⟨67, [99, 111, 110, 115, 116], 0, true⟩,
  ⟨68, [108, 101, 116], 0, true⟩,
  ⟨69, [118, 97, 114], 0, true⟩,
  ⟨70, [116, 121, 112, 101], 0, true⟩,
  ⟨71, [101, 120, 116, 101, 114, 110], 0, true⟩,
  ⟨72, [97, 110, 100], 0, true⟩,
  ⟨73, [111, 114], 0, true⟩,
  ⟨74, [110, 111, 116], 0, true⟩,
  ⟨75, [100, 101, 102, 97, 117, 108, 116], 2, true⟩,
  ⟨76, [106, 115, 111, 110, 95, 110, 97, 109, 101], 2, true⟩,
  ⟨77, [59], 2, false⟩,
  ⟨78, [44], 2, false⟩,
  ⟨79, [46], 2, false⟩,
  ⟨80, [58], 2, false⟩,
  ⟨81, [10], 0, false⟩,
  ⟨82, [64], 2, false⟩,
  ⟨83, [35], 2, false⟩,
  ⟨84, [36], 2, false⟩,
  ⟨85, [126], 2, false⟩,
  ⟨86, [43], 2, false⟩,
  ⟨87, [45], 2, false⟩,
  ⟨88, [42], 2, false⟩,
  ⟨89, [47], 2, false⟩,
  ⟨90, [37], 2, false⟩,
  ⟨91, [38], 0, false⟩,
  ⟨92, [124], 0, false⟩,
  ⟨93, [94], 0, false⟩,
  ⟨94, [60, 60], 0, false⟩,
  ⟨95, [62, 62], 0, false⟩,
  ⟨96, [33], 2, false⟩,
  ⟨97, [33, 33], 0, false⟩,
  ⟨98, [63], 2, false⟩,
  ⟨99, [63, 63], 0, false⟩,
  ⟨100, [38, 38], 2, false⟩,
  ⟨101, [124, 124], 2, false⟩,
  ⟨102, [61], 2, false⟩,
  ⟨103, [58, 61], 0, false⟩,
  ⟨104, [43, 61], 0, false⟩,
  ⟨105, [45, 61], 0, false⟩,
  ⟨106, [42, 61], 0, false⟩,
  ⟨107, [47, 61], 0, false⟩,
  ⟨108, [37, 61], 0, false⟩,
  ⟨109, [38, 61], 0, false⟩,
  ⟨110, [124, 61], 0, false⟩,
  ⟨111, [94, 61], 0, false⟩,
  ⟨112, [60, 60, 61], 0, false⟩,
  ⟨113, [62, 62, 61], 0, false⟩,
  ⟨114, [46, 46], 0, false⟩,
  ⟨115, [46, 46, 61], 0, false⟩,
  ⟨116, [40], 3, false⟩,
  ⟨117, [41], 3, false⟩,
  ⟨118, [91], 3, false⟩,
  ⟨119, [93], 3, false⟩,
  ⟨120, [123], 3, false⟩,
  ⟨121, [125], 3, false⟩,
  ⟨122, [60], 2, false⟩,
  ⟨123, [62], 2, false⟩,
  ⟨124, [60, 61], 0, false⟩,
  ⟨125, [62, 61], 0, false⟩,
  ⟨126, [61, 61], 0, false⟩,
  ⟨127, [33, 61], 0, false⟩,
  ⟨128, [47, 47], 4, false⟩,
  ⟨129, [47, 42], 5, false⟩,
  ⟨130, [42, 47], 5, false⟩
]

/-- longest keyword that is a prefix of `rest` and is not discarded by `OnKeyword`
    (the `for k := range keyword.Prefixes(l.rest())` loop keeps the last, i.e. longest, hit) -/
def kwMatch (rest : Bytes) : Option KwEntry :=
  kwTable.foldl (fun best e =>
    if e.act ≠ 0 ∧ e.text.isPrefixOf rest then
      match best with
      | some b => if b.text.length < e.text.length then some e else best
      | none => some e
    else best) none

/-! ### cursor primitives -/

/-- `utf8.RuneLen` (the Go function returns -1 for invalid runes; those are never decoded) -/
def runeLen (r : Nat) : Nat :=
  if r < 0x80 then 1 else if r < 0x800 then 2
  else if 0xD800 ≤ r ∧ r ≤ 0xDFFF then 0
  else if r < 0x10000 then 3 else if r ≤ 0x10FFFF then 4 else 0

/-- `l.peek()` with the cursor at `c`: `none` is Go's -1 (end of text or invalid UTF-8) -/
def peekAt (E : Env) (c : Nat) : Option Nat :=
  let d := Utf8.decodeRune (E.text.drop c)
  if d.2 = 0 then none
  else if d.1 = Utf8.runeError ∧ d.2 < 2 then none
  else some d.1

/-- class test on `stringsx.Rune(...)`'s result; out of bounds gives rune 0, invalid gives -1:
    neither is in any class -/
def hasO (E : Env) (bit : Nat) : Option Nat → Bool
  | some r => E.has bit r
  | none => false

/-- `l.takeWhile(f)` from cursor `c`: the new cursor -/
def takeWhileAux (E : Env) (p : Nat → Bool) : Nat → Nat → Nat
  | 0, c => c
  | f + 1, c =>
    match peekAt E c with
    | none => c
    | some r => if p r then takeWhileAux E p f (c + runeLen r) else c

def takeWhile (E : Env) (p : Nat → Bool) (c : Nat) : Nat := takeWhileAux E p (E.n - c) c

/-- `strings.Index(rest, needle)` -/
def indexOf (needle : Bytes) : Bytes → Option Nat
  | [] => if needle.isEmpty then some 0 else none
  | b :: bs =>
    if needle.isPrefixOf (b :: bs) then some 0
    else (indexOf needle bs).map (· + 1)

/-! ### whitespace -/

/-- the `strings.Cut(whitespace, "\n")` loop: one Space token per run without newline and one
    per newline (`EmitNewline == nil`) -/
def pushWhite (n : Nat) : LS → Bytes → Nat → LS
  | s, [], run => if run > 0 then push n s run kSpace 0 else s
  | s, b :: bs, run =>
    if b = 10 then
      let s1 := if run > 0 then push n s run kSpace 0 else s
      pushWhite n (push n s1 1 kSpace 0) bs 0
    else pushWhite n s bs (run + 1)

def stepWhite (E : Env) (s : LS) : LS :=
  if hasO E cWhite (peekAt E s.cursor) then
    let c1 := takeWhile E (E.has cWhite) s.cursor
    pushWhite E.n { s with cursor := c1 } ((E.text.drop s.cursor).take (c1 - s.cursor)) 0
  else s

/-! ### strings (`lexString`, `lexStringContent`) -/

def isOct (r : Nat) : Bool := 48 ≤ r && r ≤ 55
def isHex (r : Nat) : Bool := (48 ≤ r && r ≤ 57) || (97 ≤ r && r ≤ 102) || (65 ≤ r && r ≤ 70)

/-- `for i := 0; i < k && !l.done(); i++ { if !p(peek) break; pop }` -/
def takeDigits (E : Env) (p : Nat → Bool) : Nat → Nat → Nat
  | 0, c => c
  | k + 1, c =>
    match peekAt E c with
    | some r => if p r then takeDigits E p k (c + runeLen r) else c
    | none => c

def simpleEscapes : List Nat := [110, 114, 116, 92, 39, 34, 97, 98, 102, 118, 63]

/-- `lexStringContent` from cursor `c`: the new cursor, and whether it panicked (never, since
    commit d839c04c: a `\` that is the last byte of the file only gets an "invalid escape" error;
    the flag is kept so that `strContentPrefix` below documents the old behaviour). -/
def strContent (E : Env) (c : Nat) : Nat × Bool :=
  match peekAt E c with
  | none => (c, false)
  | some r =>
    let c1 := c + runeLen r
    if r ≠ 92 then (c1, false)
    else
      match peekAt E c1 with
      | none => (c1, false)
      | some r2 =>
        let c2 := c1 + runeLen r2
        if simpleEscapes.contains r2 then (c2, false)
        else if isOct r2 then (takeDigits E isOct 2 c2, false)
        else if r2 = 120 ∨ r2 = 88 then (takeDigits E isHex 2 c2, false)
        else if r2 = 117 then (takeDigits E isHex 4 c2, false)
        else if r2 = 85 then (takeDigits E isHex 8 c2, false)
        else (c2, false)

/-- `lexStringContent` before the fix d839c04c: a `\` as the last byte of the file made
    `errtoken.InvalidEscape.Diagnose` evaluate `text[1]` on the one-byte escape text (the
    `if len(text) < 2 {...}` lacked a `return`): a panic, i.e. a lexer ICE. Documentation only. -/
def strContentPrefix (E : Env) (c : Nat) : Nat × Bool :=
  match peekAt E c with
  | none => (c, false)
  | some r =>
    if r ≠ 92 then (c + runeLen r, false)
    else
      match peekAt E (c + runeLen r) with
      | none => (c + runeLen r, true)
      | some _ => strContent E c

/-- the `for !l.done()` loop of `lexString`: (cursor, terminated, panicked) -/
def strLoop (E : Env) (quote : Bytes) : Nat → Nat → Nat × Bool × Bool
  | 0, c => (c, false, false)
  | f + 1, c =>
    if c ≥ E.n then (c, false, false)
    else if quote.isPrefixOf (E.text.drop c) then (c + quote.length, true, false)
    else
      match strContent E c with
      | (c', true) => (c', false, true)
      | (c', false) => strLoop E quote f c'

def iceDiag (c : Nat) : Diag := ⟨"ice", lvICE, [(c, c)]⟩

/-- the quote of a string whose first byte is `q`, the following bytes being `rest1`:
    `"""` / `'''` when the next two bytes repeat the quote, else the single quote -/
def quoteOf (q : UInt8) (rest1 : Bytes) : Bytes :=
  match rest1 with
  | q1 :: q2 :: _ => if q1 = q ∧ q2 = q then [q, q, q] else [q]
  | _ => [q]

/-- `lexString(l, sigil)` with the cursor at the start of the sigil; `true` = panicked -/
def lexString (E : Env) (s : LS) (sigilLen : Nat) : LS × Bool :=
  let start := s.cursor
  let c0 := start + sigilLen
  match E.text.drop c0 with
  | [] => ({ s with cursor := c0 }, true)      -- `l.rest()[:1]` out of range (unreachable)
  | q :: rest1 =>
    let quote : Bytes := quoteOf q rest1
    let c1 := c0 + quote.length
    match strLoop E quote (E.n - c1 + 1) c1 with
    | (c2, _, true) => ({ s with cursor := c2 }, true)
    | (c2, terminated, false) =>
      let s1 := push E.n { s with cursor := c2 } (c2 - start) kString 0
      let s2 := if terminated then s1
        else addDiag s1 ⟨"unterm", lvError, [(lastEnd s1.toks - (c2 - start), lastEnd s1.toks)]⟩
      (s2, false)

/-! ### numbers (`lexRawNumber`) -/

def rawNumber (E : Env) : Nat → Nat → Nat
  | 0, c => c
  | f + 1, c =>
    match peekAt E c with
    | none => c
    | some r =>
      if r = 101 ∨ r = 69 then
        let c1 := c + runeLen r
        match peekAt E c1 with
        | some r2 => if r2 = 43 ∨ r2 = 45 then rawNumber E f (c1 + runeLen r2) else rawNumber E f c1
        | none => rawNumber E f c1
      else if r = 46 ∨ E.has cDigit r ∨ E.has cLetter r ∨ r = 95 then rawNumber E f (c + runeLen r)
      else c

def lexNumber (E : Env) (s : LS) : LS :=
  let c1 := rawNumber E (E.n - s.cursor + 1) s.cursor
  push E.n { s with cursor := c1 } (c1 - s.cursor) kNumber 0

/-! ### identifiers -/

/-- end offset of the last printable rune of `text[c:c1]` (`strings.TrimRightFunc(raw, !IsPrint)`) -/
def trimScan (E : Env) : Nat → Nat → Nat → Nat → Nat
  | 0, _, _, le => le
  | f + 1, c, c1, le =>
    if c ≥ c1 then le
    else
      match peekAt E c with
      | none => le
      | some r =>
        let c' := c + runeLen r
        trimScan E f c' c1 (if E.has cPrint r then c' else le)

/-- `lex.IsAffix(affix, token.String, false)`: "r", "b", "rb" -/
def isStringPrefix (raw : Bytes) : Bool := raw == [114] || raw == [98] || raw == [114, 98]

def lexIdent (E : Env) (s : LS) : LS × Bool :=
  let c0 := s.cursor
  let c1 := takeWhile E (E.has cXidC) c0
  let idEnd := trimScan E (c1 - c0 + 1) c0 c1 c0
  if idEnd = c0 then
    -- nothing printable: one Unrecognized token for the whole run
    let s1 := push E.n { s with cursor := c1 } (c1 - c0) kUnrecognized 0
    (addDiag s1 ⟨"unrec", lvError, [(lastEnd s1.toks - (c1 - c0), lastEnd s1.toks)]⟩, false)
  else
    let raw := (E.text.drop c0).take (c1 - c0)
    let next := peekAt E c1
    -- Go: `next == '"' || next == '\'' && IsAffix(...)`
    if next = some 34 ∨ (next = some 39 ∧ isStringPrefix raw) then
      lexString E { s with cursor := c0 } (c1 - c0)
    else
      (push E.n { s with cursor := idEnd } (idEnd - c0) kIdent 0, false)

/-! ### keywords and comments -/

/-- the `switch what` of the main loop; `some` = the iteration ended with `continue` -/
def stepKw (E : Env) (s : LS) : Option LS :=
  match kwMatch (E.text.drop s.cursor) with
  | none => none
  | some e =>
    let wl := e.text.length
    let c := s.cursor
    if e.act = 1 ∨ e.act = 2 ∨ e.act = 3 then
      if e.id = kwDot ∧ hasO E cDigit (peekAt E (c + wl)) then none          -- `.5`
      else if e.word ∧ hasO E cXidC (peekAt E (c + wl)) then none            -- `message_x`
      else
        let kind := if e.word ∧ e.act = 2 then kIdent else kKeyword
        let s1 := push E.n { s with cursor := c + wl } wl kind e.id
        if e.act = 3 then
          some { s1 with braces :=
            ⟨s1.toks.length, e.id, lastEnd s1.toks - wl, lastEnd s1.toks⟩ :: s1.braces }
        else some s1
    else if e.act = 4 then
      let c1 := c + wl
      match indexOf [10] (E.text.drop c1) with
      | some idx =>
        let s1 := push E.n { s with cursor := c1 + idx + 1 } (wl + idx) kComment e.id
        some (push E.n s1 1 kSpace 0)
      | none =>
        let rest := E.n - c1
        some (push E.n { s with cursor := c1 + rest } (wl + rest) kComment e.id)
    else if e.act = 5 then
      let c1 := c + wl
      if e.id = (brackets e.id).2.1 then
        -- a stray `*/`
        let s1 := push E.n { s with cursor := c1 } wl kUnrecognized 0
        some (addDiag s1 ⟨"unm", lvError, [(lastEnd s1.toks - wl, lastEnd s1.toks)]⟩)
      else
        match indexOf [42, 47] (E.text.drop c1) with
        | some idx =>
          some (push E.n { s with cursor := c1 + idx + 2 } (wl + idx + 2) kComment (fusedOf e.id))
        | none =>
          let rest := E.n - c1
          let s1 := addDiag { s with cursor := c1 } ⟨"unm", lvError, [(c1 - wl, c1)]⟩
          some (push E.n { s1 with cursor := c1 + rest } (wl + rest) kComment (fusedOf e.id))
    else none

/-! ### the main loop -/

/-- the part of an iteration after the keyword switch: `r := l.pop()` and its `switch` -/
def stepPop (E : Env) (s : LS) : LS × Bool :=
  match peekAt E s.cursor with
  | none => ({ s with bad := s.bad - 1 }, false)      -- `utf8.RuneLen(-1) == -1`
  | some r =>
    if r = 34 ∨ r = 39 then lexString E s 0
    else if r = 46 ∨ E.has cDigit r then (lexNumber E s, false)
    else if E.has cXidS r then lexIdent E s
    else ({ s with cursor := s.cursor + runeLen r, bad := s.bad + runeLen r }, false)

/-- one iteration of `for !l.done()`; `true` = the iteration panicked -/
def iter (E : Env) (s : LS) : LS × Bool :=
  let s1 := stepWhite E s
  match stepKw E s1 with
  | some s2 => (s2, false)
  | none => stepPop E s1

inductive Status where
  | done          -- loop ran to completion
  | abort         -- lexPrelude returned false
  | icePanic      -- a panic inside an iteration (string escape at EOF)
  | iceProgress   -- `mustProgress.check` panicked
  | fuel          -- the model ran out of fuel (never, see Props)
deriving Repr, DecidableEq

def mainLoop (E : Env) : Nat → Int → LS → LS × Status
  | 0, _, s => (s, .fuel)
  | f + 1, prev, s =>
    if s.cursor ≥ E.n then (s, .done)
    else if prev = (s.cursor : Int) then (s, .iceProgress)
    else
      match iter E s with
      | (s', true) => (s', .icePanic)
      | (s', false) => mainLoop E f (s.cursor : Int) s'

/-! ### prelude -/

/-- the `for i, r := range stringsx.Runes(text)` scan: (number of invalid bytes, first index) -/
def utf8Scan : Nat → Bytes → Nat → Nat → Option Nat → Nat × Option Nat
  | 0, _, _, cnt, first => (cnt, first)
  | f + 1, bs, i, cnt, first =>
    let d := Utf8.decodeRune bs
    if d.2 = 0 then (cnt, first)
    else if d.1 = Utf8.runeError ∧ d.2 < 2 then
      utf8Scan f (bs.drop d.2) (i + d.2) (cnt + 1) (if cnt = 0 then some i else first)
    else utf8Scan f (bs.drop d.2) (i + d.2) cnt first

/-- the UTF-16 heuristics of `lexPrelude`: a UTF-16 BOM, or a NUL among the first two bytes -/
def looksUtf16 (t : Bytes) : Bool :=
  let bom16 := [0xfe, 0xff].isPrefixOf t || [0xff, 0xfe].isPrefixOf t
  let ascii16 : Bool := match t with
    | a :: b :: _ => a == 0 || b == 0
    | _ => false
  bom16 || ascii16

/-- `lexPrelude`: `false` = return false (after the error diagnostic) -/
def prelude (E : Env) (s : LS) : LS × Bool :=
  let t := E.text
  if t = [] then (s, true)
  else if looksUtf16 t then (addDiag s ⟨"prelude", lvError, []⟩, false)
  else
    match utf8Scan (t.length + 1) t 0 0 none with
    | (0, _) =>
      if peekAt E 0 = some 0xFEFF then
        (push E.n { s with cursor := s.cursor + runeLen 0xFEFF } 3 kUnrecognized 0, true)
      else (s, true)
    | (cnt, first) =>
      let idx := first.getD 0
      if 5 * cnt < t.length then (addDiag s ⟨"prelude", lvError, [(idx, idx + 1)]⟩, false)
      else (addDiag s ⟨"prelude", lvError, []⟩, false)

/-! ### the whole lexer -/

structure LexResult where
  toks : List Tok            -- in order, after all fuses
  diags : List Diag          -- in order
  status : Status
  final : LS                 -- state after the main loop (before fuseBraces), for the theorems
deriving Repr

def finish (s : LS) (st : Status) : LexResult :=
  { toks := s.toks.reverse, diags := s.diags.reverse, status := st, final := s }

/-- the whole lexer; `finalFlush` = `l.flushUnrecognized()` is called after the main loop
    (commit cb845bb5). `final` is the state handed to `fuseBraces`. -/
def lexCore (finalFlush : Bool) (E : Env) : LexResult :=
  match prelude E {} with
  | (s0, false) => finish s0 .abort
  | (s0, true) =>
    match mainLoop E (E.n + 1) (-1) s0 with
    | (s1, .done) =>
      let s1f := if finalFlush then flush E.n s1 else s1
      let (s2, bracePairs) := fuseBraces E.n s1f
      let ts := s2.toks.reverse
      let (ts1, p1) := fuseAll ts bracePairs
      let (ts2, p2) := fuseAll ts1 (strRuns ts1 1 none)
      if s2.overflow ∨ p1 ∨ p2 then
        { toks := ts2, diags := (iceDiag s2.cursor :: s2.diags).reverse, status := .icePanic, final := s1f }
      else { toks := ts2, diags := s2.diags.reverse, status := .done, final := s1f }
    | (s1, st) => finish (addDiag s1 (iceDiag s1.cursor)) st

/-- `Lexer.Lex` as it is in /repo -/
def lex (E : Env) : LexResult := lexCore true E

/-- the lexer before cb845bb5: nothing flushed `badBytes` after the main loop. Documentation only. -/
def lexPrefix (E : Env) : LexResult := lexCore false E

end PCV.XLexer
