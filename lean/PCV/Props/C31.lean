/-
C31 — Formatting preserves meaning and is idempotent.

What is proved here is the `experimental/dom` layer only (tags, `shouldMerge`, the two layout
passes, the broken-group decision, the renderer), on the model `PCV.Model.Dom`, which is tied to
the Go code by the `dom` engine (random doms through the public API, plus the doms the real AST
printer builds) and by the `format` engine (the model renders the dom that `PrintFile(Format)`
built for a generated compiling file and must reproduce the formatted text byte for byte).

The property proper — the formatted output compiles to the same descriptors and formatting twice
changes nothing — has NO theorem behind it: the AST→dom conversion (format.go, decl.go, expr.go,
options.go, about 2 500 lines) is not modelled (DESIGN.md section 9).  It is decided per input by
the `format` engine's oracle on the real code (real compiler, both presets), which FAILS on the
unchanged tree (see the engine's verdict classes): a `//` comment placed by the formatter in front
of tokens on the same line swallows them, import sorting reorders `dependency`, and several
comment placements are not idempotent.
-/
import PCV.Lemmas.Dom
import PCV.Lemmas.Printer
namespace PCV.Props.C31
open PCV.Dom PCV.PrinterRT

/-- **render_preserves_text.** For every dom without `Unindent` whose indentation strings are
    whitespace (every dom the AST printer builds), under all options: rendering does not panic, and
    the non-whitespace bytes of the output are exactly the non-whitespace bytes of the text tags the
    renderer visits, in document order — layout only ever adds or removes spaces, tabs of the
    indentation and newlines. -/
theorem render_preserves_text (o : Options) (d : List Tag) (hn : noUnindent d = true)
    (hw : wsIndent d = true) :
    (renderState o d).panic = none ∧ nonWs (render o d) = nonWs (liveText o d) :=
  PCV.Dom.render_preserves_text o d hn hw

/-- **render is exact when the instrumented run raises no flag**: no indentation injected after
    buffered newlines, no conditional tag rendered, no whitespace tags merged, no `Unindent` /
    `GroupIf` — then the output is the concatenation of the `Always` texts (file mode, harmless
    end-of-output rule). -/
theorem render_exact_when_unflagged (o : Options) (d : List Tag) (ho : o.omitTrailingNewline = false)
    (hfl : (diagRender o d).flags.none = true)
    (heof : eofOk (diagRender o d) (renderState o d).out = true) :
    render o d = alwaysText d :=
  render_clean o d ho hfl heof

/-- **render_deterministic** in the only sense available for a pure function: the output is a
    function of the options after defaulting and of the dom — two option records with the same
    defaults render alike. -/
theorem render_depends_on_defaults (o1 o2 : Options) (d : List Tag)
    (h : o1.withDefaults = o2.withDefaults) (h2 : o1.omitTrailingNewline = o2.omitTrailingNewline) :
    render o1 d = render o2 d := by
  simp [render, renderState, h, h2]

/-- **layout: the broken-group decision, as coded** — a group visited by the second pass is
    broken iff the first pass found a hard newline in it, or it would overflow the global width at
    its column, or it is wider than its own limit. -/
theorem group_broken_iff (o : Options) (st : BSt) (c : Cond) (limit : Nat) (w col : Int) (br : Bool)
    (kids : List LTag) (hr : renderIf c .broken = true) :
    (brokenTag o st (.group c limit w col br kids)).2.brokenFlag
      = (br || decide (st.column + w > (o.maxWidth : Int)) || decide (w > (limit : Int))) :=
  group_broken_decision o st c limit w col br kids hr

/-- **layout_monotone, part 1**: a group that fits is not broken and advances the column by its
    flat width without visiting its children. -/
theorem group_fits_stays_flat (o : Options) (st : BSt) (c : Cond) (limit : Nat) (w col : Int)
    (kids : List LTag) (hr : renderIf c .broken = true)
    (h1 : st.column + w ≤ (o.maxWidth : Int)) (h2 : w ≤ (limit : Int)) :
    brokenTag o st (.group c limit w col false kids)
      = ({ st with column := st.column + w }, .group c limit w st.column false kids) :=
  PCV.Dom.group_fits_stays_flat o st c limit w col kids hr h1 h2

/-- **layout_monotone, part 2**: a hard newline in a non-whitespace text that renders in flat mode
    breaks the group that directly contains it, whatever precedes and follows it, and the second
    pass never un-breaks a group. -/
theorem hard_newline_breaks_group (tab : Nat) (prev : Prev) (total : Int) (broken : Bool) (gc : Cond)
    (limit : Nat) (pre post : List Tag) (c : Cond) (s : Bytes)
    (hk : kindOf s = .text) (hnl : s.contains 10 = true) (hr : renderIf c .flat = true) :
    (flatTag tab prev total broken (.group gc limit (pre ++ .text c s :: post))).2.2.2.brokenFlag = true :=
  group_hard_newline_flat tab prev total broken gc limit pre post c s hk hnl hr

theorem broken_group_stays_broken (o : Options) (st : BSt) (c : Cond) (limit : Nat) (w col : Int)
    (kids : List LTag) :
    (brokenTag o st (.group c limit w col true kids)).2.brokenFlag = true :=
  brokenTag_group_keeps_broken o st c limit w col kids

-- non-vacuity: a printer-shaped dom (`x {` indent[ softbreak `y` ] `}`) satisfies the hypotheses
-- of render_preserves_text, and the flat-fitting hypotheses of group_fits_stays_flat are satisfiable
example : noUnindent [.text .always [120], .group .always 100 [.indent [32, 32] [.text .broken [10], .text .always [121]]]] = true
    ∧ wsIndent [.text .always [120], .group .always 100 [.indent [32, 32] [.text .broken [10], .text .always [121]]]] = true := by
  decide +kernel

/-- `Indent` followed by a sibling `Unindent` makes the real `dom.Render` panic (`slicesx.Pop`
    keeps the last element instead of removing it); the model mirrors it.  Outside C31's wording
    (the AST printer never builds `Unindent`), recorded here because the `dom` engine meets it. -/
example : (renderState { maxWidth := 0, tabstop := 2, omitTrailingNewline := false }
    [.indent [32, 32] [.text .always [120]], .unindent [.text .always [121]]]).panic = some 2 := by
  decide +kernel

end PCV.Props.C31

#print axioms PCV.Props.C31.render_preserves_text
#print axioms PCV.Props.C31.render_exact_when_unflagged
#print axioms PCV.Props.C31.group_broken_iff
#print axioms PCV.Props.C31.group_fits_stays_flat
#print axioms PCV.Props.C31.hard_newline_breaks_group
#print axioms PCV.Props.C31.broken_group_stays_broken
