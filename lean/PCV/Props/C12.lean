/-
C12 — Parser is total and reports positions inside the file.

"For any byte sequence, parsing returns a non-nil AST without panicking. It returns an error
exactly when an error was reported. Every reported error position refers to a line and column
that exist in the input, and converting the AST to a descriptor proto never panics."

Lean side: the lexer + FileInfo model (`Lex.lexAll`, every loop a structural recursion over the
rune list, so the definition itself is the termination proof) with Go's panics modelled
(`AddLine` / `AddToken` / `AddComment` precondition panics, index panic in `SourcePos`).

* `C12_no_panic_full` (no panic on any bytes) is REFUTED: `"\<FF>"` — `reportErr` computes the
  error offset as `pos - len(badEscape)` where `badEscape` is the RE-ENCODED text of the escape; an
  ill-formed byte is 1 byte in the input but 3 bytes (U+FFFD) re-encoded, so the offset is -1 and
  `SourcePos` indexes `lines[-1]`.  `panic_only_from_ill_formed_escape`: that is the only panic —
  `lex_no_panic`: on well-formed UTF-8 (in fact whenever every rune re-encodes to its own length)
  the lexer never panics: `AddLine`, `AddToken`, `AddComment` preconditions are invariants.
* `lex_errs_in_file`: every error offset the lexer reports lies in `[0, len]`.
* `C12_pos_exists_full` (every reported line/column exists in the input, reporter that continues)
  is REFUTED too: `"` + newline + `$` reports 1:3 on a one-character line (root cause: C13).
The LALR automaton, the AST constructors and `ResultFromAST` are not modelled: their totality and
`err ≠ nil ⇔ reported` (proved for the handler in C08) are observed by the `lextotal` engine on
generated inputs only.  That engine found two more panics there, outside this model:
`parser.Parse` with the default reporter panics "semicolon is nil" on
`message m { extensions 1 to 2 [ d ]; }`, and `ResultFromAST` dereferences a nil `OptionNode.Val` on
the partial AST of `message m { optional int32 x = 1 [ d ]; }` (reporter that continues).
-/
import PCV.Model.Lex
import PCV.Spec.Lex
import PCV.Lemmas.LexInv
namespace PCV.Props.C12
open PCV.Lex PCV.FileInfo PCV.Spec.Lex PCV.Lemmas.LexInv

/-- `lexAll` is a total function: every loop of the model is a structural recursion on the list of
    remaining runes (no fuel, no `partial`), so Lean's termination checker has accepted it. -/
theorem lex_total (lenient : Bool) (bs : List UInt8) : ∃ st, lexAll lenient bs = st := ⟨_, rfl⟩

/-- the full statement: no byte string makes the lexer panic -/
def C12_no_panic_full : Prop := ∀ (lenient : Bool) (bs : List UInt8), (lexAll lenient bs).panicked = false

/-- REFUTED by the 4-byte file `"\<FF>"` (22 5C FF 22) -/
theorem C12_no_panic_refuted : ¬ C12_no_panic_full := by
  intro h
  have := h false [0x22, 0x5C, 0xFF, 0x22]
  revert this
  decide

/-- **the only panic.** If the lexer panics, some rune of the input does not re-encode to the
    number of bytes it was decoded from (an ill-formed byte inside a string escape). All
    `FileInfo` precondition panics (`AddLine`, `AddToken`, `AddComment`) and the `SourcePos` of
    plain errors are excluded for every input. -/
theorem panic_only_from_ill_formed_escape (lenient : Bool) (bs : List UInt8)
    (hp : (lexAll lenient bs).panicked = true) : ¬ Valid (runes (stripBOM bs)) := by
  rcases lexAll_final lenient bs with ⟨_, hv⟩ | ⟨⟨rs, hc⟩, _, _⟩
  · exact hv
  · rw [hc.nopanic] at hp; cases hp

/-- **no panic on well-formed UTF-8**, for every such byte string and either reporter -/
theorem lex_no_panic (lenient : Bool) (bs : List UInt8) (hwf : WellFormedUtf8 (stripBOM bs)) :
    (lexAll lenient bs).panicked = false := by
  cases h : (lexAll lenient bs).panicked with
  | false => rfl
  | true => exact absurd (valid_of_wellformed _ hwf) (panic_only_from_ill_formed_escape lenient bs h)

/-- every error the lexer reports has its offset inside the file -/
theorem lex_errs_in_file (lenient : Bool) (bs : List UInt8) (hnp : (lexAll lenient bs).panicked = false) :
    ∀ e ∈ (lexAll lenient bs).errs, 0 ≤ e.off ∧ e.off ≤ ((stripBOM bs).length : Int) := by
  rcases lexAll_final lenient bs with ⟨hp, _⟩ | ⟨⟨rs, hc⟩, _, _⟩
  · rw [hp.1] at hnp; cases hnp
  · intro e he
    have := hc.errs_ok e he
    have := hc.pos_le
    omega

/-- a (line, column) exists in `data`: it is the position of some offset of the file -/
def PosExists (data : List UInt8) (l c : Nat) : Prop :=
  ∃ off, off ≤ data.length ∧ specLine data off = l ∧ specCol data off = some c

/-- the full statement about positions, for a reporter that lets the lexer continue -/
def C12_pos_exists_full : Prop :=
  ∀ (bs : List UInt8), (lexAll true bs).panicked = false →
    ∀ e ∈ (lexAll true bs).errs, PosExists (stripBOM bs) e.line e.col

/-- REFUTED by `"` newline `$`: the second error is reported at 1:3, line 1 is one character long -/
theorem C12_pos_exists_refuted : ¬ C12_pos_exists_full := by
  intro h
  have h1 := h [0x22, 0x0A, 0x24] (by decide) ⟨.invalidChar, 2, 1, 3⟩ (by decide)
  obtain ⟨off, hoff, hl, hc⟩ := h1
  have : ∀ off, off ≤ 3 → ¬ (specLine (stripBOM [0x22, 0x0A, 0x24]) off = 1 ∧
      specCol (stripBOM [0x22, 0x0A, 0x24]) off = some 3) := by decide
  exact this off hoff ⟨hl, hc⟩

/-- In the default configuration (the reporter returns the error, lexing stops) at most one error is
    ever reported. -/
theorem strict_reports_at_most_one_witness :
    (lexAll false [0x22, 0x0A, 0x24]).errs.length = 1 := by decide

-- non-vacuity of `lex_no_panic`: ASCII input is well-formed
example : (lexAll true [0x22, 0x5C, 0x71, 0x22]).panicked = false := by decide

end PCV.Props.C12

#print axioms PCV.Props.C12.lex_total
#print axioms PCV.Props.C12.C12_no_panic_refuted
#print axioms PCV.Props.C12.panic_only_from_ill_formed_escape
#print axioms PCV.Props.C12.lex_no_panic
#print axioms PCV.Props.C12.lex_errs_in_file
#print axioms PCV.Props.C12.C12_pos_exists_refuted
