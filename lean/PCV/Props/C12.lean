/-
C12 — Parser is total and reports positions inside the file.

"For any byte sequence, parsing returns a non-nil AST without panicking. It returns an error
exactly when an error was reported. Every reported error position refers to a line and column
that exist in the input, and converting the AST to a descriptor proto never panics."

Lean side: the lexer + FileInfo model (`Lex.lexAll`, every loop a structural recursion over the
rune list, so the definition itself is the termination proof) with Go's panics modelled
(`AddLine` / `AddToken` / `AddComment` precondition panics, index panic in `SourcePos`).

* `lex_no_panic` (FULL): for every byte string and either reporter the lexer never panics — the
  `FileInfo` precondition checks are invariants of the run, and every `SourcePos` argument lies in
  the file (`Lemmas.LexInv.lexAll_final`).
* `lex_errs_in_file`, `lex_err_positions` (FULL): every error the lexer reports is positioned at an
  offset of the file and carries exactly that offset's line (1 + newlines before it) and column
  (`SourcePos`'s byte fold; by C13 this is the character column on well-formed UTF-8):
  `lex_err_position_exists`.
The LALR automaton, the AST constructors and `ResultFromAST` are not modelled: their totality and
`err ≠ nil ⇔ reported` (proved for the handler in C08) are observed by the `lextotal` engine on
generated inputs only.

History (found by this machinery on the earlier tree, fixed in /repo):
* e715107a — `parser.Parse` panicked (index out of range [-1]) on the 4-byte file `"\<FF>"`:
  `reportErr` positioned the error at `pos - len(badEscape)` with `badEscape` re-encoded, so an
  ill-formed byte (1 byte in, 3 bytes U+FFFD out) drove the offset to -1. The model then had
  `(lexAll false [0x22, 0x5C, 0xFF, 0x22]).panicked = true`, and the partial theorem "no panic on
  well-formed UTF-8".
* bf5e1388 — with a reporter that continues, `"` newline `$` reported 1:3 on a one-character line.
* 0bf0e732 — `parser.Parse`, default reporter, panicked "semicolon is nil" on
  `message m { extensions 1 to 2 [ d ]; }` (found by the harness; outside the Lean model).
* e24276ca — `ResultFromAST` dereferenced a nil `OptionNode.Val` on the partial AST of
  `message m { optional int32 x = 1 [ d ]; }` (harness; outside the Lean model).
-/
import PCV.Model.Lex
import PCV.Spec.Lex
import PCV.Lemmas.LexInv
namespace PCV.Props.C12
open PCV.Lex PCV.FileInfo PCV.Spec.Lex PCV.Lemmas.LexInv PCV.Lemmas.Pos

/-- `lexAll` is a total function: every loop of the model is a structural recursion on the list of
    remaining runes (no fuel, no `partial`), so Lean's termination checker has accepted it. -/
theorem lex_total (lenient : Bool) (bs : List UInt8) : ∃ st, lexAll lenient bs = st := ⟨_, rfl⟩

/-- **no panic (full statement, lexer).** For every byte string and either reporter: none of
    `AddLine`, `AddToken`, `AddComment`, `SourcePos` panics during the run. -/
theorem lex_no_panic (lenient : Bool) (bs : List UInt8) : (lexAll lenient bs).panicked = false := by
  obtain ⟨⟨rs, hc⟩, _, _⟩ := lexAll_final lenient bs
  exact hc.nopanic

/-- every error the lexer reports has its offset inside the file -/
theorem lex_errs_in_file (lenient : Bool) (bs : List UInt8) :
    ∀ e ∈ (lexAll lenient bs).errs, 0 ≤ e.off ∧ e.off ≤ ((stripBOM bs).length : Int) := by
  obtain ⟨⟨rs, hc⟩, _, _⟩ := lexAll_final lenient bs
  intro e he
  have := (hc.errs_ok e he).bounds
  have := hc.pos_le
  omega

/-- every error the lexer reports carries the line and column of its own offset: line = 1 +
    newlines before the offset, column = 1 + `SourcePos`'s fold over the bytes since the line start -/
theorem lex_err_positions (lenient : Bool) (bs : List UInt8) :
    ∀ e ∈ (lexAll lenient bs).errs, ∃ o : Nat, e.off = (o : Int) ∧ o ≤ (stripBOM bs).length ∧
      e.line = specLine (stripBOM bs) o ∧
      e.col = (slice (stripBOM bs) (lineStart (stripBOM bs) o) o).foldl colStep 0 + 1 := by
  obtain ⟨⟨rs, hc⟩, _, _⟩ := lexAll_final lenient bs
  intro e he
  obtain ⟨o, h1, h2, h3, h4⟩ := hc.errs_ok e he
  exact ⟨o, h1, Nat.le_trans h2 hc.pos_le, h3, h4⟩

/-- a (line, column) exists in `data`: it is the position of some offset of the file -/
def PosExists (data : List UInt8) (l c : Nat) : Prop :=
  ∃ off, off ≤ data.length ∧ specLine data off = l ∧ specCol data off = some c

/-- **reported positions exist.** Every error position the lexer reports is the line and column
    of an offset of the file (stated where the column is defined: well-formed UTF-8 up to there). -/
theorem lex_err_position_exists (lenient : Bool) (bs : List UInt8) (e : Err)
    (he : e ∈ (lexAll lenient bs).errs)
    (hwf : ∀ o : Nat, o ≤ (stripBOM bs).length → (specCol (stripBOM bs) o).isSome = true) :
    PosExists (stripBOM bs) e.line e.col := by
  obtain ⟨o, _, h2, h3, h4⟩ := lex_err_positions lenient bs e he
  refine ⟨o, h2, h3.symm, ?_⟩
  obtain ⟨c, hc⟩ := Option.isSome_iff_exists.mp (hwf o h2)
  have hc' := hc
  simp only [specCol, Option.map_eq_some_iff] at hc'
  obtain ⟨c', hc'', rfl⟩ := hc'
  have := colGo_fold 0 0 (o - lineStart (stripBOM bs) o) ((stripBOM bs).drop (lineStart (stripBOM bs) o)) c' hc'' (by simp)
  rw [hc, h4]
  simp only [slice, this]

-- non-vacuity / regression witnesses of the fixed defects
example : (lexAll false [0x22, 0x5C, 0xFF, 0x22]).panicked = false := by decide
example : (lexAll true [0x22, 0x5C, 0xFF, 0x22]).errs = [⟨.badEscape, 1, 1, 2⟩] := by decide
example : (lexAll true [0x22, 0x0A, 0x24]).errs = [⟨.eolInString, 0, 1, 1⟩, ⟨.invalidChar, 2, 2, 1⟩] := by decide

end PCV.Props.C12

#print axioms PCV.Props.C12.lex_total
#print axioms PCV.Props.C12.lex_no_panic
#print axioms PCV.Props.C12.lex_errs_in_file
#print axioms PCV.Props.C12.lex_err_positions
#print axioms PCV.Props.C12.lex_err_position_exists
