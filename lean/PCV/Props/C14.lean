/-
C14 — String and number literals decode like protoc.

"For any string literal, the decoded bytes equal what protoc decodes, and a literal is rejected
exactly when protoc rejects it. This covers every simple, octal, hex and Unicode escape and
invalid escapes. Integer and float literals (decimal, octal, hex, exponents, overflow to infinity)
give the same values and the same accept/reject outcome as protoc."

protoc is not available; the oracle is `Spec.Lex.protocString` / `protocNumber`, a transcription
of protoc's tokenizer restricted to the clauses of DESIGN.md 3.4 / C14 (everything else is
`unknown`: no claim).  Model: `Lex.lexAll` on the literal alone.

The full statements are REFUTED (each witness is replayed on the real code by the `literal` engine;
both are recorded as known findings — the repository's own tests pin the current behaviour):
* `C14_string_full_refuted_raw`   `"<FF>"`: a raw ill-formed UTF-8 byte is decoded to U+FFFD and
  re-encoded as EF BF BD (`buf.WriteRune`); protoc copies the byte.
* `C14_number_full_refuted`       `09.5`: accepted as the float 9.5; protoc's `ConsumeNumber` takes
  the octal branch for a leading zero followed by a digit and rejects it (also `00.5`, `01e5`, `01.`).
History: a third refutation, `"\x+f"` / `"\u+041"` / `"\U+0000041"` / `"\x-1"` accepted because the
raw characters went to `strconv.ParseInt` (which takes a sign), was found by this machinery and
fixed in /repo by 7c1a0665 (`ParseUint`); the model mirrors the fix and `sign_in_escape_rejected`
records the agreement.
Proved for all inputs (unbounded):
* `string_ascii_agrees`: for EVERY all-ASCII string literal (any escapes, any length) the model of
  `readStringLiteral` and the transcribed tokenizer agree on accept/reject and on the decoded bytes
  (state elimination `Lemmas.StrSim.strGo_pure` + lock-step simulation `agree_all`).
* `int_value_eq_dec / _oct / _hex`: the integer decoders compute the positional value and signal
  overflow exactly above 2^64-1; `lexNumber_dec` / `protocNumber_dec`: model and specification agree
  on every decimal integer literal, including "too large for uint64 becomes a float".
* `escape_digits_value`: inside `\x`, `\u`, `\U`, on hex digits (what protoc requires)
  `ParseUint(·, 16, 32)` yields exactly their hexadecimal value.
* `neg_int_node_iff`, `neg_int_node_value`, `neg_int64_accept_iff`: `- INT` becomes an int64 node exactly
  up to 2^63 and is then accepted for int64 targets (model `NumNode.numLit` of the grammar action).
* `enum_number_full_holds`: enum value numbers use `NewNegativeIntLiteralNode` without that guard, but
  `AsInt64` refuses magnitudes above 2^63 (repaired: `A = -18446744073709551615` used to be accepted as 1);
  `enum_number_partial` up to 2^63.
Float values are tied to `strconv.ParseFloat` by correspondence only (model `Num.roundF64`).
-/
import PCV.Model.Lex
import PCV.Spec.Lex
import PCV.Lemmas.NumLemmas
import PCV.Lemmas.StrSim
import PCV.Model.NumNode
namespace PCV.Props.C14
open PCV.Lex PCV.FileInfo PCV.Spec.Lex PCV.Num PCV.Lemmas.NumLemmas PCV.Lemmas.StrSim PCV.Lemmas.LexInv

/-- how the model treats a source text that is meant to be one literal -/
inductive Out where
  | str (v : List UInt8) | int (n : Nat) | float (bits : Nat) | rejected | other
deriving DecidableEq, Repr

def litOutcome (src : List UInt8) : Out :=
  let st := lexAll true src
  if st.panicked then .other
  else if !st.errs.isEmpty then .rejected
  else match st.toks with
    | [t] => (match t.val with
        | .str v => .str v
        | .int n => .int n
        | .float b => .float b
        | _ => .other)
    | _ => .other

def agreesStr (src : List UInt8) : Prop :=
  match protocString src with
  | .accept v => litOutcome src = .str v
  | .reject => litOutcome src = .rejected
  | .unknown => True

def agreesNum (src : List UInt8) : Prop :=
  match protocNumber src with
  | .int n => litOutcome src = .int n
  | .float m e => litOutcome src = .float (roundF64 m e)
  | .reject => litOutcome src = .rejected
  | .unknown => True

/-- full statement, strings -/
def C14_string_full : Prop := ∀ src, agreesStr src
/-- full statement, numbers -/
def C14_number_full : Prop := ∀ src, agreesNum src

instance (src : List UInt8) : Decidable (agreesStr src) := by
  unfold agreesStr; split <;> infer_instance
instance (src : List UInt8) : Decidable (agreesNum src) := by
  unfold agreesNum; split <;> infer_instance

/-- `"\x+f"`, `"\u+041"`: rejected by protoc and (since 7c1a0665) by the lexer -/
theorem sign_in_escape_rejected :
    agreesStr [0x22, 0x5C, 0x78, 0x2B, 0x66, 0x22] ∧
    agreesStr [0x22, 0x5C, 0x75, 0x2B, 0x30, 0x34, 0x31, 0x22] ∧
    litOutcome [0x22, 0x5C, 0x78, 0x2B, 0x66, 0x22] = .rejected := by decide

/-- `"<FF>"`: protoc yields the byte FF, the lexer yields EF BF BD -/
theorem C14_string_full_refuted_raw : ¬ C14_string_full := by
  intro h
  have := h [0x22, 0xFF, 0x22]
  revert this; decide

/-- `09.5`: protoc rejects, the lexer accepts -/
theorem C14_number_full_refuted : ¬ C14_number_full := by
  intro h
  have := h [0x30, 0x39, 0x2E, 0x35]
  revert this; decide

/-! ### what holds for all inputs -/

/-- **strings, ASCII sources (unbounded).** For every string literal whose characters are all ASCII —
    any quote, any escapes, any length — `readStringLiteral` (model `strGo`, started in any lexer
    state satisfying the lexer invariant) accepts exactly when the transcribed protoc tokenizer
    accepts, with the same decoded bytes, and rejects exactly when it rejects, wherever the
    transcription makes a claim. Together with `C14_string_full_refuted_raw` this confines the
    divergence to non-ASCII raw bytes. -/
theorem string_ascii_agrees (data : List UInt8) (q : UInt8) (hq : q = 34 ∨ q = 39) (body : List UInt8)
    (hascii : ∀ b ∈ body, b.toNat < 128) (st : St) (hcore : Core data st (runes body)) :
    match protocString (q :: body) with
    | .accept v => (strGo q.toNat 0 st {} (runes body)).2 = .ok v
    | .reject => (∃ cls, (strGo q.toNat 0 st {} (runes body)).2 = .plain cls) ∨
                 (∃ e, (strGo q.toNat 0 st {} (runes body)).2 = .pos e)
    | .unknown => True := by
  have hag := agree_all q hq body hascii 0 []
  have hpure := strGo_pure q.toNat (runes body) 0 st {} (by intro h; simp at h)
  have hpost := strGo_spec (data := data) q.toNat (runes body) 0 st {} (Nat.zero_le _) (by simpa using hcore)
    ⟨by intro e he; simp at he, by intro h; simp at h⟩
  obtain ⟨k, _, _, _, _, _, hres⟩ := hpost
  have hnp : (strGo q.toNat 0 st {} (runes body)).2 ≠ .panic := by
    intro hp; rw [hp] at hres; exact hres
  have hps : protocString (q :: body) = pstrGo q 0 body [] := by
    simp only [protocString]
    rcases hq with rfl | rfl <;> simp
  rw [hps]
  unfold Agree at hag
  rw [← runes_ascii body hascii] at hag
  rcases hpure with hp | hp
  · exact absurd hp hnp
  · simp only [Option.isSome_none] at hp
    cases hsp : pstrGo q 0 body [] with
    | accept v =>
      rw [hsp] at hag
      simp only at hag ⊢
      rw [hag] at hp
      exact hp
    | reject =>
      rw [hsp] at hag
      simp only at hag ⊢
      rw [hag] at hp
      exact hp
    | unknown => trivial

/-- decimal integers: `ParseUint` gives the value, range error exactly above 2^64-1 -/
theorem int_value_eq_dec (s : List UInt8) (hne : s ≠ []) (hd : s.all isDig = true) :
    parseUint s 10 64 = if decNum s ≤ Num.maxU64 then .ok (decNum s) else .range :=
  parseUint_dec s hne hd

/-- octal integers -/
theorem int_value_eq_oct (s : List UInt8) (hne : s ≠ []) (hd : s.all isOct = true) :
    parseUint s 8 64 = if octNum s ≤ Num.maxU64 then .ok (octNum s) else .range :=
  parseUint_oct s hne hd

/-- hexadecimal integers (the digits after `0x`) -/
theorem int_value_eq_hex (s : List UInt8) (hne : s ≠ []) (hd : s.all isHex = true) :
    parseUint s 16 64 = if hexNum s ≤ 2 ^ 64 - 1 then .ok (hexNum s) else .range :=
  parseUint_hex s 64 (Nat.le_refl _) hne hd

/-- inside `\x`, `\u`, `\U`: on hex digits `ParseUint(·, 16, 32)` is the hexadecimal value -/
theorem escape_digits_value (s : List UInt8) (hne : s ≠ []) (hd : s.all isHex = true) :
    parseUint s 16 32 = if hexNum s ≤ 2 ^ 32 - 1 then .ok (hexNum s) else .range :=
  parseUint_hex s 32 (by omega) hne hd

theorem takeWhile_all {α} (p : α → Bool) (l : List α) (h : l.all p = true) : l.takeWhile p = l := by
  induction l with
  | nil => rfl
  | cons x xs ih =>
    simp only [List.all_cons, Bool.and_eq_true] at h
    simp [List.takeWhile, h.1, ih h.2]

theorem dropWhile_all {α} (p : α → Bool) (l : List α) (h : l.all p = true) : l.dropWhile p = [] := by
  induction l with
  | nil => rfl
  | cons x xs ih =>
    simp only [List.all_cons, Bool.and_eq_true] at h
    simp [List.dropWhile, h.1, ih h.2]

/-- the specification on a decimal integer literal (digits, no leading zero) -/
theorem protocNumber_dec (d : UInt8) (rest : List UInt8) (hd : isDig d = true) (h0 : d ≠ 48)
    (hr : rest.all isDig = true) :
    protocNumber (d :: rest) =
      (if decNum (d :: rest) ≤ Spec.Lex.maxU64 then .int (decNum (d :: rest)) else .float (decNum (d :: rest)) 0) := by
  have h46 : d ≠ 46 := by intro h; subst h; simp [isDig] at hd
  unfold protocNumber
  split
  · rename_i heq; cases heq
  · rename_i heq; simp only [List.cons.injEq] at heq; exact absurd heq.1.symm (by simpa using h46.symm)
  · rename_i heq; simp only [List.cons.injEq] at heq; exact absurd heq.1.symm (by simpa using h0.symm)
  · rename_i d' rest' _ _ heq
    simp only [List.cons.injEq] at heq
    obtain ⟨rfl, rfl⟩ := heq
    simp [hd, takeWhile_all _ _ hr, dropWhile_all _ _ hr, decTail]

/-- the model on the same literals: an `int` token with the value, or, above 2^64-1, the float
    token of the value correctly rounded (`ParseFloat` of the digits) -/
theorem lexNumber_dec (st : St) (d : UInt8) (rest : List UInt8) (hd : isDig d = true) (h0 : d ≠ 48)
    (hr : rest.all isDig = true) (hle : decNum (d :: rest) ≤ Num.maxU64) :
    lexNumber st (d :: rest) = emit st .intLit (.int (decNum (d :: rest))) := by
  have hall : (d :: rest).all isDig = true := by simp [hd, hr]
  have hpre : hasPrefix0x (d :: rest) = false := by
    unfold hasPrefix0x
    split
    · rename_i heq; simp only [List.cons.injEq] at heq; exact absurd heq.1 h0
    · rfl
  have hany : (d :: rest).any (fun b => b == 46 || b == 101 || b == 69) = false := by
    rw [List.any_eq_false]
    intro b hb
    have := List.all_eq_true.mp hall b hb
    simp only [isDig, Bool.and_eq_true, decide_eq_true_eq] at this
    intro hc
    simp only [Bool.or_eq_true, beq_iff_eq] at hc
    rcases hc with (rfl | rfl) | rfl <;> simp at this
  have hhead : ¬ ((d :: rest).head? = some 48) := by simpa using h0
  simp only [lexNumber, hpre, Bool.false_eq_true, if_false, hany, hhead]
  rw [int_value_eq_dec (d :: rest) (by simp) hall]
  simp [hle]


/-! ### negated integer literals: which AST node, which value -/
section SignedLiterals
open PCV.NumNode

/-- **`neg_int_node_iff`.** The grammar turns `- INT` into an int64 node exactly when the magnitude is
    at most 2^63 (so that `-9223372036854775808` is an integer and `-9223372036854775809` a float) -/
theorem neg_int_node_iff (n : Nat) : (∃ i, numLit true false n = .int i) ↔ n ≤ 2 ^ 63 := by
  unfold numLit
  by_cases h : n > 2 ^ 63
  · simp [h] <;> omega
  · simp [h] <;> omega

/-- and then the node carries the exact value, which fits an int64 -/
theorem neg_int_node_value (n : Nat) (h : n ≤ 2 ^ 63) :
    numLit true false n = .int (-(n : Int)) ∧ -(2 ^ 63 : Int) ≤ -(n : Int) ∧ -(n : Int) ≤ 2 ^ 63 - 1 := by
  have h' : ¬ n > 2 ^ 63 := by omega
  refine ⟨by simp [numLit, h'], by omega, by omega⟩

/-- hence a negated literal is accepted for an int64 target exactly when -n ≥ -2^63 -/
theorem neg_int64_accept_iff (n : Nat) :
    (scalarValue .int64 (numLit true false n)).isSome = true ↔ n ≤ 2 ^ 63 := by
  unfold numLit
  by_cases h : n > 2 ^ 63
  · simp [h, scalarValue] <;> omega
  · simp [h, scalarValue] <;> omega

/-- `NewNegativeIntLiteralNode` computes `-int64(n)`: exact up to 2^63, wrapped around above -/
theorem negWrap_exact_iff (n : Nat) (hn : n < 2 ^ 64) : negWrap n = -(n : Int) ↔ n ≤ 2 ^ 63 := by
  unfold negWrap
  by_cases h : n ≤ 2 ^ 63
  · simp [h]
  · simp [h]; omega

/-- the full statement for enum value numbers (`enumValueNumber : '-' _INT_LIT` builds the node
    without a guard; `NegativeIntLiteralNode.AsInt64` refuses magnitudes above 2^63): an accepted
    negated number is the number written -/
def enum_number_full : Prop :=
  ∀ n : Nat, n < 2 ^ 64 → ∀ v, enumNumber true n = some v → v = -(n : Int)

/-- holds since the repair of `AsInt64` (before it, `A = -18446744073709551615` was accepted as 1) -/
theorem enum_number_full_holds : enum_number_full := by
  intro n _ v h
  unfold enumNumber asInt32 at h
  by_cases hn : n ≤ 2 ^ 63
  · simp only [hn, if_true, negWrap] at h
    split at h
    · cases h
    · cases h; rfl
  · simp [hn] at h

/-- up to 2^63 the enum number is exact and range-checked as written -/
theorem enum_number_partial (n : Nat) (h : n ≤ 2 ^ 63) :
    enumNumber true n = (if -(n : Int) < -(2 ^ 31) ∨ -(n : Int) > 2 ^ 31 - 1 then none else some (-(n : Int))) := by
  simp [enumNumber, asInt32, negWrap, h]

end SignedLiterals

-- non-vacuity
example : litOutcome [0x34, 0x32] = .int 42 ∧ protocNumber [0x34, 0x32] = .int 42 := by decide
example : agreesStr [0x22, 0x5C, 0x75, 0x30, 0x30, 0x65, 0x39, 0x22] := by decide   -- "é"
example : agreesNum [0x31, 0x2E, 0x35, 0x65, 0x33] := by decide                       -- 1.5e3

end PCV.Props.C14

#print axioms PCV.Props.C14.sign_in_escape_rejected
#print axioms PCV.Props.C14.C14_string_full_refuted_raw
#print axioms PCV.Props.C14.C14_number_full_refuted
#print axioms PCV.Props.C14.string_ascii_agrees
#print axioms PCV.Props.C14.int_value_eq_dec
#print axioms PCV.Props.C14.int_value_eq_oct
#print axioms PCV.Props.C14.int_value_eq_hex
#print axioms PCV.Props.C14.escape_digits_value
#print axioms PCV.Props.C14.neg_int_node_iff
#print axioms PCV.Props.C14.neg_int64_accept_iff
#print axioms PCV.Props.C14.negWrap_exact_iff
#print axioms PCV.Props.C14.enum_number_full_holds
#print axioms PCV.Props.C14.enum_number_partial
#print axioms PCV.Props.C14.protocNumber_dec
#print axioms PCV.Props.C14.lexNumber_dec
