/-
C19 — Unused-import warnings are exact.

  "For an explicitly requested file, an unused-import warning names a non-public import
   exactly when removing that import still compiles successfully with the same descriptors,
   apart from the dependency list.  An import is never reported as unused when a type,
   extendee or custom option needs it."

Model: PCV.Model.UnusedImports (resolveInFile + markUsed, the scoped resolution of
linker/resolve.go, the lookups of the option interpreter, CheckForUnusedImports, and the
removal experiment on the model).  Lemmas: PCV.Lemmas.UnusedImports.

Results (all for arbitrary workspaces, references and imports — no bounds):

* `used_iff_needed`      an import is marked used ⇔ some lookup performed for some reference
                         is answered (not by the file itself) through that import and through
                         no earlier import, "through" = the import or its transitive public
                         imports (declarative `PubReach`, not the DFS);
* `unused_removable`     an unmarked non-public import can be removed: every reference
                         resolves to the same descriptor, the link succeeds as before and the
                         same imports are marked;
* `C19_sound`            the second sentence and the "⇒" half of the first: a warning only
                         ever names a non-public import whose removal keeps everything;
* `C19_full_refuted`     the "⇐" half is FALSE of the code: witnesses `alt`, `optsType`,
                         `pkgNamespace`, `discarded` (four different causes);
* `used_not_removable_partial`, `C19_exact_partial`
                         the "⇐" half under the hypothesis that every marked import is the
                         sole provider of a descriptor some reference resolves to.
-/
import PCV.Lemmas.UnusedImports
namespace PCV.Props.C19
open PCV.UnusedImports

/-- a file does not import the same file twice (the compiler rejects that) -/
def NoDupImports (f : FileM) : Prop := (f.imports.map (·.1)).Nodup

theorem eq_of_nodup_map_fst {l : List (Nat × Bool)} (h : (l.map (·.1)).Nodup) {a b : Nat × Bool}
    (ha : a ∈ l) (hb : b ∈ l) (hab : a.1 = b.1) : a = b := by
  induction l with
  | nil => cases ha
  | cons x xs ih =>
    simp only [List.map_cons, List.nodup_cons] at h
    obtain ⟨hx, hxs⟩ := h
    cases List.mem_cons.mp ha with
    | inl ha1 =>
      cases List.mem_cons.mp hb with
      | inl hb1 => rw [ha1, hb1]
      | inr hb2 =>
        exfalso; apply hx
        rw [← ha1, hab]
        exact List.mem_map.mpr ⟨b, hb2, rfl⟩
    | inr ha2 =>
      cases List.mem_cons.mp hb with
      | inl hb1 =>
        exfalso; apply hx
        rw [← hb1, ← hab]
        exact List.mem_map.mpr ⟨a, ha2, rfl⟩
      | inr hb2 => exact ih hxs ha2 hb2

theorem mem_warnings {ws : WS} {t : Nat} {f : FileM} (ht : ws[t]? = some f) (refs : List Ref) (i : Nat) :
    i ∈ warnings ws t refs ↔
      ∃ imp ∈ f.imports, imp.1 = i ∧ imp.2 = false ∧ (t, i) ∉ (link ws t refs).marks := by
  unfold warnings
  simp only [ht, List.mem_map, List.mem_filter]
  constructor
  · rintro ⟨imp, ⟨hm, hc⟩, rfl⟩
    simp only [Bool.and_eq_true, Bool.not_eq_eq_eq_not, Bool.not_true] at hc
    refine ⟨imp, hm, rfl, hc.1, ?_⟩
    intro hmem
    have := List.contains_iff_mem.mpr hmem
    rw [this] at hc
    exact absurd hc.2 (by simp)
  · rintro ⟨imp, hm, rfl, hp, hn⟩
    refine ⟨imp, ⟨hm, ?_⟩, rfl⟩
    have : (link ws t refs).marks.contains (t, imp.1) = false := by
      cases hc : (link ws t refs).marks.contains (t, imp.1) with
      | false => rfl
      | true => exact absurd (List.contains_iff_mem.mp hc) hn
    rw [hp, this]; rfl

/-! ## used ⇔ needed -/

/-- **used ⇔ needed.**  Import `i` of the file under test is marked as used iff, for some
    reference `r` of the file, one of the lookups `qy` performed while resolving `r` is not
    answered by the file itself, is answered by a file visible through `i` (`i` or a
    transitive public import of `i`), by no file visible through an earlier import, and `i`
    is not a public import. -/
theorem used_iff_needed {ws : WS} (hwf : WF ws) {t : Nat} {f : FileM} (ht : ws[t]? = some f)
    (refs : List Ref) (i : Nat) :
    (t, i) ∈ (link ws t refs).marks ↔
      ∃ r ∈ refs, ∃ qy ∈ queriesOf ws t f r, FirstProvider ws qy.fn f i := by
  unfold link
  simp only [ht, List.mem_flatMap, List.mem_map]
  constructor
  · rintro ⟨o, ⟨r, hr, rfl⟩, hm⟩
    obtain ⟨qy, hq, hqm⟩ := (mem_marks_resolveRef ws t i f r).mp hm
    exact ⟨r, hr, qy, hq, (lookTop_marks_iff hwf qy.fn t f ht i).mp hqm⟩
  · rintro ⟨r, hr, qy, hq, hfp⟩
    refine ⟨resolveRef ws t f r, ⟨r, hr, rfl⟩, ?_⟩
    exact (mem_marks_resolveRef ws t i f r).mpr ⟨qy, hq, (lookTop_marks_iff hwf qy.fn t f ht i).mpr hfp⟩

/-- the DFS through import `x` finds an answer iff some file reachable from `x` by public
    imports answers (C18-style visibility, used by `FirstProvider`) -/
theorem provides_iff_search {ws : WS} (hwf : WF ws) (fn : FileM → Option Desc) (x fuel : Nat)
    (checked : List Nat) (hlt : x < fuel) (hc : ∀ c ∈ checked, x < c) :
    (resolveInFile ws fn fuel checked true x).isSome ↔ Provides ws fn x :=
  resolveInFile_pub_isSome_iff hwf fn fuel x checked hlt hc

/-! ## unused ⇒ removable -/

/-- **unused ⇒ removable.**  If import `i` is not public and was never marked, then linking
    the file without it gives the same result: same descriptor for every reference, same
    success/failure, same marks (hence the same warnings for the other imports). -/
theorem unused_removable {ws : WS} (hwf : WF ws) {t i : Nat} {f : FileM} (ht : ws[t]? = some f)
    (hnp : ∀ x ∈ f.imports, x.1 = i → x.2 = false) (refs : List Ref)
    (hun : (t, i) ∉ (link ws t refs).marks) :
    link (removeImport ws t i) t refs = link ws t refs :=
  link_removeImport hwf ht hnp refs hun

/-- **Soundness of the warnings** (second sentence of C19, and "warning ⇒ removable"):
    a warned import is a non-public import of the file, and removing it still links with
    the same descriptors. -/
theorem C19_sound {ws : WS} (hwf : WF ws) {t : Nat} {f : FileM} (ht : ws[t]? = some f)
    (hnd : NoDupImports f) (refs : List Ref) (hok : (link ws t refs).ok = true) (i : Nat)
    (hw : i ∈ warnings ws t refs) :
    (i, false) ∈ f.imports ∧ removalEq ws t refs i = true := by
  obtain ⟨imp, hm, rfl, hp, hn⟩ := (mem_warnings ht refs _).mp hw
  have himp : imp = (imp.1, false) := by cases imp; simp_all
  refine ⟨himp ▸ hm, ?_⟩
  have hnp : ∀ x ∈ f.imports, x.1 = imp.1 → x.2 = false := by
    intro x hx hxe
    rw [eq_of_nodup_map_fst hnd hx hm hxe]; exact hp
  unfold removalEq
  simp only [unused_removable hwf ht hnp refs hn, hok, Bool.true_and]
  simp

/-- never reported as unused when needed: if a reference resolves to a descriptor that
    is found through import `i` first, no warning names `i` -/
theorem needed_not_warned {ws : WS} (hwf : WF ws) {t : Nat} {f : FileM} (ht : ws[t]? = some f)
    (refs : List Ref) (i : Nat) (r : Ref) (hr : r ∈ refs) (qy : Query)
    (hq : qy ∈ queriesOf ws t f r) (hfp : FirstProvider ws qy.fn f i) :
    i ∉ warnings ws t refs := by
  intro hw
  obtain ⟨_, _, _, _, hn⟩ := (mem_warnings ht refs i).mp hw
  exact hn ((used_iff_needed hwf ht refs i).mpr ⟨r, hr, qy, hq, hfp⟩)

/-! ## the full statement is false of the code -/

/-- C19 at full strength, on the model: for a file that links, a warning names import `imp`
    exactly when `imp` is non-public and its removal keeps the link result. -/
def C19_full : Prop :=
  ∀ (ws : WS) (t : Nat) (f : FileM) (refs : List Ref),
    WF ws → ws[t]? = some f → NoDupImports f → (link ws t refs).ok = true →
    ∀ imp ∈ f.imports,
      (imp.1 ∈ warnings ws t refs ↔ (imp.2 = false ∧ removalEq ws t refs imp.1 = true))

theorem wf_of_length_le_3 (ws : WS)
    (h0 : ∀ f, ws[0]? = some f → f.imports = [])
    (h1 : ∀ f, ws[1]? = some f → ∀ imp ∈ f.imports, imp.1 < 1)
    (h2 : ∀ f, ws[2]? = some f → ∀ imp ∈ f.imports, imp.1 < 2)
    (h3 : ∀ f, ws[3]? = some f → ∀ imp ∈ f.imports, imp.1 < 3)
    (hl : ws.length ≤ 4) : WF ws := by
  intro idx f hf imp himp
  match idx with
  | 0 => rw [h0 f hf] at himp; cases himp
  | 1 => exact h1 f hf imp himp
  | 2 => exact h2 f hf imp himp
  | 3 => exact h3 f hf imp himp
  | n + 4 =>
    have := (List.getElem?_eq_some_iff.mp hf).1
    omega

namespace alt
/-- `c.proto` (package q) defines `M`; `a.proto` publicly imports `c.proto`; the file under
    test imports `c.proto` and `a.proto` (both non-public) and has a field of type `M`. -/
def ws : WS :=
  [ { pkg := ["q"], imports := [], syms := [{ name := ["q", "M"], kind := .msg }] },
    { pkg := ["q", "a"], imports := [(0, true)], syms := [{ name := ["q", "a", "A"], kind := .msg }] },
    { pkg := ["q"], imports := [(0, false), (1, false)],
      syms := [{ name := ["q", "T"], kind := .msg }, { name := ["q", "T", "f1"], kind := .field }] } ]
def refs : List Ref := [ { kind := .fieldType, scopes := [["q", "T"]], dot := false, name := ["M"] } ]

theorem wf : WF ws := by
  apply wf_of_length_le_3 <;> simp [ws]
theorem ok : (link ws 2 refs).ok = true := by decide
/-- only `a.proto` is warned about … -/
theorem warned : warnings ws 2 refs = [1] := by decide
/-- … although `c.proto` alone can be removed as well (`M` stays visible through `a.proto`) -/
theorem removable : removalEq ws 2 refs 0 = true := by decide
end alt

/-- **The full statement is refuted**: in `alt.ws` the import of `c.proto` is non-public and
    removable, and no warning names it. -/
theorem C19_full_refuted : ¬ C19_full := by
  intro h
  have := h alt.ws 2 _ alt.refs alt.wf rfl (by unfold NoDupImports; decide) alt.ok (0, false) (by decide)
  rw [alt.warned] at this
  have h2 := this.mpr ⟨rfl, alt.removable⟩
  simp at h2

namespace optsType
/-- the file under test imports descriptor.proto, uses nothing of it, and sets
    `option java_package`: the interpreter's lookup of `google.protobuf.FileOptions` marks
    the import -/
def ws : WS :=
  [ { pkg := ["google", "protobuf"], imports := [],
      syms := [{ name := ["google", "protobuf", "FileOptions"], kind := .msg }] },
    { pkg := ["q"], imports := [(0, false)], syms := [] } ]
def refs : List Ref :=
  [ { kind := .optsType, scopes := [], dot := true, name := ["google", "protobuf", "FileOptions"] } ]
theorem ok : (link ws 1 refs).ok = true := by decide
theorem not_warned : warnings ws 1 refs = [] := by decide
theorem removable : removalEq ws 1 refs 0 = true := by decide
end optsType

namespace pkgNamespace
/-- file 0 has package `q.r.s` and is otherwise unused, file 1 (package `q.r`) defines `M`;
    the file under test (package `q`) refers to `r.M`: the probe of the first name `q.r`
    matches the *package* of file 0 and marks it -/
def ws : WS :=
  [ { pkg := ["q", "r", "s"], imports := [], syms := [{ name := ["q", "r", "s", "Z"], kind := .msg }] },
    { pkg := ["q", "r"], imports := [], syms := [{ name := ["q", "r", "M"], kind := .msg }] },
    { pkg := ["q"], imports := [(0, false), (1, false)],
      syms := [{ name := ["q", "T"], kind := .msg }] } ]
def refs : List Ref := [ { kind := .fieldType, scopes := [["q", "T"]], dot := false, name := ["r", "M"] } ]
theorem ok : (link ws 2 refs).ok = true := by decide
theorem not_warned : warnings ws 2 refs = [] := by decide
theorem removable : removalEq ws 2 refs 0 = true := by decide
end pkgNamespace

namespace discarded
/-- file 0 (package `q.r`) defines an extension `X`, file 1 (package `q`) defines `X.Y`;
    the file under test (package `q.r`) refers to `X.Y`: the first-name probe `q.r.X` finds
    the extension (a leaf: discarded, next prefix tried) but has already marked file 0 -/
def ws : WS :=
  [ { pkg := ["q", "r"], imports := [], syms := [{ name := ["q", "r", "X"], kind := .ext }] },
    { pkg := ["q"], imports := [],
      syms := [{ name := ["q", "X"], kind := .msg }, { name := ["q", "X", "Y"], kind := .msg }] },
    { pkg := ["q", "r"], imports := [(0, false), (1, false)],
      syms := [{ name := ["q", "r", "T"], kind := .msg }] } ]
def refs : List Ref :=
  [ { kind := .fieldType, scopes := [["q", "r", "T"]], dot := false, name := ["X", "Y"] } ]
theorem ok : (link ws 2 refs).ok = true := by decide
theorem not_warned : warnings ws 2 refs = [] := by decide
theorem removable : removalEq ws 2 refs 0 = true := by decide
end discarded

/-! ## the converse under a sole-provider hypothesis -/

/-- `n` is defined by no file other than those visible through import `i`: not by the file
    under test, and not visible through any other import -/
def SoleProvider (ws : WS) (f : FileM) (i : Nat) (n : Name) : Prop :=
  findDesc n f = none ∧ ∀ x ∈ f.imports, x.1 ≠ i → ¬ Provides ws (findDesc n) x.1

/-- what the top-level search looks like after import `i` has been removed -/
theorem lookTop_removeImport_sound {ws : WS} (hwf : WF ws) (fn : FileM → Option Desc) (t i : Nat)
    (f : FileM) (ht : ws[t]? = some f) (hfn : fn (dropImport f i) = fn f) (d : Desc) (ms : List Mark)
    (h : lookTop (removeImport ws t i) fn t = some (d, ms)) :
    fn f = some d ∨ ∃ x ∈ f.imports, x.1 ≠ i ∧ ∃ g, PubReach ws x.1 g ∧ AnswersWith ws fn g d := by
  have ht' := getElem?_removeImport_self ws t i f ht
  rw [lookTop_unfold _ fn t _ ht', hfn, length_removeImport] at h
  cases hself : fn f with
  | some r => simp only [hself, Option.some.injEq, Prod.mk.injEq] at h; exact Or.inl (by rw [h.1])
  | none =>
    simp only [hself] at h
    right
    obtain ⟨x, hx, hv⟩ := List.exists_of_findSome?_eq_some h
    have hxm := List.mem_filter.mp hx
    have hne : x.1 ≠ i := by simpa using hxm.2
    have hlt : x.1 < t := hwf t f ht x hxm.1
    rw [resolveInFile_agree hwf fn _ x.1 [t] true
      (fun j hj => getElem?_removeImport_ne ws t i j (by omega))] at hv
    refine ⟨x, hxm.1, hne, ?_⟩
    cases hr : resolveInFile ws fn (ws.length - 1) [t] true x.1 with
    | none => simp [hr, viaImport] at hv
    | some v =>
      obtain ⟨r0, ms0⟩ := v
      obtain ⟨_, g, hreach, hans⟩ := resolveInFile_pub_sound hwf fn _ x.1 [t] (by simp; omega) r0 ms0 hr
      simp only [hr, viaImport, Option.some.injEq, Prod.mk.injEq] at hv
      rw [← hv.1]
      exact ⟨g, hreach, hans⟩

/-- after the removal of its sole provider, the name `s.name` cannot be looked up any more -/
theorem lookElem_after_removal {ws : WS} (hwf : WF ws) {t i : Nat} {f : FileM} (ht : ws[t]? = some f)
    (s : Sym) (hsole : SoleProvider ws f i s.name) :
    descOf (lookElem (removeImport ws t i) t) s.name ≠ some (.real s) := by
  intro h
  unfold descOf at h
  cases hl : lookElem (removeImport ws t i) t s.name with
  | none => simp [hl] at h
  | some v =>
    obtain ⟨d, ms⟩ := v
    simp only [hl, Option.map_some, Option.some.injEq] at h
    subst h
    rcases lookTop_removeImport_sound hwf _ t i f ht rfl _ ms hl with h1 | ⟨x, hx, hne, g, hreach, f', hf', hans⟩
    · have := resolveElementInFile_real h1
      rw [hsole.1] at this; cases this
    · exact hsole.2 x hx hne ⟨g, _, hreach, f', hf', resolveElementInFile_real hans⟩

theorem lookPlain_after_removal {ws : WS} (hwf : WF ws) {t i : Nat} {f : FileM} (ht : ws[t]? = some f)
    (s : Sym) (hsole : SoleProvider ws f i s.name) (ms : List Mark) :
    lookPlain (removeImport ws t i) t s.name ≠ some (.real s, ms) := by
  intro hl
  rcases lookTop_removeImport_sound hwf _ t i f ht rfl _ ms hl with h1 | ⟨x, hx, hne, g, hreach, f', hf', hans⟩
  · rw [hsole.1] at h1; cases h1
  · exact hsole.2 x hx hne ⟨g, _, hreach, f', hf', hans⟩

/-- no reference resolves to `s` once its sole provider `i` has been removed -/
theorem not_resolved_after_removal {ws : WS} (hwf : WF ws) {t i : Nat} {f : FileM}
    (ht : ws[t]? = some f) (s : Sym) (hsole : SoleProvider ws f i s.name) (r : Ref) :
    (resolveRef (removeImport ws t i) t (dropImport f i) r).desc ≠ some (.real s) := by
  have ht' := getElem?_removeImport_self ws t i f ht
  have hwf' : WF (removeImport ws t i) := by
    intro idx g hg imp himp
    by_cases hidx : idx = t
    · subst hidx
      rw [ht'] at hg
      cases hg
      exact hwf idx f ht imp (List.mem_filter.mp himp).1
    · rw [getElem?_removeImport_ne ws t i idx hidx] at hg
      exact hwf idx g hg imp himp
  have hq := faithful_lookElem hwf' t _ ht'
  have hql := faithful_local (dropImport f i)
  have hname : ∀ (onlyTypes : Bool) (scopes : List Name),
      (resolveName (fun n => resolveElementInFile n (dropImport f i))
        (descOf (lookElem (removeImport ws t i) t)) (dropImport f i).pkg onlyTypes r.dot scopes r.name).1
        ≠ some (.real s) := by
    intro onlyTypes scopes h
    rcases resolveName_real hql hq _ _ _ _ _ h with h1 | h1
    · exact lookElem_after_removal hwf ht s hsole h1
    · have := resolveElementInFile_real h1
      have h2 : findDesc s.name (dropImport f i) = findDesc s.name f := rfl
      rw [h2, hsole.1] at this; cases this
  unfold resolveRef
  cases hk : r.kind <;> simp only []
  · exact hname true r.scopes
  · exact hname false r.scopes
  · exact hname false r.scopes
  · exact hname false r.scopes
  · exact hname false []
  · cases hl : lookPlain (removeImport ws t i) t r.name with
    | none => simp
    | some v =>
      obtain ⟨d, ms⟩ := v
      simp only [ne_eq, Option.some.injEq]
      intro hd
      subst hd
      have hn : s.name = r.name := by
        rcases lookTop_sound hwf' _ t _ ht' _ ms hl with h1 | ⟨_, _, _, _, _, _, h2⟩
        · exact findDesc_real h1
        · exact findDesc_real h2
      rw [← hn] at hl
      exact lookPlain_after_removal hwf ht s hsole ms hl
  · cases lookPlain (removeImport ws t i) t r.name with
    | none => simp
    | some v => obtain ⟨d, ms⟩ := v; simp

/-- **used ⇒ not removable, partial.**  If some reference resolves to a descriptor `s` whose
    sole provider is import `i`, the removal experiment for `i` fails (the link result
    changes). -/
theorem used_not_removable_partial {ws : WS} (hwf : WF ws) {t i : Nat} {f : FileM}
    (ht : ws[t]? = some f) (refs : List Ref) (k : Nat) (s : Sym)
    (hk : (link ws t refs).descs[k]? = some (some (.real s)))
    (hsole : SoleProvider ws f i s.name) :
    removalEq ws t refs i = false := by
  cases hre : removalEq ws t refs i with
  | false => rfl
  | true =>
    exfalso
    unfold removalEq at hre
    simp only [Bool.and_eq_true, beq_iff_eq] at hre
    rw [← hre.2] at hk
    unfold link at hk
    rw [getElem?_removeImport_self ws t i f ht] at hk
    simp only [List.map_map, List.getElem?_map] at hk
    cases hr : refs[k]? with
    | none => simp [hr] at hk
    | some r =>
      simp only [hr, Option.map_some, Function.comp_apply, Option.some.injEq] at hk
      exact not_resolved_after_removal hwf ht s hsole r hk

/-- every marked non-public import is the sole provider of a descriptor some reference
    resolves to -/
def MarksJustified (ws : WS) (t : Nat) (f : FileM) (refs : List Ref) : Prop :=
  ∀ imp ∈ f.imports, imp.2 = false → (t, imp.1) ∈ (link ws t refs).marks →
    ∃ (k : Nat) (s : Sym), (link ws t refs).descs[k]? = some (some (.real s)) ∧
      SoleProvider ws f imp.1 s.name

/-- **C19 at full strength under the sole-provider hypothesis.** -/
theorem C19_exact_partial {ws : WS} (hwf : WF ws) {t : Nat} {f : FileM} (ht : ws[t]? = some f)
    (hnd : NoDupImports f) (refs : List Ref) (hok : (link ws t refs).ok = true)
    (hj : MarksJustified ws t f refs) :
    ∀ imp ∈ f.imports,
      (imp.1 ∈ warnings ws t refs ↔ (imp.2 = false ∧ removalEq ws t refs imp.1 = true)) := by
  intro imp himp
  constructor
  · intro hw
    obtain ⟨hm, hre⟩ := C19_sound hwf ht hnd refs hok imp.1 hw
    have := eq_of_nodup_map_fst hnd himp hm rfl
    exact ⟨by rw [this], hre⟩
  · rintro ⟨hp, hre⟩
    apply (mem_warnings ht refs imp.1).mpr
    refine ⟨imp, himp, rfl, hp, ?_⟩
    intro hmark
    obtain ⟨k, s, hk, hsole⟩ := hj imp himp hp hmark
    rw [used_not_removable_partial hwf ht refs k s hk hsole] at hre
    cases hre

/-! ## non-vacuity -/

namespace nonvac
/-- file 0 defines `q.M`, file 1 defines `q.N`; the file under test uses `M` only -/
def ws : WS :=
  [ { pkg := ["q"], imports := [], syms := [{ name := ["q", "M"], kind := .msg }] },
    { pkg := ["q"], imports := [], syms := [{ name := ["q", "N"], kind := .msg }] },
    { pkg := ["q"], imports := [(0, false), (1, false)], syms := [{ name := ["q", "T"], kind := .msg }] } ]
def refs : List Ref := [ { kind := .fieldType, scopes := [["q", "T"]], dot := false, name := ["M"] } ]
theorem wf : WF ws := by apply wf_of_length_le_3 <;> simp [ws]
example : (link ws 2 refs).ok = true := by decide
example : warnings ws 2 refs = [1] := by decide
example : removalEq ws 2 refs 1 = true ∧ removalEq ws 2 refs 0 = false := by decide
example : (link ws 2 refs).marks = [(2, 0)] := by decide
end nonvac

/-- the hypotheses of `C19_exact_partial` are satisfiable together (and the instance has a
    warned and an unwarned import) -/
theorem nonvac_justified : MarksJustified nonvac.ws 2 nonvac.ws[2] nonvac.refs := by
  intro imp himp hp hmark
  have hm : (link nonvac.ws 2 nonvac.refs).marks = [(2, 0)] := by decide
  rw [hm] at hmark
  have hi : imp.1 = 0 := by simpa using hmark
  refine ⟨0, { name := ["q", "M"], kind := .msg }, by decide, ?_⟩
  rw [hi]
  refine ⟨by decide, ?_⟩
  intro x hx hne
  have hx1 : x = (1, false) := by
    have : x ∈ [((0 : Nat), false), (1, false)] := hx
    simp only [List.mem_cons, List.not_mem_nil, or_false] at this
    rcases this with h | h
    · rw [h] at hne; exact absurd rfl hne
    · exact h
  rw [hx1]
  rintro ⟨g, r, hreach, f', hf', hans⟩
  cases hreach with
  | refl =>
    have : f' = nonvac.ws[1] := by
      have h1 : nonvac.ws[1]? = some nonvac.ws[1] := rfl
      rw [h1] at hf'; cases hf'; rfl
    subst this
    have hnone : findDesc ["q", "M"] nonvac.ws[1] = none := by decide
    rw [hnone] at hans; cases hans
  | step hf hb _ =>
    have h1 : nonvac.ws[1]? = some nonvac.ws[1] := rfl
    rw [h1] at hf; cases hf
    have hnil : nonvac.ws[1].imports = [] := rfl
    rw [hnil] at hb; cases hb

#print axioms used_iff_needed
#print axioms unused_removable
#print axioms C19_sound
#print axioms needed_not_warned
#print axioms C19_full_refuted
#print axioms used_not_removable_partial
#print axioms C19_exact_partial
#print axioms nonvac_justified
#print axioms optsType.removable
#print axioms pkgNamespace.removable
#print axioms discarded.removable

end PCV.Props.C19
