/-
C41 — Topological sort and prefix trie match their specifications.

Toposort (model `PCV.Model.Toposort` of internal/toposort):
* `sort_terminates`     the loop fuel suffices on every well-formed graph (cyclic or not)
* `sort_ok_sound`       whenever the sort completes, the output is duplicate-free, is exactly
                        the set of nodes reachable from the roots, and every node comes after
                        all of its children
* `sort_dag`            on a graph whose reachable part is acyclic the sort completes (+ the above)
* `sort_ok_acyclic` / `sort_cyclic_panics`   it completes ONLY then: a reachable cycle always
                        ends in the "cycle detected" panic
* `sort_full_refuted`   hence the property's clause "on cyclic input it still terminates and
                        yields each reachable node once" is false of the code (witness: 0 → 0)
* `sort_partial`        the strongest true version (= `sort_dag`)
* `pass_independent_of_history`  after any history of Sort calls and complete / broken-off /
                        panicking / nested passes on one Sorter, a pass over a sequence is
                        exactly a fresh `sort` of its own graph and roots

Trie (model `PCV.Model.Trie` of internal/trie), for every insertion history `ops`
(`build ops {} = some t`; `lastValue ops k` = value most recently inserted for `k`):
* `trie_prefixes_all_in_order`  `Prefixes(q)` = exactly the inserted keys that prefix `q`, with
                        their latest values, in strictly increasing length
* `trie_get_longest_prefix`     `Get(q)` = the longest of them (or `("", 0)` if there is none)
* `trie_grow_preserves`         widening the node index (uint8→16→32→64) changes no answer
* `build_total`                 `Insert` never reaches panic("unreachable") while the inserted keys
                        total < 2^62 bytes, so the theorems apply to every such history
The proofs go through a representation invariant (`PCV/Lemmas/Trie.lean`: `Shape`, `Lab`,
`NInv`) preserved by every iteration of `nybbles.insert`, including the failed insertion that
leaves a half-built path behind before `grow` and the retry (`Pend`).
-/
import PCV.Lemmas.Toposort
import PCV.Lemmas.Trie
namespace PCV.Props.C41
open PCV.Toposort

/-! ## Toposort -/

theorem nodup_reverse' {l : List Nat} (h : l.Nodup) : l.reverse.Nodup := by
  unfold List.Nodup at *
  rw [List.pairwise_reverse]
  exact h.imp (fun h => Ne.symm h)

theorem inner_none_ne_stopped {g} : ∀ fuel cfg out, inner g none fuel cfg ≠ .stopped out
  | 0, _, _ => by simp [inner]
  | f + 1, cfg, out => by
    unfold inner
    split
    · simp
    · split
      · exact inner_none_ne_stopped f _ out
      · simp
      · next cfg' h => exact absurd h step_none_ne_stop

theorem sortRoots_none_ne_stopped {g fuel} : ∀ rem cfg out,
    sortRoots g none fuel rem cfg ≠ .stopped out
  | [], _, _ => by simp [sortRoots]
  | r :: rem, cfg, out => by
    unfold sortRoots
    split
    · simp
    · split
      · exact sortRoots_none_ne_stopped rem _ out
      · next o hne =>
        intro h
        exact inner_none_ne_stopped _ _ _ h

/-- **Termination.** On every well-formed graph — cyclic or not, with or without a consumer
    limit — the model's loop fuel `|V| + |E| + 2` per root is never exhausted. -/
theorem sort_terminates {g : Graph} {roots : List Nat} (hwf : WF g roots) (limit : Option Nat) :
    sort g roots limit ≠ .outOfFuel := by
  have := sortRoots_fuel hwf.2 (limit := limit) roots initCfg hwf.1 rfl
  unfold sort
  split <;> simp_all

/-- **Soundness of a completed sort** (no assumption on the graph): the yielded nodes are
    pairwise distinct, are exactly the nodes reachable from the roots, and every node is
    yielded after all of its children. -/
theorem sort_ok_sound {g : Graph} {roots out : List Nat} (h : sort g roots = .ok out) :
    out.Nodup ∧ (∀ v, v ∈ out ↔ Reach g roots v) ∧
    (∀ u ∈ out, ∀ ch ∈ children g u, ∃ a b, out = a ++ u :: b ∧ ch ∈ a) := by
  unfold sort at h
  split at h
  · next cfg hdone =>
    simp only [Result.ok.injEq] at h
    obtain ⟨inv0, hs⟩ := sortRoots_inv roots [] initCfg cfg (fun r hr => hr) (initInv g roots) rfl hdone
    have inv := inv0.mono_R (R' := roots) (by intro r hr; simp [hr])
    subst h
    refine ⟨nodup_reverse' inv.nodup, ?_, ?_⟩
    · intro v
      rw [List.mem_reverse]
      exact ⟨inv.reach_out v, inv.final_reach hs v⟩
    · intro u hu ch hch
      rw [List.mem_reverse] at hu
      obtain ⟨a, b, hab, hb⟩ := inv.good.split hu
      refine ⟨b.reverse, a.reverse, by simp [hab], by simpa using hb ch hch⟩
  · simp at h
  · simp at h
  · simp at h

/-- A completed sort certifies that no reachable node lies on a cycle. -/
theorem sort_ok_acyclic {g : Graph} {roots out : List Nat} (h : sort g roots = .ok out) :
    AcyclicFrom g roots := by
  intro v hv hp
  unfold sort at h
  split at h
  · next cfg hdone =>
    obtain ⟨inv0, hs⟩ := sortRoots_inv roots [] initCfg cfg (fun r hr => hr) (initInv g roots) rfl hdone
    have inv := inv0.mono_R (R' := roots) (by intro r hr; simp [hr])
    have hmem := inv.final_reach hs v hv
    have := (inv.good.path_idx inv.nodup hp hmem).2
    omega
  · simp at h
  · simp at h
  · simp at h

/-- **C41, first sentence.** For any DAG (more generally: any well-formed graph in which no
    node reachable from the roots lies on a cycle) and any roots, the sort yields every
    reachable node exactly once, each after all of its children. -/
theorem sort_dag {g : Graph} {roots : List Nat} (hwf : WF g roots) (hac : AcyclicFrom g roots) :
    ∃ out, sort g roots = .ok out ∧ out.Nodup ∧ (∀ v, v ∈ out ↔ Reach g roots v) ∧
      (∀ u ∈ out, ∀ ch ∈ children g u, ∃ a b, out = a ++ u :: b ∧ ch ∈ a) := by
  have hfuel := sortRoots_fuel hwf.2 (limit := none) roots initCfg hwf.1 rfl
  rcases sortRoots_acyclic hac (fuel := fuelFor g) roots [] initCfg (fun r hr => hr)
    (initInv g roots) rfl with h | ⟨cfg, h⟩
  · exact absurd h hfuel
  · have hok : sort g roots = .ok cfg.out.reverse := by simp [sort, h]
    exact ⟨_, hok, sort_ok_sound hok⟩

/-- On a well-formed graph with a cycle reachable from the roots the sort always ends in the
    "cycle detected" panic (as the Go code does). -/
theorem sort_cyclic_panics {g : Graph} {roots : List Nat} (hwf : WF g roots)
    (hcyc : ¬ AcyclicFrom g roots) : ∃ out e, sort g roots = .panic out e := by
  cases h : sort g roots with
  | ok out => exact absurd (sort_ok_acyclic h) hcyc
  | outOfFuel => exact absurd h (sort_terminates hwf none)
  | panic out e => exact ⟨out, e, rfl⟩
  | stopped out =>
    exfalso
    unfold sort at h
    split at h
    · simp at h
    · simp at h
    · next o hst => exact sortRoots_none_ne_stopped _ _ _ hst
    · simp at h

/-- The property's toposort clauses at full strength: on EVERY well-formed input (cyclic ones
    included) the sort terminates normally and yields each reachable node exactly once, and on
    acyclic input every node comes after its children. -/
def sort_full : Prop :=
  ∀ (g : Graph) (roots : List Nat), WF g roots →
    ∃ out, sort g roots = .ok out ∧ out.Nodup ∧ (∀ v, v ∈ out ↔ Reach g roots v) ∧
      (AcyclicFrom g roots →
        ∀ u ∈ out, ∀ ch ∈ children g u, ∃ a b, out = a ++ u :: b ∧ ch ∈ a)

/-- the smallest cyclic input: one node with a self-loop -/
theorem sort_selfloop_panics :
    sort [[0]] [0] = .panic [] { suffix := [0], node := 0 } := by decide

/-- **Refutation of the cyclic clause**: the code panics on the graph `0 → 0` with root `0`. -/
theorem sort_full_refuted : ¬ sort_full := by
  intro h
  obtain ⟨out, hok, _⟩ := h [[0]] [0] ⟨by simp, by simp⟩
  rw [sort_selfloop_panics] at hok
  cases hok

/-- **Strongest true version**: `sort_full` restricted to inputs whose reachable part is
    acyclic (this is `sort_dag`); by `sort_cyclic_panics` the restriction is exactly the
    failing set. -/
theorem sort_partial :
    ∀ (g : Graph) (roots : List Nat), WF g roots → AcyclicFrom g roots →
    ∃ out, sort g roots = .ok out ∧ out.Nodup ∧ (∀ v, v ∈ out ↔ Reach g roots v) ∧
      (∀ u ∈ out, ∀ ch ∈ children g u, ∃ a b, out = a ++ u :: b ∧ ch ∈ a) :=
  fun _ _ hwf hac => sort_dag hwf hac

-- non-vacuity: a diamond DAG with a duplicate edge satisfies the hypotheses of `sort_dag`
example : sort [[1, 2, 1], [3], [3], []] [0, 3] = .ok [3, 1, 2, 0] := by decide
example : WF [[1, 2, 1], [3], [3], []] [0, 3] := ⟨by decide, by decide⟩
-- a two-node cycle below an acyclic prefix: one node is yielded before the panic
example : sort [[1], [2, 3], [], [1]] [2, 0] = .panic [2] { suffix := [1, 3], node := 1 } := by decide


/-! ### Re-using a Sorter: every pass over a sequence is a fresh sort -/

/-- a pass on a fresh Sorter is `sort`, and leaves the Sorter fresh (the deferred clear) -/
theorem range_fresh (g : Graph) (roots : List Nat) (limit : Option Nat) :
    Sorter.fresh.range g roots limit = (sort g roots limit, Sorter.fresh) := rfl

/-- the Sorter after any pass — completed, broken off, or panicked — is the fresh one -/
theorem range_leaves_fresh (s : Sorter) (g : Graph) (roots : List Nat) (limit : Option Nat) :
    (s.range g roots limit).2 = Sorter.fresh := rfl

theorem nest_leaves_fresh (s : Sorter) (g : Graph) (roots : List Nat) (j : Nat) :
    (s.nest g roots j).2 = Sorter.fresh := by
  unfold Sorter.nest
  split <;> rfl

/-- what a user does with one Sorter: make sequences (`Sort` calls), range over any of them
    any number of times with or without breaking off, or nest two passes -/
inductive Use where
  | sortCall
  | pass (g : Graph) (roots : List Nat) (limit : Option Nat)
  | nested (g : Graph) (roots : List Nat) (j : Nat)

def useStep (s : Sorter) : Use → Sorter
  | .sortCall => s.sortCall
  | .pass g roots limit => (s.range g roots limit).2
  | .nested g roots j => (s.nest g roots j).2

/-- **Passes are independent.** After ANY history of Sort calls, complete passes, broken-off
    passes, panicking passes and nested passes on a Sorter, a pass over a sequence made from
    `(g, roots)` returns exactly what a brand-new sort of `(g, roots)` returns. Hence ranging a
    sequence twice yields the same order twice, breaking off does not poison later passes,
    and sequences of different `Sort` calls do not influence each other. -/
theorem pass_independent_of_history (hist : List Use) (g : Graph) (roots : List Nat)
    (limit : Option Nat) :
    ((hist.foldl useStep Sorter.fresh).range g roots limit).1 = sort g roots limit := by
  have hstep : ∀ u, useStep Sorter.fresh u = Sorter.fresh := by
    intro u
    cases u with
    | sortCall => rfl
    | pass g r l => rfl
    | nested g r j => exact nest_leaves_fresh _ _ _ _
  have hfresh : ∀ (h : List Use), h.foldl useStep Sorter.fresh = Sorter.fresh := by
    intro h
    induction h with
    | nil => rfl
    | cons u h ih => rw [List.foldl_cons, hstep, ih]
  rw [hfresh]
  rfl

/-! ## Trie -/

section TrieProps
open PCV.Trie

/-- the insertion history as a program: `Trie.Insert` for every `(key, value)` in order
    (`none` = the model hit `panic("unreachable")`, which needs 2^64-1 nodes) -/
def build : List (Key × Nat) → Trie → Option Trie
  | [], t => some t
  | (k, v) :: ops, t =>
    match t.insert k v with
    | some t' => build ops t'
    | none => none

/-- the value most recently inserted for `k`, if any — the SPECIFICATION of the trie contents -/
def lastValue : List (Key × Nat) → Key → Option Nat
  | [], _ => none
  | (k0, v0) :: ops, k =>
    match lastValue ops k with
    | some v => some v
    | none => if k = k0 then some v0 else none

/-- `lastValue` is defined exactly on the inserted keys, and its value is one that was inserted
    for that key. -/
theorem lastValue_some_iff : ∀ (ops : List (Key × Nat)) (k : Key),
    (∃ v, lastValue ops k = some v) ↔ ∃ v, (k, v) ∈ ops
  | [], k => by simp [lastValue]
  | (k0, v0) :: ops, k => by
    have ih := lastValue_some_iff ops k
    simp only [lastValue, List.mem_cons, Prod.mk.injEq]
    cases hl : lastValue ops k with
    | some v =>
      obtain ⟨v', hv'⟩ := ih.mp ⟨v, hl⟩
      exact ⟨fun _ => ⟨v', Or.inr hv'⟩, fun _ => ⟨v, rfl⟩⟩
    | none =>
      have hno : ¬ ∃ v, (k, v) ∈ ops := fun h => by
        obtain ⟨v, hv⟩ := ih.mpr h
        rw [hl] at hv; cases hv
      by_cases hk : k = k0
      · subst hk
        simp
      · simp only [if_neg hk]
        constructor
        · rintro ⟨v, hv⟩; cases hv
        · rintro ⟨v, hv | hv⟩
          · exact absurd hv.1 hk
          · exact absurd ⟨v, hv⟩ hno

theorem lastValue_mem : ∀ (ops : List (Key × Nat)) (k : Key) (v : Nat),
    lastValue ops k = some v → (k, v) ∈ ops
  | [], _, _, h => by simp [lastValue] at h
  | (k0, v0) :: ops, k, v, h => by
    simp only [lastValue] at h
    cases hl : lastValue ops k with
    | some v' =>
      rw [hl] at h
      simp only [Option.some.injEq] at h
      subst h
      exact List.mem_cons_of_mem _ (lastValue_mem ops k v' hl)
    | none =>
      rw [hl] at h
      simp only [] at h
      split at h
      · next hk =>
        simp only [Option.some.injEq] at h
        subst h; subst hk
        simp
      · cases h

def mapOf : List (Key × Nat) → (Key → Option Nat) → Key → Option Nat
  | [], M => M
  | (k, v) :: ops, M => mapOf ops (upd M k v)

theorem mapOf_eq : ∀ (ops : List (Key × Nat)) (M : Key → Option Nat) (k : Key),
    mapOf ops M k = match lastValue ops k with | some v => some v | none => M k
  | [], _, _ => rfl
  | (k0, v0) :: ops, M, k => by
    simp only [mapOf, lastValue]
    rw [mapOf_eq ops]
    cases lastValue ops k with
    | some v => rfl
    | none =>
      simp only [upd]
      split <;> rfl

/-- the trie `t` represents the finite map `M` -/
def TInv (t : Trie) (M : Key → Option Nat) : Prop :=
  match t.impl with
  | none => ∀ k, M k = none
  | some i => NInv i t.vals M

theorem insert_inv {t t' : Trie} {M : Key → Option Nat} {key : Key} {v : Nat}
    (inv : TInv t M) (h : t.insert key v = some t') : TInv t' (upd M key v) := by
  unfold Trie.insert at h
  unfold TInv at inv
  cases himpl : t.impl with
  | none =>
    rw [himpl] at inv h
    simp only [] at h
    rw [insertAgain_empty] at h
    have hM : M = fun _ => none := funext inv
    cases hag : insertAgain 4 rootNyb key with
    | none => rw [hag] at h; simp at h
    | some r =>
      obtain ⟨impl', n⟩ := r
      rw [hag] at h
      simp only [Option.some.injEq] at h
      subst h
      have := (rootNyb_inv t.vals).insert v hag
      rw [hM]
      exact this
  | some i =>
    rw [himpl] at inv h
    simp only [] at h
    cases hag : insertAgain 4 i key with
    | none => rw [hag] at h; simp at h
    | some r =>
      obtain ⟨impl', n⟩ := r
      rw [hag] at h
      simp only [Option.some.injEq] at h
      subst h
      exact inv.insert v hag

theorem build_inv : ∀ (ops : List (Key × Nat)) {t t' : Trie} {M : Key → Option Nat},
    TInv t M → build ops t = some t' → TInv t' (mapOf ops M)
  | [], _, _, _, inv, h => by
    simp only [build, Option.some.injEq] at h
    subst h; exact inv
  | (k, v) :: ops, t, t', M, inv, h => by
    simp only [build] at h
    cases hi : t.insert k v with
    | none => rw [hi] at h; simp at h
    | some t1 =>
      rw [hi] at h
      exact build_inv ops (insert_inv inv hi) h

theorem prefixes_ref {t : Trie} {M : Key → Option Nat} (inv : TInv t M) (q : Key) :
    t.prefixes q = refPrefixes M q := by
  unfold TInv at inv
  cases himpl : t.impl with
  | none =>
    rw [himpl] at inv
    have h1 : t.prefixes q = [] := by simp [Trie.prefixes, himpl]
    have h2 : refPrefixes M q = [] := by
      unfold refPrefixes
      rw [refFrom_nil M q [] (fun x _ => inv _)]
      simp [optEntry, inv]
    rw [h1, h2]
  | some i =>
    rw [himpl] at inv
    have : t = { impl := some i, vals := t.vals } := by
      cases t; simp_all
    rw [this]
    exact prefixes_eq_ref inv q

theorem emptyInv : TInv {} (fun _ => none) := fun _ => rfl

/-- **C41, trie, "lists all such prefixes in order".** After any sequence of insertions,
    `Prefixes(q)` yields exactly the inserted keys that are prefixes of `q`, each with the value
    of its most recent insertion, in strictly increasing length (hence each exactly once). -/
theorem trie_prefixes_all_in_order {ops : List (Key × Nat)} {t : Trie}
    (h : build ops {} = some t) (q : Key) :
    (∀ p v, (p, v) ∈ t.prefixes q ↔ p <+: q ∧ lastValue ops p = some v) ∧
    (t.prefixes q).Pairwise (fun a b => a.1.length < b.1.length) := by
  have inv := build_inv ops emptyInv h
  rw [prefixes_ref inv q]
  refine ⟨?_, refPrefixes_sorted _ q⟩
  intro p v
  rw [mem_refPrefixes, mapOf_eq]
  cases lastValue ops p <;> simp

theorem pairwise_getLast {α} {R : α → α → Prop} : ∀ {l : List α} {x : α},
    l.Pairwise R → l.getLast? = some x → x ∈ l ∧ ∀ y ∈ l, y = x ∨ R y x
  | [], _, _, h => by simp at h
  | [a], x, _, h => by
    simp at h; subst h; simp
  | a :: b :: l, x, hp, h => by
    have hp' := List.pairwise_cons.mp hp
    have h' : (b :: l).getLast? = some x := by simpa [List.getLast?_cons_cons] using h
    obtain ⟨h1, h2⟩ := pairwise_getLast hp'.2 h'
    refine ⟨List.mem_cons_of_mem _ h1, ?_⟩
    intro y hy
    rcases List.mem_cons.mp hy with rfl | hy
    · exact Or.inr (hp'.1 x h1)
    · exact h2 y hy

/-- **C41, trie, "returns the longest inserted key that prefixes the query".** After any
    sequence of insertions: if no inserted key is a prefix of `q`, `Get(q)` returns `("", 0)`;
    otherwise it returns an inserted key `p` that is a prefix of `q`, with the value of its most
    recent insertion, and no inserted prefix of `q` is longer than `p`. -/
theorem trie_get_longest_prefix {ops : List (Key × Nat)} {t : Trie}
    (h : build ops {} = some t) (q : Key) :
    ((∀ p, p <+: q → lastValue ops p = none) → t.get q = ([], 0)) ∧
    (∀ p0 v0, p0 <+: q → lastValue ops p0 = some v0 →
      ∃ p v, t.get q = (p, v) ∧ p <+: q ∧ lastValue ops p = some v ∧
        ∀ p', p' <+: q → lastValue ops p' ≠ none → p'.length ≤ p.length) := by
  obtain ⟨hmem, hsorted⟩ := trie_prefixes_all_in_order h q
  constructor
  · intro hnone
    have : t.prefixes q = [] := by
      cases hl : t.prefixes q with
      | nil => rfl
      | cons e l =>
        obtain ⟨p, v⟩ := e
        have := (hmem p v).mp (by rw [hl]; simp)
        rw [hnone p this.1] at this
        simp at this
    simp [Trie.get, this]
  · intro p0 v0 hp0 hv0
    have hin : (p0, v0) ∈ t.prefixes q := (hmem p0 v0).mpr ⟨hp0, hv0⟩
    cases hlast : (t.prefixes q).getLast? with
    | none =>
      rw [List.getLast?_eq_none_iff] at hlast
      rw [hlast] at hin; simp at hin
    | some x =>
      obtain ⟨p, v⟩ := x
      obtain ⟨hx, hmax⟩ := pairwise_getLast hsorted hlast
      obtain ⟨hp, hv⟩ := (hmem p v).mp hx
      refine ⟨p, v, by simp [Trie.get, hlast], hp, hv, ?_⟩
      intro p' hp' hv'
      cases hl : lastValue ops p' with
      | none => exact absurd hl hv'
      | some v' =>
        rcases hmax (p', v') ((hmem p' v').mpr ⟨hp', hl⟩) with e | e
        · simp only [Prod.mk.injEq] at e; rw [e.1]; exact Nat.le_refl _
        · exact Nat.le_of_lt e

/-- **Index growth preserves the contents**: `grow` (uint8 → uint16 → uint32 → uint64) keeps
    the representation invariant for the same abstract map, so every lookup answers as before. -/
theorem trie_grow_preserves {t : Nyb} {vals : List Nat} {M : Key → Option Nat} {w : Nat}
    (inv : NInv t vals M) (hw : t.sent < 2 ^ w - 1) (q : Key) :
    NInv (grow w t) vals M ∧
    Trie.prefixes { impl := some (grow w t), vals := vals } q =
      Trie.prefixes { impl := some t, vals := vals } q := by
  obtain ⟨hk, lk, lab, hsound⟩ := inv.lab
  obtain ⟨sh2, lab2, ext2, _, _⟩ := grow_ok inv.shape lab hw
  have hlen1 : (grow w t).hi.length = t.hi.length := by simp [grow]
  have hlen2 : (grow w t).lo.length = t.lo.length := by simp [grow]
  have inv2 : NInv (grow w t) vals M := by
    refine ⟨sh2, by rw [hlen1, hlen2]; exact inv.strict, ⟨hk, lk, lab2, hsound⟩, ?_⟩
    intro k v hM
    obtain ⟨n, h1, h2, h3⟩ := inv.complete k v hM
    exact ⟨n, ext2.nodeFrom _ _ _ h1 (Nat.lt_of_lt_of_le (hasV_lt h2) inv.shape.has_le), h2, h3⟩
  exact ⟨inv2, by rw [prefixes_eq_ref inv2, prefixes_eq_ref inv]⟩

def totalBytes (ops : List (Key × Nat)) : Nat := (ops.map (fun p => p.1.length)).sum

/-- size bookkeeping: the trie has at most `1 + 4·B` hi nodes and a width the type switch knows -/
def Small (t : Trie) (B : Nat) : Prop :=
  match t.impl with
  | none => True
  | some i => 0 < i.hi.length ∧ 0 < stage i.bits ∧ i.hi.length ≤ 1 + 4 * B

theorem stage_le (b : Nat) : stage b ≤ 4 := by
  unfold stage; repeat (first | split | omega)

theorem insert_total {t : Trie} {B : Nat} (key : Key) (v : Nat) (hs : Small t B)
    (hsmall : 1 + 4 * (B + key.length) < 2 ^ 64 - 1) :
    ∃ t', t.insert key v = some t' ∧ Small t' (B + key.length) := by
  unfold Trie.insert
  unfold Small at hs
  cases himpl : t.impl with
  | none =>
    simp only []
    rw [insertAgain_empty]
    obtain ⟨t', n, e1, e2, e3, e4⟩ := insertAgain_total 4 key rootNyb (by simp [rootNyb])
      (by decide) (by decide) (by simp [rootNyb]; omega)
    rw [e1]
    refine ⟨_, rfl, ?_⟩
    simp only [Small]
    refine ⟨e2, e3, ?_⟩
    simp [rootNyb] at e4; omega
  | some i =>
    rw [himpl] at hs
    simp only []
    obtain ⟨h1, h2, h3⟩ := hs
    obtain ⟨t', n, e1, e2, e3, e4⟩ := insertAgain_total 4 key i h1 h2 (stage_le _) (by omega)
    rw [e1]
    refine ⟨_, rfl, ?_⟩
    simp only [Small]
    exact ⟨e2, e3, by omega⟩

theorem build_total_aux : ∀ (ops : List (Key × Nat)) (t : Trie) (B : Nat), Small t B →
    1 + 4 * (B + totalBytes ops) < 2 ^ 64 - 1 → ∃ t', build ops t = some t'
  | [], t, _, _, _ => ⟨t, rfl⟩
  | (k, v) :: ops, t, B, hs, hsmall => by
    have htb : totalBytes ((k, v) :: ops) = k.length + totalBytes ops := by
      simp [totalBytes]
    rw [htb] at hsmall
    obtain ⟨t1, e1, hs1⟩ := insert_total k v hs (by omega)
    simp only [build, e1]
    exact build_total_aux ops t1 (B + k.length) hs1 (by omega)

/-- **`Insert` never reaches `panic("unreachable")`** as long as the inserted keys total fewer
    than 2^62 bytes: then every history builds, so the trie theorems above apply to it. -/
theorem build_total (ops : List (Key × Nat)) (h : totalBytes ops < 2 ^ 62 - 1) :
    ∃ t, build ops {} = some t :=
  build_total_aux ops {} 0 (by simp [Small]) (by omega)


-- non-vacuity: a concrete history (re-insertion, empty key, shared nybbles) builds and answers
example : (build [([0x61], 1), ([0x61, 0x62], 2), ([], 3), ([0x61], 4), ([0x6f], 5)] {}).map
    (fun t => (t.prefixes [0x61, 0x62, 0x63], t.get [0x61, 0x63], t.get [0x70])) =
    some ([([], 3), ([0x61], 4), ([0x61, 0x62], 2)], ([0x61], 4), ([], 3)) := by decide

end TrieProps

end PCV.Props.C41

#print axioms PCV.Props.C41.sort_terminates
#print axioms PCV.Props.C41.sort_ok_sound
#print axioms PCV.Props.C41.sort_ok_acyclic
#print axioms PCV.Props.C41.sort_dag
#print axioms PCV.Props.C41.sort_cyclic_panics
#print axioms PCV.Props.C41.sort_full_refuted
#print axioms PCV.Props.C41.sort_partial
#print axioms PCV.Props.C41.trie_prefixes_all_in_order
#print axioms PCV.Props.C41.trie_get_longest_prefix
#print axioms PCV.Props.C41.trie_grow_preserves
#print axioms PCV.Props.C41.build_total
#print axioms PCV.Props.C41.lastValue_some_iff
#print axioms PCV.Props.C41.pass_independent_of_history
