/-
C06 (termination half, ALL import graphs): no reachable state of the executor LTS is stuck while a
requested result is missing — for every import graph (cyclic or not), every parallelism ≥ 1, every
fault plan and every interleaving. This is the deadlock-freedom argument of
`checkForDependencyCycle`: of the files on an import cycle, the one that publishes its `blockedOn`
list last finds the cycle when it checks the dependency that leads back to it.

The LTS records this with three ghost fields (`St.clock`, `Task.pub`, `Task.flag`): when a dependency
`d` of `f` has been compiled, `flag` says whether a chain of `blockedOn` links leads from `d` back to
`f` through files published before `f`; such links cannot disappear while `f` is checking, so the
check that follows must fail — the only transition left for `f` is the `cycle` event.
-/
import PCV.Props.C06T
import Mathlib.Data.List.Nodup
namespace PCV.Props.C06D
open PCV.Exec PCV.Props.C07 PCV.Props.C05 PCV.Props.C06T

/-! ### Ghost discipline of a single task -/

def live : Pc → Bool
  | .deps _ | .waiting _ => true
  | _ => false

def Gat (w : World) (f : File) (t : Task) : Prop :=
  (t.blockedOn = [] ∨ t.blockedOn = w.imports f) ∧
  (live t.pc = true → t.blockedOn = w.imports f ∧ w.imports f ≠ []) ∧
  (t.flag = true → ∃ i, t.pc = .deps (i+1))

def G (w : World) (s : St) : Prop := ∀ f t, s.task f = some t → Gat w f t

theorem G_step (w : World) (s s' : St) (e : Ev) (hG : G w s) (h : step w s e = some s') : G w s' := by
  obtain ⟨f, hf⟩ : ∃ f, f = e.file := ⟨_, rfl⟩
  unfold G at *
  cases e <;> simp only [Ev.file] at hf <;> subst hf <;> simp only [step] at h
  all_goals (repeat' split at h)
  all_goals (try (simp at h))
  all_goals (try (obtain ⟨h1, h2⟩ := h))
  all_goals (try subst s')
  all_goals (try (apply pointwise_set (fun g t => Gat w g t) _ _ _ _ _ hG))
  all_goals (try (simp [Gat, live]; done))
  all_goals (try (have hg := hG f _ (by assumption); simp_all [Gat, live]; done))
  · -- blocked: publication
    rename_i ds _ t ht hc
    simp only [Bool.and_eq_true, beq_iff_eq, Bool.not_eq_true', List.isEmpty_eq_false_iff] at hc
    obtain ⟨⟨⟨_, hds⟩, hne⟩, _⟩ := hc
    subst hds
    exact ⟨Or.inr rfl, fun _ => ⟨rfl, hne⟩, by simp⟩
  · -- complete
    rename_i t ht hc
    have hg := hG f t ht
    simp only [Bool.and_eq_true, Bool.or_eq_true, beq_iff_eq] at hc
    refine ⟨hg.1, by simp [live], ?_⟩
    intro hfl
    obtain ⟨i, hi⟩ := hg.2.2 hfl
    rcases hc.1.1 with ⟨hpc, _⟩ | hpc <;> simp [hpc] at hi
  · intro g tg hg; exact hG g tg hg

theorem G_reachable (w : World) (s : St) (h : Reachable w s) : G w s := by
  induction h with
  | init => intro f t h; simp [init, St.task] at h
  | step _ hs ih => exact G_step w _ _ _ ih hs

/-! ### What a transition does to the published `blockedOn` lists -/

/-- the part of a task the cycle check of other tasks can see -/
def gh (t : Task) : List File × Nat := (t.blockedOn, t.pub)

theorem ghost_step (w : World) (s s' : St) (e : Ev) (h : step w s e = some s') :
    (∀ x, x ≠ e.file → s'.task x = s.task x) ∧
    ((s'.clock = s.clock ∧ (s'.task e.file).map gh = (s.task e.file).map gh)
     ∨ (s'.clock = s.clock + 1 ∧ ∃ t', s'.task e.file = some t' ∧ t'.blockedOn = w.imports e.file ∧
        t'.pub = s.clock ∧ t'.pc = .deps 0 ∧ t'.flag = false)
     ∨ (s'.clock = s.clock ∧ ∃ t', s'.task e.file = some t' ∧ t'.blockedOn = [])) := by
  obtain ⟨f, hf⟩ : ∃ f, f = e.file := ⟨_, rfl⟩
  cases e <;> simp only [Ev.file] at hf <;> subst hf <;> simp only [step] at h
  all_goals (repeat' split at h)
  all_goals (try (simp at h))
  all_goals (try (obtain ⟨h1, h2⟩ := h))
  all_goals (try subst s')
  all_goals (simp only [Ev.file])
  all_goals (refine ⟨fun x hx => ?_, ?_⟩)
  all_goals (try (exact set_task_other _ _ _ _ hx))
  all_goals (try (refine Or.inl ⟨rfl, ?_⟩; simp [gh, *]; done))
  all_goals (try rfl)
  · exact Or.inr (Or.inr ⟨rfl, _, set_task_same _ _ _, rfl⟩)
  · rename_i ds _ t ht hc
    simp only [Bool.and_eq_true, beq_iff_eq] at hc
    obtain ⟨⟨⟨_, hds⟩, _⟩, _⟩ := hc
    subst hds
    exact Or.inr (Or.inl ⟨rfl, _, set_task_same _ _ _, rfl, rfl, rfl, rfl⟩)
  · exact Or.inr (Or.inr ⟨rfl, _, set_task_same _ _ _, rfl⟩)
  · exact Or.inl (by simp [St.task])

theorem map_gh_some {o o' : Option Task} {t' : Task} (h : o'.map gh = o.map gh) (h' : o' = some t') :
    ∃ t, o = some t ∧ t.blockedOn = t'.blockedOn ∧ t.pub = t'.pub := by
  subst h'
  cases o with
  | none => simp at h
  | some t =>
    simp only [Option.map_some, Option.some.injEq, gh, Prod.mk.injEq] at h
    exact ⟨t, rfl, h.1.symm, h.2.symm⟩

/-! ### Publication stamps -/

def P (s : St) : Prop :=
  (∀ x tx, s.task x = some tx → tx.blockedOn ≠ [] → tx.pub < s.clock) ∧
  (∀ x y tx ty, s.task x = some tx → s.task y = some ty → tx.blockedOn ≠ [] → ty.blockedOn ≠ [] →
     tx.pub = ty.pub → x = y)

theorem P_step (w : World) (s s' : St) (e : Ev) (hP : P s) (h : step w s e = some s') : P s' := by
  obtain ⟨hfr, hgh⟩ := ghost_step w s s' e h
  obtain ⟨hPa, hPb⟩ := hP
  have hclk : s.clock ≤ s'.clock := by
    rcases hgh with ⟨hc, _⟩ | ⟨hc, _⟩ | ⟨hc, _⟩ <;> omega
  -- every published task of s' other than a freshly published one was published in s with the same stamp
  have hold : ∀ x tx', s'.task x = some tx' → tx'.blockedOn ≠ [] →
      (∃ tx, s.task x = some tx ∧ tx.blockedOn = tx'.blockedOn ∧ tx.pub = tx'.pub) ∨
      (x = e.file ∧ tx'.pub = s.clock ∧ s'.clock = s.clock + 1) := by
    intro x tx' hx hne
    by_cases hxf : x = e.file
    · subst hxf
      rcases hgh with ⟨_, hm⟩ | ⟨hc, t', ht', _, hpub, _⟩ | ⟨_, t', ht', hb⟩
      · exact Or.inl (map_gh_some hm hx)
      · rw [hx] at ht'; cases ht'; exact Or.inr ⟨rfl, hpub, hc⟩
      · rw [hx] at ht'; cases ht'; exact absurd hb hne
    · rw [hfr x hxf] at hx; exact Or.inl ⟨tx', hx, rfl, rfl⟩
  refine ⟨?_, ?_⟩
  · intro x tx' hx hne
    rcases hold x tx' hx hne with ⟨tx, h1, h2, h3⟩ | ⟨_, h2, h3⟩
    · have := hPa x tx h1 (by rw [h2]; exact hne); omega
    · omega
  · intro x y tx' ty' hx hy hnx hny heq
    rcases hold x tx' hx hnx with ⟨tx, h1, h2, h3⟩ | ⟨hxf, h2, h3⟩ <;>
      rcases hold y ty' hy hny with ⟨ty, g1, g2, g3⟩ | ⟨hyf, g2, g3⟩
    · exact hPb x y tx ty h1 g1 (by rw [h2]; exact hnx) (by rw [g2]; exact hny) (by omega)
    · have := hPa x tx h1 (by rw [h2]; exact hnx); omega
    · have := hPa y ty g1 (by rw [g2]; exact hny); omega
    · rw [hxf, hyf]

theorem P_reachable (w : World) (s : St) (h : Reachable w s) : P s := by
  induction h with
  | init => exact ⟨by intro x tx h; simp [init, St.task] at h, by intro x y tx ty h; simp [init, St.task] at h⟩
  | step _ hs ih => exact P_step w _ _ _ ih hs

/-! ### Chains of published `blockedOn` links -/

/-- a `blockedOn` link x → z whose source was published before stamp `p` -/
def Bedge (s : St) (p : Nat) (x z : File) : Prop := ∃ tx, s.task x = some tx ∧ tx.pub < p ∧ z ∈ tx.blockedOn

/-- a chain of `k ≥ 1` such links -/
inductive RW (s : St) (p : Nat) : File → File → Nat → Prop
  | one {x z : File} : Bedge s p x z → RW s p x z 1
  | cons {x y z : File} {k : Nat} : Bedge s p x y → RW s p y z k → RW s p x z (k+1)

theorem RW_mono {s s' : St} {p : Nat} (hE : ∀ x z, Bedge s' p x z → Bedge s p x z) {x z : File} {k : Nat}
    (h : RW s' p x z k) : RW s p x z k := by
  induction h with
  | one hb => exact RW.one (hE _ _ hb)
  | cons hb _ ih => exact RW.cons (hE _ _ hb) ih

theorem RW_pos {s : St} {p : Nat} {x z : File} {k : Nat} (h : RW s p x z k) : 1 ≤ k := by
  cases h <;> omega

/-- the executable search is exactly "a chain of at most `fuel` links exists" -/
theorem rpath_iff (s : St) (p : Nat) (g : File) : ∀ fuel x,
    rpath s.tasks p fuel x g = true ↔ ∃ k, k ≤ fuel ∧ RW s p x g k := by
  intro fuel
  induction fuel with
  | zero =>
    intro x
    simp only [rpath, Bool.false_eq_true, false_iff]
    rintro ⟨k, hk, hrw⟩
    have := RW_pos hrw; omega
  | succ fuel ih =>
    intro x
    have hdef : rpath s.tasks p (fuel+1) x g =
        (match s.task x with
         | some tx => decide (tx.pub < p) && tx.blockedOn.any (fun z => z == g || rpath s.tasks p fuel z g)
         | none => false) := rfl
    rw [hdef]
    constructor
    · intro h
      cases hx : s.task x with
      | none => rw [hx] at h; cases h
      | some tx =>
        rw [hx] at h
        simp only [Bool.and_eq_true, decide_eq_true_eq, List.any_eq_true, Bool.or_eq_true, beq_iff_eq] at h
        obtain ⟨hp, z, hz, hzg⟩ := h
        rcases hzg with rfl | hrec
        · exact ⟨1, by omega, RW.one ⟨tx, hx, hp, hz⟩⟩
        · obtain ⟨k, hk, hrw⟩ := (ih z).mp hrec
          exact ⟨k+1, by omega, RW.cons ⟨tx, hx, hp, hz⟩ hrw⟩
    · rintro ⟨k, hk, hrw⟩
      cases hrw with
      | one hb =>
        obtain ⟨tx, hx, hp, hz⟩ := hb
        rw [hx]
        simp only [Bool.and_eq_true, decide_eq_true_eq, List.any_eq_true, Bool.or_eq_true, beq_iff_eq]
        exact ⟨hp, g, hz, Or.inl rfl⟩
      | cons hb hrw' =>
        obtain ⟨tx, hx, hp, hz⟩ := hb
        rw [hx]
        simp only [Bool.and_eq_true, decide_eq_true_eq, List.any_eq_true, Bool.or_eq_true, beq_iff_eq]
        exact ⟨hp, _, hz, Or.inr ((ih _).mpr ⟨_, by omega, hrw'⟩)⟩

/-- links visible below a stamp that is already in the past do not appear any more -/
theorem bedge_step (w : World) (s s' : St) (e : Ev) (h : step w s e = some s') (p : Nat)
    (hp : p ≤ s.clock) (x z : File) (hb : Bedge s' p x z) : Bedge s p x z := by
  obtain ⟨hfr, hgh⟩ := ghost_step w s s' e h
  obtain ⟨tx', hx, hpub, hz⟩ := hb
  by_cases hxf : x = e.file
  · subst hxf
    rcases hgh with ⟨_, hm⟩ | ⟨_, t', ht', _, hpub', _⟩ | ⟨_, t', ht', hbl⟩
    · obtain ⟨tx, h1, h2, h3⟩ := map_gh_some hm hx
      exact ⟨tx, h1, by omega, by rw [h2]; exact hz⟩
    · rw [hx] at ht'; cases ht'; omega
    · rw [hx] at ht'; cases ht'; rw [hbl] at hz; cases hz
  · rw [hfr x hxf] at hx; exact ⟨tx', hx, hpub, hz⟩

/-! ### The dependencies whose cycle check a task has passed -/

/-- dependencies of `g` whose check has passed (those a task may end up waiting for) -/
def clearedL (w : World) (g : File) (t : Task) : List File :=
  match t.pc with
  | .deps i => (w.imports g).take (if t.flag then i - 1 else i)
  | .waiting _ => w.imports g
  | _ => []

theorem live_of_cleared (w : World) (g : File) (t : Task) (y : File) (h : y ∈ clearedL w g t) :
    live t.pc = true := by
  unfold clearedL at h
  split at h <;> simp_all [live]

theorem cleared_step (w : World) (s s' : St) (e : Ev) (h : step w s e = some s') :
    ∀ t', s'.task e.file = some t' → ∀ y ∈ clearedL w e.file t',
      ∃ t, s.task e.file = some t ∧ t'.blockedOn = t.blockedOn ∧ t'.pub = t.pub ∧
        (y ∈ clearedL w e.file t ∨ (y ≠ e.file ∧ rpath s.tasks t.pub t.pub y e.file = false)) := by
  obtain ⟨f, hf⟩ : ∃ f, f = e.file := ⟨_, rfl⟩
  cases e <;> simp only [Ev.file] at hf <;> subst hf <;> simp only [step] at h
  all_goals (repeat' split at h)
  all_goals (try (simp at h))
  all_goals (try (obtain ⟨h1, h2⟩ := h))
  all_goals (try subst s')
  all_goals (simp only [Ev.file])
  all_goals (intro t' ht' y hy)
  all_goals (try (rw [set_task_same] at ht'; cases ht'))
  all_goals (try (simp [clearedL] at hy; done))
  · -- dep(f, d)
    rename_i d _ t ht _ i hpc hc
    simp only [Bool.and_eq_true, beq_iff_eq, Bool.not_eq_true'] at hc
    simp only [bne_iff_ne] at hc
    obtain ⟨⟨⟨⟨hA, hne⟩, _⟩, hfl⟩, _⟩ := hc
    refine ⟨t, ht, rfl, rfl, ?_⟩
    cases hr : rpath s.tasks t.pub t.pub d f with
    | true =>
      simp only [clearedL, hr, if_true, Nat.add_sub_cancel] at hy
      exact Or.inl (by simpa [clearedL, hpc, hfl] using hy)
    | false =>
      simp only [clearedL, hr, Bool.false_eq_true, if_false, List.take_add_one, List.mem_append] at hy
      rcases hy with hy | hy
      · exact Or.inl (by simpa [clearedL, hpc, hfl] using hy)
      · rw [hA] at hy
        have : y = d := by simpa using hy
        subst this
        exact Or.inr ⟨hne, hr⟩
  · -- release at the end of the dependency loop
    rename_i t ht _ _ i hpc hc
    simp only [Bool.and_eq_true, beq_iff_eq, Bool.not_eq_true'] at hc
    obtain ⟨hi, hfl⟩ := hc
    refine ⟨t, ht, rfl, rfl, Or.inl ?_⟩
    simp only [clearedL] at hy
    simp [clearedL, hpc, hfl, hi, hy]
  · -- release of a finished task
    rename_i t ht _ _ ok hpc
    simp [clearedL, hpc] at hy
  · -- waited(f, d) ok
    rename_i d _ t ht _ i hpc hc _ td hd _ hdpc
    refine ⟨t, ht, rfl, rfl, Or.inl ?_⟩
    simp only [clearedL] at hy
    simp [clearedL, hpc, hy]
  · exact ⟨t', ht', rfl, rfl, Or.inl hy⟩

/-- Y: a dependency whose check `g` has passed does not lead back to `g` through files published
    before `g` -/
def Y (w : World) (s : St) : Prop :=
  ∀ g tg, s.task g = some tg → ∀ y ∈ clearedL w g tg, y ≠ g ∧ ∀ k, k ≤ tg.pub → ¬ RW s tg.pub y g k

theorem Y_step (w : World) (s s' : St) (e : Ev) (hG' : G w s') (hP : P s) (hY : Y w s)
    (h : step w s e = some s') : Y w s' := by
  intro g tg' hg' y hy
  have hlive := live_of_cleared w g tg' y hy
  have hbl : tg'.blockedOn ≠ [] := by
    have := (hG' g tg' hg').2.1 hlive
    rw [this.1]; exact this.2
  by_cases hgf : g = e.file
  · subst hgf
    obtain ⟨t, ht, hb, hpub, hcl⟩ := cleared_step w s s' e h tg' hg' y hy
    have hlt : t.pub < s.clock := hP.1 _ t ht (by rw [← hb]; exact hbl)
    have hmono : ∀ k, RW s' tg'.pub y e.file k → RW s t.pub y e.file k := by
      intro k hrw
      rw [hpub] at hrw
      exact RW_mono (fun x z hb => bedge_step w s s' e h t.pub (by omega) x z hb) hrw
    rcases hcl with hcl | ⟨hne, hcl⟩
    · exact ⟨(hY _ t ht y hcl).1, fun k hk hrw => (hY _ t ht y hcl).2 k (by omega) (hmono k hrw)⟩
    · refine ⟨hne, fun k hk hrw => ?_⟩
      have := (rpath_iff s t.pub e.file t.pub y).mpr ⟨k, by omega, hmono k hrw⟩
      rw [hcl] at this; cases this
  · have hfr := (ghost_step w s s' e h).1 g hgf
    rw [hfr] at hg'
    have hlt : tg'.pub < s.clock := hP.1 g tg' hg' hbl
    refine ⟨(hY g tg' hg' y hy).1, fun k hk hrw => ?_⟩
    have hrw' : RW s tg'.pub y g k :=
      RW_mono (fun x z hb => bedge_step w s s' e h tg'.pub (by omega) x z hb) hrw
    exact (hY g tg' hg' y hy).2 k hk hrw'

theorem Y_reachable (w : World) (s : St) (h : Reachable w s) : Y w s := by
  induction h with
  | init => intro g tg h; simp [init, St.task] at h
  | step hr hs ih =>
    exact Y_step w _ _ _ (G_reachable w _ (Reachable.step hr hs)) (P_reachable w _ hr) ih hs

/-! ### A raised flag means a genuine import cycle -/

theorem reach_of_RW (w : World) (s : St) (hG : G w s) (p : Nat) {x z : File} {k : Nat}
    (h : RW s p x z k) : TReach w x z := by
  have hedge : ∀ a b, Bedge s p a b → b ∈ w.imports a := by
    intro a b ⟨ta, hta, _, hb⟩
    rcases (hG a ta hta).1 with h0 | h1
    · rw [h0] at hb; cases hb
    · rw [h1] at hb; exact hb
  induction h with
  | one hb => exact ⟨_, hedge _ _ hb, Reach.refl _⟩
  | cons hb _ ih =>
    obtain ⟨d, hd, hr⟩ := ih
    exact ⟨_, hedge _ _ hb, Reach.step hd hr⟩

/-- FC: the flag is only ever raised for a file that lies on an import cycle -/
def FC (w : World) (s : St) : Prop := ∀ f t, s.task f = some t → t.flag = true → w.reachesCycle f = true

theorem FC_step (w : World) (s s' : St) (e : Ev) (hG : G w s) (hF : FC w s) (h : step w s e = some s') :
    FC w s' := by
  obtain ⟨f, hf⟩ : ∃ f, f = e.file := ⟨_, rfl⟩
  unfold FC at *
  cases e <;> simp only [Ev.file] at hf <;> subst hf <;> simp only [step] at h
  all_goals (repeat' split at h)
  all_goals (try (simp at h))
  all_goals (try (obtain ⟨h1, h2⟩ := h))
  all_goals (try subst s')
  all_goals (try (apply pointwise_set (fun g t => t.flag = true → w.reachesCycle g = true) _ _ _ _ _ hF))
  all_goals (try (simp; done))
  all_goals (try (dsimp only; exact hF f _ (by assumption)))
  · -- dep(f, d): the flag is raised only if a chain of links leads from d back to f
    rename_i d _ t ht _ i hpc hc
    simp only [Bool.and_eq_true, beq_iff_eq] at hc
    obtain ⟨⟨⟨⟨hA, _⟩, _⟩, _⟩, _⟩ := hc
    dsimp only
    intro hfl
    obtain ⟨k, _, hrw⟩ := (rpath_iff s t.pub f t.pub d).mp hfl
    obtain ⟨d', hd', hr⟩ := reach_of_RW w s hG t.pub hrw
    exact reachesCycle_complete w f ⟨d, List.mem_of_getElem? hA, Reach.step hd' hr⟩
  · intro g tg hg; exact hF g tg hg

theorem FC_reachable (w : World) (s : St) (h : Reachable w s) : FC w s := by
  induction h with
  | init => intro f t h; simp [init, St.task] at h
  | step hr hs ih => exact FC_step w _ _ _ (G_reachable w _ hr) ih hs

/-! ### Enabledness -/

def Enabled (w : World) (s : St) : Prop := ∃ e s', step w s e = some s'

def Enabled' (w : World) (s : St) : Prop := ∃ e, (step w s e).isSome = true

theorem enabled_of_enabled' (w : World) (s : St) (h : Enabled' w s) : Enabled w s := by
  obtain ⟨e, he⟩ := h
  cases hs : step w s e with
  | none => rw [hs] at he; cases he
  | some s' => exact ⟨e, s', hs⟩

theorem mem_of_task (s : St) (f : File) (t : Task) (h : s.task f = some t) : (f, t) ∈ s.tasks := by
  unfold St.task at h
  cases hf : s.tasks.find? (·.1 == f) with
  | none => simp [hf] at h
  | some x =>
    rw [hf] at h
    have hm := List.mem_of_find?_eq_some hf
    have hx : x.1 = f := by simpa using List.find?_some hf
    have ht : x.2 = t := by simpa using h
    rw [← hx, ← ht]; exact hm

/-- the import a task is looking at in its dependency loop may be spawned -/
theorem spawnOk_of_deps (w : World) (s : St) (f d : File) (t : Task) (i : Nat) (ht : s.task f = some t)
    (hpc : t.pc = .deps i) (hd : (w.imports f)[i]? = some d) : spawnOk w s d = true := by
  unfold spawnOk
  rw [Bool.or_eq_true]
  right
  rw [List.any_eq_true]
  exact ⟨(f, t), mem_of_task s f t ht, by simp [hpc, hd]⟩

/-- a task that is not waiting for anything has an enabled transition -/
theorem running_enabled (w : World) (s : St) (hcr : s.crashed = false) (hH : H s) (hD : D w s)
    (hG : G w s) (hFC : FC w s)
    (f : File) (t : Task) (ht : s.task f = some t)
    (hpc : t.pc = .holding ∨ t.pc = .resolved ∨ (∃ i, t.pc = .deps i) ∨ t.pc = .linking ∨
      (∃ c, t.pc = .failing c) ∨ t.pc = .panicking ∨ (∃ b, t.pc = .finished b ∧ t.holds = true)) :
    Enabled' w s := by
  rcases hpc with h | h | ⟨i, h⟩ | h | ⟨c, h⟩ | h | ⟨b, h, hh⟩
  · exact ⟨.resolved f (w.resolveOk f), by simp [step, ht, h, hcr]⟩
  · by_cases himp : (w.imports f).isEmpty = true
    · by_cases hl : w.linkOk f = true
      · exact ⟨.complete f, by simp [step, ht, h, hcr, himp, hl]⟩
      · exact ⟨.fail f, by simp [step, ht, h, hcr, hl]⟩
    · exact ⟨.blocked f (w.imports f), by simp [step, ht, h, hcr, himp]⟩
  · have hd := hD f t ht
    simp only [Dat, h] at hd
    cases hfl : t.flag with
    | true =>
      -- the pending cycle check cannot pass: the `cycle` event is enabled
      obtain ⟨i', hi'⟩ := (hG f t ht).2.2 hfl
      rw [h] at hi'; cases hi'
      obtain ⟨d, hd', _⟩ := hd.2 i' (by omega)
      have hrc := hFC f t ht hfl
      exact ⟨.cycle f d, by simp [step, ht, h, hcr, hd', hrc]⟩
    | false =>
      by_cases hi : i = (w.imports f).length
      · have hholds := hH f t ht (by simp [h, holdPc])
        exact ⟨.release f, by simp [step, ht, h, hcr, hholds, hi, hfl]⟩
      · have hlt : i < (w.imports f).length := by omega
        obtain ⟨d, hd'⟩ : ∃ d, (w.imports f)[i]? = some d := ⟨(w.imports f)[i], by simp [hlt]⟩
        by_cases hdf : d = f
        · subst hdf; exact ⟨.selfimport d, by simp [step, ht, h, hcr, hd', hfl]⟩
        · cases htd : s.task d with
          | none => exact ⟨.spawn d, by simp [step, htd, hcr, spawnOk_of_deps w s f d t i ht h hd']⟩
          | some td => exact ⟨.dep f d, by simp [step, ht, h, hcr, hd', hdf, htd, hfl]⟩
  · by_cases hl : w.linkOk f = true
    · exact ⟨.complete f, by simp [step, ht, h, hcr, hl]⟩
    · exact ⟨.fail f, by simp [step, ht, h, hcr, hl]⟩
  · exact ⟨.fail f, by simp [step, ht, h, hcr]⟩
  · exact ⟨.recovered f, by simp [step, ht, h, hcr]⟩
  · exact ⟨.release f, by simp [step, ht, h, hcr, hh]⟩

theorem holder_running (s : St) (hJ : J s) (g : File) (tg : Task) (hg : s.task g = some tg)
    (hh : tg.holds = true) :
    tg.pc = .holding ∨ tg.pc = .resolved ∨ (∃ i, tg.pc = .deps i) ∨ tg.pc = .linking ∨
      (∃ c, tg.pc = .failing c) ∨ tg.pc = .panicking ∨ (∃ b, tg.pc = .finished b ∧ tg.holds = true) := by
  have hj := hJ g tg hg
  cases hpc : tg.pc with
  | spawned => simp [hpc, noPermitPc, hh] at hj
  | holding => simp
  | resolved => simp
  | deps i => simp
  | waiting i => simp [hpc, noPermitPc, hh] at hj
  | unblocked => simp [hpc, noPermitPc, hh] at hj
  | linking => simp
  | failing c => simp
  | panicking => simp [hpc, noPermitPc, hh] at hj
  | finished b => simp [hh]

/-- some task can move whenever no permit is free (the holders are never blocked) -/
theorem enabled_when_no_permit (w : World) (hpar : w.par ≥ 1) (s : St) (hr : Reachable w s)
    (hsem : s.sem = 0) : Enabled' w s := by
  have hperm := permits_conserved w s hr
  have hh : holders s ≥ 1 := by omega
  obtain ⟨g, tg, hg, hholds⟩ := exists_holder s (U_reachable w s hr) hh
  exact running_enabled w s (no_double_close w s hr) (H_reachable w s hr) (D_reachable w s hr)
    (G_reachable w s hr) (FC_reachable w s hr) g tg hg
    (holder_running s (J_reachable w s hr) g tg hg hholds)

/-! ### A state without transitions: every unfinished task waits for an unfinished task -/

/-- `x` is a task that waits for the unfinished task `d` -/
def Stuck (w : World) (s : St) (x : File) : Prop :=
  ∃ t i d td, s.task x = some t ∧ t.pc = .waiting i ∧ (w.imports x)[i]? = some d ∧
    s.task d = some td ∧ isFinished s d = false

theorem stuck_of_dead (w : World) (hpar : w.par ≥ 1) (s : St) (hr : Reachable w s)
    (hdead : ¬ Enabled' w s) (f : File) (t : Task) (ht : s.task f = some t)
    (hnf : isFinished s f = false) : Stuck w s f := by
  have hcr := no_double_close w s hr
  have hH := H_reachable w s hr
  have hD := D_reachable w s hr
  have hG := G_reachable w s hr
  have hFC := FC_reachable w s hr
  have hpos : s.sem > 0 := by
    by_cases hsem : s.sem = 0
    · exact absurd (enabled_when_no_permit w hpar s hr hsem) hdead
    · omega
  cases hpc : t.pc with
  | spawned => exact absurd ⟨.acquire f, by simp [step, ht, hpc, hcr, hpos]⟩ hdead
  | holding => exact absurd (running_enabled w s hcr hH hD hG hFC f t ht (by simp [hpc])) hdead
  | resolved => exact absurd (running_enabled w s hcr hH hD hG hFC f t ht (by simp [hpc])) hdead
  | deps i => exact absurd (running_enabled w s hcr hH hD hG hFC f t ht (by simp [hpc])) hdead
  | linking => exact absurd (running_enabled w s hcr hH hD hG hFC f t ht (by simp [hpc])) hdead
  | failing c => exact absurd (running_enabled w s hcr hH hD hG hFC f t ht (by simp [hpc])) hdead
  | panicking => exact absurd (running_enabled w s hcr hH hD hG hFC f t ht (by simp [hpc])) hdead
  | unblocked => exact absurd ⟨.reacquire f, by simp [step, ht, hpc, hcr, hpos]⟩ hdead
  | finished b =>
    have : isFinished s f = true := (isFinished_iff s f).mpr ⟨t, b, ht, hpc⟩
    rw [this] at hnf; cases hnf
  | waiting i =>
    have hd := hD f t ht
    simp only [Dat, hpc] at hd
    by_cases hi : i = (w.imports f).length
    · exact absurd ⟨.unblocked f, by simp [step, ht, hpc, hcr, hi]⟩ hdead
    · have hlt : i < (w.imports f).length := by omega
      obtain ⟨d, hdi, hdt⟩ := hd.2 i hlt
      cases htd : s.task d with
      | none => rw [htd] at hdt; cases hdt
      | some td =>
        cases hfd : isFinished s d with
        | true =>
          obtain ⟨td', b, h1, h2⟩ := (isFinished_iff s d).mp hfd
          rw [htd] at h1; cases h1
          cases b with
          | true => exact absurd ⟨.waited f d, by simp [step, ht, hpc, hcr, hdi, htd, h2]⟩ hdead
          | false => exact absurd ⟨.waited f d, by simp [step, ht, hpc, hcr, hdi, htd, h2]⟩ hdead
        | false => exact ⟨t, i, d, td, ht, hpc, hdi, htd, hfd⟩

/-! ### Counting -/

theorem pigeon (n B : Nat) (f : Nat → Nat) (hlt : ∀ i, i < n → f i < B)
    (hinj : ∀ a b, a < n → b < n → f a = f b → a = b) : n ≤ B := by
  have hnd : ((List.range n).map f).Nodup :=
    List.Nodup.map_on (by
      intro x hx y hy hxy
      exact hinj x y (List.mem_range.mp hx) (List.mem_range.mp hy) hxy) List.nodup_range
  have hsub : ∀ v ∈ (List.range n).map f, v ∈ List.range B := by
    intro v hv
    obtain ⟨i, hi, rfl⟩ := List.mem_map.mp hv
    exact List.mem_range.mpr (hlt i (List.mem_range.mp hi))
  have := (List.subperm_of_subset hnd hsub).length_le
  simpa using this

theorem exists_min (p : Nat → Prop) (h : ∃ j, p j) : ∃ j, p j ∧ ∀ i, i < j → ¬ p i := by
  obtain ⟨j, hj⟩ := h
  induction j using Nat.strongRecOn with
  | _ j ih =>
    by_cases hex : ∃ i, i < j ∧ p i
    · obtain ⟨i, hij, hi⟩ := hex
      exact ih i hij hi
    · exact ⟨j, hj, fun i hij hi => hex ⟨i, hij, hi⟩⟩

/-- `n`-fold iteration -/
def it (f : File → File) : Nat → File → File
  | 0, x => x
  | n+1, x => it f n (f x)

theorem it_add (f : File → File) (m : Nat) : ∀ n x, it f (m + n) x = it f m (it f n x) := by
  intro n
  induction n with
  | zero => intro x; rfl
  | succ n ih => intro x; exact ih (f x)

/-! ### The waits-for graph of a state without transitions -/

/-- the task a waiting task is blocked on -/
def nxt (w : World) (s : St) (x : File) : File :=
  match s.task x with
  | some t => (match t.pc with
    | .waiting i => ((w.imports x)[i]?).getD x
    | _ => x)
  | none => x

def pubOf (s : St) (x : File) : Nat :=
  match s.task x with
  | some t => t.pub
  | none => 0

theorem nxt_of_stuck (w : World) (s : St) (x : File) (t : Task) (i : Nat) (d : File)
    (ht : s.task x = some t) (hpc : t.pc = .waiting i) (hdi : (w.imports x)[i]? = some d) :
    nxt w s x = d := by
  simp [nxt, ht, hpc, hdi]

section dead
variable (w : World) (hpar : w.par ≥ 1) (s : St) (hr : Reachable w s) (hdead : ¬ Enabled' w s)
include hpar hr hdead

theorem stuck_nxt (x : File) (hx : Stuck w s x) : Stuck w s (nxt w s x) := by
  obtain ⟨t, i, d, td, ht, hpc, hdi, htd, hfd⟩ := hx
  rw [nxt_of_stuck w s x t i d ht hpc hdi]
  exact stuck_of_dead w hpar s hr hdead d td htd hfd

theorem stuck_it (x : File) (hx : Stuck w s x) : ∀ j, Stuck w s (it (nxt w s) j x) := by
  intro j
  induction j generalizing x with
  | zero => exact hx
  | succ j ih => exact ih (nxt w s x) (stuck_nxt w hpar s hr hdead x hx)

omit hpar hdead in
/-- a stuck task is published: its `blockedOn` list is its import list -/
theorem stuck_published (x : File) (hx : Stuck w s x) :
    ∃ t, s.task x = some t ∧ t.blockedOn = w.imports x ∧ t.blockedOn ≠ [] ∧ pubOf s x = t.pub ∧
      t.pub < s.clock ∧ nxt w s x ∈ t.blockedOn ∧ nxt w s x ∈ clearedL w x t := by
  obtain ⟨t, i, d, td, ht, hpc, hdi, _, _⟩ := hx
  have hg := (G_reachable w s hr x t ht).2.1 (by simp [hpc, live])
  have hne : t.blockedOn ≠ [] := by rw [hg.1]; exact hg.2
  have hmem : d ∈ w.imports x := List.mem_of_getElem? hdi
  refine ⟨t, ht, hg.1, hne, by simp [pubOf, ht], (P_reachable w s hr).1 x t ht hne, ?_, ?_⟩
  · rw [nxt_of_stuck w s x t i d ht hpc hdi, hg.1]; exact hmem
  · rw [nxt_of_stuck w s x t i d ht hpc hdi]; simp [clearedL, hpc, hmem]

omit hpar hdead in
theorem stuck_pub_inj (x y : File) (hx : Stuck w s x) (hy : Stuck w s y)
    (h : pubOf s x = pubOf s y) : x = y := by
  obtain ⟨tx, htx, _, hnx, hpx, _⟩ := stuck_published w s hr x hx
  obtain ⟨ty, hty, _, hny, hpy, _⟩ := stuck_published w s hr y hy
  exact (P_reachable w s hr).2 x y tx ty htx hty hnx hny (by omega)

/-- following the waits-for links for `j+1` steps through tasks published before stamp `p` is a chain
    of `j+1` published `blockedOn` links -/
theorem rw_of_it (p : Nat) : ∀ j y, Stuck w s y → (∀ i, i ≤ j → pubOf s (it (nxt w s) i y) < p) →
    RW s p y (it (nxt w s) (j+1) y) (j+1) := by
  intro j
  induction j with
  | zero =>
    intro y hy hp
    obtain ⟨t, ht, _, _, hpub, _, hmem, _⟩ := stuck_published w s hr y hy
    have := hp 0 (Nat.le_refl 0)
    exact RW.one ⟨t, ht, by simpa [it, hpub] using this, hmem⟩
  | succ j ih =>
    intro y hy hp
    obtain ⟨t, ht, _, _, hpub, _, hmem, _⟩ := stuck_published w s hr y hy
    have h0 := hp 0 (Nat.zero_le _)
    have := ih (nxt w s y) (stuck_nxt w hpar s hr hdead y hy) (fun i hi => hp (i+1) (by omega))
    exact RW.cons ⟨t, ht, by simpa [it, hpub] using h0, hmem⟩ this

/-- no stuck task exists: among the tasks that wait for each other in a circle, the one published last
    would have found the circle (invariant `Y`) -/
theorem no_orbit : ∀ B x, Stuck w s x → (∀ j, pubOf s (it (nxt w s) j x) < B) → False := by
  intro B
  induction B with
  | zero => intro x _ h; exact absurd (h 0) (by omega)
  | succ B ih =>
    intro x hx hlt
    by_cases hall : ∀ j, pubOf s (it (nxt w s) j x) < B
    · exact ih x hx hall
    obtain ⟨j0, hj0⟩ := Classical.not_forall.mp hall
    have hj0B : pubOf s (it (nxt w s) j0 x) = B := by have := hlt j0; omega
    -- g: the task of the orbit with the largest stamp
    have hg := stuck_it w hpar s hr hdead x hx j0
    generalize hgdef : it (nxt w s) j0 x = g at hg hj0B
    have hy := stuck_nxt w hpar s hr hdead g hg
    have horb : ∀ j, pubOf s (it (nxt w s) j (nxt w s g)) < B + 1 := by
      intro j
      have := hlt (j + 1 + j0)
      rw [it_add, hgdef] at this
      exact this
    by_cases hall2 : ∀ j, pubOf s (it (nxt w s) j (nxt w s g)) < B
    · exact ih (nxt w s g) hy hall2
    obtain ⟨j1', hj1'⟩ := Classical.not_forall.mp hall2
    have hex : ∃ j, pubOf s (it (nxt w s) j (nxt w s g)) = B := ⟨j1', by have := horb j1'; omega⟩
    obtain ⟨j1, hj1, hmin⟩ := exists_min _ hex
    have hback : it (nxt w s) j1 (nxt w s g) = g :=
      stuck_pub_inj w s hr _ _ (stuck_it w hpar s hr hdead _ hy j1) hg (by omega)
    obtain ⟨tg, htg, _, _, hpubg, _, _, hcl⟩ := stuck_published w s hr g hg
    have hYg := Y_reachable w s hr g tg htg (nxt w s g) hcl
    cases j1 with
    | zero => exact hYg.1 hback
    | succ j =>
      have hsmall : ∀ i, i ≤ j → pubOf s (it (nxt w s) i (nxt w s g)) < B := by
        intro i hi
        have h1 := horb i
        have h2 := hmin i (by omega)
        omega
      have hrw := rw_of_it w hpar s hr hdead B j (nxt w s g) hy hsmall
      rw [hback] at hrw
      have hBg : tg.pub = B := by omega
      -- the j+1 tasks on the way back to g carry distinct stamps below B
      have hle : j + 1 ≤ B := by
        apply pigeon (j+1) B (fun i => pubOf s (it (nxt w s) i (nxt w s g)))
        · intro i hi; exact hsmall i (by omega)
        · intro a b ha hb hab
          have hab' := stuck_pub_inj w s hr _ _ (stuck_it w hpar s hr hdead _ hy a)
            (stuck_it w hpar s hr hdead _ hy b) hab
          -- equal points of the orbit would reach g earlier than j+1
          by_contra hne
          rcases Nat.lt_or_gt_of_ne hne with hlt' | hlt'
          · have : it (nxt w s) (a + (j + 1 - b)) (nxt w s g) = g := by
              rw [Nat.add_comm, it_add, hab', ← it_add, Nat.sub_add_cancel (by omega)]; exact hback
            have hm := hmin (a + (j + 1 - b)) (by omega)
            rw [this] at hm; exact hm hj0B
          · have : it (nxt w s) (b + (j + 1 - a)) (nxt w s g) = g := by
              rw [Nat.add_comm, it_add, ← hab', ← it_add, Nat.sub_add_cancel (by omega)]; exact hback
            have hm := hmin (b + (j + 1 - a)) (by omega)
            rw [this] at hm; exact hm hj0B
      rw [← hBg] at hrw hle
      exact hYg.2 (j+1) hle hrw

end dead

/-- **C06 (no deadlock, every import graph).** For every import graph — cyclic or not —, every
    parallelism ≥ 1, every fault plan and every reachable state: as long as the result of some
    requested or already started file is not ready, some transition is enabled. -/
theorem no_stuck_state (w : World) (hpar : w.par ≥ 1) (s : St) (hr : Reachable w s)
    (r : File) (hreq : r ∈ w.req ∨ (s.task r).isSome = true) (hnf : isFinished s r = false) :
    Enabled w s := by
  apply enabled_of_enabled'
  cases ht : s.task r with
  | none =>
    have hrq : r ∈ w.req := by
      rcases hreq with h | h
      · exact h
      · rw [ht] at h; cases h
    exact ⟨.spawn r, by simp [step, ht, no_double_close w s hr, spawnOk, hrq]⟩
  | some t =>
    by_contra hdead
    have hst := stuck_of_dead w hpar s hr hdead r t ht hnf
    refine no_orbit w hpar s hr hdead s.clock r hst ?_
    intro j
    obtain ⟨tj, _, _, _, hp, hlt, _⟩ := stuck_published w s hr _ (stuck_it w hpar s hr hdead r hst j)
    omega

end PCV.Props.C06D

#print axioms PCV.Props.C06D.no_stuck_state
#print axioms PCV.Props.C06D.Y_reachable
#print axioms PCV.Props.C06D.FC_reachable
