/-
C11 — AST reproduces the source exactly.

"For any file the parser accepts, printing each token's leading comments, leading whitespace and
raw text in AST order, followed by the file's trailing trivia, reproduces the original bytes
exactly. A leading UTF-8 byte-order mark is the one exception."

Model: `FileInfo` (items, comments, LeadingWhitespace/RawText/LeadingComments/TrailingComments,
the `printAST` loop of ast/ast_roundtrip_test.go) driven by the lexer model `Lex.lexAll`.

* `print_items_eq_data`: any item table that satisfies what `AddToken` enforces and ends with the
  EOF item at the end of the data prints back exactly the data.
* `lex_items_tile`: for EVERY byte string and either reporter, when the lexer reaches the end of
  input its item table is such a table over the input minus a leading BOM (whole-lexer invariant).
* `C11_items`: hence printing all items of any completely lexed file reproduces it (BOM excepted:
  `stripBOM_spec`).
* `C11_ast`: the AST print (comments attributed to tokens, tokens in walk order) equals the source
  whenever the walk visits the items in order — that premise (it concerns the yacc grammar's AST
  shape and the comment attribution) is checked on the real parser for every generated accepted
  file by the `lex` engine's oracle, which also checks the conclusion directly.
-/
import PCV.Model.Lex
import PCV.Lemmas.LexInv
import PCV.Lemmas.Print
namespace PCV.Props.C11
open PCV.Lex PCV.FileInfo PCV.Lemmas.LexInv PCV.Lemmas.Print

/-- what `AddToken` enforces (`ItemsOk`: each item starts at or after the end of the previous one)
    plus "the last item ends at the end of the data" makes the item print equal to the data -/
theorem print_items_eq_data (f : FI) (h : ItemsOk 0 f.items) (hend : endFrom 0 f.items = f.data.length) :
    printItems f = f.data :=
  printItems_eq_data f h hend

/-- the BOM exception: the lexer's data is the input, or the input minus a leading EF BB BF -/
theorem stripBOM_spec (bs : List UInt8) :
    stripBOM bs = bs ∨ bs = [0xEF, 0xBB, 0xBF] ++ stripBOM bs := by
  unfold stripBOM
  split
  · right; rfl
  · left; rfl

/-- **the lexer's items tile its input.** For every byte string and either reporter, if the lexer
    reaches the end of input (EOF token `k`), the items are in order, do not overlap, the EOF item is
    the last one, is empty and sits at the end, and the table's data is the input minus a BOM. -/
theorem lex_items_tile (lenient : Bool) (bs : List UInt8) (k : Nat)
    (heof : (lexAll lenient bs).eof = some k) :
    ItemsOk 0 (lexAll lenient bs).fi.items ∧
    endFrom 0 (lexAll lenient bs).fi.items = (stripBOM bs).length ∧
    (lexAll lenient bs).fi.data = stripBOM bs ∧
    (lexAll lenient bs).fi.items.getLast? = some ⟨(stripBOM bs).length, 0⟩ ∧
    k + 1 = (lexAll lenient bs).fi.items.length := by
  obtain ⟨⟨rs, hc⟩, htab, he⟩ := lexAll_final lenient bs
  rcases he with he | ⟨_, k', hk', hlen, hlast⟩
  · rw [he] at heof; cases heof
  · rw [hk'] at heof
    simp only [Option.some.injEq] at heof
    subst heof
    refine ⟨htab.items_ok, ?_, hc.hdata, hlast, hlen⟩
    rw [endFrom_getLast _ _ hlast]; simp

/-- whatever happens (errors, early stop) the lexer's items are in order, do not overlap and lie
    inside the file -/
theorem lex_items_ok (lenient : Bool) (bs : List UInt8) :
    ItemsOk 0 (lexAll lenient bs).fi.items ∧
    endFrom 0 (lexAll lenient bs).fi.items ≤ (stripBOM bs).length := by
  obtain ⟨⟨rs, hc⟩, htab, _⟩ := lexAll_final lenient bs
  exact ⟨htab.items_ok, Nat.le_trans htab.items_end hc.pos_le⟩

/-- **C11 (items).** Printing every item's leading whitespace and raw text, in item order, of any
    completely lexed file reproduces the file (minus a leading BOM) byte for byte. -/
theorem C11_items (lenient : Bool) (bs : List UInt8) (k : Nat)
    (heof : (lexAll lenient bs).eof = some k) :
    printItems (lexAll lenient bs).fi = stripBOM bs := by
  obtain ⟨h1, h2, h3, _, _⟩ := lex_items_tile lenient bs k heof
  have := print_items_eq_data (lexAll lenient bs).fi h1 (by rw [h2, h3])
  rw [this, h3]

/-- **C11 (AST).** If the walk over the terminal nodes, with each token's leading and trailing
    comments, visits the items `0, 1, …, n-1` in order, the AST print reproduces the file. -/
theorem C11_ast (lenient : Bool) (bs : List UInt8) (k : Nat) (toks : List Nat)
    (heof : (lexAll lenient bs).eof = some k)
    (hvisit : visitOrder (lexAll lenient bs).fi toks = List.range (lexAll lenient bs).fi.items.length) :
    printAST (lexAll lenient bs).fi toks = stripBOM bs := by
  rw [printAST_eq_printItems _ _ hvisit]
  exact C11_items lenient bs k heof

-- non-vacuity: `a /* t */<LF>b // e` with a BOM in front; the walk order of its tokens is 0..4
def sample : List UInt8 :=
  [0xEF, 0xBB, 0xBF, 0x61, 0x20, 0x2F, 0x2A, 0x20, 0x74, 0x20, 0x2A, 0x2F, 10, 0x62, 0x20, 0x2F, 0x2F, 0x20, 0x65]
example : (lexAll false sample).eof = some 4 ∧ (lexAll false sample).panicked = false := by decide
example : visitOrder (lexAll false sample).fi [0, 2, 4] = List.range (lexAll false sample).fi.items.length := by
  decide
example : printAST (lexAll false sample).fi [0, 2, 4] = sample.drop 3 := by decide

end PCV.Props.C11

#print axioms PCV.Props.C11.print_items_eq_data
#print axioms PCV.Props.C11.stripBOM_spec
#print axioms PCV.Props.C11.lex_items_tile
#print axioms PCV.Props.C11.lex_items_ok
#print axioms PCV.Props.C11.C11_items
#print axioms PCV.Props.C11.C11_ast
