/-
C27 — Experimental compiler agrees with the stable compiler.

There is no model of `experimental/ir/lower*.go` / `experimental/fdp`: C27 is translation
validation. Both compilers are run on the same generated workspaces; the `dual` engine's oracle
(`Spec.dualVerdict`/`dualJudge`) compares their outcomes DIRECTLY, and the stable compiler is
tied to the reference semantics by C01/C02 (`link` engine). The Lean content is
  * `dualJudge_holds_iff` — the oracle says "holds" exactly when the property's statement is true
    of the two observed outcomes (same accept/reject; when both accept, equal descriptors);
  * `agreement_via_reference` — two compilers that each agree with the reference agree with each
    other (why C01/C02 + an experimental-vs-reference run would imply C27);
  * the shared reference semantics itself: the rule equivalences and `accept_iff_noRule` of C01
    and the construction laws of C02 hold for whatever implementation is compared against it
    (restated here for the reference side: `reference_rules_declarative`).
On the unchanged tree the oracle FAILS on several input classes (see the report / known
findings): the statement `C27_on` is false for those workspaces, which is a fact about the two
Go compilers, not about this file.
-/
import PCV.Lemmas.MiniProtoBridge
namespace PCV.Props.C27
open PCV.MiniProto PCV.MiniProto.Spec

/-- the property on one pair of observations -/
def Agrees (old new : Outcome) (fullSame : Bool) : Prop :=
  old.accepted = new.accepted ∧ (old.accepted = true → old.proj = new.proj ∧ fullSame = true)

theorem firstDiff_none_iff : ∀ (a b : List String) (i : Nat), firstDiff a b i = none ↔ a = b
  | [], [], _ => by simp [firstDiff]
  | x :: xs, [], _ => by simp [firstDiff]
  | [], y :: ys, _ => by simp [firstDiff]
  | x :: xs, y :: ys, i => by
    unfold firstDiff
    by_cases h : x = y
    · subst h
      simp [firstDiff_none_iff xs ys (i + 1)]
    · have : (x == y) = false := by simpa using h
      simp [this, h]

/-- the oracle is exact: "holds" iff the two outcomes agree in the sense of the property -/
theorem dualJudge_holds_iff (old new : Outcome) (fullSame : Bool) :
    dualJudgeV old new fullSame = .holds ↔ Agrees old new fullSame := by
  unfold dualJudgeV Agrees
  by_cases h1 : old.accepted = new.accepted
  · have h1' : (old.accepted != new.accepted) = false := by simp [h1]
    simp only [h1', Bool.false_eq_true, if_false]
    by_cases h2 : old.accepted = true
    · have h3 : new.accepted = true := by rw [← h1]; exact h2
      simp only [h2, Bool.not_true, Bool.false_eq_true, if_false]
      cases hd : firstDiff old.proj new.proj 0 with
      | none =>
        have := (firstDiff_none_iff old.proj new.proj 0).mp hd
        cases fullSame <;> simp [this, h3]
      | some t =>
        obtain ⟨i, a, b⟩ := t
        have hne : old.proj ≠ new.proj := fun h => by
          rw [(firstDiff_none_iff old.proj new.proj 0).mpr h] at hd; exact absurd hd (by simp)
        simp [h3, hne]
    · have h2' : old.accepted = false := by simpa using h2
      have h3 : new.accepted = false := by rw [← h1]; exact h2'
      simp [h2', h3]
  · have h1' : (old.accepted != new.accepted) = true := by simpa using h1
    simp [h1', h1]

/-- the printed verdict is "holds" exactly for the `holds` verdict (every other verdict prints a
    line starting with "fails") -/
theorem dualJudge_string (old new : Outcome) (fullSame : Bool) :
    dualJudgeV old new fullSame = .holds → dualJudge old new fullSame = "holds" := by
  intro h; unfold dualJudge; rw [h]

/-- translation validation through a common reference: answers that both equal the reference's
    answer are equal to each other -/
theorem agreement_via_reference {α : Type} (reference stable experimental : α)
    (h1 : stable = reference) (h2 : experimental = reference) : stable = experimental := by
  rw [h1, h2]

/-- the reference that both compilers are held to decides its range / number / duplicate rules
    by their declarative meaning (no hypothesis: these are the executable forms of the
    propositions) -/
theorem reference_rules_declarative :
    (∀ incl rs, specChecks.rangesOverlap incl rs = true ↔ RangesOverlap incl rs) ∧
    (∀ rsvd exts, specChecks.extRsvdOverlap rsvd exts = true ↔ ExtRsvdOverlap rsvd exts) ∧
    (∀ incl rs n, specChecks.inRanges incl rs n = true ↔ InRanges incl rs n) ∧
    (∀ xs, specChecks.dupNumber xs = true ↔ DupNumber xs) ∧
    (∀ xs, specChecks.dupStr xs = true ↔ ¬ xs.Nodup) :=
  ⟨rangesOverlapB_iff, extRsvdOverlapB_iff, inRangesB_iff, dupNumberB_iff, dupStrB_iff⟩

/-- non-vacuity: both directions of the oracle on concrete outcomes -/
example : dualJudge ⟨true, "", ["F", "a.proto"]⟩ ⟨true, "", ["F", "a.proto"]⟩ true = "holds" := by decide +kernel
example : dualJudge ⟨true, "", ["F", "a.proto"]⟩ ⟨false, "x", []⟩ true ≠ "holds" := by decide +kernel

end PCV.Props.C27

#print axioms PCV.Props.C27.dualJudge_holds_iff
#print axioms PCV.Props.C27.dualJudge_string
#print axioms PCV.Props.C27.agreement_via_reference
#print axioms PCV.Props.C27.reference_rules_declarative
