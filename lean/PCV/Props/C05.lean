/-
C05 — Output is independent of parallelism, order and scheduling (executor bookkeeping).
The outcome (success / failure) of every finished file is a function of the import graph and
the per-file behaviour (`resolveOk`, `linkOk`) alone — it does not depend on the parallelism,
on the order of the requested files or on the interleaving. Proved over ALL runs of the LTS.
-/
import PCV.Props.C07
import PCV.Lemmas.ExecCycle
namespace PCV.Props.C05
open PCV.Exec PCV.Props.C07

/-- `d` is finished successfully in `s` -/
def finOk (s : St) (d : File) : Prop := ∃ td, s.task d = some td ∧ td.pc = .finished true

/-- A finished task stays finished with the same outcome and cause, whatever happens. -/
theorem finished_stable (w : World) (s s' : St) (e : Ev) (d : File) (td : Task) (b : Bool)
    (hd : s.task d = some td) (hpc : td.pc = .finished b) (h : step w s e = some s') :
    ∃ td', s'.task d = some td' ∧ td'.pc = .finished b ∧ td'.cause = td.cause := by
  obtain ⟨f, hf⟩ : ∃ f, f = e.file := ⟨_, rfl⟩
  cases e <;> simp only [Ev.file] at hf <;> subst hf <;> simp only [step] at h
  all_goals (repeat' split at h)
  all_goals (try (simp at h))
  all_goals (try (obtain ⟨h1, h2⟩ := h))
  all_goals (try subst s')
  all_goals (try (exact ⟨td, hd, hpc, rfl⟩))
  all_goals (
    by_cases hdf : d = f
    · subst hdf
      simp_all
    · exact ⟨td, by rw [set_task_other _ _ _ _ hdf]; exact hd, hpc, rfl⟩)


theorem finOk_step (w : World) (s s' : St) (e : Ev) (d : File) (hd : finOk s d)
    (h : step w s e = some s') : finOk s' d := by
  obtain ⟨td, h1, h2⟩ := hd
  obtain ⟨td', h3, h4, _⟩ := finished_stable w s s' e d td true h1 h2 h
  exact ⟨td', h3, h4⟩

/-- what the program counter of `f`'s task guarantees about `f` and its imports -/
def Kat (w : World) (S : St) (f : File) (t : Task) : Prop :=
  match t.pc with
  | .resolved => w.resolveOk f = true
  | .deps _ => w.resolveOk f = true
  | .waiting i => w.resolveOk f = true ∧ ∀ j d, j < i → (w.imports f)[j]? = some d → finOk S d
  | .unblocked => w.resolveOk f = true ∧ ∀ d ∈ w.imports f, finOk S d
  | .linking => w.resolveOk f = true ∧ ∀ d ∈ w.imports f, finOk S d
  | .finished true => w.resolveOk f = true ∧ w.linkOk f = true ∧ ∀ d ∈ w.imports f, finOk S d
  | _ => True

def K (w : World) (S : St) : Prop := ∀ f t, S.task f = some t → Kat w S f t

theorem Kat_mono (w : World) (S S' : St) (f : File) (t : Task)
    (hst : ∀ d, finOk S d → finOk S' d) (h : Kat w S f t) : Kat w S' f t := by
  unfold Kat at *
  split <;> simp_all <;>
    first
    | (intro j d hj hd; exact hst d (h.2 j d hj hd))
    | (intro d hd; exact hst d (h.2 d hd))
    | (intro d hd; exact hst d (h.2.2 d hd))

theorem Kat_congr (w : World) (S : St) (f : File) (t t' : Task) (h : t'.pc = t.pc) :
    Kat w S f t → Kat w S f t' := by
  unfold Kat; rw [h]; exact id

theorem K_of_set (w : World) (s : St) (f : File) (t' : Task) (sem' c' : Nat) (hK : K w s)
    (hst : ∀ d, finOk s d → finOk (({ s with sem := sem', clock := c' } : St).set f t') d)
    (hnew : Kat w (({ s with sem := sem', clock := c' } : St).set f t') f t') :
    K w (({ s with sem := sem', clock := c' } : St).set f t') := by
  intro g tg hg
  by_cases hgf : g = f
  · subst hgf; rw [set_task_same] at hg; cases hg; exact hnew
  · rw [set_task_other _ _ _ _ hgf] at hg
    exact Kat_mono w s _ g tg hst (hK g tg hg)

theorem mem_of_getElem? {α} (l : List α) (d : α) (hd : d ∈ l) : ∃ j, j < l.length ∧ l[j]? = some d := by
  obtain ⟨j, hj, rfl⟩ := List.mem_iff_getElem.mp hd
  exact ⟨j, hj, by simp [hj]⟩

theorem K_step (w : World) (s s' : St) (e : Ev) (hK : K w s) (h : step w s e = some s') : K w s' := by
  have hst : ∀ d, finOk s d → finOk s' d := fun d hd => finOk_step w s s' e d hd h
  obtain ⟨f, hf⟩ : ∃ f, f = e.file := ⟨_, rfl⟩
  cases e <;> simp only [Ev.file] at hf <;> subst hf <;> simp only [step] at h
  all_goals (repeat' split at h)
  all_goals (try (simp at h))
  all_goals (try (obtain ⟨h1, h2⟩ := h))
  all_goals (try subst s')
  all_goals (try (refine K_of_set w s f _ _ _ hK hst ?_))
  all_goals (try (simp [Kat]; done))
  all_goals (try (have hk := hK f _ (by assumption); simp_all [Kat]; done))
  · -- release of a finished task: pc unchanged
    rename_i t hf _ _ _ _
    exact Kat_congr w _ f t _ rfl (Kat_mono w s _ f t hst (hK f t hf))
  · -- waited(f, d) with d finished ok
    rename_i d _ tf hf _ i hpc hc _ td hd _ hdpc
    have hk := hK f tf hf
    simp only [Kat, hpc] at hk
    simp only [Bool.and_eq_true, beq_iff_eq] at hc
    simp only [Kat]
    refine ⟨hk.1, ?_⟩
    intro j d' hj hjd
    by_cases hji : j < i
    · exact hst d' (hk.2 j d' hji hjd)
    · have : j = i := by omega
      subst this
      rw [hc.1] at hjd; cases hjd
      exact hst d ⟨td, hd, hdpc⟩
  · -- unblocked: all dependencies were awaited
    rename_i tf hf hc
    simp only [Bool.and_eq_true, beq_iff_eq] at hc
    have hk := hK f tf hf
    simp only [Kat, hc.1] at hk
    simp only [Kat]
    refine ⟨hk.1, ?_⟩
    intro d hd
    obtain ⟨j, hj, hjd⟩ := mem_of_getElem? _ d hd
    exact hst d (hk.2 j d hj hjd)
  · -- complete
    rename_i tf hf hc
    simp only [Bool.and_eq_true, Bool.or_eq_true, beq_iff_eq] at hc
    have hk := hK f tf hf
    simp only [Kat]
    rcases hc.1.1 with ⟨hpc, hemp⟩ | hpc
    · simp only [Kat, hpc] at hk
      have : w.imports f = [] := by simpa using hemp
      refine ⟨hk, hc.1.2, ?_⟩
      intro d hd; rw [this] at hd; cases hd
    · simp only [Kat, hpc] at hk
      exact ⟨hk.1, hc.1.2, fun d hd => hst d (hk.2 d hd)⟩
  · -- crash: tasks untouched
    intro g tg hg
    exact Kat_mono w s _ g tg hst (hK g tg hg)

theorem K_reachable (w : World) (s : St) (h : Reachable w s) : K w s := by
  induction h with
  | init => intro f t h; simp [init, St.task] at h
  | step _ hs ih => exact K_step w _ _ _ ih hs

/-- **C05/C06 (success is sound).** If a file's result is ready and successful then every file it
    transitively imports exists, resolved, parsed and linked without error and is itself finished
    successfully — on every run, for every parallelism and request order. -/
theorem success_sound (w : World) (s : St) (hr : Reachable w s) (f g : File) (hfg : Reach w f g)
    (hf : finOk s f) : finOk s g ∧ w.bad g = false := by
  have hK := K_reachable w s hr
  induction hfg with
  | refl f =>
    obtain ⟨t, ht, hpc⟩ := hf
    have := hK f t ht
    simp only [Kat, hpc] at this
    exact ⟨⟨t, ht, hpc⟩, by simp [World.bad, this.1, this.2.1]⟩
  | step hd _ ih =>
    obtain ⟨t, ht, hpc⟩ := hf
    have := hK _ t ht
    simp only [Kat, hpc] at this
    exact ih (this.2.2 _ hd)


/-! ### Failure is justified: a failed file reaches a bad file or an import cycle -/

/-- `f` transitively imports a file that is bad (missing / resolver fault / parse or link failure /
    panicking Close) or from which the import DFS finds a cycle -/
def Just (w : World) (f : File) : Prop :=
  ∃ g, Reach w f g ∧ (w.bad g = true ∨ w.reachesCycle g = true)

theorem Just_of_import (w : World) (f d : File) (hd : d ∈ w.imports f) (h : Just w d) : Just w f := by
  obtain ⟨g, hg, hb⟩ := h
  exact ⟨g, Reach.step hd hg, hb⟩

theorem Just_self_bad (w : World) (f : File) (h : w.bad f = true) : Just w f :=
  ⟨f, Reach.refl f, Or.inl h⟩

theorem reachesCycle_self (w : World) (f : File) (h : f ∈ w.imports f) : w.reachesCycle f = true := by
  unfold World.reachesCycle reachesCycleAux
  simp only [List.any_eq_true]
  exact ⟨f, h, by simp⟩

theorem mem_of_get? {α} (l : List α) (i : Nat) (d : α) (h : l[i]? = some d) : d ∈ l :=
  List.mem_of_getElem? h

/-- per-task part of the invariant: every non-context failure in flight or recorded is justified -/
def Mat (w : World) (f : File) (t : Task) : Prop :=
  (∀ c, t.pc = .failing c → c ≠ .ctx → Just w f) ∧
  (t.pc = .finished false → t.cause ≠ some .ctx → Just w f) ∧
  (t.pc = .panicking → Just w f)

def M (w : World) (s : St) : Prop := ∀ f t, s.task f = some t → Mat w f t

theorem Mat_of_just (w : World) (f : File) (t : Task) (h : Just w f) : Mat w f t :=
  ⟨fun _ _ _ => h, fun _ _ => h, fun _ => h⟩

theorem bad_of_not_resolveOk (w : World) (f : File) (h : w.resolveOk f = false) : w.bad f = true := by
  simp [World.bad, h]

theorem bad_of_not_linkOk (w : World) (f : File) (h : w.linkOk f = false) : w.bad f = true := by
  simp [World.bad, h]

theorem bad_of_closePanic (w : World) (f : File) (h : (w.fault f == some Fault.closePanic) = true) :
    w.bad f = true := by
  have : w.fault f = some Fault.closePanic := by simpa using h
  simp [World.bad, World.linkOk, this]

theorem bad_of_resolvePanic (w : World) (f : File) (h : (w.fault f == some Fault.resolvePanic) = true) :
    w.bad f = true := by
  have : w.fault f = some Fault.resolvePanic := by simpa using h
  simp [World.bad, World.resolveOk, this]

theorem M_step (w : World) (s s' : St) (e : Ev) (hM : M w s) (h : step w s e = some s') : M w s' := by
  obtain ⟨f, hf⟩ : ∃ f, f = e.file := ⟨_, rfl⟩
  unfold M at *
  cases e <;> simp only [Ev.file] at hf <;> subst hf <;> simp only [step] at h
  all_goals (repeat' split at h)
  all_goals (try (simp at h))
  all_goals (try (obtain ⟨h1, h2⟩ := h))
  all_goals (try subst s')
  all_goals (try (apply pointwise_set (fun g t => Mat w g t) _ _ _ _ _ hM))
  all_goals (try (simp [Mat]; done))
  all_goals (try (refine Mat_of_just _ _ _ (Just_self_bad w f (bad_of_closePanic w f ?_)); simp_all; done))
  all_goals (try (refine Mat_of_just _ _ _ (Just_self_bad w f (bad_of_resolvePanic w f ?_)); assumption))
  all_goals (try (refine Mat_of_just _ _ _ (Just_self_bad w f (bad_of_not_linkOk w f ?_)); simp_all; done))
  all_goals (try (refine Mat_of_just _ _ _ (Just_self_bad w f (bad_of_not_resolveOk w f ?_)); simp_all; done))
  · -- selfimport
    rename_i hc
    simp only [Bool.and_eq_true, beq_iff_eq] at hc
    exact Mat_of_just _ _ _ ⟨f, Reach.refl f, Or.inr (reachesCycle_self w f (mem_of_get? _ _ _ hc.1.1))⟩
  · -- cycle
    rename_i hc
    simp only [Bool.and_eq_true, beq_iff_eq] at hc
    exact Mat_of_just _ _ _ ⟨f, Reach.refl f, Or.inr hc.1.2⟩
  · -- release of a finished task
    rename_i t hf _ _ _ hpc
    have hm := hM f t hf
    exact ⟨fun c h1 => by simp [hpc] at h1, fun h1 h2 => hm.2.1 h1 h2, fun h1 => by simp [hpc] at h1⟩
  · -- waited(f, d), d failed for a non-context reason
    rename_i d _ tf hf _ i hpc hc _ td hd _ hdpc hcause
    simp only [Bool.and_eq_true, beq_iff_eq] at hc
    have hjd : Just w d := (hM d td hd).2.1 hdpc (by simpa using hcause)
    exact Mat_of_just _ _ _ (Just_of_import w f d (mem_of_get? _ _ _ hc.1) hjd)
  · -- fail from a failing pc
    rename_i t hf _ _ c hpc
    have hm := hM f t hf
    refine ⟨fun c' h1 => by simp at h1, fun _ h2 => hm.1 c hpc (by simpa using h2), fun h1 => by simp at h1⟩
  · -- crash: tasks untouched
    intro g tg hg; exact hM g tg hg
  · -- recovered from panicking
    rename_i t hf _ _ hpc
    exact Mat_of_just _ _ _ ((hM f t hf).2.2 hpc)

theorem M_reachable (w : World) (s : St) (h : Reachable w s) : M w s := by
  induction h with
  | init => intro f t h; simp [init, St.task] at h
  | step _ hs ih => exact M_step w _ _ _ ih hs


/-! ### Context errors cannot reach a requested file unless the caller cancels -/

theorem isFinished_iff (s : St) (f : File) :
    isFinished s f = true ↔ ∃ t b, s.task f = some t ∧ t.pc = .finished b := by
  unfold isFinished
  cases h : s.task f with
  | none => simp
  | some t =>
    cases hpc : t.pc <;> simp [hpc]

theorem isFinished_step (w : World) (s s' : St) (e : Ev) (f : File) (hf : isFinished s f = true)
    (h : step w s e = some s') : isFinished s' f = true := by
  obtain ⟨t, b, ht, hpc⟩ := (isFinished_iff s f).mp hf
  obtain ⟨t', ht', hpc', _⟩ := finished_stable w s s' e f t b ht hpc h
  exact (isFinished_iff s' f).mpr ⟨t', b, ht', hpc'⟩

def allReq (w : World) (s : St) : Bool := w.req.all (isFinished s)

theorem allReq_step (w : World) (s s' : St) (e : Ev) (ha : allReq w s = true)
    (h : step w s e = some s') : allReq w s' = true := by
  simp only [allReq, List.all_eq_true] at *
  intro r hr; exact isFinished_step w s s' e r (ha r hr) h

def ctxFreeAt (t : Task) : Prop :=
  t.pc ≠ .failing .ctx ∧ (t.pc = .finished false → t.cause ≠ some .ctx)

def ctxFree (s : St) : Prop := ∀ f t, s.task f = some t → ctxFreeAt t

theorem cancelOk_false (w : World) (s : St) (hc : w.cancelable = false) (ha : allReq w s = false) :
    cancelOk w s = false := by
  simp only [cancelOk, hc, Bool.false_or]; exact ha

theorem ctxFree_step (w : World) (s s' : St) (e : Ev) (hc : w.cancelable = false)
    (ha : allReq w s = false) (hF : ctxFree s) (h : step w s e = some s') : ctxFree s' := by
  have hco := cancelOk_false w s hc ha
  obtain ⟨f, hf⟩ : ∃ f, f = e.file := ⟨_, rfl⟩
  unfold ctxFree at *
  cases e <;> simp only [Ev.file] at hf <;> subst hf <;> simp only [step] at h
  all_goals (repeat' split at h)
  all_goals (try (simp at h))
  all_goals (try (obtain ⟨h1, h2⟩ := h))
  all_goals (try subst s')
  all_goals (try (apply pointwise_set (fun _ t => ctxFreeAt t) _ _ _ _ _ hF))
  all_goals (try (simp [ctxFreeAt]; done))
  all_goals (try (exfalso; simp_all; done))
  · -- release of a finished task
    rename_i t hf _ _ _ hpc
    have := hF f t hf
    exact ⟨by simp [hpc], fun h1 => this.2 h1⟩
  · -- waited(f, d) where d failed with a context error: impossible while context errors are excluded
    rename_i d _ _ _ _ _ _ _ _ td hd _ hdpc hcause
    exact absurd (by simpa using hcause) ((hF d td hd).2 hdpc)
  · -- fail from a failing pc
    rename_i t hf _ _ c hpc
    have := (hF f t hf).1
    refine ⟨by simp, fun _ => ?_⟩
    intro hcc; simp at hcc; subst hcc; exact this hpc
  · intro g tg hg; exact hF g tg hg

/-- N: without caller cancellation, context errors exist only after every requested result is
    ready, and never in a requested file's result -/
def N (w : World) (s : St) : Prop :=
  (allReq w s = false → ctxFree s) ∧
  (∀ r ∈ w.req, ∀ t, s.task r = some t → t.pc = .finished false → t.cause ≠ some .ctx)

theorem N_step (w : World) (s s' : St) (e : Ev) (hc : w.cancelable = false) (hN : N w s)
    (h : step w s e = some s') : N w s' := by
  constructor
  · intro ha'
    have ha : allReq w s = false := by
      cases hh : allReq w s with
      | false => rfl
      | true => rw [allReq_step w s s' e hh h] at ha'; cases ha'
    exact ctxFree_step w s s' e hc ha (hN.1 ha) h
  · intro r hr t' ht' hpc'
    cases hfin : isFinished s r with
    | true =>
      obtain ⟨t, b, ht, hpc⟩ := (isFinished_iff s r).mp hfin
      obtain ⟨t'', ht'', hpc'', hcause⟩ := finished_stable w s s' e r t b ht hpc h
      rw [ht'] at ht''; cases ht''
      rw [hpc'] at hpc''; cases hpc''
      rw [hcause]; exact hN.2 r hr t ht hpc
    | false =>
      have ha : allReq w s = false := by
        simp only [allReq]
        cases hh : w.req.all (isFinished s) with
        | false => rfl
        | true => rw [List.all_eq_true] at hh; rw [hh r hr] at hfin; cases hfin
      exact ((ctxFree_step w s s' e hc ha (hN.1 ha) h) r t' ht').2 hpc'

theorem N_reachable (w : World) (hc : w.cancelable = false) (s : St) (h : Reachable w s) : N w s := by
  induction h with
  | init => exact ⟨fun _ f t h => by simp [init, St.task] at h, fun r _ t h => by simp [init, St.task] at h⟩
  | step _ hs ih => exact N_step w _ _ _ hc ih hs

/-- **C05/C06 (failure is justified).** Without caller cancellation, whenever the result of a
    REQUESTED file is ready and failed, the file transitively imports a bad file (missing, resolver
    error or panic, read/parse/link failure, panicking Close) or an import cycle — on every run. -/
theorem failure_justified (w : World) (hc : w.cancelable = false) (s : St) (hr : Reachable w s)
    (r : File) (hreq : r ∈ w.req) (t : Task) (ht : s.task r = some t) (hpc : t.pc = .finished false) :
    Just w r :=
  ((M_reachable w s hr) r t ht).2.1 hpc ((N_reachable w hc s hr).2 r hreq t ht hpc)

/-- **C05 — outcome is schedule-independent.** For a world without import cycles and without
    caller cancellation: in EVERY reachable state (any parallelism, any request order, any
    interleaving) a requested file whose result is ready succeeded iff nothing it transitively
    imports is bad. The right-hand side mentions only the import graph and per-file behaviour. -/
theorem outcome_deterministic (w : World) (hc : w.cancelable = false)
    (hacyc : ∀ g, w.reachesCycle g = false) (s : St) (hr : Reachable w s)
    (r : File) (hreq : r ∈ w.req) (t : Task) (b : Bool) (ht : s.task r = some t)
    (hpc : t.pc = .finished b) :
    b = true ↔ ∀ g, Reach w r g → w.bad g = false := by
  constructor
  · intro hb g hg
    subst hb
    exact (success_sound w s hr r g hg ⟨t, ht, hpc⟩).2
  · intro hall
    cases b with
    | true => rfl
    | false =>
      obtain ⟨g, hg, hbad⟩ := failure_justified w hc s hr r hreq t ht hpc
      rcases hbad with hbad | hcyc
      · rw [hall g hg] at hbad; cases hbad
      · rw [hacyc g] at hcyc; cases hcyc

/-- **C06 (cycle errors are sound).** A task can fail with a cycle error only if its file reaches an
    import cycle; in particular an acyclic import graph never fails because of a cycle. -/
theorem cycle_error_sound (w : World) (s s' : St) (f d : File) (h : step w s (.cycle f d) = some s') :
    w.reachesCycle f = true := by
  simp only [step] at h
  repeat' split at h
  all_goals (try (simp at h))
  all_goals (try (obtain ⟨h1, h2⟩ := h))
  simp_all

/-! ### Non-vacuity: a real trace (captured from the Go executor) is a run of the model, ends with the
requested file finished successfully, and `outcome_deterministic` applies to it. -/

def exW : World := { files := [("a", ["b"]), ("b", [])], faults := [], par := 1, req := ["a"] }
def exTrace : List Ev := [.spawn "a", .acquire "a", .resolved "a" true, .blocked "a" ["b"], .spawn "b",
  .dep "a" "b", .release "a", .acquire "b", .resolved "b" true, .complete "b", .release "b",
  .waited "a" "b", .unblocked "a", .reacquire "a", .complete "a", .release "a"]

example : ((run exW (init exW) exTrace).map (fun s => (isFinished s "a", s.sem, s.crashed)))
    = some (true, 1, false) := by decide +kernel

example : exW.cancelable = false ∧ exW.reachesCycle "a" = false ∧ exW.reachesCycle "b" = false
    ∧ "a" ∈ exW.req := by decide +kernel

end PCV.Props.C05

#print axioms PCV.Props.C05.success_sound
#print axioms PCV.Props.C05.failure_justified
#print axioms PCV.Props.C05.outcome_deterministic
#print axioms PCV.Props.C05.cycle_error_sound
#print axioms PCV.Props.C07.permits_conserved
#print axioms PCV.Props.C07.permits_restored
#print axioms PCV.Props.C07.no_double_close
#print axioms PCV.Props.C07.reachable_of_run
