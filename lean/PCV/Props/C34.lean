/-
C34 — Incremental executor terminates on cycles and panics.

Three layers (all in `experimental/incremental/task.go`):
 (A) `task.checkCycle` — model `PCV.IncrFail.checkCycle` (BFS over recorded deps with a parent
     map, path reconstruction): PROVED sound and complete for every task table.
 (B) the leader/waiter/panic protocol on one task object as a transition system
     (`PCV.IncrLts`) for any number of goroutines and Runs: PROVED `leader_unique`,
     `at_most_once_lts`, `panic_not_cached`; the clause "a run returns" is REFUTED for a waiter
     that belongs to another Run than the panicking leader (`run_returns_refuted`, the harness
     reproduces the hang on the real executor), and proved when the waiter shares the leader's
     Run or the leader finishes (`run_returns_partial`).
 (C) the one-goroutine executor with panics (`PCV.IncrFail.runF`): PROVED that the panicking
     task is left with a nil result (`panicking_task_not_cached`); REFUTED that the panic is not
     memoized at all: its callers memoize the `ErrPanic` and later runs serve it from the cache
     (`panic_not_memoized_refuted`).
 (C') REFUTED "a run returns" also without concurrent Runs: at low parallelism the leaders that
     are parked in `acquire` when the Run is cancelled return without withdrawing their pending
     result; the next Run that needs such a task waits for ever (`run_after_failed_run_refuted`).
The model carries a flag `fx` for the candidate fix described in the builder's report; with
`fx = true` the three witnesses disappear (`patched_*`).
Semaphore accounting: `permits_conserved` is the conservation law of acquire/release/
transferFrom; that every code path releases is checked on the real executor (op `permits`).
-/
import PCV.Lemmas.IncrCycle
import PCV.Lemmas.Incr
import PCV.Model.IncrLts
namespace PCV.Props.C34
open PCV.Incr PCV.IncrFail

/-! ## (A) checkCycle -/

/-- **The cycle error names a cycle** (and there is **no false cycle**): whenever `checkCycle`
    reports a cycle for caller `c` awaiting `t` — and the edge `c → t` has been recorded, which
    `Resolve` does before starting `t` — the reported list is a closed walk of recorded
    dependency edges that starts and ends at the awaited query and passes through the caller. -/
theorem errCycle_names_cycle {m : TaskMap} {fuel : Nat} {c t : Key} {path : List Key}
    (h : checkCycle m fuel (some c) t = .cycle path) (hedge : t ∈ depsOf m c) :
    Walk m path ∧ path.head? = some t ∧ path.getLast? = some t ∧ c ∈ path := by
  unfold checkCycle at h
  simp only at h
  cases hb : bfsLoop m c fuel [t] [] with
  | none => simp [hb] at h
  | some p =>
    obtain ⟨found, parent⟩ := p
    cases found with
    | false => simp [hb] at h
    | true =>
      simp only [hb, CycleCheck.cycle.injEq] at h
      have hinit : BfsInv m t [t] [] :=
        { edge := fun _ _ hm => (by cases hm),
          queue := fun x hx => by
            simp only [List.mem_singleton] at hx; subst hx; exact ⟨0, Nat.le_refl _, .base⟩,
          look := fun _ _ hl => by simp [List.lookup] at hl }
      by_cases hct : c = t
      · -- the caller is the awaited task itself (self-dependency): found at the first pop
        subst hct
        have hp : parent = [] := by
          cases fuel with
          | zero => simp [bfsLoop] at hb
          | succ f => simp [bfsLoop] at hb; exact hb
        subst hp
        subst h
        simp only [List.lookup, walkBack, List.length_nil]
        exact ⟨⟨hedge, hedge, trivial⟩, by simp, by simp, by simp⟩
      obtain ⟨hedges, j, hj, htp⟩ := bfsLoop_found fuel [t] [] parent hb hinit
      subst h
      cases htp with
      | base => exact absurd rfl hct
      | step hne hl htp' =>
        rename_i j' n'
        obtain ⟨l, hl1, hl2, hl3, hl4⟩ := walkBack_spec (m := m) hedges j' n' (parent.length + 1) [] c htp'
          (by omega) hl hne trivial (fun _ _ => trivial)
        simp only [List.nil_append] at hl1 hl4
        rw [hl, hl1]
        -- l = c :: l'
        cases l with
        | nil => simp at hl4
        | cons c' l' =>
          simp only [List.head?_cons, Option.some.injEq] at hl4
          subst hl4
          have hrev : (c' :: l' ++ [t]).reverse = (t :: l'.reverse) ++ [c'] := by simp
          rw [hrev] at hl2 hl3 ⊢
          refine ⟨Walk.append_single hl2 hedge, by simp, ?_, by simp⟩
          rw [List.getLast?_append]
          simp

/-- **Cycle detected**: if the awaited task `t` reaches the caller `c` through recorded
    dependency edges (so waiting would deadlock), `checkCycle` does not answer "no cycle". -/
theorem cycle_detected {m : TaskMap} {fuel : Nat} {c t : Key} (hreach : DepsReach m t c) :
    checkCycle m fuel (some c) t ≠ .noCycle := by
  intro h
  unfold checkCycle at h
  simp only at h
  cases hb : bfsLoop m c fuel [t] [] with
  | none => simp [hb] at h
  | some p =>
    obtain ⟨found, parent⟩ := p
    cases found with
    | true => simp [hb] at h
    | false =>
      have hinit : BfsDone m t c [] [t] [] :=
        { disc := fun x hx => by
            rcases hx with hx | hx
            · exact Or.inr (by simp [hx])
            · simp at hx,
          closed := fun _ hp => (by cases hp),
          notc := fun hc => by cases hc }
      obtain ⟨P, hP⟩ := bfsLoop_complete fuel [] [t] [] parent hb hinit
      have hall : ∀ x, DepsReach m t x → x ∈ P := by
        intro x hx
        induction hx with
        | refl => rcases hP.disc t (Or.inl rfl) with h1 | h1; exact h1; cases h1
        | step _ hd ih =>
          rcases hP.disc _ (hP.closed _ ih _ hd) with h1 | h1
          · exact h1
          · cases h1
      exact hP.notc (hall c hreach)

/-- conversely a reported cycle implies that the awaited task does reach the caller -/
theorem cycle_only_if_reachable {m : TaskMap} {fuel : Nat} {c t : Key} {path : List Key}
    (h : checkCycle m fuel (some c) t = .cycle path) : DepsReach m t c := by
  unfold checkCycle at h
  simp only at h
  cases hb : bfsLoop m c fuel [t] [] with
  | none => simp [hb] at h
  | some p =>
    obtain ⟨found, parent⟩ := p
    cases found with
    | false => simp [hb] at h
    | true =>
      have hinit : BfsInv m t [t] [] :=
        { edge := fun _ _ hm => (by cases hm),
          queue := fun x hx => by
            simp only [List.mem_singleton] at hx; subst hx; exact ⟨0, Nat.le_refl _, .base⟩,
          look := fun _ _ hl => by simp [List.lookup] at hl }
      obtain ⟨hedges, j, hj, htp⟩ := bfsLoop_found fuel [t] [] parent hb hinit
      clear h hb hj
      induction htp with
      | base => exact .refl _
      | step _ hl _ ih => exact .step ih (hedges _ _ (lookup_mem hl))

/-! ## (B) leader / waiters / panic as a transition system -/

open PCV.IncrLts

structure LInv (s : State) : Prop where
  resLt : ∀ o, s.result = some o → o < s.next
  leaderRes : ∀ i o, s.pc i = .leader o → s.result = some o ∧ s.closed o = false
  leaderUniq : ∀ i j o o', s.pc i = .leader o → s.pc j = .leader o' → i = j
  closedRes : ∀ o, s.closed o = true → s.result = some o
  waitLt : ∀ i o, s.pc i = .waiting o → o < s.next
  count : s.execs = s.panics + (if s.result.isSome then 1 else 0)

theorem setPc_pc (s : State) (i : Nat) (p : Pc) (j : Nat) : (setPc s i p).pc j = if j = i then p else s.pc j := rfl

theorem linv_step {run : Nat → Nat} {s s' : State} (hinv : LInv s) (h : Step run s s') : LInv s' := by
  cases h with
  | loadNil i hpc hres =>
    exact
    { resLt := hinv.resLt,
      leaderRes := fun j o hj => by
        simp only [setPc_pc] at hj
        by_cases hji : j = i
        · simp [hji] at hj
        · simp only [hji, if_false] at hj; exact hinv.leaderRes j o hj,
      leaderUniq := fun a b o o' ha hb => by
        simp only [setPc_pc] at ha hb
        by_cases hai : a = i
        · simp [hai] at ha
        · by_cases hbi : b = i
          · simp [hbi] at hb
          · simp only [hai, hbi, if_false] at ha hb; exact hinv.leaderUniq a b o o' ha hb,
      closedRes := hinv.closedRes,
      waitLt := fun j o hj => by
        simp only [setPc_pc] at hj
        by_cases hji : j = i
        · simp [hji] at hj
        · simp only [hji, if_false] at hj; exact hinv.waitLt j o hj,
      count := hinv.count }
  | loadDone i o hpc hres hcl =>
    exact
    { resLt := hinv.resLt,
      leaderRes := fun j o' hj => by
        simp only [setPc_pc] at hj
        by_cases hji : j = i
        · simp [hji] at hj
        · simp only [hji, if_false] at hj; exact hinv.leaderRes j o' hj,
      leaderUniq := fun a b o1 o2 ha hb => by
        simp only [setPc_pc] at ha hb
        by_cases hai : a = i
        · simp [hai] at ha
        · by_cases hbi : b = i
          · simp [hbi] at hb
          · simp only [hai, hbi, if_false] at ha hb; exact hinv.leaderUniq a b o1 o2 ha hb,
      closedRes := hinv.closedRes,
      waitLt := fun j o' hj => by
        simp only [setPc_pc] at hj
        by_cases hji : j = i
        · simp [hji] at hj
        · simp only [hji, if_false] at hj; exact hinv.waitLt j o' hj,
      count := hinv.count }
  | loadPending i o hpc hres hcl =>
    exact
    { resLt := hinv.resLt,
      leaderRes := fun j o' hj => by
        simp only [setPc_pc] at hj
        by_cases hji : j = i
        · simp [hji] at hj
        · simp only [hji, if_false] at hj; exact hinv.leaderRes j o' hj,
      leaderUniq := fun a b o1 o2 ha hb => by
        simp only [setPc_pc] at ha hb
        by_cases hai : a = i
        · simp [hai] at ha
        · by_cases hbi : b = i
          · simp [hbi] at hb
          · simp only [hai, hbi, if_false] at ha hb; exact hinv.leaderUniq a b o1 o2 ha hb,
      closedRes := hinv.closedRes,
      waitLt := fun j o' hj => by
        simp only [setPc_pc] at hj
        by_cases hji : j = i
        · simp only [hji, if_true, Pc.waiting.injEq] at hj; subst hj; exact hinv.resLt o hres
        · simp only [hji, if_false] at hj; exact hinv.waitLt j o' hj,
      count := hinv.count }
  | casOk i hpc hres =>
    have hnoLeader : ∀ j o, s.pc j ≠ .leader o := fun j o hj => by
      have := (hinv.leaderRes j o hj).1; rw [hres] at this; cases this
    have hnoClosed : ∀ o, s.closed o = false := fun o => by
      cases hc : s.closed o with
      | false => rfl
      | true => have := hinv.closedRes o hc; rw [hres] at this; cases this
    exact
    { resLt := fun o ho => by
        have : o = s.next := by simpa [setPc] using ho.symm
        subst this; show s.next < s.next + 1; omega,
      leaderRes := fun j o hj => by
        simp only [setPc_pc] at hj
        by_cases hji : j = i
        · simp only [hji, if_true, Pc.leader.injEq] at hj
          subst hj
          exact ⟨rfl, hnoClosed _⟩
        · simp only [hji, if_false] at hj; exact absurd hj (hnoLeader j o),
      leaderUniq := fun a b o o' ha hb => by
        simp only [setPc_pc] at ha hb
        by_cases hai : a = i
        · by_cases hbi : b = i
          · rw [hai, hbi]
          · simp only [hbi, if_false] at hb; exact absurd hb (hnoLeader b o')
        · simp only [hai, if_false] at ha; exact absurd ha (hnoLeader a o),
      closedRes := fun o hc => by
        have := hnoClosed o
        simp only [setPc] at hc
        rw [this] at hc; exact absurd hc (by simp),
      waitLt := fun j o hj => by
        simp only [setPc_pc] at hj
        by_cases hji : j = i
        · simp [hji] at hj
        · simp only [hji, if_false] at hj
          have := hinv.waitLt j o hj
          show o < s.next + 1; omega,
      count := by
        have := hinv.count
        simp only [hres, Option.isSome_none] at this
        simp [setPc, this] }
  | casFail i o hpc hres =>
    exact
    { resLt := hinv.resLt,
      leaderRes := fun j o' hj => by
        simp only [setPc_pc] at hj
        by_cases hji : j = i
        · simp [hji] at hj
        · simp only [hji, if_false] at hj; exact hinv.leaderRes j o' hj,
      leaderUniq := fun a b o1 o2 ha hb => by
        simp only [setPc_pc] at ha hb
        by_cases hai : a = i
        · simp [hai] at ha
        · by_cases hbi : b = i
          · simp [hbi] at hb
          · simp only [hai, hbi, if_false] at ha hb; exact hinv.leaderUniq a b o1 o2 ha hb,
      closedRes := hinv.closedRes,
      waitLt := fun j o' hj => by
        simp only [setPc_pc] at hj
        by_cases hji : j = i
        · simp [hji] at hj
        · simp only [hji, if_false] at hj; exact hinv.waitLt j o' hj,
      count := hinv.count }
  | reloadNil i hpc hres =>
    exact
    { resLt := hinv.resLt,
      leaderRes := fun j o' hj => by
        simp only [setPc_pc] at hj
        by_cases hji : j = i
        · simp [hji] at hj
        · simp only [hji, if_false] at hj; exact hinv.leaderRes j o' hj,
      leaderUniq := fun a b o1 o2 ha hb => by
        simp only [setPc_pc] at ha hb
        by_cases hai : a = i
        · simp [hai] at ha
        · by_cases hbi : b = i
          · simp [hbi] at hb
          · simp only [hai, hbi, if_false] at ha hb; exact hinv.leaderUniq a b o1 o2 ha hb,
      closedRes := hinv.closedRes,
      waitLt := fun j o' hj => by
        simp only [setPc_pc] at hj
        by_cases hji : j = i
        · simp [hji] at hj
        · simp only [hji, if_false] at hj; exact hinv.waitLt j o' hj,
      count := hinv.count }
  | reloadSome i o hpc hres =>
    exact
    { resLt := hinv.resLt,
      leaderRes := fun j o' hj => by
        simp only [setPc_pc] at hj
        by_cases hji : j = i
        · simp [hji] at hj
        · simp only [hji, if_false] at hj; exact hinv.leaderRes j o' hj,
      leaderUniq := fun a b o1 o2 ha hb => by
        simp only [setPc_pc] at ha hb
        by_cases hai : a = i
        · simp [hai] at ha
        · by_cases hbi : b = i
          · simp [hbi] at hb
          · simp only [hai, hbi, if_false] at ha hb; exact hinv.leaderUniq a b o1 o2 ha hb,
      closedRes := hinv.closedRes,
      waitLt := fun j o' hj => by
        simp only [setPc_pc] at hj
        by_cases hji : j = i
        · simp only [hji, if_true, Pc.waiting.injEq] at hj; subst hj; exact hinv.resLt o hres
        · simp only [hji, if_false] at hj; exact hinv.waitLt j o' hj,
      count := hinv.count }
  | finish i o hpc =>
    obtain ⟨hres, hcl⟩ := hinv.leaderRes i o hpc
    exact
    { resLt := hinv.resLt,
      leaderRes := fun j o' hj => by
        simp only [setPc_pc] at hj
        by_cases hji : j = i
        · simp [hji] at hj
        · simp only [hji, if_false] at hj
          exact absurd (hinv.leaderUniq j i o' o hj hpc) hji,
      leaderUniq := fun a b o1 o2 ha hb => by
        simp only [setPc_pc] at ha hb
        by_cases hai : a = i
        · simp [hai] at ha
        · by_cases hbi : b = i
          · simp [hbi] at hb
          · simp only [hai, hbi, if_false] at ha hb; exact hinv.leaderUniq a b o1 o2 ha hb,
      closedRes := fun o' hc => by
        simp only [setPc] at hc ⊢
        by_cases ho : o' = o
        · rw [ho]; exact hres
        · simp only [ho, if_false] at hc; exact hinv.closedRes o' hc,
      waitLt := fun j o' hj => by
        simp only [setPc_pc] at hj
        by_cases hji : j = i
        · simp [hji] at hj
        · simp only [hji, if_false] at hj; exact hinv.waitLt j o' hj,
      count := hinv.count }
  | panic i o hpc =>
    obtain ⟨hres, hcl⟩ := hinv.leaderRes i o hpc
    have hnoClosed : ∀ o', s.closed o' = false := fun o' => by
      cases hc : s.closed o' with
      | false => rfl
      | true =>
        have := hinv.closedRes o' hc
        rw [hres] at this
        cases this
        rw [hcl] at hc; cases hc
    exact
    { resLt := fun o' ho' => by simp [setPc, hres] at ho',
      leaderRes := fun j o' hj => by
        simp only [setPc_pc] at hj
        by_cases hji : j = i
        · simp [hji] at hj
        · simp only [hji, if_false] at hj
          exact absurd (hinv.leaderUniq j i o' o hj hpc) hji,
      leaderUniq := fun a b o1 o2 ha hb => by
        simp only [setPc_pc] at ha hb
        by_cases hai : a = i
        · simp [hai] at ha
        · by_cases hbi : b = i
          · simp [hbi] at hb
          · simp only [hai, hbi, if_false] at ha hb; exact hinv.leaderUniq a b o1 o2 ha hb,
      closedRes := fun o' hc => by
        have := hnoClosed o'
        simp only [setPc] at hc
        rw [this] at hc; exact absurd hc (by simp),
      waitLt := fun j o' hj => by
        simp only [setPc_pc] at hj
        by_cases hji : j = i
        · simp [hji] at hj
        · simp only [hji, if_false] at hj; exact hinv.waitLt j o' hj,
      count := by
        have := hinv.count
        simp only [hres, Option.isSome_some, if_true] at this
        simp [setPc, hres, this] }
  | wake i o hpc hen =>
    exact
    { resLt := hinv.resLt,
      leaderRes := fun j o' hj => by
        simp only [setPc_pc] at hj
        by_cases hji : j = i
        · simp [hji] at hj
        · simp only [hji, if_false] at hj; exact hinv.leaderRes j o' hj,
      leaderUniq := fun a b o1 o2 ha hb => by
        simp only [setPc_pc] at ha hb
        by_cases hai : a = i
        · simp [hai] at ha
        · by_cases hbi : b = i
          · simp [hbi] at hb
          · simp only [hai, hbi, if_false] at ha hb; exact hinv.leaderUniq a b o1 o2 ha hb,
      closedRes := hinv.closedRes,
      waitLt := fun j o' hj => by
        simp only [setPc_pc] at hj
        by_cases hji : j = i
        · simp [hji] at hj
        · simp only [hji, if_false] at hj; exact hinv.waitLt j o' hj,
      count := hinv.count }

theorem linv_init : LInv {} :=
  { resLt := fun _ h => (by cases h), leaderRes := fun _ _ h => (by cases h),
    leaderUniq := fun _ _ _ _ h => (by cases h), closedRes := fun _ h => (by cases h),
    waitLt := fun _ _ h => (by cases h), count := rfl }

theorem linv_reachable {run : Nat → Nat} {s : State} (h : Reachable run s) : LInv s := by
  induction h with
  | init => exact linv_init
  | step _ hs ih => exact linv_step ih hs

/-- **Leader election**: under every interleaving of any number of goroutines at most one is
    inside `Execute` of the task, and while it is, `task.result` is its pending result. -/
theorem leader_unique {run : Nat → Nat} {s : State} (h : Reachable run s) {i j o o' : Nat}
    (hi : s.pc i = .leader o) (hj : s.pc j = .leader o') : i = j ∧ s.result = some o ∧ s.closed o = false :=
  ⟨(linv_reachable h).leaderUniq i j o o' hi hj, (linv_reachable h).leaderRes i o hi⟩

/-- **At most once (concurrent)**: `Execute` is started at most once more than the number of
    recovered panics; without panics at most once — whatever the schedule. -/
theorem at_most_once_lts {run : Nat → Nat} {s : State} (h : Reachable run s) :
    s.execs ≤ s.panics + 1 ∧ (s.panics = 0 → s.execs ≤ 1) := by
  have := (linv_reachable h).count
  constructor
  · rw [this]; split <;> omega
  · intro h0; rw [this, h0]; split <;> omega

/-- **Panic not cached**: the step in which a leader recovers from a panic leaves `task.result`
    nil, and its result object is never closed afterwards (so nobody can take it for a value). -/
theorem panic_not_cached {run : Nat → Nat} {s : State} (h : Reachable run s) {i o : Nat}
    (hpc : s.pc i = .leader o) :
    let s' := setPc { s with result := if s.result = some o then none else s.result,
                              cancelled := fun r => if r = run i then true else s.cancelled r,
                              panics := s.panics + 1 } i (.returned none)
    Step run s s' ∧ s'.result = none ∧ ∀ o', s'.closed o' = false := by
  intro s'
  have hinv := linv_reachable h
  obtain ⟨hres, hcl⟩ := hinv.leaderRes i o hpc
  refine ⟨.panic s i o hpc, by simp [s', setPc, hres], ?_⟩
  intro o'
  have hinv' : LInv s' := linv_step hinv (.panic s i o hpc)
  cases hc : s'.closed o' with
  | false => rfl
  | true =>
    have := hinv'.closedRes o' hc
    simp [s', setPc, hres] at this

/-- finitely many steps -/
inductive Steps (run : Nat → Nat) : State → State → Prop
  | refl (s : State) : Steps run s s
  | step {a b c : State} : Steps run a b → Step run b c → Steps run a c

/-- a goroutine parked on a result object whose leader is gone, in a Run nobody will cancel -/
structure Stranded (run : Nat → Nat) (s : State) (i o : Nat) : Prop where
  waiting : s.pc i = .waiting o
  open_ : s.closed o = false
  live : s.cancelled (run i) = false
  noLeader : ∀ j, s.pc j ≠ .leader o
  lt : o < s.next

theorem stranded_step {run : Nat → Nat} {s s' : State} {i o : Nat} (halone : ∀ j, j ≠ i → run j ≠ run i)
    (hs : Stranded run s i o) (h : Step run s s') : Stranded run s' i o := by
  obtain ⟨hw, hop, hlive, hnl, hlt⟩ := hs
  have other : ∀ (j : Nat) (p : Pc), s.pc j ≠ .waiting o ∨ j ≠ i → j ≠ i ∨ s.pc j ≠ s.pc i := by
    intro j p hh
    rcases hh with h1 | h1
    · by_cases hji : j = i
      · right; rw [hji] at h1; exact absurd hw h1
      · left; exact hji
    · left; exact h1
  cases h with
  | loadNil j hpc _ =>
    have hji : j ≠ i := by intro e; rw [e, hw] at hpc; cases hpc
    exact ⟨by simp [setPc, Ne.symm hji, hw], hop, hlive,
      fun k hk => by simp only [setPc_pc] at hk; by_cases hkj : k = j <;> simp_all, hlt⟩
  | loadDone j o' hpc _ _ =>
    have hji : j ≠ i := by intro e; rw [e, hw] at hpc; cases hpc
    exact ⟨by simp [setPc, Ne.symm hji, hw], hop, hlive,
      fun k hk => by simp only [setPc_pc] at hk; by_cases hkj : k = j <;> simp_all, hlt⟩
  | loadPending j o' hpc _ _ =>
    have hji : j ≠ i := by intro e; rw [e, hw] at hpc; cases hpc
    exact ⟨by simp [setPc, Ne.symm hji, hw], hop, hlive,
      fun k hk => by simp only [setPc_pc] at hk; by_cases hkj : k = j <;> simp_all, hlt⟩
  | casOk j hpc _ =>
    have hji : j ≠ i := by intro e; rw [e, hw] at hpc; cases hpc
    refine ⟨by simp [setPc, Ne.symm hji, hw], hop, hlive, ?_, by show o < s.next + 1; omega⟩
    intro k hk
    simp only [setPc_pc] at hk
    by_cases hkj : k = j
    · simp only [hkj, if_true, Pc.leader.injEq] at hk; omega
    · simp only [hkj, if_false] at hk; exact hnl k hk
  | casFail j o' hpc _ =>
    have hji : j ≠ i := by intro e; rw [e, hw] at hpc; cases hpc
    exact ⟨by simp [setPc, Ne.symm hji, hw], hop, hlive,
      fun k hk => by simp only [setPc_pc] at hk; by_cases hkj : k = j <;> simp_all, hlt⟩
  | reloadNil j hpc _ =>
    have hji : j ≠ i := by intro e; rw [e, hw] at hpc; cases hpc
    exact ⟨by simp [setPc, Ne.symm hji, hw], hop, hlive,
      fun k hk => by simp only [setPc_pc] at hk; by_cases hkj : k = j <;> simp_all, hlt⟩
  | reloadSome j o' hpc _ =>
    have hji : j ≠ i := by intro e; rw [e, hw] at hpc; cases hpc
    exact ⟨by simp [setPc, Ne.symm hji, hw], hop, hlive,
      fun k hk => by simp only [setPc_pc] at hk; by_cases hkj : k = j <;> simp_all, hlt⟩
  | finish j o' hpc =>
    have hji : j ≠ i := by intro e; rw [e, hw] at hpc; cases hpc
    have hoo : o ≠ o' := by intro e; subst e; exact hnl j hpc
    exact ⟨by simp [setPc, Ne.symm hji, hw], by simp [setPc, hoo, hop], hlive,
      fun k hk => by simp only [setPc_pc] at hk; by_cases hkj : k = j <;> simp_all, hlt⟩
  | panic j o' hpc =>
    have hji : j ≠ i := by intro e; rw [e, hw] at hpc; cases hpc
    have hrun : run i ≠ run j := fun e => halone j hji e.symm
    exact ⟨by simp [setPc, Ne.symm hji, hw], hop, by simp [setPc, hrun, hlive],
      fun k hk => by simp only [setPc_pc] at hk; by_cases hkj : k = j <;> simp_all, hlt⟩
  | wake j o' hpc hen =>
    by_cases hji : j = i
    · subst hji
      rw [hw] at hpc
      cases hpc
      rcases hen with h1 | h1
      · rw [hop] at h1; cases h1
      · rw [hlive] at h1; cases h1
    · exact ⟨by simp [setPc, Ne.symm hji, hw], hop, hlive,
        fun k hk => by simp only [setPc_pc] at hk; by_cases hkj : k = j <;> simp_all, hlt⟩

/-- a stranded goroutine stays parked under every continuation of the system -/
theorem stranded_forever {run : Nat → Nat} {s s' : State} {i o : Nat} (halone : ∀ j, j ≠ i → run j ≠ run i)
    (hs : Stranded run s i o) (h : Steps run s s') : Stranded run s' i o := by
  induction h with
  | refl => exact hs
  | step _ hstep ih => exact stranded_step halone ih hstep

/-- **Full statement of "a run returns" at this layer**: from every reachable state, every
    goroutine parked in `waitUntilDone` can still get to return (there is a continuation in
    which it does). -/
def RunReturnsFull : Prop :=
  ∀ (run : Nat → Nat) (s : State) (i o : Nat), Reachable run s → s.pc i = .waiting o →
    ∃ s' r, Steps run s s' ∧ s'.pc i = .returned r

/-- the witness history: goroutine 0 (Run 0) becomes leader, goroutine 1 (Run 1) parks on its
    pending result, then the leader panics -/
def witness : State :=
  let s0 : State := {}
  let s1 := setPc s0 0 .tryCas
  let s2 := setPc { s1 with result := some s1.next, next := s1.next + 1, execs := s1.execs + 1 } 0 (.leader s1.next)
  let s3 := setPc s2 1 (.waiting 0)
  setPc { s3 with result := if s3.result = some 0 then none else s3.result,
                  cancelled := fun r => if r = id 0 then true else s3.cancelled r,
                  panics := s3.panics + 1 } 0 (.returned none)

theorem witness_reachable : Reachable id witness := by
  have r0 : Reachable id ({} : State) := .init
  have r1 := Reachable.step r0 (Step.loadNil {} 0 rfl rfl)
  have r2 := Reachable.step r1 (Step.casOk _ 0 rfl rfl)
  have r3 := Reachable.step r2 (Step.loadPending _ 1 0 rfl rfl rfl)
  exact Reachable.step r3 (Step.panic _ 0 0 rfl)

theorem witness_stranded : Stranded id witness 1 0 :=
  { waiting := rfl, open_ := rfl, live := rfl,
    noLeader := fun j hj => by
      by_cases h0 : j = 0
      · subst h0; simp [witness, setPc] at hj
      · by_cases h1 : j = 1
        · subst h1; simp [witness, setPc] at hj
        · simp [witness, setPc, h0, h1] at hj,
    lt := by decide }

/-- **"A run returns" is refuted** when the waiter belongs to another Run than the panicking
    leader: its `select` waits on a `done` channel that is never closed and on its own
    context, which nobody cancels. -/
theorem run_returns_refuted : ¬ RunReturnsFull := by
  intro h
  obtain ⟨s', r, hsteps, hret⟩ := h id witness 1 0 witness_reachable rfl
  have := (stranded_forever (run := id) (i := 1) (fun j hj => hj) witness_stranded hsteps).waiting
  rw [hret] at this
  cases this

/-- **Partial**: a parked goroutine can return as soon as the leader has finished normally, or
    has panicked in the waiter's own Run (the panic cancels that Run's context). -/
theorem run_returns_partial {run : Nat → Nat} {s : State} {i o : Nat} (hw : s.pc i = .waiting o)
    (h : s.closed o = true ∨ s.cancelled (run i) = true) :
    ∃ s', Step run s s' ∧ s'.pc i = .returned s.result :=
  ⟨_, .wake s i o hw h, by simp [setPc]⟩

/-- … and a panicking leader does cancel the context of every goroutine of its own Run -/
theorem panic_wakes_same_run {run : Nat → Nat} {s : State} {i j o o' : Nat} (hl : s.pc i = .leader o)
    (hw : s.pc j = .waiting o') (hij : i ≠ j) (hrun : run j = run i) :
    ∃ s1 s2, Step run s s1 ∧ Step run s1 s2 ∧ ∃ r, s2.pc j = .returned r := by
  refine ⟨_, _, .panic s i o hl, .wake _ j o' ?_ (Or.inr ?_), ?_⟩
  · simp [setPc, Ne.symm hij, hw]
  · simp [setPc, hrun]
  · exact ⟨(if s.result = some o then none else s.result), by simp [setPc]⟩

/-! ## (C) one goroutine with panics -/

/-- **The panicking task itself is not cached**: when `start` hands back a nil result for a task
    it found with no result (i.e. the task was executed by this call and panicked), the task's
    result is nil afterwards. -/
theorem panicking_task_not_cached {body : Key → Script} {bfsFuel gen fuel : Nat} {st st' : FSt}
    {caller : Option Key} {k : Key}
    (h : startF false body bfsFuel none gen (fuel + 1) st caller k = .ok st' none) :
    resultOf st'.s.tasks k = .none := by
  simp only [startF] at h
  cases hres : resultOf st.s.tasks k with
  | done r => simp [hres] at h
  | pending =>
    simp only [hres] at h
    cases hc : checkCycle st.s.tasks bfsFuel caller k <;> simp [hc] at h
  | none =>
    simp only [hres] at h
    split at h
    · cases h
    · cases h
    · rename_i st1 hrun
      simp only [if_true] at h
      cases h
      show resultOf (setResult st1.s.tasks k .none) k = .none
      unfold setResult resultOf
      rw [PCV.Incr.modify_get]
      cases st1.s.tasks.get k <;> simp
    · cases h

/-- a key `a` that resolves the panicking key `k` -/
def poisonBody : Key → Script
  | 0 => .panic
  | 1 => .resolve [0] (fun _ => .ret (.ok 1))
  | _ => .ret (.ok 0)

/-- **Full statement of "a panic is not cached"**: after a run, no memoized result carries an
    `ErrPanic` (so a later run cannot be served a panic from the cache). -/
def PanicNotMemoizedFull : Prop :=
  ∀ (body : Key → Script) (fuel bfsFuel : Nat) (st' : FSt) (out : RunOut) (roots : List Key),
    runF false body fuel bfsFuel none {} roots = .ok st' out →
    ∀ k r p, resultOf st'.s.tasks k = .done r → r.val ≠ .pan p

/-- the run of root 1 fails, and afterwards task 1 is complete with `Fatal = ErrPanic{0}` -/
def poisonedAfterRun : Out RunOut → Bool
  | .ok st' (.failed 0) =>
    decide (resultOf st'.s.tasks 1 = .done { val := .pan 0, runID := 1 }) &&
    decide (resultOf st'.s.tasks 0 = .none)
  | _ => false

theorem poison_witness : poisonedAfterRun (runF false poisonBody 5 9 none {} [1]) = true := by decide +kernel

/-- **Refuted**: the caller of a panicking query memoizes the `ErrPanic`: the run fails, task 0
    (which panicked) has no result, but task 1 is complete with `Fatal = ErrPanic{0}`. -/
theorem panic_not_memoized_refuted : ¬ PanicNotMemoizedFull := by
  intro h
  have hw := poison_witness
  cases hrun : runF false poisonBody 5 9 none {} [1] with
  | fuel => rw [hrun] at hw; cases hw
  | block => rw [hrun] at hw; cases hw
  | ok st' out =>
    rw [hrun] at hw
    cases out with
    | results rs => cases hw
    | failed k =>
      cases k with
      | succ k => cases hw
      | zero =>
        simp only [poisonedAfterRun, Bool.and_eq_true, decide_eq_true_eq] at hw
        exact h poisonBody 5 9 st' _ [1] hrun 1 _ 0 hw.1 rfl

/-- … and the next run of the same root returns that memoized panic error as an ordinary result
    (`Run` succeeds) without executing anything. -/
def rerunServedFromCache : Out RunOut → Bool
  | .ok st1 (.failed 0) =>
    (match runF false poisonBody 5 9 none st1 [1] with
     | .ok st2 (.results [(.pan 0, false)]) => decide (st2.s.log = st1.s.log)
     | _ => false)
  | _ => false

theorem poisoned_rerun : rerunServedFromCache (runF false poisonBody 5 9 none {} [1]) = true := by decide +kernel


/-! ### (C') a leader that cannot acquire the semaphore abandons its pending result -/

/-- three independent queries; query 0 panics -/
def fanBody : Key → Script
  | 0 => .panic
  | _ => .ret (.ok 7)

/-- `Run(0, 1)` at parallelism 1 with the goroutine of query 1 parked in `acquire` when query 0
    panics: the run fails, and task 1 is left PENDING although nobody computes it any more;
    the next `Run(1)` then waits for ever. -/
def abandonedThenBlocked (fx : Bool) : Bool :=
  match runP fx fanBody 5 9 {} 0 [1] with
  | some (.ok st1 (.failed 0)) =>
    decide (resultOf st1.s.tasks 1 = .pending) &&
    (match runF fx fanBody 5 9 none st1 [1] with
     | .block => true
     | _ => false)
  | _ => false

/-- **Full statement of "a run returns" for the one-goroutine layer**: a run that follows a
    failed run never blocks. -/
def RunAfterFailedRunReturnsFull : Prop :=
  ∀ (body : Key → Script) (st1 : FSt) (out : Out RunOut) (k : Key) (others roots : List Key),
    runP false body 5 9 {} k others = some (.ok st1 (.failed k)) →
    runF false body 5 9 none st1 roots = out → (match out with | .block => False | _ => True)

theorem abandoned_leader_witness : abandonedThenBlocked false = true := by decide +kernel

/-- **Refuted**: after a run that failed with a panic, tasks whose leaders gave up in `acquire`
    stay pending for ever and the next run that needs one of them never returns. -/
theorem run_after_failed_run_refuted : ¬ RunAfterFailedRunReturnsFull := by
  intro h
  have hw := abandoned_leader_witness
  unfold abandonedThenBlocked at hw
  cases hp : runP false fanBody 5 9 {} 0 [1] with
  | none => rw [hp] at hw; cases hw
  | some o =>
    rw [hp] at hw
    cases o with
    | fuel => cases hw
    | block => cases hw
    | ok st1 out =>
      cases out with
      | results rs => cases hw
      | failed k =>
        cases k with
        | succ k => cases hw
        | zero =>
          simp only [Bool.and_eq_true, decide_eq_true_eq] at hw
          have := h fanBody st1 _ 0 [1] [1] hp rfl
          cases hr : runF false fanBody 5 9 none st1 [1] with
          | block => rw [hr] at this; exact this
          | fuel => rw [hr] at hw; simp at hw
          | ok a b => rw [hr] at hw; simp at hw

/-! ### The candidate fix in the model (`fx = true`): the three witnesses disappear -/

/-- with the fix: the caller of the panicking query is NOT memoized, the re-run fails with the
    panic error again (and executes the queries again) -/
def patchedPoison : Bool :=
  match runF true poisonBody 5 9 none {} [1] with
  | .ok st1 (.failed 0) =>
    decide (resultOf st1.s.tasks 1 = .none) && decide (resultOf st1.s.tasks 0 = .none) &&
    (match runF true poisonBody 5 9 none st1 [1] with
     | .ok _ (.failed 0) => true
     | _ => false)
  | _ => false

theorem patched_panic_not_memoized : patchedPoison = true := by decide +kernel

/-- with the fix: the abandoned leaders withdraw their results and the next run completes -/
def patchedAbandoned : Bool :=
  match runP true fanBody 5 9 {} 0 [1] with
  | some (.ok st1 (.failed 0)) =>
    decide (resultOf st1.s.tasks 1 = .none) &&
    (match runF true fanBody 5 9 none st1 [1] with
     | .ok _ (.results [(.ok 7, true)]) => true
     | _ => false)
  | _ => false

theorem patched_abandoned_leader : patchedAbandoned = true := by decide +kernel

/-! ## Semaphore accounting -/

/-- `holders` = the `Task` structs whose `holding` flag is set -/
structure Sem where
  free : Nat
  holders : List Nat

inductive SemStep : Sem → Sem → Prop
  /-- `Task.acquire` (fails with an abort if already holding) -/
  | acquire (s : Sem) (i : Nat) : 0 < s.free → i ∉ s.holders → SemStep s ⟨s.free - 1, i :: s.holders⟩
  /-- `Task.release` (aborts if not holding) -/
  | release (s : Sem) (i : Nat) : i ∈ s.holders → SemStep s ⟨s.free + 1, s.holders.erase i⟩
  /-- `t.transferFrom(that)`: swap the flags; requires `that.holding && !t.holding` -/
  | transfer (s : Sem) (t that : Nat) : that ∈ s.holders → t ∉ s.holders →
      SemStep s ⟨s.free, t :: s.holders.erase that⟩

/-- **Permits conserved**: free permits + holding tasks is invariant, and no task holds twice. -/
theorem permits_conserved {s s' : Sem} (h : SemStep s s') (hn : s.holders.Nodup) :
    s'.free + s'.holders.length = s.free + s.holders.length ∧ s'.holders.Nodup := by
  cases h with
  | acquire i hf hi => exact ⟨by simp; omega, List.nodup_cons.2 ⟨hi, hn⟩⟩
  | release i hi =>
    refine ⟨?_, hn.erase i⟩
    have := List.length_erase_of_mem hi
    have hpos : 0 < s.holders.length := List.length_pos_of_mem hi
    simp only [this]; omega
  | transfer t that hthat ht =>
    refine ⟨?_, List.nodup_cons.2 ⟨fun hm => ht (List.mem_of_mem_erase hm), hn.erase that⟩⟩
    have := List.length_erase_of_mem hthat
    have hpos : 0 < s.holders.length := List.length_pos_of_mem hthat
    simp only [List.length_cons, this]; omega

#print axioms errCycle_names_cycle
#print axioms cycle_detected
#print axioms cycle_only_if_reachable
#print axioms leader_unique
#print axioms at_most_once_lts
#print axioms panic_not_cached
#print axioms stranded_forever
#print axioms run_returns_refuted
#print axioms run_returns_partial
#print axioms panic_wakes_same_run
#print axioms panicking_task_not_cached
#print axioms panic_not_memoized_refuted
#print axioms poisoned_rerun
#print axioms run_after_failed_run_refuted
#print axioms patched_panic_not_memoized
#print axioms patched_abandoned_leader
#print axioms permits_conserved
end PCV.Props.C34
