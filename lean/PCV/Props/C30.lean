/-
C30 — Printer round-trip mode reproduces the source.

Layers (see DESIGN.md section 7, C30): the trivia walker (`PCV.Model.Trivia`, tied to
`buildTriviaIndex` by the `tri` ops), the round-trip printer primitives executing a plan
(`PCV.Model.PrinterRT`, the plan being the transcribed AST walk) and the dom renderer
(`PCV.Model.Dom`), tied together to `PrintFile` / `Print` by the `rt` ops.

The full statement is FALSE of the code as it is, at every layer:
* the walker drops whitespace that follows the last token of a declaration when the scope ends
  without a `;` / `}` boundary, and loses the leading trivia of a bracket that directly follows a
  boundary on the same line (`trivia_partition_full_refuted`);
* the renderer pads / trims the end of the output to one newline, and injects indentation after
  a pure-newline text tag inside `withIndent` (`C30_full_refuted`, `C30_one_newline_refuted`);
* per-declaration printing loses a trailing space-only run (`decl_concat_full_refuted`).
What is proved for every input: the accounting identity of the walker (`trivia_accounting`), the
partition under `noLoss` (`trivia_partition_partial`), and the round trip of the model under the
decidable condition `fileClean` (`print_roundtrip_partial`, `decl_concat_partial`) — the
condition whose negation the property oracle reports as the cause of a failing round trip.
-/
import PCV.Lemmas.Trivia
import PCV.Lemmas.Printer
namespace PCV.Props.C30
open PCV.Trivia PCV.PrinterRT PCV.Dom

/-! ## 1. trivia_partition -/

/-- what the two maps of `triviaIndex` hold for one natural token (the `dropped` tokens are in
    no map; with the cursor quirk the leading trivia is overwritten) -/
def bucketTok (t : NatOut) : List SPiece :=
  (if t.viaClose then [] else sks t.leading) ++ [.nat t.openId] ++ sks t.trailing

/-- the buckets of one scope read in emission order: trailing of the open token, then per
    declaration its slot and per token leading ++ token ++ trailing, then the last slot
    (detached part ++ leading of the close token) -/
def bucketScope (o : ScopeOut) : List SPiece :=
  sks o.openTrailing ++ o.decls.flatMap (fun d => sks d.slot ++ d.toks.flatMap bucketTok) ++ sks o.lastSlot

/-- nothing was dropped and no leading trivia was lost -/
def noLoss (o : ScopeOut) : Bool :=
  o.decls.all (fun d => d.toks.all (fun t => t.dropped.isEmpty && (!t.viaClose || t.leading.isEmpty)))

/-- trivia_partition at full strength: every skippable token of a scope lands in exactly one
    bucket and the buckets, read in emission order, are the original order. -/
def trivia_partition_full : Prop :=
  ∀ (isFile : Bool) (mode : Mode) (items : List Item),
    bucketScope (walkScope isFile mode items) = scopePieces items

/-- `[x ]`: the space before `]` is in no bucket (observed on the real `buildTriviaIndex`:
    `tri (k5b.no78.s20.)5d.` answers `A1::;2::;4::;|D0:/:0:0;1:/:0:0;`). -/
theorem trivia_partition_full_refuted : ¬ trivia_partition_full := by
  intro h
  have := h false .literal [.leaf 2 .other [120], .skip ⟨3, false, [32]⟩]
  revert this
  decide +kernel

/-- **Accounting identity** (all scopes, all modes): with the dropped tokens counted, the walker
    output accounts for every item of the scope exactly once, in source order. -/
theorem trivia_accounting (isFile : Bool) (mode : Mode) (items : List Item) :
    emitScope (walkScope isFile mode items) = scopePieces items :=
  walkScope_accounting isFile mode items

theorem bucketTok_eq_emitTok (t : NatOut)
    (h : (t.dropped.isEmpty && (!t.viaClose || t.leading.isEmpty)) = true) : bucketTok t = emitTok t := by
  simp only [Bool.and_eq_true, List.isEmpty_iff, Bool.or_eq_true, Bool.not_eq_true'] at h
  obtain ⟨hd, hv⟩ := h
  unfold bucketTok emitTok
  rw [hd]
  rcases hv with hv | hv
  · simp [hv]
  · by_cases hc : t.viaClose = true
    · simp [hc, hv]
    · simp [hc]

theorem flatMap_congr' {α β : Type} (l : List α) (f g : α → List β) (h : ∀ a ∈ l, f a = g a) :
    l.flatMap f = l.flatMap g := by
  induction l with
  | nil => rfl
  | cons a as ih =>
    simp only [List.flatMap_cons]
    rw [h a (by simp), ih (fun b hb => h b (by simp [hb]))]

/-- **trivia_partition, partial**: when the walker drops nothing in a scope, its buckets
    partition the scope's skippable tokens and preserve their order. -/
theorem trivia_partition_partial (isFile : Bool) (mode : Mode) (items : List Item)
    (h : noLoss (walkScope isFile mode items) = true) :
    bucketScope (walkScope isFile mode items) = scopePieces items := by
  rw [← trivia_accounting isFile mode items]
  unfold bucketScope emitScope emitDecl
  simp only [noLoss, List.all_eq_true] at h
  congr 2
  apply flatMap_congr' _ _ _
  intro d hd
  congr 1
  apply flatMap_congr' _ _ _
  intro t ht
  exact bucketTok_eq_emitTok t (h d hd t ht)

-- non-vacuity: `x = 1;` followed by a newline loses nothing
example : noLoss (walkScope true .decl
    [.leaf 1 .other [120], .skip ⟨2, false, [32]⟩, .leaf 3 .assign [61], .skip ⟨4, false, [32]⟩,
     .leaf 5 .other [49], .leaf 6 .semi [59], .skip ⟨7, false, [10]⟩]) = true := by decide +kernel

/-! ## 2. print_roundtrip -/

/-- the plan prints the natural tokens of the tree, each once, in source order — what any
    correct AST walk does -/
def PlanVisitsAll (items : List Item) (plan : List Plan) : Prop :=
  natIds (traceList (Env.ofItems items) [] plan).2 = natIds (piecesDFS items)

/-- C30, first clause, at full strength on the model: printing in round-trip mode reproduces
    the source byte for byte. -/
def C30_full : Prop :=
  ∀ (items : List Item) (plan : List Plan), idsDistinct items → PlanVisitsAll items plan →
    printFile (Env.ofItems items) plan = sourceOf items

/-- the empty file: `PrintFile` answers "\n" (real code: `rt - R0,0;E; -` answers `0a -`). -/
theorem C30_full_refuted : ¬ C30_full := by
  intro h
  have := h [] [.remain 0 0, .flush] (by unfold idsDistinct; decide +kernel)
    (by unfold PlanVisitsAll; decide +kernel)
  revert this
  decide +kernel

/-- `message M {\noption a = 1;\n}\n`, accepted by the experimental parser without errors (tree and
    plan as observed on the real parser/printer: op
    `rt no6d657373616765.s20.no4d.s20.(b7b.s0a.no6f7074696f6e.s20.no61.s20.na3d.s20.no31.nm3b.s0a.)7d.s0a. …`) -/
def wItems : List Item :=
  [.leaf 1 .other [109, 101, 115, 115, 97, 103, 101], .skip ⟨2, false, [32]⟩, .leaf 3 .other [77],
   .skip ⟨4, false, [32]⟩,
   .fused 5 .braces [123]
     [.skip ⟨6, false, [10]⟩, .leaf 7 .other [111, 112, 116, 105, 111, 110], .skip ⟨8, false, [32]⟩,
      .leaf 9 .other [97], .skip ⟨10, false, [32]⟩, .leaf 11 .assign [61], .skip ⟨12, false, [32]⟩,
      .leaf 13 .other [49], .leaf 14 .semi [59], .skip ⟨15, false, [10]⟩]
     16 [125],
   .skip ⟨17, false, [10]⟩]

def wPlan : List Plan :=
  [.slot 0 0, .tok 1 .none, .tok 3 .space, .tok 5 .space,
   .indent [.slot 5 0, .tok 7 .newline, .tok 9 .space, .tok 11 .space, .tok 13 .space, .tok 14 .none,
            .remain 5 1, .closeComments],
   .tok 16 .newline, .remain 0 1, .flush]

/-- the weaker statement conjectured in DESIGN.md section 6: sources that end in exactly one
    newline round-trip -/
def C30_one_newline : Prop :=
  ∀ (items : List Item) (plan : List Plan), idsDistinct items → PlanVisitsAll items plan →
    (sourceOf items).getLast? = some 10 → (sourceOf items).dropLast.getLast? ≠ some 10 →
    printFile (Env.ofItems items) plan = sourceOf items

/-- indentation is injected after the newline that precedes `option`: the model (and the real
    `PrintFile`) answer `message M {\n  option a = 1;\n}\n`. -/
theorem C30_one_newline_refuted : ¬ C30_one_newline := by
  intro h
  have := h wItems wPlan (by unfold idsDistinct; decide +kernel) (by unfold PlanVisitsAll; decide +kernel)
    (by decide +kernel) (by decide +kernel)
  revert this
  decide +kernel

/-- **print_roundtrip, partial** (all trees, all plans): if the plan emits every token of the tree
    exactly once and in source order, the instrumented renderer raises no flag (no indentation
    injected, no conditional tag rendered, no whitespace tags merged) and the end-of-output rule is
    harmless, the model's `PrintFile` returns the source text byte for byte. -/
theorem print_roundtrip_partial (items : List Item) (plan : List Plan) (hid : idsDistinct items)
    (h : fileClean (Env.ofItems items) items plan = true) :
    printFile (Env.ofItems items) plan = sourceOf items :=
  printFile_of_clean items plan hid h

/-- `message M {\n  option a = 1;\n}\n` (as observed) is clean -/
def cItems : List Item :=
  [.leaf 1 .other [109, 101, 115, 115, 97, 103, 101], .skip ⟨2, false, [32]⟩, .leaf 3 .other [77],
   .skip ⟨4, false, [32]⟩,
   .fused 5 .braces [123]
     [.skip ⟨6, false, [10]⟩, .skip ⟨7, false, [32, 32]⟩, .leaf 8 .other [111, 112, 116, 105, 111, 110],
      .skip ⟨9, false, [32]⟩, .leaf 10 .other [97], .skip ⟨11, false, [32]⟩, .leaf 12 .assign [61],
      .skip ⟨13, false, [32]⟩, .leaf 14 .other [49], .leaf 15 .semi [59], .skip ⟨16, false, [10]⟩]
     17 [125],
   .skip ⟨18, false, [10]⟩]

def cPlan : List Plan :=
  [.slot 0 0, .tok 1 .none, .tok 3 .space, .tok 5 .space,
   .indent [.slot 5 0, .tok 8 .newline, .tok 10 .space, .tok 12 .space, .tok 14 .space, .tok 15 .none,
            .remain 5 1, .closeComments],
   .tok 17 .newline, .remain 0 1, .flush]

-- non-vacuity of the hypotheses of `print_roundtrip_partial`
example : idsDistinct cItems ∧ fileClean (Env.ofItems cItems) cItems cPlan = true := by
  unfold idsDistinct; decide +kernel

/-! ## 3. decl_concat -/

/-- one per-declaration print is clean: the plan leaves nothing pending, invents nothing, the
    instrumented renderer raises no flag and no space run is left buffered at the end -/
def declClean (e : Env) (plan : List Plan) : Bool :=
  let r := traceList e [] plan
  let st := diagRender (rtOptions true) (execPlan e plan)
  r.1.isEmpty && noSynth r.2 && st.flags.none && st.spaces == 0

/-- C30, second clause, at full strength on the model: the per-declaration prints, concatenated,
    followed by the text of the tokens they did not cover, are the source. -/
def decl_concat_full : Prop :=
  ∀ (items : List Item) (plans : List (List Plan)) (rest : List Piece), idsDistinct items →
    plans.flatMap (fun p => (traceList (Env.ofItems items) [] p).2) ++ rest = piecesDFS items →
    plans.flatMap (printDecl (Env.ofItems items)) ++ piecesText (Env.ofItems items) rest = sourceOf items

/-- `; ;\n`: `Print` of the first declaration ends in a space-only tag that `render` never
    writes; the real code answers `;;` for the concatenation. -/
theorem decl_concat_full_refuted : ¬ decl_concat_full := by
  intro h
  have := h [.leaf 1 .semi [59], .skip ⟨2, false, [32]⟩, .leaf 3 .semi [59], .skip ⟨4, false, [10]⟩]
    [[.slot 0 0, .tok 1 .newline, .flush], [.slot 0 1, .tok 3 .newline, .flush]]
    [.sk ⟨4, false, [10]⟩] (by unfold idsDistinct; decide +kernel) (by decide +kernel)
  revert this
  decide +kernel

theorem printDecl_of_clean (e : Env) (plan : List Plan) (h : declClean e plan = true) :
    printDecl e plan = piecesText e (traceList e [] plan).2 := by
  simp only [declClean, Bool.and_eq_true, beq_iff_eq] at h
  obtain ⟨⟨⟨_, hns⟩, hfl⟩, hsp⟩ := h
  unfold printDecl
  rw [render_clean_omit _ _ rfl hfl hsp]
  exact (execList_trace e [] plan hns).2

/-- **decl_concat, partial**: if every per-declaration print is clean and together they emit a
    prefix of the file's tokens in order, then the concatenation of the prints followed by the
    text of the remaining tokens (the file's trailing trivia) is the source. -/
theorem decl_concat_partial (items : List Item) (plans : List (List Plan)) (rest : List Piece)
    (hid : idsDistinct items)
    (hclean : ∀ p ∈ plans, declClean (Env.ofItems items) p = true)
    (htr : plans.flatMap (fun p => (traceList (Env.ofItems items) [] p).2) ++ rest = piecesDFS items) :
    plans.flatMap (printDecl (Env.ofItems items)) ++ piecesText (Env.ofItems items) rest = sourceOf items := by
  rw [← piecesText_ofItems items hid, ← htr, piecesText_append]
  congr 1
  clear htr
  induction plans with
  | nil => simp [piecesText]
  | cons p ps ih =>
    simp only [List.flatMap_cons, piecesText_append]
    rw [printDecl_of_clean _ p (hclean p (by simp)), ih (fun q hq => hclean q (by simp [hq]))]

end PCV.Props.C30

#print axioms PCV.Props.C30.trivia_accounting
#print axioms PCV.Props.C30.trivia_partition_partial
#print axioms PCV.Props.C30.trivia_partition_full_refuted
#print axioms PCV.Props.C30.print_roundtrip_partial
#print axioms PCV.Props.C30.C30_full_refuted
#print axioms PCV.Props.C30.C30_one_newline_refuted
#print axioms PCV.Props.C30.decl_concat_partial
#print axioms PCV.Props.C30.decl_concat_full_refuted
