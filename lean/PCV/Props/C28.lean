/-
C28 — Experimental parser is total.

"For any source text, the experimental lexer and parser finish without an internal compiler error
or panic. Parsing reports success exactly when no error diagnostics were produced, and every
diagnostic span lies inside the file."

Models: PCV.Model.XParse (the `ok` loop of parser.Parse) and PCV.Model.XLexer (the lexer main loop,
byte for byte), mirroring /repo after the fixes de66908c (`ok` comparison), d839c04c (lone
backslash at EOF) and cb845bb5 (flush of trailing unrecognised bytes).

* the `ok` clause, in full: `C28_ok` — for EVERY list of diagnostic levels, Parse's `ok` is true
  exactly when no diagnostic is an error or an ICE (any numbering with ICE < Error < Warning <
  Remark; `C28_ok_go` for the constants of the tree).
* the lexer half of totality, in full: `lexer_total` — NO input makes the lexer ICE (for every
  Unicode class table with XID_Start ⊆ XID_Continue): no panic inside an iteration, `mustProgress`
  never fires, the model never runs out of fuel, `Stream.Push` never overflows
  (`push_never_overflows`) and `token.Fuse` never panics (`fuse_never_panics`).
  `lexer_done_iff`: the lexer completes iff the prelude lets the file through, i.e. iff the file is
  empty or valid UTF-8 that does not trip the UTF-16 heuristics.
* documentation of the defects that were fixed: `C28_ok_fullPrefix` with `C28_ok_refutedPrefix`
  (the loop `>= report.Error`: a single warning gave ok=false, a lone ICE ok=true), and
  `strContentPrefix_panics` (a string ending in `\` at EOF panicked in errtoken.InvalidEscape).
* The parser proper (recursive descent + legalisation) is not modelled: its ICEs, escaping panics
  and out-of-file spans are only observed, by the `xparse` engine's oracle on every generated input.
-/
import PCV.Model.XParse
import PCV.Lemmas.XFuseOk
namespace PCV.Props.C28
open PCV.XParse PCV.XLexer PCV.TokenStream

/-! ## the `ok` clause -/

/-- The loop as written: `ok` iff every level is strictly above `Error` (less severe). -/
theorem ok_iff_all_above (E : Int) (ls : List Int) : okLoop E ls = true ↔ ∀ l ∈ ls, E < l := by
  induction ls with
  | nil => simp [okLoop]
  | cons l ls ih =>
    simp only [okLoop, List.mem_cons, forall_eq_or_imp]
    split
    · simp; intro h; omega
    · rw [ih]; constructor
      · intro h; exact ⟨by omega, h⟩
      · intro h; exact h.2

/-- levels that `report` can produce -/
def ValidLevels (L : Levels) (ls : List Int) : Prop :=
  ∀ l ∈ ls, l = L.ice ∨ l = L.err ∨ l = L.warn ∨ l = L.remark

/-- **C28, `ok` clause, at full strength.** For every list of diagnostic levels, Parse's `ok` is
    true exactly when no diagnostic is an error or an ICE — for any numbering of the levels in which
    ICE < Error < Warning < Remark. -/
theorem C28_ok (L : Levels) (hL : L.ice < L.err ∧ L.err < L.warn ∧ L.warn < L.remark)
    (ls : List Int) (hv : ValidLevels L ls) :
    okLoop L.err ls = true ↔ noErrors L ls = true := by
  induction ls with
  | nil => simp [okLoop, noErrors]
  | cons l ls ih =>
    have hv' : ValidLevels L ls := fun x hx => hv x (by simp [hx])
    have hl := hv l (by simp)
    simp only [okLoop, noErrors, List.all_cons, Bool.and_eq_true, bne_iff_ne, ne_eq]
    split
    · next hle =>
      simp only [Bool.false_eq_true, false_iff, not_and]
      intro h
      exfalso
      rcases hl with rfl | rfl | rfl | rfl <;> omega
    · next hgt =>
      have := ih hv'
      simp only [noErrors] at this
      rw [this]
      constructor
      · intro h; exact ⟨⟨by omega, by omega⟩, h⟩
      · intro h; exact h.2

/-- the same for the constants of the tree (ICE=1, Error=2, Warning=3, Remark=4) -/
theorem C28_ok_go (ls : List Int) (hv : ValidLevels goLevels ls) :
    okLoop goLevels.err ls = true ↔ noErrors goLevels ls = true :=
  C28_ok goLevels (by decide) ls hv

example : okLoop goLevels.err [3, 4] = true ∧ okLoop goLevels.err [3, 2] = false ∧
    okLoop goLevels.err [1] = false := by decide

/-! ### a report shared by several Parse calls -/

/-- What a call reports does not depend on what the report held before: with the `prior` offset
    the result is the one a fresh report gives, whatever the earlier diagnostics were. -/
theorem ok_ignores_prior (E : Int) (prior new : List Int) :
    okShared E prior new = okLoop E new := by
  simp [okShared]

/-- … so the `ok` clause holds for every call on a shared report. -/
theorem C28_ok_shared (L : Levels) (hL : L.ice < L.err ∧ L.err < L.warn ∧ L.warn < L.remark)
    (prior new : List Int) (hv : ValidLevels L new) :
    okShared L.err prior new = true ↔ noErrors L new = true := by
  rw [ok_ignores_prior]; exact C28_ok L hL new hv

/-- Looking at the whole report instead is wrong as soon as an earlier call left an error: a clean
    file is then reported as failed (what the shared-report observation of the xparse engine
    detects). -/
theorem okWholeReport_refuted :
    ∃ prior new, ValidLevels goLevels new ∧ noErrors goLevels new = true ∧
      okWholeReport goLevels.err prior new = false :=
  ⟨[2], [], ⟨fun l hl => absurd hl (List.not_mem_nil), by decide, by decide⟩⟩

/-! ### the loop before de66908c (documentation) -/

/-- the `ok` clause for the loop as it was (`d.Level() >= report.Error`) -/
def C28_ok_fullPrefix : Prop :=
  ∀ ls : List Int, ValidLevels goLevels ls →
    (okLoopPrefix goLevels.err ls = true ↔ noErrors goLevels ls = true)

/-- a file that produced a single warning got `ok = false` -/
theorem C28_ok_refutedPrefix : ¬ C28_ok_fullPrefix := by
  intro h
  have := h [3] (by simp [ValidLevels, goLevels])
  simp [okLoopPrefix, noErrors, goLevels] at this

/-- ... and a lone ICE diagnostic got `ok = true` -/
theorem ok_true_on_icePrefix :
    okLoopPrefix goLevels.err [goLevels.ice] = true ∧ noErrors goLevels [goLevels.ice] = false := by
  decide

/-! ## the lexer half of "finishes without an ICE" -/

/-- **The lexer never ICEs and never stalls.** For every input and every consistent class table
    the run ends as `done` or as `abort` (the prelude refused the file). -/
theorem lexer_never_stalls (E : Env) (hcls : ClsOK E) :
    (lex E).status = .done ∨ (lex E).status = .abort := by
  rcases lex_dichotomy E hcls with ⟨_, ha⟩ | ⟨_, _, hd⟩
  · exact Or.inr ha
  · exact Or.inl hd

/-- **C28, totality clause restricted to the lexer, at full strength**: no input makes the lexer
    panic — not in an iteration, not in `mustProgress`, not in `Stream.Push`, not in `token.Fuse`. -/
theorem lexer_total (E : Env) (hcls : ClsOK E) :
    (lex E).status ≠ .icePanic ∧ (lex E).status ≠ .iceProgress ∧ (lex E).status ≠ .fuel := by
  rcases lexer_never_stalls E hcls with h | h <;> rw [h] <;> simp

/-- the lexer completes exactly on the files the prelude lets through: the empty file and valid
    UTF-8 that does not trip the UTF-16 heuristics -/
theorem lexer_done_iff (E : Env) (hcls : ClsOK E) :
    (lex E).status = .done ↔ (E.text = [] ∨ (looksUtf16 E.text = false ∧ V E.text)) := by
  rw [← prelude_passes_iff]
  rcases lex_dichotomy E hcls with ⟨hf, ha⟩ | ⟨s0, hp, hd⟩
  · rw [ha, hf]; simp
  · rw [hd, hp]; simp

/-- `Stream.PushKeyword` never panics with "overflowed backing text" -/
theorem push_never_overflows (E : Env) (hcls : ClsOK E) (s0 s1 : LS)
    (hp : prelude E {} = (s0, true)) (hm : mainLoop E (E.n + 1) (-1) s0 = (s1, .done)) :
    (flush E.n s1).overflow = false ∧ (fuseBraces E.n (flush E.n s1)).1.overflow = false := by
  rcases lex_cases E hcls with ⟨hf, _, _⟩ | ⟨s0', s1', hp', hm', hpost, _⟩
  · rw [hp] at hf; simp at hf
  · rw [hp] at hp'; simp only [Prod.mk.injEq, and_true] at hp'; subst hp'
    rw [hm] at hm'; simp only [Prod.mk.injEq, and_true] at hm'; subst hm'
    exact ⟨hpost.nov, (fuseBraces_post E.n _ hpost).1.nov⟩

/-- `token.Fuse` never panics: after a completed main loop both fuse passes (brackets, implicit
    string concatenation) only ever join existing, distinct, still-leaf tokens, in order. -/
theorem fuse_never_panics (n : Nat) (s1 : LS) (h : Post n s1) :
    (fuseAll (fuseBraces n s1).1.toks.reverse (fuseBraces n s1).2).2 = false ∧
    (fuseAll (fuseAll (fuseBraces n s1).1.toks.reverse (fuseBraces n s1).2).1
      (strRuns (fuseAll (fuseBraces n s1).1.toks.reverse (fuseBraces n s1).2).1 1 none)).2 = false :=
  no_fuse_panic n s1 h

/-- no iteration of the main loop panics -/
theorem iteration_never_panics (E : Env) (s : LS) : (iter E s).2 = false := iter_noice E s

/-- non-vacuity: files that lex to completion, with and without a trailing backslash -/
example : (lex (envA [109, 101, 115, 115, 97, 103, 101, 32, 77, 32, 123, 125, 10])).status = .done ∧
    (lex (envA [34, 92])).status = .done := by
  decide +kernel

/-! ### the string-escape panic before d839c04c (documentation) -/

/-- on `"\` the old `lexStringContent` panicked (a lexer ICE), the current one does not -/
theorem strContentPrefix_panics :
    (strContentPrefix (envA [34, 92]) 1).2 = true ∧ (strContent (envA [34, 92]) 1).2 = false := by
  decide +kernel

end PCV.Props.C28

#print axioms PCV.Props.C28.ok_iff_all_above
#print axioms PCV.Props.C28.C28_ok
#print axioms PCV.Props.C28.C28_ok_go
#print axioms PCV.Props.C28.C28_ok_refutedPrefix
#print axioms PCV.Props.C28.ok_true_on_icePrefix
#print axioms PCV.Props.C28.lexer_never_stalls
#print axioms PCV.Props.C28.lexer_total
#print axioms PCV.Props.C28.lexer_done_iff
#print axioms PCV.Props.C28.push_never_overflows
#print axioms PCV.Props.C28.fuse_never_panics
#print axioms PCV.Props.C28.iteration_never_panics
#print axioms PCV.Props.C28.strContentPrefix_panics
#print axioms PCV.Props.C28.C28_ok_shared
#print axioms PCV.Props.C28.okWholeReport_refuted
