/-
C28 — Experimental parser is total.

"For any source text, the experimental lexer and parser finish without an internal compiler error
or panic. Parsing reports success exactly when no error diagnostics were produced, and every
diagnostic span lies inside the file."

What is proved here (about the models PCV.Model.XParse and PCV.Model.XLexer):

* the `ok` clause.  `ok_iff_all_below`: the loop at the end of `parser.Parse` returns true iff every
  diagnostic level is numerically *below* `report.Error`.  With the real constants
  (ICE=1 < Error=2 < Warning=3 < Remark=4) that is "only ICEs": `C28_ok_full` (ok ⇔ no error and no
  ICE diagnostic) is REFUTED (`C28_ok_refuted`: a single warning gives ok=false; `ok_true_on_ice`:
  a lone ICE gives ok=true).  `C28_ok_partial`: on reports that contain only errors — in particular
  the empty report — `ok` is right.  `ok_fixed_iff_no_error`: with `<=` the full statement holds.
* the lexer half of totality.  `lexer_total_full` (the lexer never ICEs) is REFUTED by the input
  `"\`; `lexer_never_stalls`: for every input the lexer model ends in one of three ways — done,
  prelude abort, or a panic inside an iteration of the main loop — never in `mustProgress`, never out
  of fuel; `push_never_overflows` and `fuse_never_panics`: the `Stream.Push` / `token.Fuse` guards are
  unreachable; `lexer_ice_needs_backslash`: an ICE needs a `\` byte in the file;
  `lexer_total_partial`: EVERY valid UTF-8 file without a backslash (that does not trip the UTF-16
  heuristics) is lexed to completion.
* The parser proper (recursive descent + legalisation) is not modelled: its ICEs, escaping panics
  and out-of-file spans are only observed, by the `xparse` engine's oracle on every generated input.
-/
import PCV.Model.XParse
import PCV.Lemmas.XFuseOk
namespace PCV.Props.C28
open PCV.XParse PCV.XLexer PCV.TokenStream

/-! ## the `ok` clause -/

/-- The loop as written: `ok` iff every level is strictly below `Error`. -/
theorem ok_iff_all_below (E : Int) (ls : List Int) : okLoop E ls = true ↔ ∀ l ∈ ls, l < E := by
  induction ls with
  | nil => simp [okLoop]
  | cons l ls ih =>
    simp only [okLoop, List.mem_cons, forall_eq_or_imp]
    split
    · simp; intro h; omega
    · rw [ih]; constructor
      · intro h; exact ⟨by omega, h⟩
      · intro h; exact h.2

/-- levels that `report` can produce -/
def ValidLevels (L : Levels) (ls : List Int) : Prop :=
  ∀ l ∈ ls, l = L.ice ∨ l = L.err ∨ l = L.warn ∨ l = L.remark

/-- C28, `ok` clause, at full strength: for every list of diagnostic levels, Parse's `ok` is true
    exactly when no diagnostic is an error (or worse, an ICE). -/
def C28_ok_full : Prop :=
  ∀ ls : List Int, ValidLevels goLevels ls → (okLoop goLevels.err ls = true ↔ noErrors goLevels ls = true)

/-- A file that produces a single warning: `ok = false` although there is no error. -/
theorem C28_ok_refuted : ¬ C28_ok_full := by
  intro h
  have := h [3] (by simp [ValidLevels, goLevels])
  simp [okLoop, noErrors, goLevels] at this

/-- ... and the converse defect: a lone ICE diagnostic gives `ok = true`. -/
theorem ok_true_on_ice : okLoop goLevels.err [goLevels.ice] = true ∧ noErrors goLevels [goLevels.ice] = false := by
  decide

/-- exact behaviour with the real constants: `ok` iff every diagnostic is an ICE -/
theorem ok_iff_only_ice (ls : List Int) (hv : ValidLevels goLevels ls) :
    okLoop goLevels.err ls = true ↔ ∀ l ∈ ls, l = goLevels.ice := by
  rw [ok_iff_all_below]
  constructor
  · intro h l hl
    have h1 := h l hl
    have h2 := hv l hl
    simp only [goLevels] at h1 h2 ⊢
    omega
  · intro h l hl
    rw [h l hl]; decide

/-- **Partial theorem.** On reports without ICEs, warnings and remarks (only errors, or nothing at
    all) the `ok` clause holds. -/
theorem C28_ok_partial (ls : List Int) (hv : ∀ l ∈ ls, l = goLevels.err) :
    okLoop goLevels.err ls = true ↔ noErrors goLevels ls = true := by
  rw [ok_iff_all_below]
  simp only [noErrors, List.all_eq_true, Bool.and_eq_true, bne_iff_ne, ne_eq]
  constructor
  · intro h l hl
    have := h l hl; have := hv l hl; omega
  · intro h l hl
    have := (h l hl).1; have := hv l hl; contradiction

example : okLoop goLevels.err [] = true ∧ noErrors goLevels [] = true := by decide
example : okLoop goLevels.err [2, 2] = false ∧ noErrors goLevels [2, 2] = false := by decide

/-- With the comparison turned around (`d.Level() <= report.Error`) the full statement holds, for
    any numbering in which ICE < Error < Warning < Remark. -/
theorem ok_fixed_iff_no_error (L : Levels) (hL : L.ice < L.err ∧ L.err < L.warn ∧ L.warn < L.remark)
    (ls : List Int) (hv : ValidLevels L ls) :
    okLoopFixed L.err ls = true ↔ noErrors L ls = true := by
  induction ls with
  | nil => simp [okLoopFixed, noErrors]
  | cons l ls ih =>
    have hv' : ValidLevels L ls := fun x hx => hv x (by simp [hx])
    have hl := hv l (by simp)
    simp only [okLoopFixed, noErrors, List.all_cons, Bool.and_eq_true, bne_iff_ne, ne_eq]
    split
    · next hle =>
      simp only [Bool.false_eq_true, false_iff, not_and]
      intro h
      exfalso
      rcases hl with rfl | rfl | rfl | rfl <;> omega
    · next hgt =>
      have := ih hv'
      simp only [noErrors] at this
      rw [this]
      constructor
      · intro h; exact ⟨⟨by omega, by omega⟩, h⟩
      · intro h; exact h.2

/-! ## the lexer half of "finishes without an ICE" -/

/-- C28, totality clause restricted to the lexer: no input makes the lexer panic. -/
def lexer_total_full : Prop := ∀ E : Env, ClsOK E → (lex E).status ≠ .icePanic

/-- `"\` : `errtoken.InvalidEscape.Diagnose` indexes `text[1]` of the one-byte escape `\`. -/
theorem lexer_total_refuted : ¬ lexer_total_full := by
  intro h
  have hc : ClsOK (envA [34, 92]) := clsOK_ascii _
  exact h _ hc (by decide +kernel)

/-- **The lexer never stalls.** For every input and every consistent class table the run ends as
    `done`, `abort` (prelude) or `icePanic`; the `mustProgress` check never fires and the model
    never runs out of fuel. -/
theorem lexer_never_stalls (E : Env) (hcls : ClsOK E) :
    (lex E).status = .done ∨ (lex E).status = .abort ∨ (lex E).status = .icePanic := by
  rcases lex_trichotomy E hcls with ⟨_, ha⟩ | ⟨_, _, _, _, hi⟩ | ⟨_, _, _, _, hd⟩
  · exact Or.inr (Or.inl ha)
  · exact Or.inr (Or.inr hi)
  · exact Or.inl hd

/-- `Stream.PushKeyword` never panics with "overflowed backing text": after the main loop and
    after `fuseBraces` the overflow flag is clear. -/
theorem push_never_overflows (E : Env) (hcls : ClsOK E) (s0 s1 : LS)
    (hp : prelude E {} = (s0, true)) (hm : mainLoop E (E.n + 1) (-1) s0 = (s1, .done)) :
    s1.overflow = false ∧ (fuseBraces E.n s1).1.overflow = false := by
  rcases lex_cases E hcls with ⟨hf, _, _⟩ | ⟨s0', s1', hp', hm', _⟩ | ⟨s0', s1', hp', hm', hpost, _⟩
  · rw [hp] at hf; simp at hf
  · rw [hp] at hp'; simp only [Prod.mk.injEq, and_true] at hp'; subst hp'
    rw [hm] at hm'; simp at hm'
  · rw [hp] at hp'; simp only [Prod.mk.injEq, and_true] at hp'; subst hp'
    rw [hm] at hm'; simp only [Prod.mk.injEq, and_true] at hm'; subst hm'
    exact ⟨hpost.nov, (fuseBraces_post E.n s1 hpost).1.nov⟩

/-- `token.Fuse` never panics: after a completed main loop both fuse passes (brackets, implicit
    string concatenation) only ever join existing, distinct, still-leaf tokens, in order. -/
theorem fuse_never_panics (n : Nat) (s1 : LS) (h : Post n s1) :
    (fuseAll (fuseBraces n s1).1.toks.reverse (fuseBraces n s1).2).2 = false ∧
    (fuseAll (fuseAll (fuseBraces n s1).1.toks.reverse (fuseBraces n s1).2).1
      (strRuns (fuseAll (fuseBraces n s1).1.toks.reverse (fuseBraces n s1).2).1 1 none)).2 = false :=
  no_fuse_panic n s1 h

/-- a lexer ICE is exactly a panic inside an iteration of the main loop -/
theorem lexer_ice_iff (E : Env) (hcls : ClsOK E) :
    (lex E).status = .icePanic ↔
      ∃ s0 s1, prelude E {} = (s0, true) ∧ mainLoop E (E.n + 1) (-1) s0 = (s1, .icePanic) := by
  constructor
  · intro h
    rcases lex_trichotomy E hcls with ⟨_, ha⟩ | ⟨s0, s1, hp, hm, _⟩ | ⟨_, _, _, _, hd⟩
    · rw [ha] at h; cases h
    · exact ⟨s0, s1, hp, hm⟩
    · rw [hd] at h; cases h
  · rintro ⟨s0, s1, hp, hm⟩
    rcases lex_trichotomy E hcls with ⟨hf, _⟩ | ⟨_, _, _, _, hi⟩ | ⟨s0', s1', hp', hm', _⟩
    · rw [hp] at hf; simp at hf
    · exact hi
    · rw [hp] at hp'; simp only [Prod.mk.injEq, and_true] at hp'; subst hp'
      rw [hm] at hm'; simp at hm'

/-- **Partial theorem.** A lexer ICE needs a backslash in the file (the string-escape panic). -/
theorem lexer_ice_needs_backslash (E : Env) (hcls : ClsOK E) (h : (lex E).status = .icePanic) :
    (92 : UInt8) ∈ E.text := by
  obtain ⟨s0, s1, _, hm⟩ := (lexer_ice_iff E hcls).mp h
  exact mainLoop_ice E _ _ _ (by rw [hm])

/-- **Partial theorem, input level.** Every valid UTF-8 file that contains no backslash and does
    not trip the UTF-16 heuristics is lexed to completion — no ICE, no early exit — whatever the
    Unicode class tables say (as long as XID_Start ⊆ XID_Continue). -/
theorem lexer_total_partial (E : Env) (hcls : ClsOK E) (hv : V E.text)
    (h16 : looksUtf16 E.text = false) (hbs : (92 : UInt8) ∉ E.text) : (lex E).status = .done :=
  lex_done_of_no_backslash E hcls hv h16 hbs

/-- non-vacuity of the positive side: a backslash-free file that lexes to completion -/
example : (lex (envA [109, 101, 115, 115, 97, 103, 101, 32, 77, 32, 123, 125, 10])).status = .done := by
  decide +kernel

end PCV.Props.C28

#print axioms PCV.Props.C28.ok_iff_all_below
#print axioms PCV.Props.C28.C28_ok_refuted
#print axioms PCV.Props.C28.ok_true_on_ice
#print axioms PCV.Props.C28.ok_iff_only_ice
#print axioms PCV.Props.C28.C28_ok_partial
#print axioms PCV.Props.C28.ok_fixed_iff_no_error
#print axioms PCV.Props.C28.lexer_total_refuted
#print axioms PCV.Props.C28.lexer_never_stalls
#print axioms PCV.Props.C28.push_never_overflows
#print axioms PCV.Props.C28.fuse_never_panics
#print axioms PCV.Props.C28.lexer_ice_iff
#print axioms PCV.Props.C28.lexer_ice_needs_backslash
#print axioms PCV.Props.C28.lexer_total_partial
