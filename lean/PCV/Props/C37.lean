/-
C37 — Diagnostic reports survive serialization.

"For any report whose annotations lie within their files, including empty spans at the end of
a file, converting it to its protobuf form and back preserves every diagnostic."

The statement is FALSE of the code in /repo, for three independent reasons, each with its own
witness below:

* `file_text_truncated`: `ToProto` writes `snip.Text()` into `Report.File.text`.  `snippet`
  embeds `source.Span`, which embeds `*File`; `Span.Text` (the text *of the span*) is the
  shallower method, so the message carries the text of the first snippet seen for a path, not
  the text of the file.  Unless that snippet covers its whole file, decoding yields another file
  text (and usually fails the bounds checks against the shortened text).
* `eof_span_rejected`: `AppendFromProto` rejects `Start >= len(text)`, so the empty span at the
  end of a file — and every span of an empty file — cannot be decoded.
* `ice_rejected`: `AppendFromProto` rejects `Level == ICE`, which `ToProto` happily writes.

`C37_full` is the full statement, `C37_full_refuted` its refutation.  `roundtrip_variant` is the
round-trip theorem for every combination of the three candidate fixes (`Variant`), with exactly
the hypotheses that the missing fixes make necessary; `roundtrip_partial` is its instance for
the code as it is, `roundtrip_fixed` the full statement for the code with all three fixes.
`roundtrip_current_iff` shows that the hypotheses of `roundtrip_partial` are also necessary: for
the code as it is, a well-formed report round-trips exactly when it satisfies them.
-/
import PCV.Model.Report
import PCV.Spec.Report
namespace PCV.Props.C37
open PCV.Report

/-! ## Statement -/

/-- C37 at full strength for the PINNED (pre-fix) code, `Variant.current`; refuted below. The
    statement for the repaired code now in /repo is `C37` / `C37_holds`. -/
def C37_full : Prop := ∀ r : List Diagnostic, WF r → RoundTrips .current r

/-- The first snippet (in `ToProto`'s visiting order) of every path covers its whole file. -/
def FirstCovers (ss : List Snippet) : Prop :=
  ∀ pre s post, ss = pre ++ s :: post → (∀ s' ∈ pre, s'.path ≠ s.path) →
    s.start = 0 ∧ s.stop = (s.text.length : Int)

/-- What a variant of the code still needs from the report, beyond `WF`. -/
def VariantHyp (v : Variant) (r : List Diagnostic) : Prop :=
  (v.fileText = false → FirstCovers (allSnips r)) ∧
  (v.allowEOF = false → ∀ s ∈ allSnips r, s.start < (s.text.length : Int)) ∧
  (v.allowICE = false → ∀ d ∈ r, d.level ≠ 1)

/-! ## Small facts -/

theorem map_eq_self {α} (f : α → α) (l : List α) (h : ∀ x ∈ l, f x = x) : l.map f = l := by
  induction l with
  | nil => rfl
  | cons x xs ih =>
    simp only [List.map_cons]
    rw [h x List.mem_cons_self, ih (fun y hy => h y (List.mem_cons_of_mem _ hy))]

theorem prefix_get {α} {l₁ l₂ : List α} {i : Nat} {x : α} (h : l₁ <+: l₂) (hx : l₁[i]? = some x) :
    l₂[i]? = some x := by
  obtain ⟨t, rfl⟩ := h
  have hi : i < l₁.length := by
    rcases Nat.lt_or_ge i l₁.length with h | h
    · exact h
    · rw [List.getElem?_eq_none h] at hx; cases hx
  rw [List.getElem?_append_left hi]; exact hx

theorem findPath_some {files : List PFile} {p : Bytes} {i : Nat} (h : findPath files p = some i) :
    ∃ f, files[i]? = some f ∧ f.path = p := by
  induction files generalizing i with
  | nil => simp [findPath] at h
  | cons f fs ih =>
    unfold findPath at h
    split at h
    · next hp => cases h; exact ⟨f, rfl, hp⟩
    · cases hq : findPath fs p with
      | none => simp [hq] at h
      | some k =>
        simp [hq] at h
        subst h
        obtain ⟨g, hg, hgp⟩ := ih hq
        exact ⟨g, by simpa using hg, hgp⟩

theorem findPath_none {files : List PFile} {p : Bytes} (h : findPath files p = none) :
    ∀ f ∈ files, f.path ≠ p := by
  induction files with
  | nil => intro f hf; cases hf
  | cons g gs ih =>
    unfold findPath at h
    split at h
    · cases h
    · next hg =>
      have h' : findPath gs p = none := by
        cases hq : findPath gs p with
        | none => rfl
        | some k => simp [hq] at h
      intro f hf
      rcases List.mem_cons.mp hf with rfl | hf
      · exact hg
      · exact ih h' f hf

theorem slice_full (t : Bytes) : slice t 0 (t.length : Int) = some t := by
  unfold slice
  have : (0 : Int) ≤ 0 ∧ (0 : Int) ≤ (t.length : Int) ∧ (t.length : Int) ≤ (t.length : Int) := by omega
  rw [if_pos this]
  simp

theorem i8_level {l : Int} (h : l = 1 ∨ l = 2 ∨ l = 3 ∨ l = 4) : i8 l = l := by
  unfold i8; omega

theorem edit_rt (e : Edit)
    (h : 0 ≤ e.start ∧ e.start < 4294967296 ∧ 0 ≤ e.stop ∧ e.stop < 4294967296) :
    editFrom (editToProto e) = e := by
  cases e with
  | mk a b repl =>
    simp only [editFrom, editToProto, u32, Edit.mk.injEq, and_true]
    simp only at h
    omega

/-! ## One snippet -/

/-- the annotation `ToProto` writes for snippet `s` once its file has index `idx` -/
def mkAnn (s : Snippet) (idx : Nat) : PAnnotation :=
  { file := idx, start := u32 s.start, stop := u32 s.stop, msg := s.msg,
    primary := s.primary, pageBreak := s.pageBreak, edits := s.edits.map editToProto }

/-- every entry of the file table carries the text that the report has for its path -/
def TableOK (S : List Snippet) (files : List PFile) : Prop :=
  ∀ f ∈ files, ∃ s ∈ S, s.path = f.path ∧ s.text = f.text

/-- every path among the snippets visited so far has an entry -/
def Seen (files : List PFile) (pre : List Snippet) : Prop :=
  ∀ s ∈ pre, ∃ f ∈ files, f.path = s.path

/-- what is known about the flattened snippet list `S` of the report -/
structure Ctx (v : Variant) (S : List Snippet) : Prop where
  wf : ∀ s ∈ S, SnipWF s
  func : PathFunctional S
  covers : v.fileText = false → FirstCovers S
  interior : v.allowEOF = false → ∀ s ∈ S, s.start < (s.text.length : Int)

theorem snip_step (v : Variant) (S : List Snippet) (ctx : Ctx v S)
    (files : List PFile) (pre : List Snippet) (s : Snippet) (post : List Snippet)
    (hS : S = pre ++ s :: post) (hok : TableOK S files) (hseen : Seen files pre) :
    ∃ files₁ idx, snipToProto v files s = some (files₁, mkAnn s idx) ∧ files <+: files₁ ∧
      TableOK S files₁ ∧ Seen files₁ (pre ++ [s]) ∧ files₁[idx]? = some ⟨s.path, s.text⟩ := by
  have hsS : s ∈ S := by rw [hS]; simp
  cases hfp : findPath files s.path with
  | some i =>
    obtain ⟨f, hf, hfpath⟩ := findPath_some hfp
    have hfmem : f ∈ files := List.mem_of_getElem? hf
    obtain ⟨s₀, hs₀, hp₀, ht₀⟩ := hok f hfmem
    have htext : s₀.text = s.text := ctx.func s₀ hs₀ s hsS (hp₀.trans hfpath)
    have hfeq : f = ⟨s.path, s.text⟩ := by
      cases f with
      | mk p t => simp only at hfpath hp₀ ht₀; subst hfpath; rw [← ht₀, htext]
    refine ⟨files, i, ?_, List.prefix_refl _, hok, ?_, by rw [hf, hfeq]⟩
    · simp only [snipToProto, hfp, mkAnn]
    · intro x hx
      rcases List.mem_append.mp hx with hx | hx
      · exact hseen x hx
      · have : x = s := by simpa using hx
        subst this
        exact ⟨f, hfmem, hfpath⟩
  | none =>
    have hnone := findPath_none hfp
    have htext : textFor v s = some s.text := by
      unfold textFor
      cases hv : v.fileText with
      | true => simp
      | false =>
        have hpre : ∀ s' ∈ pre, s'.path ≠ s.path := by
          intro s' hs' heq
          obtain ⟨f, hf, hfp'⟩ := hseen s' hs'
          exact hnone f hf (hfp'.trans heq)
        obtain ⟨h0, h1⟩ := ctx.covers hv pre s post hS hpre
        simp only [Bool.false_eq_true, if_false]
        rw [h0, h1]
        exact slice_full s.text
    refine ⟨files ++ [⟨s.path, s.text⟩], files.length, ?_, List.prefix_append _ _, ?_, ?_, by simp⟩
    · simp only [snipToProto, hfp, htext, mkAnn]
    · intro f hf
      rcases List.mem_append.mp hf with hf | hf
      · exact hok f hf
      · have : f = ⟨s.path, s.text⟩ := by simpa using hf
        subst this
        exact ⟨s, hsS, rfl, rfl⟩
    · intro x hx
      rcases List.mem_append.mp hx with hx | hx
      · obtain ⟨f, hf, hfp'⟩ := hseen x hx
        exact ⟨f, List.mem_append_left _ hf, hfp'⟩
      · have : x = s := by simpa using hx
        subst this
        exact ⟨⟨x.path, x.text⟩, by simp, rfl⟩

/-- Decoding the annotation of a well-formed snippet gives the snippet back (with the file
    identity replaced by the table index). -/
theorem ann_decode (v : Variant) (s : Snippet) (hwf : SnipWF s)
    (hint : v.allowEOF = false → s.start < (s.text.length : Int))
    (final : List PFile) (idx : Nat) (hget : final[idx]? = some ⟨s.path, s.text⟩) (i j : Nat) :
    annFrom v final i j (mkAnn s idx) = .ok { s with fid := idx } := by
  obtain ⟨h0, h1, h2, h3, hedits⟩ := hwf
  have hstart : ((u32 s.start : Nat) : Int) = s.start := by unfold u32; omega
  have hstop : ((u32 s.stop : Nat) : Int) = s.stop := by unfold u32; omega
  have hed : (s.edits.map editToProto).map editFrom = s.edits := by
    rw [List.map_map]
    exact map_eq_self _ _ (fun e he => edit_rt e (hedits e he))
  have hbad : (if v.allowEOF then decide (u32 s.start > s.text.length)
      else decide (u32 s.start ≥ s.text.length)) = false := by
    cases hv : v.allowEOF with
    | true => simp only [if_true, decide_eq_false_iff_not]; omega
    | false =>
      have := hint hv
      simp only [Bool.false_eq_true, if_false, decide_eq_false_iff_not]; omega
  have hcond : ¬ ((if v.allowEOF then decide (u32 s.start > s.text.length)
      else decide (u32 s.start ≥ s.text.length)) = true ∨ u32 s.stop > s.text.length ∨
      u32 s.start > u32 s.stop) := by
    rw [hbad]
    simp only [Bool.false_eq_true, false_or]
    omega
  unfold annFrom
  dsimp only [mkAnn]
  rw [hget]
  dsimp only
  refine (if_neg ?_).trans ?_
  · exact hcond
  · simp only [hstart, hstop, hed]

/-! ## The snippets of one diagnostic -/

theorem snips_roundtrip (v : Variant) (S : List Snippet) (ctx : Ctx v S) (ss : List Snippet) :
    ∀ (files : List PFile) (pre post : List Snippet), S = pre ++ ss ++ post →
      TableOK S files → Seen files pre →
      ∃ files₁ anns, snipsToProto v files ss = some (files₁, anns) ∧ files <+: files₁ ∧
        TableOK S files₁ ∧ Seen files₁ (pre ++ ss) ∧
        ∀ final, files₁ <+: final → ∀ i j, ∃ ss', annsFrom v final i j anns = .ok ss' ∧
          ss'.map eraseSnip = ss.map eraseSnip := by
  induction ss with
  | nil =>
    intro files pre post _ hok hseen
    exact ⟨files, [], rfl, List.prefix_refl _, hok, by simpa using hseen,
      fun final _ i j => ⟨[], rfl, rfl⟩⟩
  | cons s ss ih =>
    intro files pre post hS hok hseen
    have hS1 : S = pre ++ s :: (ss ++ post) := by rw [hS]; simp
    obtain ⟨files₁, idx, hstep, hpre₁, hok₁, hseen₁, hget₁⟩ :=
      snip_step v S ctx files pre s (ss ++ post) hS1 hok hseen
    have hS2 : S = (pre ++ [s]) ++ ss ++ post := by rw [hS]; simp
    obtain ⟨files₂, anns, hrest, hpre₂, hok₂, hseen₂, hdec⟩ := ih files₁ (pre ++ [s]) post hS2 hok₁ hseen₁
    have hsS : s ∈ S := by rw [hS1]; simp
    refine ⟨files₂, mkAnn s idx :: anns, ?_, hpre₁.trans hpre₂, hok₂, by simpa using hseen₂, ?_⟩
    · simp only [snipsToProto, hstep, hrest]
    · intro final hfin i j
      have hget : final[idx]? = some ⟨s.path, s.text⟩ := prefix_get (hpre₂.trans hfin) hget₁
      obtain ⟨ss', hss', hmap⟩ := hdec final hfin i (j + 1)
      refine ⟨{ s with fid := idx } :: ss', ?_, ?_⟩
      · simp only [annsFrom, ann_decode v s (ctx.wf s hsS) (fun hv => ctx.interior hv s hsS) final idx hget,
          hss']
      · simp only [List.map_cons, hmap, eraseSnip]

/-! ## One diagnostic -/

theorem any_primary_of_erase {ss' ss : List Snippet} (h : ss'.map eraseSnip = ss.map eraseSnip) :
    ss'.any (·.primary) = ss.any (·.primary) := by
  have h' : (ss'.map eraseSnip).map (·.primary) = (ss.map eraseSnip).map (·.primary) := by rw [h]
  simp only [List.map_map] at h'
  have e : ((fun s : Snippet => s.primary) ∘ eraseSnip) = (fun s : Snippet => s.primary) := by
    funext s; rfl
  rw [e] at h'
  have a1 : ss'.any (·.primary) = (ss'.map (·.primary)).any id := by simp [List.any_map]
  have a2 : ss.any (·.primary) = (ss.map (·.primary)).any id := by simp [List.any_map]
  rw [a1, a2, h']

theorem fixPrimary_id {ss' ss : List Snippet} (h : ss'.map eraseSnip = ss.map eraseSnip)
    (hp : ss = [] ∨ ss.any (·.primary) = true) : fixPrimary ss' = ss' := by
  unfold fixPrimary
  rcases hp with rfl | hp
  · have : ss' = [] := by simpa using h
    subst this; rfl
  · rw [any_primary_of_erase h, hp]; simp

theorem diag_roundtrip (v : Variant) (S : List Snippet) (ctx : Ctx v S) (d : Diagnostic)
    (hd : DiagWF d) (hice : v.allowICE = false → d.level ≠ 1)
    (files : List PFile) (pre post : List Snippet) (hS : S = pre ++ d.snippets ++ post)
    (hok : TableOK S files) (hseen : Seen files pre) :
    ∃ files₁ pd, diagToProto v files d = some (files₁, pd) ∧ files <+: files₁ ∧
      TableOK S files₁ ∧ Seen files₁ (pre ++ d.snippets) ∧
      ∀ final, files₁ <+: final → ∀ i, ∃ d', diagFrom v final i pd = .ok d' ∧ erase d' = erase d := by
  obtain ⟨hmsg, hlevel, hprim, _⟩ := hd
  obtain ⟨files₁, anns, hsn, hpre₁, hok₁, hseen₁, hdec⟩ :=
    snips_roundtrip v S ctx d.snippets files pre post hS hok hseen
  refine ⟨files₁, { msg := d.msg, tag := d.tag, level := d.level, inFile := d.inFile,
                    annotations := anns, notes := d.notes, help := d.help, debug := d.debug },
    by simp only [diagToProto, hsn], hpre₁, hok₁, hseen₁, ?_⟩
  intro final hfin i
  obtain ⟨ss', hss', hmap⟩ := hdec final hfin i 0
  have hl8 : i8 d.level = d.level := i8_level hlevel
  have hlok : levelOk v d.level = true := by
    unfold levelOk
    rcases hlevel with h | h | h | h
    · have : v.allowICE = true := by
        cases hv : v.allowICE with
        | true => rfl
        | false => exact absurd h (hice hv)
      simp [h, this]
    · simp [h]
    · simp [h]
    · simp [h]
  refine ⟨{ tag := d.tag, msg := d.msg, level := d.level, sortOrder := 0, inFile := d.inFile,
             snippets := ss', notes := d.notes, help := d.help, debug := d.debug }, ?_, ?_⟩
  · simp only [diagFrom, hmsg, if_false, hl8, hlok, Bool.true_eq_false, hss',
      fixPrimary_id hmap hprim]
  · simp only [erase, hmap]

/-! ## The whole report -/

theorem diags_roundtrip (v : Variant) (S : List Snippet) (ctx : Ctx v S) (ds : List Diagnostic) :
    ∀ (files : List PFile) (pre post : List Snippet), S = pre ++ allSnips ds ++ post →
      (∀ d ∈ ds, DiagWF d) → (v.allowICE = false → ∀ d ∈ ds, d.level ≠ 1) →
      TableOK S files → Seen files pre →
      ∃ files₁ pds, diagsToProto v files ds = some (files₁, pds) ∧ files <+: files₁ ∧
        ∀ final, files₁ <+: final → ∀ i, ∃ out, diagsFrom v final i pds = (out, none) ∧
          out.map erase = ds.map erase := by
  induction ds with
  | nil =>
    intro files pre post _ _ _ _ _
    exact ⟨files, [], rfl, List.prefix_refl _, fun final _ i => ⟨[], rfl, rfl⟩⟩
  | cons d ds ih =>
    intro files pre post hS hwf hice hok hseen
    have hS1 : S = pre ++ d.snippets ++ (allSnips ds ++ post) := by
      rw [hS]; simp [allSnips]
    obtain ⟨files₁, pd, hd, hpre₁, hok₁, hseen₁, hdec₁⟩ :=
      diag_roundtrip v S ctx d (hwf d List.mem_cons_self) (fun hv => hice hv d List.mem_cons_self)
        files pre (allSnips ds ++ post) hS1 hok hseen
    have hS2 : S = (pre ++ d.snippets) ++ allSnips ds ++ post := by
      rw [hS]; simp [allSnips]
    obtain ⟨files₂, pds, hds, hpre₂, hdec₂⟩ :=
      ih files₁ (pre ++ d.snippets) post hS2 (fun x hx => hwf x (List.mem_cons_of_mem _ hx))
        (fun hv x hx => hice hv x (List.mem_cons_of_mem _ hx)) hok₁ hseen₁
    refine ⟨files₂, pd :: pds, by simp only [diagsToProto, hd, hds], hpre₁.trans hpre₂, ?_⟩
    intro final hfin i
    obtain ⟨d', hd', he'⟩ := hdec₁ final (hpre₂.trans hfin) i
    obtain ⟨out, hout, hoe⟩ := hdec₂ final hfin (i + 1)
    refine ⟨d' :: out, ?_, ?_⟩
    · simp only [diagsFrom, hd', hout]
    · simp only [List.map_cons, he', hoe]

/-- **C37 for every variant of the code.**  A well-formed report round-trips, provided the
    report avoids what the variant still mishandles (`VariantHyp`). -/
theorem roundtrip_variant (v : Variant) (r : List Diagnostic) (hwf : WF r) (hv : VariantHyp v r) :
    RoundTrips v r := by
  obtain ⟨hdiag, hfunc⟩ := hwf
  obtain ⟨hcov, hint, hice⟩ := hv
  have ctx : Ctx v (allSnips r) :=
    { wf := by
        intro s hs
        obtain ⟨d, hd, hsd⟩ := List.mem_flatMap.mp hs
        exact (hdiag d hd).2.2.2 s hsd
      func := hfunc, covers := hcov, interior := hint }
  obtain ⟨files₁, pds, hto, _, hdec⟩ :=
    diags_roundtrip v (allSnips r) ctx r [] [] [] (by simp) hdiag hice
      (by intro f hf; cases hf) (by intro s hs; cases hs)
  obtain ⟨out, hout, hoe⟩ := hdec files₁ (List.prefix_refl _) 0
  exact ⟨⟨files₁, pds⟩, out, by simp only [toProtoV, hto, Option.map_some], hout, hoe⟩

/-- **C37, partial, for the code as it is**: a well-formed report round-trips if the first
    snippet of every path covers its whole file, no span starts at the end of its file, and no
    diagnostic is an ICE. -/
theorem roundtrip_partial (r : List Diagnostic) (hwf : WF r)
    (hcov : FirstCovers (allSnips r))
    (hint : ∀ s ∈ allSnips r, s.start < (s.text.length : Int))
    (hice : ∀ d ∈ r, d.level ≠ 1) : RoundTrips .current r :=
  roundtrip_variant .current r hwf (And.intro (fun _ => hcov) (And.intro (fun _ => hint) (fun _ => hice)))

/-- **C37 at full strength for the code with the three fixes applied.** -/
theorem roundtrip_fixed (r : List Diagnostic) (hwf : WF r) : RoundTrips .fixed r :=
  roundtrip_variant .fixed r hwf
    (And.intro (fun h => absurd h (by decide))
      (And.intro (fun h => absurd h (by decide)) (fun h => absurd h (by decide))))

/-- **C37, full statement, for the code now in /repo** (after the three `fix:` commits): every
    well-formed report — including zero-width spans at the end of a file, spans in empty files and
    ICE-level diagnostics — survives `ToProto` followed by `AppendFromProto`. -/
def C37 : Prop := ∀ r : List Diagnostic, WF r → RoundTrips .fixed r

theorem C37_holds : C37 := fun r hwf => roundtrip_fixed r hwf

/-- The primary span (what sorting and rendering use) is among what is preserved. -/
theorem primary_preserved (v : Variant) (r : List Diagnostic) (hwf : WF r) (hv : VariantHyp v r) :
    ∃ p out, toProtoV v r = some p ∧ fromProtoV v p = (out, none) ∧
      out.map (fun d => (primaryPath d, primaryStart d, primaryStop d)) =
        r.map (fun d => (primaryPath d, primaryStart d, primaryStop d)) := by
  obtain ⟨p, out, hp, ho, he⟩ := roundtrip_variant v r hwf hv
  refine ⟨p, out, hp, ho, ?_⟩
  have key : ∀ d : Diagnostic, (primaryPath d, primaryStart d, primaryStop d) =
      (primaryPath (erase d), primaryStart (erase d), primaryStop (erase d)) := by
    intro d
    have hfind : ∀ ss : List Snippet, (ss.map eraseSnip).find? (·.primary) = (ss.find? (·.primary)).map eraseSnip := by
      intro ss
      induction ss with
      | nil => rfl
      | cons s ss ih =>
        simp only [List.map_cons, List.find?_cons]
        have : (eraseSnip s).primary = s.primary := rfl
        rw [this]
        cases s.primary <;> simp [ih]
    simp only [primaryPath, primaryStart, primaryStop, primarySnip, erase, hfind]
    cases d.snippets.find? (·.primary) <;> rfl
  have : out.map (fun d => (primaryPath d, primaryStart d, primaryStop d)) =
      (out.map erase).map (fun d => (primaryPath d, primaryStart d, primaryStop d)) := by
    rw [List.map_map]; exact List.map_congr_left (fun d _ => key d)
  rw [this, he, List.map_map]
  exact (List.map_congr_left (fun d _ => key d)).symm

/-! ## The hypotheses of the partial theorem are necessary -/

theorem slice_eq_self {t : Bytes} {a b : Int} (h : slice t a b = some t) : a = 0 ∧ b = (t.length : Int) := by
  unfold slice at h
  split at h
  · next hc =>
    have hl := congrArg (fun o => o.map List.length) h
    simp only [Option.map_some, List.length_take, List.length_drop, Option.some.injEq] at hl
    omega
  · cases h

theorem snipsToProto_cons_some {v : Variant} {files f2 : List PFile} {s : Snippet} {ss : List Snippet}
    {anns : List PAnnotation} (h : snipsToProto v files (s :: ss) = some (f2, anns)) :
    ∃ f1 a as, snipToProto v files s = some (f1, a) ∧ snipsToProto v f1 ss = some (f2, as) ∧
      anns = a :: as := by
  unfold snipsToProto at h
  cases h1 : snipToProto v files s with
  | none => simp [h1] at h
  | some r1 =>
    obtain ⟨f1, a⟩ := r1
    simp only [h1] at h
    cases h2 : snipsToProto v f1 ss with
    | none => simp [h2] at h
    | some r2 =>
      obtain ⟨f2', as⟩ := r2
      simp only [h2, Option.some.injEq, Prod.mk.injEq] at h
      exact ⟨f1, a, as, rfl, by rw [h2, h.1], h.2.symm⟩

theorem annsFrom_cons_ok {v : Variant} {final : List PFile} {i j : Nat} {a : PAnnotation}
    {as : List PAnnotation} {ss' : List Snippet} (h : annsFrom v final i j (a :: as) = .ok ss') :
    ∃ s₁ ss₁, annFrom v final i j a = .ok s₁ ∧ annsFrom v final i (j + 1) as = .ok ss₁ ∧
      ss' = s₁ :: ss₁ := by
  unfold annsFrom at h
  cases h1 : annFrom v final i j a with
  | error e => simp [h1] at h
  | ok s₁ =>
    simp only [h1] at h
    cases h2 : annsFrom v final i (j + 1) as with
    | error e => simp [h2] at h
    | ok ss₁ =>
      simp only [h2, Except.ok.injEq] at h
      exact ⟨s₁, ss₁, rfl, rfl, h.symm⟩

theorem annFrom_ok {final : List PFile} {i j : Nat} {a : PAnnotation} {s₁ : Snippet}
    (h : annFrom .current final i j a = .ok s₁) :
    ∃ f, final[a.file]? = some f ∧ a.start < f.text.length ∧ s₁.text = f.text ∧ s₁.path = f.path := by
  unfold annFrom at h
  cases hf : final[a.file]? with
  | none => simp [hf] at h
  | some f =>
    simp only [hf, Variant.current, Bool.false_eq_true, if_false] at h
    by_cases hc : a.start < f.text.length
    · refine ⟨f, rfl, hc, ?_, ?_⟩
      · split at h
        · cases h
        · cases h; rfl
      · split at h
        · cases h
        · cases h; rfl
    · exfalso
      have hc' : f.text.length ≤ a.start := by omega
      simp [hc'] at h


theorem findPath_some_mem {files : List PFile} {p : Bytes} {i : Nat} (h : findPath files p = some i) :
    ∃ f ∈ files, f.path = p := by
  obtain ⟨f, hf, hp⟩ := findPath_some h
  exact ⟨f, List.mem_of_getElem? hf, hp⟩

/-- every path in the table belongs to a snippet visited so far -/
def TablePaths (files : List PFile) (pre : List Snippet) : Prop :=
  ∀ f ∈ files, ∃ s' ∈ pre, s'.path = f.path

/-- `FirstCovers`, relative to the snippets `pre` visited earlier -/
def CoversAfter (pre ss : List Snippet) : Prop :=
  ∀ a s b, ss = a ++ s :: b → (∀ s' ∈ pre ++ a, s'.path ≠ s.path) →
    s.start = 0 ∧ s.stop = (s.text.length : Int)

theorem coversAfter_nil (pre : List Snippet) : CoversAfter pre [] := by
  intro a s b h; cases a <;> cases h

theorem coversAfter_append {pre xs ys : List Snippet} (h₁ : CoversAfter pre xs)
    (h₂ : CoversAfter (pre ++ xs) ys) : CoversAfter pre (xs ++ ys) := by
  intro a s b h hpre
  rcases List.append_eq_append_iff.mp h with ⟨a', ha, hys⟩ | ⟨c', hxs, hsb⟩
  · refine h₂ a' s b hys ?_
    intro s' hs'
    exact hpre s' (by rw [ha]; simpa [List.append_assoc] using hs')
  · cases c' with
    | nil =>
      simp only [List.nil_append] at hsb
      refine h₂ [] s b hsb.symm ?_
      intro s' hs'
      exact hpre s' (by rw [hxs] at hs'; simpa using hs')
    | cons c cs =>
      simp only [List.cons_append, List.cons.injEq] at hsb
      obtain ⟨rfl, _⟩ := hsb
      exact h₁ a s cs hxs hpre

theorem firstCovers_iff (S : List Snippet) : FirstCovers S ↔ CoversAfter [] S := by
  unfold FirstCovers CoversAfter
  simp

theorem snip_inv {files f1 : List PFile} {s : Snippet} {a : PAnnotation} {pre : List Snippet}
    (h : snipToProto .current files s = some (f1, a)) (htp : TablePaths files pre) (hwf : SnipWF s)
    (final : List PFile) (hfin : f1 <+: final) (i j : Nat) (s₁ : Snippet)
    (hdec : annFrom .current final i j a = .ok s₁) (he : s₁.text = s.text) :
    files <+: f1 ∧ TablePaths f1 (pre ++ [s]) ∧ s.start < (s.text.length : Int) ∧
      CoversAfter pre [s] := by
  obtain ⟨h0, h1, h2, h3, _⟩ := hwf
  obtain ⟨f, hget, hlt, htext, _⟩ := annFrom_ok hdec
  unfold snipToProto at h
  cases hfp : findPath files s.path with
  | some k =>
    simp only [hfp, Option.some.injEq, Prod.mk.injEq] at h
    obtain ⟨rfl, rfl⟩ := h
    refine ⟨List.prefix_refl _, ?_, ?_, ?_⟩
    · intro f' hf'
      obtain ⟨s', hs', hp'⟩ := htp f' hf'
      exact ⟨s', List.mem_append_left _ hs', hp'⟩
    · simp only at hlt
      rw [← he, htext]
      unfold u32 at hlt
      omega
    · intro a' s₂ b hsplit hpre
      obtain ⟨f', hf', hfp'⟩ := findPath_some_mem hfp
      obtain ⟨s', hs', hp'⟩ := htp f' hf'
      cases a' with
      | nil =>
        simp only [List.nil_append, List.cons.injEq] at hsplit
        obtain ⟨rfl, _⟩ := hsplit
        exact absurd (hp'.trans hfp') (hpre s' (by simpa using hs'))
      | cons x xs =>
        simp only [List.cons_append, List.cons.injEq] at hsplit
        cases xs <;> simp at hsplit
  | none =>
    simp only [hfp, textFor, Variant.current, Bool.false_eq_true, if_false] at h
    cases hsl : slice s.text s.start s.stop with
    | none => simp [hsl] at h
    | some t =>
      simp only [hsl, Option.some.injEq, Prod.mk.injEq] at h
      obtain ⟨rfl, rfl⟩ := h
      have hget' : final[files.length]? = some ⟨s.path, t⟩ := prefix_get hfin (by simp)
      simp only at hget hlt
      rw [hget'] at hget
      have hf : f = ⟨s.path, t⟩ := by cases hget; rfl
      subst hf
      simp only at htext hlt
      have ht : t = s.text := by rw [← htext, he]
      subst ht
      obtain ⟨hs0, hs1⟩ := slice_eq_self hsl
      refine ⟨List.prefix_append _ _, ?_, ?_, ?_⟩
      · intro f' hf'
        rcases List.mem_append.mp hf' with hf' | hf'
        · obtain ⟨s', hs', hp'⟩ := htp f' hf'
          exact ⟨s', List.mem_append_left _ hs', hp'⟩
        · have : f' = ⟨s.path, s.text⟩ := by simpa using hf'
          subst this
          exact ⟨s, by simp, rfl⟩
      · unfold u32 at hlt
        omega
      · intro a' s₂ b hsplit _
        cases a' with
        | nil =>
          simp only [List.nil_append, List.cons.injEq] at hsplit
          obtain ⟨rfl, _⟩ := hsplit
          exact ⟨hs0, hs1⟩
        | cons x xs =>
          simp only [List.cons_append, List.cons.injEq] at hsplit
          cases xs <;> simp at hsplit

theorem snipToProto_prefix {v : Variant} {files f1 : List PFile} {s : Snippet} {a : PAnnotation}
    (h : snipToProto v files s = some (f1, a)) : files <+: f1 := by
  unfold snipToProto at h
  cases hfp : findPath files s.path with
  | some k =>
    simp only [hfp, Option.some.injEq, Prod.mk.injEq] at h
    rw [← h.1]; exact List.prefix_refl _
  | none =>
    simp only [hfp] at h
    cases ht : textFor v s with
    | none => simp [ht] at h
    | some t =>
      simp only [ht, Option.some.injEq, Prod.mk.injEq] at h
      rw [← h.1]; exact List.prefix_append _ _

theorem snipsToProto_prefix {v : Variant} (ss : List Snippet) :
    ∀ {files f2 : List PFile} {anns : List PAnnotation},
      snipsToProto v files ss = some (f2, anns) → files <+: f2 := by
  induction ss with
  | nil =>
    intro files f2 anns h
    simp only [snipsToProto, Option.some.injEq, Prod.mk.injEq] at h
    rw [h.1]; exact List.prefix_refl _
  | cons s ss ih =>
    intro files f2 anns h
    obtain ⟨f1, a, as, h1, h2, _⟩ := snipsToProto_cons_some h
    exact (snipToProto_prefix h1).trans (ih h2)

theorem snips_inv (ss : List Snippet) :
    ∀ (files f2 : List PFile) (anns : List PAnnotation) (pre : List Snippet),
      snipsToProto .current files ss = some (f2, anns) → TablePaths files pre →
      (∀ s ∈ ss, SnipWF s) →
      ∀ final, f2 <+: final → ∀ (i j : Nat) (ss' : List Snippet),
        annsFrom .current final i j anns = .ok ss' → ss'.map (·.text) = ss.map (·.text) →
        TablePaths f2 (pre ++ ss) ∧ (∀ s ∈ ss, s.start < (s.text.length : Int)) ∧
          CoversAfter pre ss := by
  induction ss with
  | nil =>
    intro files f2 anns pre h htp _ final _ i j ss' _ _
    simp only [snipsToProto, Option.some.injEq, Prod.mk.injEq] at h
    obtain ⟨rfl, _⟩ := h
    exact ⟨by simpa using htp, by simp, coversAfter_nil pre⟩
  | cons s ss ih =>
    intro files f2 anns pre h htp hwf final hfin i j ss' hdec he
    obtain ⟨f1, a, as, h1, h2, rfl⟩ := snipsToProto_cons_some h
    obtain ⟨s₁, ss₁, hd1, hd2, rfl⟩ := annsFrom_cons_ok hdec
    simp only [List.map_cons, List.cons.injEq] at he
    have hpre12 : f1 <+: f2 := snipsToProto_prefix ss h2
    obtain ⟨_, htp1, hint1, hcov1⟩ :=
      snip_inv h1 htp (hwf s List.mem_cons_self) final (hpre12.trans hfin) i j s₁ hd1 he.1
    obtain ⟨htp2, hint2, hcov2⟩ :=
      ih f1 f2 as (pre ++ [s]) h2 htp1 (fun x hx => hwf x (List.mem_cons_of_mem _ hx)) final hfin i (j + 1)
        ss₁ hd2 he.2
    refine ⟨by simpa using htp2, ?_, ?_⟩
    · intro x hx
      rcases List.mem_cons.mp hx with rfl | hx
      · exact hint1
      · exact hint2 x hx
    · exact coversAfter_append (xs := [s]) hcov1 hcov2

theorem fixPrimary_text (ss : List Snippet) : (fixPrimary ss).map (·.text) = ss.map (·.text) := by
  unfold fixPrimary
  split
  · rfl
  · cases ss <;> rfl

theorem diagFrom_ok {final : List PFile} {i : Nat} {pd : PDiagnostic} {d' : Diagnostic}
    (h : diagFrom .current final i pd = .ok d') :
    levelOk .current (i8 pd.level) = true ∧
      ∃ ss', annsFrom .current final i 0 pd.annotations = .ok ss' ∧ d'.snippets = fixPrimary ss' := by
  unfold diagFrom at h
  split at h
  · cases h
  · split at h
    · cases h
    · next hl =>
      cases ha : annsFrom Variant.current final i 0 pd.annotations with
      | error e => simp [ha] at h
      | ok ss' =>
        simp only [ha, Except.ok.injEq] at h
        subst h
        refine ⟨?_, ss', rfl, rfl⟩
        cases hlo : levelOk Variant.current (i8 pd.level) with
        | true => rfl
        | false => exact absurd hlo hl

theorem diag_inv {files f1 : List PFile} {d : Diagnostic} {pd : PDiagnostic} {pre : List Snippet}
    (h : diagToProto .current files d = some (f1, pd)) (htp : TablePaths files pre) (hwf : DiagWF d)
    (final : List PFile) (hfin : f1 <+: final) (i : Nat) (d' : Diagnostic)
    (hdec : diagFrom .current final i pd = .ok d') (he : erase d' = erase d) :
    files <+: f1 ∧ TablePaths f1 (pre ++ d.snippets) ∧ d.level ≠ 1 ∧
      (∀ s ∈ d.snippets, s.start < (s.text.length : Int)) ∧ CoversAfter pre d.snippets := by
  obtain ⟨_, hlevel, _, hsn⟩ := hwf
  unfold diagToProto at h
  cases hs : snipsToProto Variant.current files d.snippets with
  | none => simp [hs] at h
  | some r =>
    obtain ⟨f1', anns⟩ := r
    simp only [hs, Option.some.injEq, Prod.mk.injEq] at h
    obtain ⟨rfl, rfl⟩ := h
    obtain ⟨hlok, ss', hann, hd'⟩ := diagFrom_ok hdec
    simp only at hlok hann
    have htext : ss'.map (·.text) = d.snippets.map (·.text) := by
      have h1 := congrArg (fun x : Diagnostic => x.snippets.map (·.text)) he
      simp only [erase, List.map_map] at h1
      have e : ((fun s : Snippet => s.text) ∘ eraseSnip) = (fun s : Snippet => s.text) := by
        funext s; rfl
      rw [e, hd', fixPrimary_text] at h1
      exact h1
    obtain ⟨htp1, hint, hcov⟩ := snips_inv d.snippets files f1' anns pre hs htp hsn final hfin i 0 ss' hann htext
    refine ⟨snipsToProto_prefix _ hs, htp1, ?_, hint, hcov⟩
    intro hl1
    rw [i8_level hlevel, hl1] at hlok
    simp [levelOk, Variant.current] at hlok

theorem diagsToProto_cons_some {v : Variant} {files f2 : List PFile} {d : Diagnostic} {ds : List Diagnostic}
    {pds : List PDiagnostic} (h : diagsToProto v files (d :: ds) = some (f2, pds)) :
    ∃ f1 p ps, diagToProto v files d = some (f1, p) ∧ diagsToProto v f1 ds = some (f2, ps) ∧
      pds = p :: ps := by
  unfold diagsToProto at h
  cases h1 : diagToProto v files d with
  | none => simp [h1] at h
  | some r1 =>
    obtain ⟨f1, p⟩ := r1
    simp only [h1] at h
    cases h2 : diagsToProto v f1 ds with
    | none => simp [h2] at h
    | some r2 =>
      obtain ⟨f2', ps⟩ := r2
      simp only [h2, Option.some.injEq, Prod.mk.injEq] at h
      exact ⟨f1, p, ps, rfl, by rw [h2, h.1], h.2.symm⟩

theorem diagsFrom_cons_ok {v : Variant} {final : List PFile} {i : Nat} {p : PDiagnostic}
    {ps : List PDiagnostic} {out : List Diagnostic} (h : diagsFrom v final i (p :: ps) = (out, none)) :
    ∃ d' out', diagFrom v final i p = .ok d' ∧ diagsFrom v final (i + 1) ps = (out', none) ∧
      out = d' :: out' := by
  unfold diagsFrom at h
  cases h1 : diagFrom v final i p with
  | error e => simp [h1] at h
  | ok d' =>
    simp only [h1, Prod.mk.injEq] at h
    refine ⟨d', (diagsFrom v final (i + 1) ps).1, rfl, ?_, h.1.symm⟩
    rw [← h.2]

theorem diagToProto_prefix {v : Variant} {files f1 : List PFile} {d : Diagnostic} {pd : PDiagnostic}
    (h : diagToProto v files d = some (f1, pd)) : files <+: f1 := by
  unfold diagToProto at h
  cases hs : snipsToProto v files d.snippets with
  | none => simp [hs] at h
  | some r =>
    obtain ⟨f1', anns⟩ := r
    simp only [hs, Option.some.injEq, Prod.mk.injEq] at h
    rw [← h.1]; exact snipsToProto_prefix _ hs

theorem diagsToProto_prefix {v : Variant} (ds : List Diagnostic) :
    ∀ {files f2 : List PFile} {pds : List PDiagnostic},
      diagsToProto v files ds = some (f2, pds) → files <+: f2 := by
  induction ds with
  | nil =>
    intro files f2 pds h
    simp only [diagsToProto, Option.some.injEq, Prod.mk.injEq] at h
    rw [h.1]; exact List.prefix_refl _
  | cons d ds ih =>
    intro files f2 pds h
    obtain ⟨f1, p, ps, h1, h2, _⟩ := diagsToProto_cons_some h
    exact (diagToProto_prefix h1).trans (ih h2)

theorem diags_inv (ds : List Diagnostic) :
    ∀ (files f2 : List PFile) (pds : List PDiagnostic) (pre : List Snippet),
      diagsToProto .current files ds = some (f2, pds) → TablePaths files pre →
      (∀ d ∈ ds, DiagWF d) →
      ∀ final, f2 <+: final → ∀ (i : Nat) (out : List Diagnostic),
        diagsFrom .current final i pds = (out, none) → out.map erase = ds.map erase →
        (∀ d ∈ ds, d.level ≠ 1) ∧ (∀ s ∈ allSnips ds, s.start < (s.text.length : Int)) ∧
          CoversAfter pre (allSnips ds) := by
  induction ds with
  | nil =>
    intro files f2 pds pre _ _ _ final _ i out _ _
    exact ⟨by simp, by simp [allSnips], coversAfter_nil pre⟩
  | cons d ds ih =>
    intro files f2 pds pre h htp hwf final hfin i out hdec he
    obtain ⟨f1, p, ps, h1, h2, rfl⟩ := diagsToProto_cons_some h
    obtain ⟨d', out', hd1, hd2, rfl⟩ := diagsFrom_cons_ok hdec
    simp only [List.map_cons, List.cons.injEq] at he
    have hpre12 : f1 <+: f2 := diagsToProto_prefix ds h2
    obtain ⟨_, htp1, hlv, hint1, hcov1⟩ :=
      diag_inv h1 htp (hwf d List.mem_cons_self) final (hpre12.trans hfin) i d' hd1 he.1
    obtain ⟨hlv2, hint2, hcov2⟩ :=
      ih f1 f2 ps (pre ++ d.snippets) h2 htp1 (fun x hx => hwf x (List.mem_cons_of_mem _ hx)) final hfin
        (i + 1) out' hd2 he.2
    have hall : allSnips (d :: ds) = d.snippets ++ allSnips ds := by simp [allSnips]
    refine ⟨?_, ?_, ?_⟩
    · intro x hx
      rcases List.mem_cons.mp hx with rfl | hx
      · exact hlv
      · exact hlv2 x hx
    · intro s hs
      rw [hall] at hs
      rcases List.mem_append.mp hs with hs | hs
      · exact hint1 s hs
      · exact hint2 s hs
    · rw [hall]; exact coversAfter_append hcov1 hcov2

/-- **The hypotheses of `roundtrip_partial` are necessary**: a well-formed report that the code
    as it is round-trips satisfies all three. -/
theorem roundtrip_partial_necessary (r : List Diagnostic) (hwf : WF r) (h : RoundTrips .current r) :
    FirstCovers (allSnips r) ∧ (∀ s ∈ allSnips r, s.start < (s.text.length : Int)) ∧
      (∀ d ∈ r, d.level ≠ 1) := by
  obtain ⟨p, out, hp, ho, he⟩ := h
  unfold toProtoV at hp
  cases hd : diagsToProto Variant.current [] r with
  | none => simp [hd] at hp
  | some q =>
    obtain ⟨fs, pds⟩ := q
    simp only [hd, Option.map_some, Option.some.injEq] at hp
    subst hp
    unfold fromProtoV at ho
    simp only at ho
    obtain ⟨hlv, hint, hcov⟩ :=
      diags_inv r [] fs pds [] hd (by intro f hf; cases hf) hwf.1 fs (List.prefix_refl _) 0 out ho he
    exact ⟨(firstCovers_iff _).mpr hcov, hint, hlv⟩

/-- **C37 for the code as it is, exactly**: a well-formed report round-trips if and only if the
    first snippet of every path covers its whole file, no span starts at the end of its file, and
    no diagnostic is an ICE. -/
theorem roundtrip_current_iff (r : List Diagnostic) (hwf : WF r) :
    RoundTrips .current r ↔
      (FirstCovers (allSnips r) ∧ (∀ s ∈ allSnips r, s.start < (s.text.length : Int)) ∧
        (∀ d ∈ r, d.level ≠ 1)) :=
  ⟨roundtrip_partial_necessary r hwf, fun ⟨h1, h2, h3⟩ => roundtrip_partial r hwf h1 h2 h3⟩

/-! ## Refutation of the full statement -/

/-- decidable form of `RoundTrips` -/
def roundTripsB (v : Variant) (r : List Diagnostic) : Bool :=
  match toProtoV v r with
  | none => false
  | some p =>
    match fromProtoV v p with
    | (out, none) => decide (out.map erase = r.map erase)
    | (_, some _) => false

theorem roundTrips_iff (v : Variant) (r : List Diagnostic) : RoundTrips v r ↔ roundTripsB v r = true := by
  unfold RoundTrips roundTripsB
  constructor
  · rintro ⟨p, out, hp, ho, he⟩
    simp [hp, ho, he]
  · intro h
    cases hp : toProtoV v r with
    | none => simp [hp] at h
    | some p =>
      cases ho : fromProtoV v p with
      | mk out e =>
        cases e with
        | some e => simp [hp, ho] at h
        | none =>
          simp [hp, ho] at h
          exact ⟨p, out, rfl, ho, h⟩

def mkSnip (text : Bytes) (a b : Int) (primary : Bool) : Snippet :=
  { fid := 1, path := [97], text := text, start := a, stop := b, msg := [], primary := primary,
    pageBreak := false, edits := [] }

def mkDiag (level : Int) (ss : List Snippet) : Diagnostic :=
  { tag := [], msg := [109], level := level, sortOrder := 0, inFile := [], snippets := ss,
    notes := [], help := [], debug := [] }

/-- file "abc": an error at [0,3) with a secondary empty span at the end of the file, [3,3). -/
def witnessEOF : List Diagnostic := [mkDiag 2 [mkSnip [97, 98, 99] 0 3 true, mkSnip [97, 98, 99] 3 3 false]]
/-- an error pointing at the whole (empty) file -/
def witnessEmptyFile : List Diagnostic := [mkDiag 2 [mkSnip [] 0 0 true]]
/-- file "abc": an error at [0,1) -/
def witnessTrunc : List Diagnostic := [mkDiag 2 [mkSnip [97, 98, 99] 0 1 true]]
/-- file "abc": an error at [1,2) -/
def witnessTrunc2 : List Diagnostic := [mkDiag 2 [mkSnip [97, 98, 99] 1 2 true]]
/-- an internal compiler error without a span -/
def witnessICE : List Diagnostic := [mkDiag 1 []]

/-- The empty span at the end of a file is rejected by `AppendFromProto` … -/
theorem eof_span_rejected :
    WF witnessEOF ∧ ((toProtoV .current) witnessEOF).map (fun p => ((fromProtoV .current) p).2) = some (some (.span 0 1 3 3)) := by
  decide

/-- … and so is every span of an empty file. -/
theorem empty_file_rejected :
    WF witnessEmptyFile ∧
    ((toProtoV .current) witnessEmptyFile).map (fun p => ((fromProtoV .current) p).2) = some (some (.span 0 0 0 0)) := by
  decide

/-- A span that does not cover its file: decoding succeeds, but the file text has become the
    text of the span ("a" instead of "abc"). -/
theorem file_text_truncated :
    WF witnessTrunc ∧
    ((toProtoV .current) witnessTrunc).map (fun p => p.files) = some [⟨[97], [97]⟩] ∧
    ((toProtoV .current) witnessTrunc).map (fun p => ((fromProtoV .current) p).2) = some none ∧
    roundTripsB .current witnessTrunc = false := by
  decide

/-- … and when the span does not start at offset 0 decoding fails altogether. -/
theorem file_text_truncated_rejected :
    WF witnessTrunc2 ∧
    ((toProtoV .current) witnessTrunc2).map (fun p => ((fromProtoV .current) p).2) = some (some (.span 0 0 1 2)) := by
  decide

/-- A report with an internal compiler error cannot be decoded. -/
theorem ice_rejected :
    WF witnessICE ∧ ((toProtoV .current) witnessICE).map (fun p => ((fromProtoV .current) p).2) = some (some (.level 1)) := by
  decide

theorem C37_full_refuted : ¬ C37_full := by
  intro h
  have h1 := (roundTrips_iff _ _).mp (h witnessEOF (by decide))
  exact absurd h1 (by decide)

/-- Each of the three defects alone refutes the statement: fixing any two of them leaves a
    failing well-formed report. -/
theorem each_defect_alone_refutes :
    (∃ r, WF r ∧ ¬ RoundTrips ⟨false, true, true⟩ r) ∧
    (∃ r, WF r ∧ ¬ RoundTrips ⟨true, false, true⟩ r) ∧
    (∃ r, WF r ∧ ¬ RoundTrips ⟨true, true, false⟩ r) := by
  refine ⟨⟨witnessTrunc, by decide, ?_⟩, ⟨witnessEOF, by decide, ?_⟩, ⟨witnessICE, by decide, ?_⟩⟩ <;>
  · rw [roundTrips_iff]; decide

/-! ## Non-vacuity -/

/-- The hypotheses of `roundtrip_partial` are satisfiable by a report with two diagnostics,
    two files, a secondary snippet and an edit. -/
def goodReport : List Diagnostic :=
  [ { mkDiag 2 [mkSnip [97, 98, 99] 0 3 true,
               { mkSnip [97, 98, 99] 1 2 false with msg := [120], edits := [⟨0, 1, [121]⟩] }]
      with notes := [[110]], tag := [116] },
    { mkDiag 3 [{ mkSnip [120, 121] 0 2 true with path := [98] }, mkSnip [97, 98, 99] 2 3 false] with sortOrder := 5 } ]

example : WF goodReport ∧ (∀ s ∈ allSnips goodReport, s.start < (s.text.length : Int)) ∧
    (∀ d ∈ goodReport, d.level ≠ 1) ∧ roundTripsB .current goodReport = true := by decide

example : FirstCovers (allSnips witnessTrunc) → False := by
  intro h
  have := h [] (mkSnip [97, 98, 99] 0 1 true) [] rfl (by intro s hs; cases hs)
  exact absurd this.2 (by decide)

/-- the witnesses of the refutation do round-trip under the fixed variant -/
example : roundTripsB .fixed witnessEOF = true ∧ roundTripsB .fixed witnessEmptyFile = true ∧
    roundTripsB .fixed witnessTrunc = true ∧ roundTripsB .fixed witnessTrunc2 = true ∧
    roundTripsB .fixed witnessICE = true := by decide

end PCV.Props.C37

#print axioms PCV.Props.C37.C37_holds
#print axioms PCV.Props.C37.roundtrip_variant
#print axioms PCV.Props.C37.roundtrip_partial
#print axioms PCV.Props.C37.roundtrip_fixed
#print axioms PCV.Props.C37.roundtrip_partial_necessary
#print axioms PCV.Props.C37.roundtrip_current_iff
#print axioms PCV.Props.C37.primary_preserved
#print axioms PCV.Props.C37.C37_full_refuted
#print axioms PCV.Props.C37.eof_span_rejected
#print axioms PCV.Props.C37.empty_file_rejected
#print axioms PCV.Props.C37.file_text_truncated
#print axioms PCV.Props.C37.file_text_truncated_rejected
#print axioms PCV.Props.C37.ice_rejected
#print axioms PCV.Props.C37.each_defect_alone_refutes
