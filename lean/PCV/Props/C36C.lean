/-
C36 — Diagnostics are deterministic (the `Report.Canonicalize` clauses).

"Canonicalizing a diagnostic list gives the same result for every input order, and
canonicalizing twice changes nothing."

* Idempotence is proved, for every list whose levels are real levels and for every sorting
  function that meets the contract of `slices.SortFunc` and leaves sorted input alone
  (insertion sort, which is what `slices.SortFunc` runs up to 12 elements, does).
* Order independence is FALSE of the code: the comparison function looks at six fields only
  (path, sortOrder, start, end, tag, message), so two diagnostics that agree on those but differ
  elsewhere (notes, help, level, secondary snippets, …) keep their input order.  The full
  statement is kept as `C36_full`, refuted by `C36_full_refuted`, and proved under the
  hypothesis that the sort key separates the diagnostics (`canon_perm_invariant_partial`) for
  any two sorting functions meeting the contract of `slices.SortFunc`.  Unconditionally,
  `sort_keys_invariant` shows that only diagnostics tying on all six fields can change places.
-/
import PCV.Model.Report
import PCV.Spec.Report
namespace PCV.Props.C36
open PCV.Report Std

/-! ## The comparison is a total preorder -/

instance : TransCmp cmpKey := by unfold cmpKey; infer_instance

/-- `a` may stand before `b` in a list sorted by `cmpKey`. -/
abbrev le (a b : Diagnostic) : Prop := (cmpKey a b).isLE = true

/-- sorted ascending by `cmpKey` -/
def Sorted (l : List Diagnostic) : Prop := l.Pairwise le

theorem le_trans {a b c : Diagnostic} (h₁ : le a b) (h₂ : le b c) : le a c :=
  TransCmp.isLE_trans h₁ h₂

theorem le_of_not_lt {a b : Diagnostic} (h : cmpKey a b ≠ .lt) : le b a := by
  have hs : cmpKey b a = (cmpKey a b).swap := OrientedCmp.eq_swap
  unfold le
  rw [hs]
  cases hc : cmpKey a b <;> simp_all

theorem not_lt_of_le {a b : Diagnostic} (h : le b a) : cmpKey a b ≠ .lt := by
  have hs : cmpKey b a = (cmpKey a b).swap := OrientedCmp.eq_swap
  unfold le at h
  rw [hs] at h
  intro hc
  rw [hc] at h
  simp at h

theorem le_of_lt {a b : Diagnostic} (h : cmpKey a b = .lt) : le a b := by
  unfold le; rw [h]; rfl

theorem eq_of_le_of_le {a b : Diagnostic} (h₁ : le a b) (h₂ : le b a) : cmpKey a b = .eq := by
  have hs : cmpKey b a = (cmpKey a b).swap := OrientedCmp.eq_swap
  unfold le at h₁ h₂
  rw [hs] at h₂
  cases hc : cmpKey a b <;> simp_all

/-! ## Contract of `slices.SortFunc`, and the insertion sort Go runs on short slices -/

/-- "SortFunc sorts the slice in ascending order as determined by the cmp function.
    This sort is not guaranteed to be stable." -/
def IsSorter (s : List Diagnostic → List Diagnostic) : Prop :=
  ∀ xs, (s xs).Perm xs ∧ Sorted (s xs)

/-- The sorting function returns sorted input unchanged. (True of insertion sort, and of
    pdqsort's already-sorted fast path; not promised by the documentation.) -/
def FixesSorted (s : List Diagnostic → List Diagnostic) : Prop :=
  ∀ xs, Sorted xs → s xs = xs

/-- descending: the reversed sorted prefix that `insRev` works on -/
def Desc (l : List Diagnostic) : Prop := l.Pairwise (fun a b => le b a)

theorem insRev_perm (x : Diagnostic) (l : List Diagnostic) : (insRev x l).Perm (x :: l) := by
  induction l with
  | nil => simp [insRev]
  | cons y ys ih =>
    unfold insRev
    split
    · exact (List.Perm.cons y ih).trans (List.Perm.swap x y ys)
    · exact List.Perm.refl _

theorem insRev_desc (x : Diagnostic) (l : List Diagnostic) (h : Desc l) : Desc (insRev x l) := by
  induction l with
  | nil => simp [insRev, Desc]
  | cons y ys ih =>
    have hy : ∀ z ∈ ys, le z y := fun z hz => List.rel_of_pairwise_cons h hz
    have hys : Desc ys := List.Pairwise.of_cons h
    unfold insRev
    split
    · next hlt =>
      refine List.Pairwise.cons ?_ (ih hys)
      intro z hz
      have hz' : z ∈ x :: ys := (insRev_perm x ys).subset hz
      rcases List.mem_cons.mp hz' with rfl | hz'
      · exact le_of_lt hlt
      · exact hy z hz'
    · next hnlt =>
      have hyx : le y x := le_of_not_lt hnlt
      refine List.Pairwise.cons ?_ h
      intro z hz
      rcases List.mem_cons.mp hz with rfl | hz
      · exact hyx
      · exact le_trans (hy z hz) hyx

theorem foldl_insRev_perm (xs acc : List Diagnostic) :
    (xs.foldl (fun acc x => insRev x acc) acc).Perm (xs ++ acc) := by
  induction xs generalizing acc with
  | nil => simp
  | cons x xs ih =>
    simp only [List.foldl_cons]
    refine (ih (insRev x acc)).trans ?_
    refine ((insRev_perm x acc).append_left xs).trans ?_
    simp

theorem foldl_insRev_desc (xs acc : List Diagnostic) (h : Desc acc) :
    Desc (xs.foldl (fun acc x => insRev x acc) acc) := by
  induction xs generalizing acc with
  | nil => simpa using h
  | cons x xs ih => exact ih _ (insRev_desc x acc h)

theorem isort_perm (xs : List Diagnostic) : (isort xs).Perm xs := by
  unfold isort
  refine (List.reverse_perm _).trans ?_
  simpa using foldl_insRev_perm xs []

theorem isort_sorted (xs : List Diagnostic) : Sorted (isort xs) := by
  unfold isort Sorted
  rw [List.pairwise_reverse]
  exact foldl_insRev_desc xs [] List.Pairwise.nil

/-- The model of `slices.SortFunc` meets the documented contract. -/
theorem isort_isSorter : IsSorter isort := fun xs => ⟨isort_perm xs, isort_sorted xs⟩

theorem foldl_insRev_sorted (xs acc : List Diagnostic) (hs : Sorted xs)
    (hacc : ∀ a ∈ acc, ∀ x ∈ xs, le a x) :
    xs.foldl (fun acc x => insRev x acc) acc = xs.reverse ++ acc := by
  induction xs generalizing acc with
  | nil => simp
  | cons x xs ih =>
    have hx : ∀ z ∈ xs, le x z := fun z hz => List.rel_of_pairwise_cons hs hz
    have hxs : Sorted xs := List.Pairwise.of_cons hs
    have hins : insRev x acc = x :: acc := by
      cases acc with
      | nil => rfl
      | cons y ys =>
        have : cmpKey x y ≠ .lt := not_lt_of_le (hacc y (List.mem_cons_self) x (List.mem_cons_self))
        simp [insRev, this]
    simp only [List.foldl_cons, hins]
    rw [ih (x :: acc) hxs]
    · simp
    · intro a ha z hz
      rcases List.mem_cons.mp ha with rfl | ha
      · exact hx z hz
      · exact hacc a ha z (List.mem_cons_of_mem _ hz)

/-- Insertion sort does not move anything in a sorted list. -/
theorem isort_fixesSorted : FixesSorted isort := by
  intro xs hs
  unfold isort
  rw [foldl_insRev_sorted xs [] hs (by simp)]
  simp

/-! ## The dedup scan -/

/-- dedup key of the first tagged diagnostic (the value of `cur` after scanning the list
    from the back) -/
def headKey : List Diagnostic → DKey
  | [] => zeroKey
  | d :: ds => if d.tag = [] then headKey ds else dkey d

theorem markFrom_snd (ds : List Diagnostic) : (markFrom ds).2 = headKey ds := by
  induction ds with
  | nil => rfl
  | cons d ds ih =>
    simp only [markFrom, headKey]
    split
    · exact ih
    · split
      · next h => exact h.2
      · rfl

/-- `d` is deleted when scanned in front of `ds`: it is tagged and the next tagged
    diagnostic behind it has the same (span, tag). -/
def Marked (d : Diagnostic) (ds : List Diagnostic) : Prop :=
  d.tag ≠ [] ∧ (headKey ds).2.2.2 ≠ [] ∧ headKey ds = dkey d

instance (d : Diagnostic) (ds : List Diagnostic) : Decidable (Marked d ds) := by
  unfold Marked; infer_instance

/-- the scan as a plain recursive filter -/
def dedupF : List Diagnostic → List Diagnostic
  | [] => []
  | d :: ds => if Marked d ds then dedupF ds else d :: dedupF ds

theorem markFrom_fst_untagged (d : Diagnostic) (ds : List Diagnostic) (ht : d.tag = []) :
    (markFrom (d :: ds)).1 = d :: (markFrom ds).1 := by
  simp [markFrom, ht]

theorem markFrom_fst_marked (d : Diagnostic) (ds : List Diagnostic) (hm : Marked d ds) :
    (markFrom (d :: ds)).1 = { d with level := -1 } :: (markFrom ds).1 := by
  obtain ⟨ht, hne, hk⟩ := hm
  simp only [markFrom, markFrom_snd, ht, if_false]
  rw [if_pos ⟨hne, hk⟩]

theorem markFrom_fst_kept (d : Diagnostic) (ds : List Diagnostic) (ht : d.tag ≠ [])
    (hm : ¬ Marked d ds) : (markFrom (d :: ds)).1 = d :: (markFrom ds).1 := by
  have hm' : ¬ ((headKey ds).2.2.2 ≠ [] ∧ headKey ds = dkey d) := fun h => hm ⟨ht, h⟩
  simp only [markFrom, markFrom_snd, ht, if_false]
  rw [if_neg hm']

theorem dedup_eq_dedupF (ds : List Diagnostic) (hl : ∀ d ∈ ds, d.level ≠ -1) :
    dedup ds = dedupF ds := by
  induction ds with
  | nil => rfl
  | cons d ds ih =>
    have ih' := ih (fun x hx => hl x (List.mem_cons_of_mem _ hx))
    have hd : d.level ≠ -1 := hl d List.mem_cons_self
    have hdk : decide (d.level ≠ -1) = true := decide_eq_true hd
    unfold dedup at ih' ⊢
    by_cases hm : Marked d ds
    · rw [markFrom_fst_marked d ds hm]
      simp only [dedupF, hm, if_true, List.filter_cons]
      have hneg : ¬ (decide ((-1 : Int) ≠ -1) = true) := by decide
      rw [if_neg hneg]
      exact ih'
    · have hkeep : (markFrom (d :: ds)).1 = d :: (markFrom ds).1 := by
        by_cases ht : d.tag = []
        · exact markFrom_fst_untagged d ds ht
        · exact markFrom_fst_kept d ds ht hm
      rw [hkeep]
      simp only [dedupF, hm, if_false, List.filter_cons, hdk, if_true]
      rw [ih']

theorem dedupF_sublist (ds : List Diagnostic) : (dedupF ds).Sublist ds := by
  induction ds with
  | nil => exact List.Sublist.slnil
  | cons d ds ih =>
    unfold dedupF
    split
    · exact ih.cons d
    · exact ih.cons_cons d

theorem headKey_dedupF (ds : List Diagnostic) : headKey (dedupF ds) = headKey ds := by
  induction ds with
  | nil => rfl
  | cons d ds ih =>
    unfold dedupF
    split
    · next hm =>
      rw [ih]
      have ht : d.tag ≠ [] := hm.1
      simp only [headKey, ht, if_false]
      exact hm.2.2
    · simp only [headKey, ih]

theorem dedupF_idem (ds : List Diagnostic) : dedupF (dedupF ds) = dedupF ds := by
  induction ds with
  | nil => rfl
  | cons d ds ih =>
    by_cases hm : Marked d ds
    · simp only [dedupF, hm, if_true]; exact ih
    · have hm' : ¬ Marked d (dedupF ds) := by
        unfold Marked at hm ⊢
        rw [headKey_dedupF]; exact hm
      simp only [dedupF, hm, if_false, hm', ih]

/-- What survives is what the documentation of `Canonicalize` says: a diagnostic is dropped
    only if a later one (in sorted order, hence "greater") has the same tag and primary span. -/
theorem dedupF_drops_only_duplicates (d : Diagnostic) (ds : List Diagnostic) (h : Marked d ds) :
    ∃ d' ∈ ds, d'.tag ≠ [] ∧ dkey d' = dkey d := by
  obtain ⟨_, hne, hk⟩ := h
  induction ds with
  | nil => simp [headKey, zeroKey] at hne
  | cons x xs ih =>
    by_cases hx : x.tag = []
    · simp only [headKey, hx, if_true] at hne hk
      obtain ⟨d', hd', h'⟩ := ih hne hk
      exact ⟨d', List.mem_cons_of_mem _ hd', h'⟩
    · simp only [headKey, hx, if_false] at hk
      exact ⟨x, List.mem_cons_self, hx, hk⟩

/-! ## Canonicalize -/

/-- The sort key separates the diagnostics of the list: no two different ones compare equal. -/
def KeyInjective (ds : List Diagnostic) : Prop :=
  ∀ a ∈ ds, ∀ b ∈ ds, cmpKey a b = .eq → a = b

instance (ds : List Diagnostic) : Decidable (KeyInjective ds) := by unfold KeyInjective; infer_instance

/-- Sorting is order independent when the key separates the diagnostics — for any two
    functions that meet the contract of `slices.SortFunc`. -/
theorem sort_perm_invariant (s₁ s₂ : List Diagnostic → List Diagnostic)
    (h₁ : IsSorter s₁) (h₂ : IsSorter s₂) (ds ds' : List Diagnostic)
    (hp : ds.Perm ds') (hinj : KeyInjective ds) : s₁ ds = s₂ ds' := by
  obtain ⟨p₁, o₁⟩ := h₁ ds
  obtain ⟨p₂, o₂⟩ := h₂ ds'
  refine List.Perm.eq_of_pairwise (le := le) ?_ o₁ o₂ (p₁.trans (hp.trans p₂.symm))
  intro a b ha hb hab hba
  exact hinj a (p₁.subset ha) b (hp.symm.subset (p₂.subset hb)) (eq_of_le_of_le hab hba)

/-- **C36, order independence (partial).**  If no two different diagnostics of the list
    compare equal under the six-field key, `Canonicalize` returns the same list for every input
    order — whatever (contract-respecting) sorting functions the two runs use. -/
theorem canon_perm_invariant_partial (s₁ s₂ : List Diagnostic → List Diagnostic)
    (h₁ : IsSorter s₁) (h₂ : IsSorter s₂) (keep : Bool) (ds ds' : List Diagnostic)
    (hp : ds.Perm ds') (hinj : KeyInjective ds) :
    canonWith s₁ keep ds = canonWith s₂ keep ds' := by
  unfold canonWith
  rw [sort_perm_invariant s₁ s₂ h₁ h₂ ds ds' hp hinj]

/-- the instance for the code as executed -/
theorem canonicalize_perm_invariant_partial (keep : Bool) (ds ds' : List Diagnostic)
    (hp : ds.Perm ds') (hinj : KeyInjective ds) :
    canonicalize keep ds = canonicalize keep ds' :=
  canon_perm_invariant_partial isort isort isort_isSorter isort_isSorter keep ds ds' hp hinj

/-- **C36, idempotence**, for any sorting function meeting the contract that leaves sorted
    input alone. -/
theorem canon_idempotent_with (s : List Diagnostic → List Diagnostic)
    (hs : IsSorter s) (hf : FixesSorted s) (keep : Bool) (ds : List Diagnostic)
    (hl : ∀ d ∈ ds, d.level ≠ -1) :
    canonWith s keep (canonWith s keep ds) = canonWith s keep ds := by
  obtain ⟨hperm, hsorted⟩ := hs ds
  unfold canonWith
  cases keep with
  | true => simp only [if_true]; exact hf _ hsorted
  | false =>
    have hl' : ∀ d ∈ s ds, d.level ≠ -1 := fun d hd => hl d (hperm.subset hd)
    have hsub : (dedupF (s ds)).Sublist (s ds) := dedupF_sublist _
    have hl'' : ∀ d ∈ dedupF (s ds), d.level ≠ -1 := fun d hd => hl' d (hsub.subset hd)
    simp only [Bool.false_eq_true, if_false]
    rw [dedup_eq_dedupF _ hl', hf _ (List.Pairwise.sublist hsub hsorted), dedup_eq_dedupF _ hl'',
      dedupF_idem]

/-- **C36, idempotence** of `Canonicalize` as executed. -/
theorem canon_idempotent (keep : Bool) (ds : List Diagnostic) (hl : ValidLevels ds) :
    canonicalize keep (canonicalize keep ds) = canonicalize keep ds := by
  refine canon_idempotent_with isort isort_isSorter isort_fixesSorted keep ds ?_
  intro d hd h
  rcases hl d hd with h' | h' | h' | h' <;> omega

/-- The result is sorted by the documented key and contains only diagnostics of the input. -/
theorem canon_sorted_sublist (keep : Bool) (ds : List Diagnostic) (hl : ValidLevels ds) :
    Sorted (canonicalize keep ds) ∧ ∀ d ∈ canonicalize keep ds, d ∈ ds := by
  have hl' : ∀ d ∈ isort ds, d.level ≠ -1 := by
    intro d hd h
    rcases hl d ((isort_perm ds).subset hd) with h' | h' | h' | h' <;> omega
  unfold canonicalize canonWith
  cases keep with
  | true =>
    simp only [if_true]
    exact ⟨isort_sorted ds, fun d hd => (isort_perm ds).subset hd⟩
  | false =>
    simp only [Bool.false_eq_true, if_false]
    rw [dedup_eq_dedupF _ hl']
    exact ⟨List.Pairwise.sublist (dedupF_sublist _) (isort_sorted ds),
      fun d hd => (isort_perm ds).subset ((dedupF_sublist _).subset hd)⟩

/-! ## Order independence up to ties -/

/-- the six fields `Canonicalize` sorts by -/
abbrev SortKey := Bytes × Int × Int × Int × Bytes × Bytes

def keyOf (d : Diagnostic) : SortKey :=
  (primaryPath d, d.sortOrder, primaryStart d, primaryStop d, d.tag, d.msg)

def cmpK : SortKey → SortKey → Ordering :=
  compareLex (compareOn (·.1))
    (compareLex (compareOn (·.2.1))
      (compareLex (compareOn (·.2.2.1))
        (compareLex (compareOn (·.2.2.2.1))
          (compareLex (compareOn (·.2.2.2.2.1)) (compareOn (·.2.2.2.2.2))))))

instance : TransCmp cmpK := by unfold cmpK; infer_instance

theorem cmpKey_eq_cmpK (a b : Diagnostic) : cmpKey a b = cmpK (keyOf a) (keyOf b) := rfl

theorem cmpK_eq {k₁ k₂ : SortKey} (h : cmpK k₁ k₂ = .eq) : k₁ = k₂ := by
  obtain ⟨a1, a2, a3, a4, a5, a6⟩ := k₁
  obtain ⟨b1, b2, b3, b4, b5, b6⟩ := k₂
  simp only [cmpK, compareLex, compareOn, Ordering.then_eq_eq, compare_eq_iff_eq] at h
  obtain ⟨h1, h2, h3, h4, h5, h6⟩ := h
  subst h1 h2 h3 h4 h5 h6
  rfl

/-- Two diagnostics tie under the comparison exactly when they agree on the six fields. -/
theorem cmpKey_eq_iff (a b : Diagnostic) : cmpKey a b = .eq ↔ keyOf a = keyOf b := by
  constructor
  · intro h; rw [cmpKey_eq_cmpK] at h; exact cmpK_eq h
  · intro h; rw [cmpKey_eq_cmpK, h]; exact ReflCmp.compare_self

/-- **Order independence up to ties (unconditional).**  Whatever the input order and whatever
    contract-respecting sorting functions are used, the sorted lists carry the same sequence of
    sort keys: only diagnostics that tie on all six fields can change places. -/
theorem sort_keys_invariant (s₁ s₂ : List Diagnostic → List Diagnostic)
    (h₁ : IsSorter s₁) (h₂ : IsSorter s₂) (ds ds' : List Diagnostic) (hp : ds.Perm ds') :
    (s₁ ds).map keyOf = (s₂ ds').map keyOf := by
  obtain ⟨p₁, o₁⟩ := h₁ ds
  obtain ⟨p₂, o₂⟩ := h₂ ds'
  have hperm : ((s₁ ds).map keyOf).Perm ((s₂ ds').map keyOf) := (p₁.trans (hp.trans p₂.symm)).map keyOf
  refine List.Perm.eq_of_pairwise (le := fun k₁ k₂ => (cmpK k₁ k₂).isLE = true) ?_ ?_ ?_ hperm
  · intro k₁ k₂ _ _ h12 h21
    have hs : cmpK k₂ k₁ = (cmpK k₁ k₂).swap := OrientedCmp.eq_swap
    rw [hs] at h21
    apply cmpK_eq
    cases hc : cmpK k₁ k₂ <;> simp_all
  · rw [List.pairwise_map]; exact o₁
  · rw [List.pairwise_map]; exact o₂

/-- With `KeepDuplicates`, `Canonicalize` is order independent up to ties. -/
theorem canon_keys_invariant_keep (ds ds' : List Diagnostic) (hp : ds.Perm ds') :
    (canonicalize true ds).map keyOf = (canonicalize true ds').map keyOf := by
  unfold canonicalize canonWith
  simp only [if_true]
  exact sort_keys_invariant isort isort isort_isSorter isort_isSorter ds ds' hp

/-! ## The full statement, and why it fails -/

/-- C36 (Canonicalize clauses) at full strength. -/
def C36_full : Prop :=
  (∀ (keep : Bool) (ds ds' : List Diagnostic), ValidLevels ds → ds.Perm ds' →
      SameDiags (canonicalize keep ds) (canonicalize keep ds')) ∧
  (∀ (keep : Bool) (ds : List Diagnostic), ValidLevels ds →
      SameDiags (canonicalize keep (canonicalize keep ds)) (canonicalize keep ds))

/-- error "m" with no span … -/
def witnessA : Diagnostic :=
  { tag := [], msg := [109], level := 2, sortOrder := 0, inFile := [], snippets := [],
    notes := [], help := [], debug := [] }
/-- … and the same error with a note "x": equal under the sort key, different diagnostics. -/
def witnessB : Diagnostic := { witnessA with notes := [[120]] }

theorem witness_key_tie : cmpKey witnessA witnessB = .eq ∧ witnessA ≠ witnessB := by decide

/-- `Canonicalize` keeps tied diagnostics in input order, so the two orders give two results. -/
theorem witness_order_dependent :
    canonicalize false [witnessA, witnessB] = [witnessA, witnessB] ∧
    canonicalize false [witnessB, witnessA] = [witnessB, witnessA] := by decide

theorem C36_full_refuted : ¬ C36_full := by
  intro h
  have h1 := h.1 false [witnessA, witnessB] [witnessB, witnessA] (by decide) (List.Perm.swap _ _ _)
  exact absurd h1 (by decide)

/-- The second clause of `C36_full` alone does hold. -/
theorem C36_idempotence_clause : ∀ (keep : Bool) (ds : List Diagnostic), ValidLevels ds →
    SameDiags (canonicalize keep (canonicalize keep ds)) (canonicalize keep ds) := by
  intro keep ds hl
  unfold SameDiags
  rw [canon_idempotent keep ds hl]

/-- The first clause of `C36_full` under the hypothesis that the key separates the diagnostics. -/
theorem C36_order_clause_partial (keep : Bool) (ds ds' : List Diagnostic) (hp : ds.Perm ds')
    (hinj : KeyInjective ds) : SameDiags (canonicalize keep ds) (canonicalize keep ds') := by
  unfold SameDiags
  rw [canonicalize_perm_invariant_partial keep ds ds' hp hinj]

/-- Even the *number* of diagnostics can depend on the input order: the dedup key compares
    `*File` pointers while the sort key compares paths, so with two file objects for one path
    a tie decides which diagnostics are neighbours. -/
def witnessT (fid : Nat) : Diagnostic :=
  { tag := [116], msg := [109], level := 2, sortOrder := 0, inFile := [],
    snippets := [{ fid := fid, path := [97], text := [], start := 0, stop := 0, msg := [],
                   primary := true, pageBreak := false, edits := [] }],
    notes := [], help := [], debug := [] }

theorem witness_count_dependent :
    (canonicalize false [witnessT 1, witnessT 1, witnessT 2]).length = 2 ∧
    (canonicalize false [witnessT 1, witnessT 2, witnessT 1]).length = 3 := by decide

/-- Without `ValidLevels` idempotence fails too: `-1` is the deletion mark, so a diagnostic
    that already carries level `-1` is deleted without having been compared. -/
theorem idempotence_needs_valid_levels :
    ∃ ds, canonicalize false (canonicalize false ds) ≠ canonicalize false ds := by
  refine ⟨[{ witnessT 1 with msg := [97] }, { witnessT 2 with msg := [98], level := -1 },
           { witnessT 1 with msg := [99] }], ?_⟩
  decide

/-! ## Non-vacuity -/

/-- `KeyInjective` is satisfiable by a list with several diagnostics, and the partial theorem
    then speaks about a real reordering. -/
example : KeyInjective [witnessA, witnessT 1] ∧
    canonicalize false [witnessA, witnessT 1] = canonicalize false [witnessT 1, witnessA] := by
  refine ⟨by decide, by decide⟩

example : ValidLevels [witnessA, witnessB, witnessT 1] := by decide

end PCV.Props.C36
