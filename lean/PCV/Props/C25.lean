/-
C25 — the fast import scanner agrees with the full parser.

Model: `PCV.Model.Fastscan` (`scanBytes` = fastscan's lexer + `Scan`'s state machine).
Specification: `topLevel`, a recursive-descent reader of the language
L = (import-stmt | package-stmt | other-stmt)* (see the model file).

Main theorem `C25_scan_eq_topLevel`: for every byte string whose token stream is in L,
`Scan` reports no syntax error and returns exactly the package name and the imports (order,
public/weak/option flags, concatenated path literals) that `topLevel` reads.
`C25_grammar` restates it for an inductive grammar (`File`: imports, packages, properly nested
other statements) which `file_topLevel` shows to be contained in L.
That every file accepted by the real parser is in L with the parser's own package/imports is
checked per generated input by the `fastscan` engine (the yacc grammar is not modelled).

`C25_full`: the full statement, relative to the value the full parser gives string literals
today (ill-formed UTF-8 bytes become U+FFFD, exactly as in fastscan), holds.
COUPLING. If the full parser is changed to copy ill-formed bytes (protoc's behaviour; /repo did
so for a while, commit 09dab422, withdrawn) and fastscan is not, the statement becomes false:
`C25_rawbytes_refuted` (witness `import "<FF>";`); it then still holds for well-formed UTF-8
files (`C25_rawbytes_partial`) and for all files once fastscan's lexer copies the bytes too
(`C25_rawbytes_after_patch`).
-/
import PCV.Model.Fastscan
import PCV.Lemmas.Fastscan
namespace PCV.Props.C25
open PCV.Fastscan

/-! ## C25 on the model -/

/-- **Scanner = specification on L, for either lexer.** For every source file whose token stream
    (fastscan's lexer, `raw = false`; or the reference lexer, `raw = true`) lies in L, `Scan`'s
    state machine run on that token stream returns exactly the package name and the imports —
    same order, same `public`/`weak`/`option` flags, adjacent path literals concatenated — that
    the top-level structure declares, and no syntax error. -/
theorem scan_eq_topLevel_lexWith (raw : Bool) (src : List UInt8) (r : Res)
    (h : topLevel (lexWith raw src) = some r) :
    scanToks (lexWith raw src) = ⟨r.pkg, r.imports, []⟩ :=
  scan_eq_topLevel (lexWith raw src) r (lexWith_wf raw src) h

/-- **C25, fastscan's own view.** If the token stream *as fastscan's lexer produces it* is in
    L, `fastscan.Scan` returns what `topLevel` reads from that stream and a nil error. This is
    the whole of C25 for `Scan`'s state machine; what it does not cover is whether fastscan's
    lexer gives string literals the value the full parser gives them (see `C25_full`). -/
theorem C25_scan_eq_topLevel (src : List UInt8) (r : Res) (h : topLevel (lex src) = some r) :
    scanBytes src = ⟨r.pkg, r.imports, []⟩ :=
  scan_eq_topLevel_lexWith false src r h

theorem C25_no_error (src : List UInt8) (r : Res) (h : topLevel (lex src) = some r) :
    (scanBytes src).errs = [] := by
  rw [C25_scan_eq_topLevel src r h]

/-- **C25 (grammar form).** If the token stream of a file is a sequence of import statements,
    package statements and properly nested other statements (`File`), `fastscan.Scan` returns
    the declared package and imports and a nil error. -/
theorem C25_grammar (src : List UInt8) (r : Res) (h : File (lex src) ⟨[], []⟩ r) :
    scanBytes src = ⟨r.pkg, r.imports, []⟩ :=
  C25_scan_eq_topLevel src r (file_topLevel h)

/-! ## C25 at full strength, relative to the value the full parser gives a string literal

fastscan's lexer and the full parser's lexer agree on everything `Scan` looks at except,
potentially, the bytes of a string literal. `lexWith raw` is fastscan's tokenisation with the
literals valued under one of the two possible conventions for an ill-formed UTF-8 byte:
`raw = false` — U+FFFD, which is what parser/lexer.go does (`buf.WriteRune(c)`) and what
fastscan does; `raw = true` — the byte itself, which is what protoc does (and what /repo's
parser did for a while during this project, commit 09dab422, later withdrawn). -/

/-- **C25, full statement** under the convention `raw`: for every file whose token stream (with
    literals valued as the full parser values them) is in L — checked, per generated input, to
    hold for the files the real parser accepts, with `r` the package/imports of the parser's
    AST — `fastscan.Scan` returns `r` and no error. -/
def C25_statement (raw : Bool) : Prop :=
  ∀ (src : List UInt8) (r : Res), topLevel (lexWith raw src) = some r →
    scanBytes src = ⟨r.pkg, r.imports, []⟩

/-- **C25 holds of the code as it is** (the full parser writes U+FFFD, like fastscan). -/
theorem C25_full : C25_statement false :=
  fun src r h => C25_scan_eq_topLevel src r h

/-- the witness: `import "<FF>";` with a raw 0xFF byte between the quotes -/
def badSrc : List UInt8 := [105, 109, 112, 111, 114, 116, 32, 34, 255, 34, 59]

/-- **Coupling with the main lexer**: if the full parser copies ill-formed bytes (protoc's
    behaviour) and fastscan is left as it is, C25 becomes false: the parser's import path is the
    byte FF, fastscan returns the three bytes EF BF BD (U+FFFD). -/
theorem C25_rawbytes_refuted : ¬ C25_statement true := by
  intro h
  have h1 : topLevel (lexWith true badSrc) = some ⟨[], [⟨[255], false, false, false⟩]⟩ := by decide
  have h2 := h badSrc _ h1
  have h3 : scanBytes badSrc = ⟨[], [⟨[0xEF, 0xBF, 0xBD], false, false, false⟩], []⟩ := by decide
  rw [h3] at h2
  exact absurd h2 (by decide)

/-- no ill-formed UTF-8 anywhere in the file (after the optional byte order mark) -/
def WellFormedUtf8 (src : List UInt8) : Prop := ∀ c ∈ decodeRunes (stripBom src), c < rawBase

/-- under the copy-the-bytes convention C25 still holds for every well-formed UTF-8 file
    (so C25 holds for such files whatever the full parser does with ill-formed bytes) -/
theorem C25_rawbytes_partial (src : List UInt8) (r : Res) (hu : WellFormedUtf8 src)
    (h : topLevel (lexWith true src) = some r) : scanBytes src = ⟨r.pkg, r.imports, []⟩ := by
  have e : lexWith true src = lex src := lexRef_eq_lex src hu
  rw [e] at h
  exact C25_scan_eq_topLevel src r h

/-- … and for every file once fastscan's string literals copy ill-formed bytes too
    (`scanBytesPatched`, the fix that has to accompany such a change of the full parser) -/
theorem C25_rawbytes_after_patch (src : List UInt8) (r : Res)
    (h : topLevel (lexWith true src) = some r) :
    scanBytesPatched src = ⟨r.pkg, r.imports, []⟩ :=
  scan_eq_topLevel_lexWith true src r h

/-! ## non-vacuity: a concrete file in L, and the limits of the statement -/

/-- `syntax="proto3";⏎package foo.bar; // c⏎import public "a.proto";import "b" '\x63';⏎`
    `message M { string import = 1; }⏎` -/
def exSrc : List UInt8 :=
  [115, 121, 110, 116, 97, 120, 61, 34, 112, 114, 111, 116, 111, 51, 34, 59, 10, 112, 97, 99, 107,
   97, 103, 101, 32, 102, 111, 111, 46, 98, 97, 114, 59, 32, 47, 47, 32, 99, 10, 105, 109, 112, 111,
   114, 116, 32, 112, 117, 98, 108, 105, 99, 32, 34, 97, 46, 112, 114, 111, 116, 111, 34, 59, 105,
   109, 112, 111, 114, 116, 32, 34, 98, 34, 32, 39, 92, 120, 54, 51, 39, 59, 10, 109, 101, 115, 115,
   97, 103, 101, 32, 77, 32, 123, 32, 115, 116, 114, 105, 110, 103, 32, 105, 109, 112, 111, 114,
   116, 32, 61, 32, 49, 59, 32, 125, 10]

/-- package "foo.bar"; imports: public "a.proto", then "bc" (two literals, one hex escape) -/
def exRes : Res :=
  ⟨[102, 111, 111, 46, 98, 97, 114],
   [⟨[97, 46, 112, 114, 111, 116, 111], true, false, false⟩, ⟨[98, 99], false, false, false⟩]⟩

set_option maxRecDepth 100000 in
/-- the hypothesis of `C25_scan_eq_topLevel` is satisfiable -/
example : topLevel (lex exSrc) = some exRes := by decide

set_option maxRecDepth 100000 in
example : scanBytes exSrc = ⟨exRes.pkg, exRes.imports, []⟩ :=
  C25_scan_eq_topLevel exSrc exRes (by decide)

set_option maxRecDepth 100000 in
/-- the hypotheses of `C25_rawbytes_partial` are satisfiable -/
example : WellFormedUtf8 exSrc ∧ topLevel (lexRef exSrc) = some exRes :=
  ⟨by unfold WellFormedUtf8; decide, by decide⟩

/-- `import "a"; m { }` as tokens -/
def exToks : List Token :=
  [⟨.ident kwImport, 0, 0⟩, ⟨.str [97], 0, 7⟩, ⟨.sym 59, 0, 10⟩,
   ⟨.ident [109], 0, 12⟩, ⟨.sym 123, 0, 14⟩, ⟨.sym 125, 0, 16⟩]

/-- the hypothesis of `C25_grammar` is satisfiable (a derivation in the grammar) -/
example : File exToks ⟨[], []⟩ ⟨[], [⟨[97], false, false, false⟩]⟩ :=
  File.imp ⟨.ident kwImport, 0, 0⟩ [⟨.str [97], 0, 7⟩] ⟨.sym 59, 0, 10⟩ _ [97] _ _ rfl (Strs.one _ _ rfl) rfl
    (File.other ⟨.ident [109], 0, 12⟩ [⟨.sym 123, 0, 14⟩, ⟨.sym 125, 0, 16⟩] [] _ _
      (Other.block [⟨.ident [109], 0, 12⟩] ⟨.sym 123, 0, 14⟩ [] ⟨.sym 125, 0, 16⟩
        (Flat.atom _ _ rfl (by decide) Flat.nil) rfl Bal.nil rfl)
      (by decide) (by decide) (File.nil _))

/-- Outside L the scanner is not a parser: `import "a"` without the semicolon is dropped
    silently (no import, no error) — the theorem's restriction to L is necessary. -/
example : scanBytes [105, 109, 112, 111, 114, 116, 32, 34, 97, 34] = ⟨[], [], []⟩ := by decide

#print axioms run_skip
#print axioms run_parseImport
#print axioms run_parsePackage
#print axioms scan_eq_topLevel
#print axioms no_syntax_error_on_L
#print axioms lexWith_wf
#print axioms lex_fuel
#print axioms lexRef_eq_lex
#print axioms decodeRunes_fuel
#print axioms other_skip
#print axioms file_topLevel
#print axioms C25_scan_eq_topLevel
#print axioms C25_no_error
#print axioms C25_grammar
#print axioms scan_eq_topLevel_lexWith
#print axioms C25_full
#print axioms C25_rawbytes_refuted
#print axioms C25_rawbytes_partial
#print axioms C25_rawbytes_after_patch

end PCV.Props.C25
