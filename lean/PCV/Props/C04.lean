/-
C04 — Descriptor views agree with the Go protobuf runtime.

Statement (properties.jsonl): every compiled file is accepted by the Go protobuf runtime's descriptor
builder, and for every element the compiler's descriptor objects report the same attributes as the
runtime builds from the compiled proto.

Both sides are executable models over the same facts (`PCV.Model.FieldAttrs`): `…L` mirrors
linker/descriptors.go, `…R` mirrors protobuf-go's protodesc/filedesc. Everything is quantified over ALL
facts satisfying the decidable side conditions `accepted…` (what the compiler guarantees for files it
accepts; the correspondence run evaluates them on every compiled element).

* `resolveFeature_nearest`   top-down feature merge (runtime) = nearest-ancestor override (linker), by induction
* `field_agree`              all attributes of every field/extension agree — unconditional
* `msg_agree`, `enum_agree`, `oneof_agree`   likewise for messages (incl. `RequiredNumbers`), enums (incl.
                             `IsClosed`, value full names), oneofs (`IsSynthetic`) — unconditional
* `default_agree`            Default/DefaultEnumValue agree (integers, bool, string, enum, all zero values)
* `runtime_accepts_field`    the runtime accepts the field, given protoc's two enum rules (`EnumSafe`)
* `C04_full` is the full-strength statement; `C04_full_refuted` refutes it: only "the runtime accepts every
  compiled file" fails, on two acceptance defects of the compiler (`runtime_rejects_accepted`: proto3 field
  referencing a closed enum; `runtime_rejects_accepted_map`: map value enum not starting at 0) — known findings.
* Two attribute defects found by this check were fixed in /repo (a64d8c3c `RequiredNumbers`, d89668e5
  `IsClosed`); the model mirrors the fixed code, the old behaviour is kept as `…Prefix` definitions with
  `requiredNumbersPrefix_disagree` / `isClosedPrefix_disagree` as documentation.
-/
import PCV.Model.FieldAttrs
namespace PCV.Props.C04
open PCV.FieldAttrs

/-! ## Feature inheritance: top-down merge = nearest-ancestor override -/

/-- one override level applied to resolved features -/
def overrideWith (F : Features) (o : Overrides) : Features :=
  { presence := o.presence.getD F.presence, enumType := o.enumType.getD F.enumType,
    repEnc := o.repEnc.getD F.repEnc, utf8 := o.utf8.getD F.utf8, msgEnc := o.msgEnc.getD F.msgEnc,
    json := o.json.getD F.json }

theorem mergeEF_efOf (F : Features) (o : Overrides) : mergeEF (efOf F) o = efOf (overrideWith F o) := by
  obtain ⟨p, e, r, u, m, j⟩ := o
  cases p <;> cases e <;> cases r <;> cases u <;> cases m <;> cases j <;>
    simp [mergeEF, efOf, overrideWith]

theorem firstSet_cons {α : Type} (get : Overrides → Option α) (o : Overrides) (rest : List Overrides) (d : α) :
    (firstSet get (o :: rest)).getD d = (get o).getD ((firstSet get rest).getD d) := by
  simp only [firstSet]
  cases get o <;> simp

theorem nearest_cons (ed : Nat) (o : Overrides) (rest : List Overrides) :
    nearest ed (o :: rest) = overrideWith (nearest ed rest) o := by
  simp [nearest, overrideWith, firstSet_cons]

theorem nearest_nil (ed : Nat) : nearest ed [] = defaultsAt (if ed < 900 then 900 else ed) := by
  simp [nearest, firstSet]

theorem chainEF_nil (ed : Nat) : chainEF ed [] = efOf (nearest ed []) := by
  rw [nearest_nil]
  simp [chainEF, mergeEF, runtimeDefaultsOv, efOf, EF.zero]

/-- **Feature inheritance.** The runtime's top-down merge of feature sets (file defaults, file, enclosing
messages, element) yields exactly the booleans of the nearest-ancestor-override resolution. -/
theorem resolveFeature_nearest (ed : Nat) (chain : List Overrides) :
    chainEF ed chain = efOf (nearest ed chain) := by
  induction chain with
  | nil => exact chainEF_nil ed
  | cons o rest ih => rw [chainEF, ih, nearest_cons, mergeEF_efOf]


/-! ## The linker's `resolveFeature` on accepted files -/

theorem firstSet_allEmpty {α : Type} (get : Overrides → Option α) (chain : List Overrides)
    (hget : ∀ o : Overrides, o.isEmpty = true → get o = none)
    (h : chain.all (·.isEmpty) = true) : firstSet get chain = none := by
  induction chain with
  | nil => rfl
  | cons o rest ih =>
    simp only [List.all_cons, Bool.and_eq_true] at h
    simp [firstSet, hget o h.1, ih h.2]

theorem isEmpty_fields (o : Overrides) (h : o.isEmpty = true) :
    o.presence = none ∧ o.enumType = none ∧ o.repEnc = none ∧ o.utf8 = none ∧ o.msgEnc = none ∧ o.json = none := by
  simp [Overrides.isEmpty] at h
  obtain ⟨⟨⟨⟨⟨h1, h2⟩, h3⟩, h4⟩, h5⟩, h6⟩ := h
  exact ⟨h1, h2, h3, h4, h5, h6⟩

/-- On a file the compiler accepted, `linker.resolveFeature` (with its proto2/proto3 short cut) is the
nearest-ancestor-override resolution. -/
theorem resolveAllL_eq_nearest (syn : Syntax) (fe : Nat) (chain : List Overrides)
    (h : editionOK syn fe chain = true) :
    resolveAllL (editionOf syn fe) chain = nearest (editionOf syn fe) chain := by
  cases syn
  · -- proto2
    simp only [editionOK, Bool.and_eq_true, beq_iff_eq] at h
    obtain ⟨_, hall⟩ := h
    have e1 := firstSet_allEmpty (·.presence) chain (fun o ho => (isEmpty_fields o ho).1) hall
    have e2 := firstSet_allEmpty (·.enumType) chain (fun o ho => (isEmpty_fields o ho).2.1) hall
    have e3 := firstSet_allEmpty (·.repEnc) chain (fun o ho => (isEmpty_fields o ho).2.2.1) hall
    have e4 := firstSet_allEmpty (·.utf8) chain (fun o ho => (isEmpty_fields o ho).2.2.2.1) hall
    have e5 := firstSet_allEmpty (·.msgEnc) chain (fun o ho => (isEmpty_fields o ho).2.2.2.2.1) hall
    have e6 := firstSet_allEmpty (·.json) chain (fun o ho => (isEmpty_fields o ho).2.2.2.2.2) hall
    simp [resolveAllL, resolveL, nearest, editionOf, e1, e2, e3, e4, e5, e6, linkerDefaults, knownEditions]
  · -- proto3
    simp only [editionOK, Bool.and_eq_true, beq_iff_eq] at h
    obtain ⟨_, hall⟩ := h
    have e1 := firstSet_allEmpty (·.presence) chain (fun o ho => (isEmpty_fields o ho).1) hall
    have e2 := firstSet_allEmpty (·.enumType) chain (fun o ho => (isEmpty_fields o ho).2.1) hall
    have e3 := firstSet_allEmpty (·.repEnc) chain (fun o ho => (isEmpty_fields o ho).2.2.1) hall
    have e4 := firstSet_allEmpty (·.utf8) chain (fun o ho => (isEmpty_fields o ho).2.2.2.1) hall
    have e5 := firstSet_allEmpty (·.msgEnc) chain (fun o ho => (isEmpty_fields o ho).2.2.2.2.1) hall
    have e6 := firstSet_allEmpty (·.json) chain (fun o ho => (isEmpty_fields o ho).2.2.2.2.2) hall
    simp [resolveAllL, resolveL, nearest, editionOf, e1, e2, e3, e4, e5, e6, linkerDefaults, knownEditions]
  · -- editions (2023)
    simp only [editionOK, beq_iff_eq] at h
    subst h
    simp only [resolveAllL, resolveL, nearest, editionOf, linkerDefaults, knownEditions]
    congr 1 <;> (split <;> simp_all)


/-! ## Where LEGACY_REQUIRED can come from -/

theorem defaultsAt_presence_ne_legacy (e : Nat) : (defaultsAt e).presence ≠ .legacyRequired := by
  simp only [defaultsAt]
  repeat' split
  all_goals simp

/-- enclosing messages and the file never contribute LEGACY_REQUIRED -/
theorem ancestors_no_legacy (rest : List Overrides) (h : ancestorsOK rest = true) :
    firstSet (·.presence) rest ≠ some .legacyRequired := by
  induction rest with
  | nil => simp [firstSet]
  | cons o tl ih =>
    cases tl with
    | nil =>
      simp only [ancestorsOK, bne_iff_ne, ne_eq] at h
      simp only [firstSet]
      cases hp : o.presence with
      | none => simp
      | some v => simp only [hp] at h; simpa using h
    | cons o2 tl2 =>
      simp only [ancestorsOK, Bool.and_eq_true] at h
      have hm := h.1
      simp only [Overrides.messageLevelOK, Bool.and_eq_true, Option.isNone_iff_eq_none] at hm
      simp only [firstSet, hm.1.1.1.1]
      exact ih h.2

theorem nearest_presence_legacy (ed : Nat) (own : Overrides) (rest : List Overrides)
    (hrest : ancestorsOK rest = true)
    (h : (nearest ed (own :: rest)).presence = .legacyRequired) : own.presence = some .legacyRequired := by
  simp only [nearest, firstSet] at h
  cases hp : own.presence with
  | some v => simp only [hp, Option.getD_some] at h; rw [h]
  | none =>
    simp only [hp] at h
    cases hf : firstSet (·.presence) rest with
    | none => simp only [hf, Option.getD_none] at h; exact absurd h (defaultsAt_presence_ne_legacy _)
    | some v =>
      simp only [hf, Option.getD_some] at h
      exact absurd (h ▸ hf) (ancestors_no_legacy rest hrest)


/-! ## Fields and extensions -/

/-- the side conditions of `acceptedField`, one by one -/
structure Acc (f : FieldFacts) : Prop where
  edition : editionOK f.syn f.fileEdition f.chain = true
  chainShape : ∃ own rest, f.chain = own :: rest ∧ own.enumType = none ∧ own.json = none ∧ ancestorsOK rest = true ∧
      (f.ext = true → own.presence = none) ∧
      (own.presence ≠ none → f.label = .optional ∧ f.oneof = none ∧ f.ext = false)
  extension : f.ext = true → f.label ≠ .required ∧ f.oneof = none ∧ f.parentMapEntry = false ∧
      f.targetMapEntry = false ∧ f.extendeeMsgSet = false
  typeMsg : (f.type = .message ∨ f.type = .group) ↔ f.targetMsg.isSome = true
  typeEnum : f.type = .enum ↔ f.targetEnum.isSome = true
  mapEntryTarget : f.targetMapEntry = true → f.type = .message ∧ f.label = .repeated ∧ f.ext = false
  packedOption : f.packedOpt ≠ none → f.syn ≠ .editions
  proto3Optional : f.proto3Optional = true → f.syn = .proto3 ∧ f.label = .optional ∧ (f.ext = true ∨ f.oneof.isSome = true)
  jsonName : f.ext = false → f.jsonName.isSome = true
  groupType : f.type = .group → f.syn = .proto2 ∧ f.parentMapEntry = false
  groupScope : f.ext = false → ∀ t, f.targetMsg = some t → fullNameParent t = f.parent → f.targetSameFile = true
  name : f.name ≠ [] ∧ '.' ∉ f.name
  oneofLabel : f.oneof.isSome = true → f.label = .optional
  targetEnum : f.targetEnum.isSome = true → (f.teEdition = 998 ∨ f.teEdition = 999 ∨ f.teEdition = 1000) ∧
      (f.teEdition = 1000 ∨ f.teChain.all (·.isEmpty) = true)
  closedEnum : ¬ (f.kindL = .enum ∧ f.isListL = false ∧ f.hasPresenceL = false ∧ f.targetEnumClosedL = true)
  default : f.hasDefault = true → f.hasPresenceL = true ∧ f.label ≠ .repeated ∧ f.type ≠ .message ∧ f.type ≠ .group

theorem acc_of_accepted (f : FieldFacts) (h : acceptedField f = true) : Acc f := by
  simp only [acceptedField, acceptedFieldClauses, List.all_cons, List.all_nil, Bool.and_eq_true, Bool.and_true] at h
  obtain ⟨h1, h2, h3, h4, h5, h6, h7, h8, h9, h10, h11, h12, h13, h14, h15, h16⟩ := h
  refine ⟨h1, ?_, ?_, ?_, ?_, ?_, ?_, ?_, ?_, ?_, ?_, ?_, ?_, ?_, ?_, ?_⟩
  · cases hc : f.chain with
    | nil => simp [hc] at h2
    | cons own rest =>
      simp only [hc, Bool.and_eq_true, Option.isNone_iff_eq_none] at h2
      refine ⟨own, rest, rfl, h2.1.1, h2.1.2, h2.2, ?_, ?_⟩
      · intro he
        simp only [he, hc, Bool.not_true, Bool.false_or, Bool.and_eq_true, List.head?_cons, Option.bind_some,
          Option.isNone_iff_eq_none] at h3
        exact h3.1.2
      · intro hp
        simp only [hc, List.head?_cons, Option.bind_some, Bool.or_eq_true, Option.isNone_iff_eq_none,
          Bool.and_eq_true, beq_iff_eq, Bool.not_eq_true'] at h4
        rcases h4 with h4 | h4
        · exact absurd h4 hp
        · exact ⟨h4.1.1, h4.1.2, h4.2⟩
  · intro he
    simp only [he, Bool.not_true, Bool.false_or, Bool.and_eq_true, bne_iff_ne, ne_eq, Option.isNone_iff_eq_none,
      Bool.not_eq_true'] at h3
    exact ⟨h3.1.1.1.1.1, h3.1.1.1.1.2, h3.1.1.1.2, h3.1.1.2, h3.2⟩
  · simp at h5; have := h5.1; constructor
    · intro ht; rcases ht with ht | ht <;> simp_all
    · intro ht; rw [← this] at ht; simpa using ht
  · simp at h5; have := h5.2; constructor
    · intro ht; simp_all
    · intro ht; rw [← this] at ht; simpa using ht
  · intro ht; simp [ht] at h6; exact ⟨h6.1.1, h6.1.2, h6.2⟩
  · intro hp; simp at h7; rcases h7 with h7 | h7
    · exact absurd h7 hp
    · exact h7
  · intro hp; simp [hp] at h8; exact ⟨h8.1.1, h8.1.2, h8.2⟩
  · intro he; simp [he] at h9; exact h9
  · intro ht; simp [ht] at h10; exact h10
  · intro he t ht hpar
    simp [he, ht] at h11
    rcases h11 with h11 | h11
    · exact absurd hpar h11
    · exact h11
  · simp at h12; exact ⟨by intro hn; simp [hn] at h12, h12.2⟩
  · intro ho; simp at h13; rcases h13 with h13 | h13
    · simp [h13] at ho
    · exact h13
  · intro ht; simp at h14; rcases h14 with h14 | h14
    · simp [h14] at ht
    · constructor
      · rcases h14.1 with (h | h) | h <;> simp [h]
      · rcases h14.2 with h | h
        · exact Or.inl h
        · exact Or.inr (by simpa using h)
  · intro hc; simp [hc.1, hc.2.1, hc.2.2.1, hc.2.2.2] at h15
  · intro hd; simp [hd] at h16; exact ⟨h16.1.1.1, h16.1.1.2, h16.1.2, h16.2⟩


/-- the resolved features of a field: nearest override, else edition default -/
def feats (f : FieldFacts) : Features := nearest f.edition f.chain

theorem resolved_eq (f : FieldFacts) (a : Acc f) : resolveAllL f.edition f.chain = feats f :=
  resolveAllL_eq_nearest f.syn f.fileEdition f.chain a.edition

theorem presenceL_eq (f : FieldFacts) (a : Acc f) : f.presenceL = (feats f).presence :=
  congrArg Features.presence (resolved_eq f a)

theorem msgEncL_eq (f : FieldFacts) (a : Acc f) :
    resolveL f.edition f.chain (·.msgEnc) (·.msgEnc) = (feats f).msgEnc :=
  congrArg Features.msgEnc (resolved_eq f a)

theorem repEncL_eq (f : FieldFacts) (a : Acc f) :
    resolveL f.edition f.chain (·.repEnc) (·.repEnc) = (feats f).repEnc :=
  congrArg Features.repEnc (resolved_eq f a)

theorem ef_eq (f : FieldFacts) : f.ef = efOf (feats f) := resolveFeature_nearest _ _

/-- proto2 / proto3 files: the features are the edition defaults -/
theorem feats_nonEditions (f : FieldFacts) (a : Acc f) (h : f.syn ≠ .editions) :
    (feats f).presence ≠ .legacyRequired ∧ (feats f).msgEnc = .lengthPrefixed := by
  have hr := resolved_eq f a
  have hs : f.edition = 998 ∨ f.edition = 999 := by
    unfold FieldFacts.edition editionOf
    cases hsyn : f.syn <;> simp_all
  rw [← hr]
  rcases hs with hs | hs <;>
    simp [resolveAllL, resolveL, hs, linkerDefaults, knownEditions, defaultsAt]

/-- LEGACY_REQUIRED is only ever the field's own override, on a singular non-oneof message field of an
editions file -/
theorem legacy_site (f : FieldFacts) (a : Acc f) (h : (feats f).presence = .legacyRequired) :
    f.syn = .editions ∧ f.label = .optional ∧ f.ext = false ∧ f.oneof = none := by
  obtain ⟨own, rest, hc, _, _, hrest, _, hsite⟩ := a.chainShape
  have hown : own.presence = some .legacyRequired := by
    unfold feats at h; rw [hc] at h
    exact nearest_presence_legacy _ own rest hrest h
  have := hsite (by simp [hown])
  refine ⟨?_, this.1, this.2.2, this.2.1⟩
  by_cases hs : f.syn = .editions
  · exact hs
  · exact absurd h (feats_nonEditions f a hs).1

theorem cardL_eq (f : FieldFacts) (a : Acc f) :
    f.cardL = if f.label = .optional ∧ (feats f).presence = .legacyRequired then .required else f.label := by
  unfold FieldFacts.cardL
  rw [presenceL_eq f a]
  cases hl : f.label <;> simp
  by_cases hs : f.syn = .editions
  · simp [hs]
  · simp [hs, (feats_nonEditions f a hs).1]

theorem cardR_eq (f : FieldFacts) (a : Acc f) :
    f.cardR = if f.label = .optional ∧ (feats f).presence = .legacyRequired then .required else f.label := by
  unfold FieldFacts.cardR
  rw [ef_eq]
  by_cases hp : (feats f).presence = .legacyRequired
  · obtain ⟨_, hl, he, _⟩ := legacy_site f a hp
    simp [efOf, hp, hl, he]
  · simp [efOf, hp]

/-- `Cardinality()` agrees. -/
theorem card_agree (f : FieldFacts) (a : Acc f) : f.cardL = f.cardR := by
  rw [cardL_eq f a, cardR_eq f a]

theorem card_repeated_iff (f : FieldFacts) (a : Acc f) : f.cardR = .repeated ↔ f.label = .repeated := by
  rw [cardR_eq f a]
  cases hl : f.label <;> simp
  split <;> simp


theorem isMapL_eq (f : FieldFacts) (a : Acc f) : f.isMapL = f.targetMapEntry := by
  unfold FieldFacts.isMapL FieldFacts.isMapEntryL
  by_cases ht : f.targetMapEntry = true
  · obtain ⟨h1, h2, h3⟩ := a.mapEntryTarget ht
    simp [h1, h2, h3, ht]
  · have : f.targetMapEntry = false := by simpa using ht
    simp [this]

theorem isMapR_eq (f : FieldFacts) (a : Acc f) : f.isMapR = f.targetMapEntry := by
  unfold FieldFacts.isMapR
  by_cases ht : f.targetMapEntry = true
  · obtain ⟨h1, h2, h3⟩ := a.mapEntryTarget ht
    have := a.typeMsg.mp (Or.inl h1)
    simp [h3, ht, this]
  · have : f.targetMapEntry = false := by simpa using ht
    simp [this]

/-- `IsMap()` agrees. -/
theorem isMap_agree (f : FieldFacts) (a : Acc f) : f.isMapL = f.isMapR := by
  rw [isMapL_eq f a, isMapR_eq f a]

/-- `Kind()` agrees: the linker's "editions ∧ message ∧ not a map ∧ not in a map entry ∧ DELIMITED" is the
runtime's "message ∧ IsDelimitedEncoded, reset for maps and map-entry members". -/
theorem kind_agree (f : FieldFacts) (a : Acc f) : f.kindL = f.kindR := by
  unfold FieldFacts.kindL FieldFacts.kindR
  rw [isMapL_eq f a, isMapR_eq f a, msgEncL_eq f a, ef_eq]
  by_cases htm : f.type = .message
  · by_cases hs : f.syn = .editions
    · by_cases hd : (feats f).msgEnc = .delimited
      · by_cases he : f.ext = true
        · obtain ⟨_, _, h3, h4, _⟩ := a.extension he
          simp [htm, hs, hd, he, h3, h4, efOf]
        · have he' : f.ext = false := by simpa using he
          cases h3 : f.targetMapEntry <;> cases h4 : f.parentMapEntry <;> simp [htm, hs, hd, he', efOf]
      · simp [htm, hs, hd, efOf]
    · have := (feats_nonEditions f a hs).2
      simp [htm, hs, efOf, this]
  · by_cases hg : f.type = .group
    · obtain ⟨_, hp⟩ := a.groupType hg
      have hme : f.targetMapEntry = false := by
        cases h : f.targetMapEntry
        · rfl
        · have := (a.mapEntryTarget h).1; rw [hg] at this; cases this
      simp [hg, hp, hme]
    · simp [htm]
      intro _ h; exact absurd h hg

theorem kindL_type (f : FieldFacts) (_a : Acc f) :
    (f.kindL = .message ∨ f.kindL = .group) ↔ (f.type = .message ∨ f.type = .group) := by
  unfold FieldFacts.kindL
  by_cases htm : f.type = .message
  · simp only [htm, true_and, true_or, iff_true]
    split
    · split <;> simp
    · simp
  · simp [htm]

theorem kindL_enum (f : FieldFacts) : f.kindL = .enum ↔ f.type = .enum := by
  unfold FieldFacts.kindL
  by_cases htm : f.type = .message
  · simp only [htm, true_and]
    split
    · split <;> simp
    · simp
  · simp [htm]

theorem kindL_canPack (f : FieldFacts) : f.kindL.canPack = f.type.canPack := by
  unfold FieldFacts.kindL
  by_cases htm : f.type = .message
  · simp only [htm, true_and]
    split
    · split <;> simp [Kind.canPack]
    · rfl
  · simp [htm]

/-- `IsList()` agrees. -/
theorem isList_agree (f : FieldFacts) (a : Acc f) : f.isListL = f.isListR := by
  unfold FieldFacts.isListL FieldFacts.isListR FieldFacts.isMapEntryL
  rw [isMapR_eq f a]
  have hc := card_repeated_iff f a
  by_cases hl : f.label = .repeated
  · have hcr := hc.mpr hl
    by_cases he : f.ext = true
    · obtain ⟨_, _, _, h4, _⟩ := a.extension he
      simp [hl, hcr, he, h4]
    · have he' : f.ext = false := by simpa using he
      by_cases ht : f.targetMapEntry = true
      · simp [hl, hcr, he', ht, (a.mapEntryTarget ht).1]
      · have : f.targetMapEntry = false := by simpa using ht
        simp [hl, hcr, he', this]
  · have hcr : f.cardR ≠ .repeated := fun h => hl (hc.mp h)
    cases he : f.ext <;> simp [hl, hcr]

/-- `HasPresence()` agrees. -/
theorem hasPresence_agree (f : FieldFacts) (a : Acc f) : f.hasPresenceL = f.hasPresenceR := by
  unfold FieldFacts.hasPresenceL FieldFacts.hasPresenceR
  rw [presenceL_eq f a, ef_eq]
  have hc := card_repeated_iff f a
  by_cases hl : f.label = .repeated
  · have hcr := hc.mpr hl
    cases he : f.ext <;> simp [hl, hcr]
  · have hcr : f.cardR ≠ .repeated := fun h => hl (hc.mp h)
    by_cases he : f.ext = true
    · simp [hl, hcr, he]
    · have he' : f.ext = false := by simpa using he
      have hk := kindL_type f a
      have ht := a.typeMsg
      by_cases hm : f.targetMsg.isSome = true
      · have := hk.mpr (ht.mpr hm)
        rcases this with h | h <;> simp [hl, hcr, he', hm, h]
      · have hm' : f.targetMsg.isSome = false := by simpa using hm
        have hnk : ¬ (f.kindL = .message ∨ f.kindL = .group) := fun h => hm (ht.mp (hk.mp h))
        have h1 : (f.kindL == Kind.message) = false := by
          simp only [beq_eq_false_iff_ne, ne_eq]; exact fun h => hnk (Or.inl h)
        have h2 : (f.kindL == Kind.group) = false := by
          simp only [beq_eq_false_iff_ne, ne_eq]; exact fun h => hnk (Or.inr h)
        simp only [hl, hcr, he', hm', h1, h2, if_false, Bool.false_or, Bool.or_false, efOf]
        cases f.oneof <;> cases (feats f).presence <;> simp <;> decide


theorem card_optional_iff (f : FieldFacts) (a : Acc f) (hs : f.syn ≠ .editions) :
    f.cardR = .optional ↔ f.label = .optional := by
  rw [cardR_eq f a]
  simp [(feats_nonEditions f a hs).1]

/-- `HasOptionalKeyword()` agrees (including the runtime's quirk for `optional` extensions in proto3). -/
theorem hasOptionalKeyword_agree (f : FieldFacts) (a : Acc f) :
    f.hasOptionalKeywordL = f.hasOptionalKeywordR := by
  unfold FieldFacts.hasOptionalKeywordL FieldFacts.hasOptionalKeywordR
  by_cases hp : f.proto3Optional = true
  · obtain ⟨h1, h2, h3⟩ := a.proto3Optional hp
    cases he : f.ext <;> simp [hp, h1, h2]
  · have hp' : f.proto3Optional = false := by simpa using hp
    by_cases hs : f.syn = .proto2
    · have hne : f.syn ≠ .editions := by rw [hs]; decide
      have hco := card_optional_iff f a hne
      by_cases hl : f.label = .optional
      · have := hco.mpr hl
        by_cases he : f.ext = true
        · simp [hp', hs, hl, this, he, (a.extension he).2.1]
        · have he' : f.ext = false := by simpa using he
          simp [hp', hs, hl, this, he']
      · have : f.cardR ≠ .optional := fun h => hl (hco.mp h)
        cases he : f.ext <;> simp [hp', hs, hl, this]
    · have : (f.syn == Syntax.proto2) = false := by simpa using hs
      cases he : f.ext <;> simp [hp', this]

/-- `IsPacked()` agrees. -/
theorem isPacked_agree (f : FieldFacts) (a : Acc f) : f.isPackedL = f.isPackedR := by
  unfold FieldFacts.isPackedL FieldFacts.isPackedR FieldFacts.efPackedR
  rw [← card_agree f a, ← kind_agree f a, repEncL_eq f a, ef_eq]
  by_cases hc : f.cardL = .repeated
  · cases hk : f.kindL.canPack <;> simp [hc, efOf]
  · simp [hc]

/-! ### names -/

theorem dropLastComp_noDot (n : Name) (h : '.' ∉ n) : dropLastComp n = none := by
  induction n with
  | nil => rfl
  | cons c cs ih =>
    simp only [List.mem_cons, not_or] at h
    simp [dropLastComp, ih h.2, Ne.symm h.1]

theorem dropLastComp_append (p n : Name) (h : '.' ∉ n) : dropLastComp (p ++ '.' :: n) = some p := by
  induction p with
  | nil => simp [dropLastComp, dropLastComp_noDot n h]
  | cons c cs ih => simp [dropLastComp, ih]

/-- `FullName(parent + "." + name).Parent() == parent` for an identifier `name` -/
theorem fullNameParent_joinName (p n : Name) (h : '.' ∉ n) : fullNameParent (joinName p n) = p := by
  unfold fullNameParent joinName
  cases p with
  | nil => simp [dropLastComp_noDot n h]
  | cons c cs =>
    have := dropLastComp_append (c :: cs) n h
    simp only [List.cons_append] at this
    simp [this]

/-- `looksLikeGroup()` (linker) = `isGroupLike` (runtime) for message fields. -/
theorem groupLike_agree (f : FieldFacts) (a : Acc f) (he : f.ext = false) :
    f.looksLikeGroupL = f.isGroupLikeR := by
  unfold FieldFacts.looksLikeGroupL FieldFacts.isGroupLikeR FieldFacts.fqn
  rw [fullNameParent_joinName f.parent f.name a.name.2, ← kind_agree f a]
  cases ht : f.targetMsg with
  | none => rfl
  | some t =>
    simp only [he]
    by_cases hp : fullNameParent t = f.parent
    · have hsf := a.groupScope he t ht hp
      simp only [hp, hsf, beq_self_eq_true, Bool.and_true]
      by_cases hn : f.name = toLowerName (fullNameName t)
      · simp [← hn]
      · have h1 : (f.name == toLowerName (fullNameName t)) = false := by simpa using hn
        have h2 : (toLowerName (fullNameName t) == f.name) = false := by simpa using Ne.symm hn
        simp [h1, h2]
    · have h1 : (fullNameParent t == f.parent) = false := by simpa using hp
      have h2 : (f.parent == fullNameParent t) = false := by simpa using Ne.symm hp
      simp [h1, h2]

/-- `TextName()` agrees. -/
theorem textName_agree (f : FieldFacts) (a : Acc f) : f.textNameL = f.textNameR := by
  unfold FieldFacts.textNameL FieldFacts.textNameR
  by_cases he : f.ext = true
  · have := (a.extension he).2.2.2.2
    simp [he, FieldFacts.isMessageSetExtR, this]
  · have he' : f.ext = false := by simpa using he
    simp [he', groupLike_agree f a he']

/-- `JSONName()` agrees. -/
theorem jsonName_agree (f : FieldFacts) (a : Acc f) : f.jsonNameL = f.jsonNameR := by
  unfold FieldFacts.jsonNameL FieldFacts.jsonNameR
  rw [textName_agree f a]
  by_cases he : f.ext = true
  · simp [he]
  · have he' : f.ext = false := by simpa using he
    have := a.jsonName he'
    cases hj : f.jsonName with
    | none => simp [hj] at this
    | some j => simp [he']

/-- **Fields and extensions.** On the facts of any field of a file the compiler accepts, every modelled
attribute of the linker's descriptor equals the runtime's: name, full name, number, cardinality, kind,
presence, optional keyword, packedness, list/map-ness, extension-ness, JSON and text names, oneof,
containing message, message and enum type, has-default, resolved features. -/
theorem field_agree (f : FieldFacts) (h : acceptedField f = true) : fieldVecL f = fieldVecR f := by
  have a := acc_of_accepted f h
  unfold fieldVecL fieldVecR
  rw [card_agree f a, kind_agree f a, hasPresence_agree f a, hasOptionalKeyword_agree f a, isPacked_agree f a,
    isList_agree f a, isMap_agree f a, jsonName_agree f a, textName_agree f a]
  rfl


/-! ## Enum closedness: linker vs runtime -/

/-- The linker's `enum_type != OPEN` (since /repo commit d89668e5) is the runtime's `!IsOpenEnum`, for every
accepted (syntax, edition, chain) — `ENUM_TYPE_UNKNOWN` overrides included. -/
theorem closed_agree (syn : Syntax) (fe : Nat) (chain : List Overrides) (hE : editionOK syn fe chain = true) :
    (resolveL (editionOf syn fe) chain (·.enumType) (·.enumType) != EnumType.openE) =
      !(chainEF (editionOf syn fe) chain).isOpenEnum := by
  have h1 : resolveL (editionOf syn fe) chain (·.enumType) (·.enumType) = (nearest (editionOf syn fe) chain).enumType :=
    congrArg Features.enumType (resolveAllL_eq_nearest syn fe chain hE)
  rw [h1, resolveFeature_nearest]
  simp only [efOf]
  generalize (nearest (editionOf syn fe) chain).enumType = t
  cases t <;> decide

/-! ## The runtime accepts the field -/

/-- Extra conditions under which `protodesc.NewFile` accepts a field of an accepted file. Both are rules of
protoc that the compiler under test does not enforce (known findings):
* a field of a proto3 file does not reference a closed enum (whatever its label);
* the enum of a map value starts at zero. -/
structure EnumSafe (f : FieldFacts) : Prop where
  proto3Open : f.syn = .proto3 → f.targetEnum.isSome = true → f.targetEnumClosedL = false
  mapValueZero : f.mapValEnumFirst = none ∨ f.mapValEnumFirst = some 0
  entryValueZero : f.parentMapEntry = true → f.teFirst = none ∨ f.teFirst = some 0

/-- the (syntax, edition, chain) triple of the referenced enum is well formed -/
theorem teEditionOK (f : FieldFacts) (a : Acc f) (h : f.targetEnum.isSome = true) :
    ∃ syn fe, editionOf syn fe = f.teEdition ∧ editionOK syn fe f.teChain = true := by
  obtain ⟨h1, h2⟩ := a.targetEnum h
  rcases h1 with h1 | h1 | h1
  · refine ⟨.proto2, 998, by simp [editionOf, h1], ?_⟩
    rcases h2 with h2 | h2
    · omega
    · simp [editionOK, h2]
  · refine ⟨.proto3, 999, by simp [editionOf, h1], ?_⟩
    rcases h2 with h2 | h2
    · omega
    · simp [editionOK, h2]
  · exact ⟨.editions, 1000, by simp [editionOf, h1], by simp [editionOK]⟩

theorem targetClosed_agree (f : FieldFacts) (a : Acc f) (h : f.targetEnum.isSome = true) :
    f.targetEnumClosedL = f.targetEnumClosedR := by
  obtain ⟨syn, fe, he, hok⟩ := teEditionOK f a h
  unfold FieldFacts.targetEnumClosedL FieldFacts.targetEnumClosedR
  rw [← he]
  exact closed_agree syn fe f.teChain hok

/-- **Acceptance by the runtime (per field).** An accepted field that also obeys protoc's two enum rules
passes the field-level checks of `protodesc.NewFile`. -/
theorem runtime_accepts_field (f : FieldFacts) (h : acceptedField f = true) (s : EnumSafe f) :
    f.runtimeVerdict = "ok" := by
  have a := acc_of_accepted f h
  unfold FieldFacts.runtimeVerdict
  by_cases he : f.ext = true
  · simp [he]
  · have he' : f.ext = false := by simpa using he
    simp only [he', Bool.false_eq_true, if_false]
    -- mapenum0v
    have c1 : (f.parentMapEntry && f.number == 2 && f.targetEnum.isSome && FieldFacts.firstNonZero f.teFirst) = false := by
      cases hp : f.parentMapEntry
      · simp
      · rcases s.entryValueZero hp with h0 | h0 <;> simp [h0, FieldFacts.firstNonZero]
    -- mapenum0
    have c2 : (f.isMapR && FieldFacts.firstNonZero f.mapValEnumFirst) = false := by
      rcases s.mapValueZero with h0 | h0 <;> simp [h0, FieldFacts.firstNonZero]
    rw [c1, c2]
    simp only [Bool.false_eq_true, if_false]
    by_cases hte : f.targetEnum.isSome = true
    · have hcl := targetClosed_agree f a hte
      -- p3closed
      have c3 : (f.edition == 999 && f.targetEnum.isSome && f.targetEnumClosedR) = false := by
        by_cases h3 : f.syn = .proto3
        · rw [← hcl, s.proto3Open h3 hte]; simp
        · have : (f.edition == 999) = false := by
            have hE := a.edition
            unfold FieldFacts.edition
            cases hs : f.syn <;> simp_all [editionOf, editionOK]
          simp [this]
      -- implclosed
      have c4 : (f.cardR == .optional && !f.hasPresenceR && f.targetEnum.isSome && f.targetEnumClosedR) = false := by
        have hne := a.closedEnum
        rw [← hcl, ← hasPresence_agree f a]
        by_cases hc : f.cardR = .optional
        · have hlab : f.label ≠ .repeated := by
            intro hl; rw [(card_repeated_iff f a).mpr hl] at hc; cases hc
          have hlist : f.isListL = false := by simp [FieldFacts.isListL, hlab]
          have hk : f.kindL = .enum := (kindL_enum f).mpr (a.typeEnum.mpr hte)
          cases hp : f.hasPresenceL
          · cases hcl' : f.targetEnumClosedL
            · simp
            · exact absurd ⟨hk, hlist, hp, hcl'⟩ hne
          · simp
        · have : (f.cardR == Label.optional) = false := by simpa using hc
          simp [this]
      rw [c3, c4]; simp
    · have : f.targetEnum.isSome = false := by simpa using hte
      simp [this]


/-- Since `IsClosed` is fixed the compiler's own check ("cannot use closed enum … in a field with implicit
presence") uses the runtime's notion of closedness, so the runtime's "with implicit presence may only use open
enums" rejection can no longer hit an accepted file. -/
theorem implclosed_impossible (f : FieldFacts) (h : acceptedField f = true) : f.runtimeVerdict ≠ "implclosed" := by
  have a := acc_of_accepted f h
  have c4 : (f.cardR == .optional && !f.hasPresenceR && f.targetEnum.isSome && f.targetEnumClosedR) = false := by
    by_cases hte : f.targetEnum.isSome = true
    · have hcl := targetClosed_agree f a hte
      have hne := a.closedEnum
      rw [← hcl, ← hasPresence_agree f a]
      by_cases hc : f.cardR = .optional
      · have hlab : f.label ≠ .repeated := by
          intro hl; rw [(card_repeated_iff f a).mpr hl] at hc; cases hc
        have hlist : f.isListL = false := by simp [FieldFacts.isListL, hlab]
        have hk : f.kindL = .enum := (kindL_enum f).mpr (a.typeEnum.mpr hte)
        cases hp : f.hasPresenceL
        · cases hcl' : f.targetEnumClosedL
          · simp
          · exact absurd ⟨hk, hlist, hp, hcl'⟩ hne
        · simp
      · have : (f.cardR == Label.optional) = false := by simpa using hc
        simp [this]
    · have : f.targetEnum.isSome = false := by simpa using hte
      simp [this]
  unfold FieldFacts.runtimeVerdict
  rw [c4]
  simp only [Bool.false_eq_true, if_false]
  repeat' split
  all_goals decide

/-! ## Default values (modelled kinds: integers, bool, string, enum; zero values of every kind) -/

theorem kindL_of_not_message (f : FieldFacts) (h : f.type ≠ .message) : f.kindL = f.type := by
  unfold FieldFacts.kindL; simp [h]

/-- **Defaults.** `Default()` and `DefaultEnumValue()` agree on accepted fields whose explicit default (if any)
is in the form the compiler writes. Explicit float/double/bytes defaults are outside the model
(`opaqueDefault`); they are compared by the correspondence run only. -/
theorem default_agree (f : FieldFacts) (h : acceptedField f = true) (hd : acceptedDefault f = true)
    (hop : opaqueDefault f.type f.defaultStr = false) :
    f.defaultL = f.defaultR ∧ f.defaultEnumL = f.defaultEnumR := by
  have a := acc_of_accepted f h
  simp only [acceptedDefault, Bool.and_eq_true, beq_iff_eq] at hd
  obtain ⟨⟨hhas, hparse⟩, _⟩ := hd
  have hk := kind_agree f a
  have hcr := card_repeated_iff f a
  constructor
  · unfold FieldFacts.defaultL FieldFacts.defaultR
    rw [← hk]
    cases hds : f.defaultStr with
    | none =>
      by_cases hl : f.label = .repeated
      · simp [hl, hcr.mpr hl]
      · have : f.cardR ≠ .repeated := fun h => hl (hcr.mp h)
        simp only [hl, this, false_or, if_false]
        by_cases hg : f.kindL = .group
        · simp [hg, zeroDefault]
        · by_cases hm : f.kindL = .message
          · simp [hm, zeroDefault]
          · simp [hg, hm]
    | some s =>
      have hh : f.hasDefault = true := by rw [hhas, hds]; rfl
      obtain ⟨hp, hl, hm, hg⟩ := a.default hh
      have hkt := kindL_of_not_message f hm
      have hcr' : f.cardR ≠ .repeated := fun h => hl (hcr.mp h)
      rw [hds] at hparse hop
      simp only [hop, Bool.false_or] at hparse
      rw [hkt]
      cases hv : parseDefault f.type s f.enumVals with
      | none => simp [hv] at hparse
      | some v =>
        rw [← hasPresence_agree f a, hp]
        simp [hl, hm, hg, hcr', hv]
  · unfold FieldFacts.defaultEnumL FieldFacts.defaultEnumR
    rw [← hk]
    cases hds : f.defaultStr with
    | none => cases f.targetEnum <;> rfl
    | some s =>
      by_cases hte : f.targetEnum.isSome = true
      · have hke : f.kindL = .enum := (kindL_enum f).mpr (a.typeEnum.mpr hte)
        cases ht : f.targetEnum with
        | none => simp [ht] at hte
        | some t => simp [hke]
      · have hke : f.kindL ≠ .enum := fun h => hte (a.typeEnum.mp ((kindL_enum f).mp h))
        cases ht : f.targetEnum with
        | none => simp [hke]
        | some t => simp [ht] at hte

/-! ## Messages: `RequiredNumbers` -/

theorem msgField_legacy (m : MsgFacts) (hA : acceptedMsg m = true) (fl : MsgField) :
    (chainEF (editionOf m.syn m.fileEdition) (fl.own :: m.chain)).isLegacyRequired =
      (fl.own.presence == some .legacyRequired) := by
  simp only [acceptedMsg, acceptedMsgClauses, List.all_cons, List.all_nil, Bool.and_eq_true, Bool.and_true] at hA
  obtain ⟨_, hanc, _, _⟩ := hA
  rw [resolveFeature_nearest]
  simp only [efOf]
  by_cases hp : (nearest (editionOf m.syn m.fileEdition) (fl.own :: m.chain)).presence = .legacyRequired
  · have := nearest_presence_legacy _ fl.own m.chain hanc hp
    simp [hp, this]
  · have hne : fl.own.presence ≠ some .legacyRequired := by
      intro h; apply hp; simp [nearest, firstSet, h]
    have hb : (fl.own.presence == some Presence.legacyRequired) = false := by simpa using hne
    simp [hp, hb]

/-- What the runtime reports, in terms of the proto: required label **or** own `LEGACY_REQUIRED` override. -/
theorem requiredNumbersR_char (m : MsgFacts) (hA : acceptedMsg m = true) :
    requiredNumbersR m =
      (m.fields.filter fun f => f.own.presence == some .legacyRequired || f.label == .required).map (·.number) := by
  unfold requiredNumbersR
  congr 1
  apply List.filter_congr
  intro fl _
  unfold msgFieldCardR
  rw [msgField_legacy m hA fl]
  cases (fl.own.presence == some Presence.legacyRequired) <;> simp

/-- `RequiredNumbers()` agrees (since /repo commit a64d8c3c): the linker's "`Cardinality()` is `Required`" is
the runtime's list for every accepted message, LEGACY_REQUIRED fields included. -/
theorem requiredNumbers_agree (m : MsgFacts) (hA : acceptedMsg m = true) :
    requiredNumbersL m = requiredNumbersR m := by
  rw [requiredNumbersR_char m hA]
  unfold requiredNumbersL
  congr 1
  apply List.filter_congr
  intro fl hfl
  have hA' := hA
  simp only [acceptedMsg, acceptedMsgClauses, List.all_cons, List.all_nil, Bool.and_eq_true, Bool.and_true,
    List.all_eq_true] at hA'
  obtain ⟨⟨hE, hEmpty⟩, hanc, _, hsite⟩ := hA'
  have hs := hsite fl hfl
  unfold msgFieldCardL
  by_cases hed : m.syn = .editions
  · -- editions: resolveL is nearest (edition 2023)
    have hfe : m.fileEdition = 1000 := by simpa [hed, editionOK] using hE
    have hEd : editionOK m.syn m.fileEdition (fl.own :: m.chain) = true := by simp [hed, editionOK, hfe]
    have hr : resolveL (editionOf m.syn m.fileEdition) (fl.own :: m.chain) (·.presence) (·.presence) =
        (nearest (editionOf m.syn m.fileEdition) (fl.own :: m.chain)).presence :=
      congrArg Features.presence (resolveAllL_eq_nearest m.syn m.fileEdition _ hEd)
    rw [hr]
    generalize hP : (nearest (editionOf m.syn m.fileEdition) (fl.own :: m.chain)).presence = P
    by_cases hp : P = .legacyRequired
    · have hown := nearest_presence_legacy _ fl.own m.chain hanc (hP.trans hp)
      have hl : fl.label = .optional := by simpa [hown] using hs
      simp [hl, hed, hp, hown]
    · have hne : fl.own.presence ≠ some .legacyRequired := by
        intro h; apply hp; rw [← hP]; simp [nearest, firstSet, h]
      have hb : (fl.own.presence == some Presence.legacyRequired) = false := by simpa using hne
      cases hl : fl.label <;> simp [hed, hp, hb]
  · have hemp : fl.own.isEmpty = true := by
      simp only [Bool.or_eq_true, beq_iff_eq, List.all_eq_true] at hEmpty
      rcases hEmpty with h | h
      · exact absurd h hed
      · exact h fl hfl
    have hnone := (isEmpty_fields fl.own hemp).1
    cases hl : fl.label <;> simp [hed, hnone]

/-- **Messages.** All attributes of every accepted message agree. -/
theorem msg_agree (m : MsgFacts) (hA : acceptedMsg m = true) : msgVecL m = msgVecR m := by
  unfold msgVecL msgVecR
  simp [requiredNumbers_agree m hA]

/-- The pre-fix `RequiredNumbers` (label only) agreed with the runtime only without LEGACY_REQUIRED fields. -/
theorem requiredNumbersPrefix_agree_partial (m : MsgFacts) (hA : acceptedMsg m = true)
    (hL : ∀ f ∈ m.fields, f.own.presence ≠ some .legacyRequired) :
    requiredNumbersLPrefix m = requiredNumbersR m := by
  rw [requiredNumbersR_char m hA]
  unfold requiredNumbersLPrefix
  congr 1
  apply List.filter_congr
  intro fl hfl
  have := hL fl hfl
  simp [this]

/-! ## Enums -/

theorem trimSuffix_append (xs ys : Name) : trimSuffix (xs ++ ys) ys = xs := by
  unfold trimSuffix
  have : ys.isSuffixOf (xs ++ ys) = true := by
    rw [List.isSuffixOf_iff_suffix]; exact List.suffix_append xs ys
  simp [this]

theorem valueFqn_agree (e : EnumFacts)
    (hf : e.fqn = joinName (fullNameParent e.fqn) e.name) (v : Name) : valueFqnL e v = valueFqnR e v := by
  unfold valueFqnL valueFqnR
  generalize hp : fullNameParent e.fqn = p at hf
  rw [hf]
  unfold joinName
  cases p with
  | nil =>
    have := trimSuffix_append [] e.name
    simp at this
    simp [this]
  | cons c cs =>
    have := trimSuffix_append ((c :: cs) ++ ['.']) e.name
    simp only [List.append_assoc, List.cons_append, List.nil_append] at this
    simp [this]

/-- `IsClosed()` agrees for every accepted enum. -/
theorem isClosed_agree (e : EnumFacts) (hA : acceptedEnum e = true) : isClosedL e = isClosedR e := by
  simp only [acceptedEnum, acceptedEnumClauses, List.all_cons, List.all_nil, Bool.and_eq_true, Bool.and_true] at hA
  exact closed_agree e.syn e.fileEdition e.chain hA.1

/-- **Enums.** All attributes of every accepted enum agree (closedness, value full names, numbers, reserved
ranges and names, resolved features). -/
theorem enum_agree (e : EnumFacts) (hA : acceptedEnum e = true) : enumVecL e = enumVecR e := by
  have hc := isClosed_agree e hA
  simp only [acceptedEnum, acceptedEnumClauses, List.all_cons, List.all_nil, Bool.and_eq_true, Bool.and_true] at hA
  obtain ⟨_, _, hN⟩ := hA
  simp only [beq_iff_eq] at hN
  unfold enumVecL enumVecR
  rw [hc]
  congr 1
  apply List.map_congr_left
  intro ⟨n, k⟩ _
  simp [valueFqn_agree e hN n]

/-! ## Oneofs -/

/-- `IsSynthetic()` agrees. -/
theorem oneof_agree (o : OneofFacts) (hA : acceptedOneof o = true) : isSyntheticL o = isSyntheticR o := by
  unfold isSyntheticL isSyntheticR
  simp only [acceptedOneof, Bool.and_eq_true, List.all_eq_true] at hA
  cases hf : o.fields with
  | nil => simp
  | cons x rest =>
    obtain ⟨n, p3⟩ := x
    have := hA.2 (n, p3) (by simp [hf])
    cases p3
    · simp
    · simp [hf] at this
      simp [this.1, this.2]


/-! ## The property at full strength, its refutation, and what does hold -/

/-- **C04 at full strength** (over the facts of every element of every file the compiler accepts):
the runtime accepts the element, and every attribute of the linker's descriptor equals the runtime's. -/
def C04_full : Prop :=
  (∀ f : FieldFacts, acceptedField f = true → f.runtimeVerdict = "ok" ∧ fieldVecL f = fieldVecR f) ∧
  (∀ f : FieldFacts, acceptedField f = true → acceptedDefault f = true → opaqueDefault f.type f.defaultStr = false →
      f.defaultL = f.defaultR ∧ f.defaultEnumL = f.defaultEnumR) ∧
  (∀ m : MsgFacts, acceptedMsg m = true → msgVecL m = msgVecR m) ∧
  (∀ e : EnumFacts, acceptedEnum e = true → enumVecL e = enumVecR e) ∧
  (∀ o : OneofFacts, acceptedOneof o = true → isSyntheticL o = isSyntheticR o)

/-- `syntax = "proto3"; message M { repeated E e = 1; }` with `E` a proto2 (closed) enum of another file -/
def witnessField : FieldFacts :=
  { syn := .proto3, fileEdition := 999, name := "e".toList, parent := "M".toList, number := 1, label := .repeated,
    type := .enum, oneof := none, ext := false, extendee := [], proto3Optional := false, packedOpt := none,
    jsonName := some "e".toList, hasDefault := false, chain := [{}, {}, {}], parentMapEntry := false,
    targetMsg := none, targetMapEntry := false, targetSameFile := false, targetEnum := some "E".toList,
    teChain := [{}, {}], teEdition := 998, teFirst := some 0, mapValEnumFirst := none, extendeeMsgSet := false,
    defaultStr := none, enumVals := [("A".toList, 0)] }

/-- Open defect A: a file the compiler accepts is rejected by `protodesc.NewFile`
("using proto3 semantics may only depend on open enums"). -/
theorem runtime_rejects_accepted :
    acceptedField witnessField = true ∧ witnessField.runtimeVerdict = "p3closed" := by
  decide

/-- `map<int32, E> m = 1;` in a proto2 file where the closed enum `E` starts at 1 -/
def witnessMapField : FieldFacts :=
  { syn := .proto2, fileEdition := 998, name := "m".toList, parent := "M".toList, number := 1, label := .repeated,
    type := .message, oneof := none, ext := false, extendee := [], proto3Optional := false, packedOpt := none,
    jsonName := some "m".toList, hasDefault := false, chain := [{}, {}, {}], parentMapEntry := false,
    targetMsg := some "M.MEntry".toList, targetMapEntry := true, targetSameFile := true, targetEnum := none,
    teChain := [], teEdition := 0, teFirst := none, mapValEnumFirst := some 1, extendeeMsgSet := false,
    defaultStr := none, enumVals := [] }

/-- Open defect B: "map enum value must have zero number for the first value". -/
theorem runtime_rejects_accepted_map :
    acceptedField witnessMapField = true ∧ witnessMapField.runtimeVerdict = "mapenum0" := by
  decide

/-- **The full statement is false of the code as it is**: only its first clause ("every compiled file is
accepted by the runtime") fails, on the two acceptance defects above. -/
theorem C04_full_refuted : ¬ C04_full := by
  intro h
  have h1 := (h.1 witnessField runtime_rejects_accepted.1).1
  rw [runtime_rejects_accepted.2] at h1
  exact absurd h1 (by decide)

/-- **C04, the part that holds** — everything except acceptance of the two kinds of field named in `EnumSafe`.
For every element of every accepted file:
* fields and extensions, messages, enums, oneofs: all attributes agree, unconditionally;
* defaults of the modelled kinds agree;
* the runtime accepts the field if protoc's two enum rules hold (`EnumSafe`). -/
theorem C04_partial :
    (∀ f : FieldFacts, acceptedField f = true → fieldVecL f = fieldVecR f) ∧
    (∀ f : FieldFacts, acceptedField f = true → EnumSafe f → f.runtimeVerdict = "ok") ∧
    (∀ f : FieldFacts, acceptedField f = true → acceptedDefault f = true → opaqueDefault f.type f.defaultStr = false →
        f.defaultL = f.defaultR ∧ f.defaultEnumL = f.defaultEnumR) ∧
    (∀ m : MsgFacts, acceptedMsg m = true → msgVecL m = msgVecR m) ∧
    (∀ e : EnumFacts, acceptedEnum e = true → enumVecL e = enumVecR e) ∧
    (∀ o : OneofFacts, acceptedOneof o = true → isSyntheticL o = isSyntheticR o) :=
  ⟨field_agree, runtime_accepts_field, default_agree, msg_agree, enum_agree, oneof_agree⟩

/-! ### the two defects that were found and fixed (documentation; `…Prefix` = the code before the fix) -/

/-- `edition = "2023"; message M { int32 a = 1 [features.field_presence = LEGACY_REQUIRED]; }` -/
def witnessMsg : MsgFacts :=
  { syn := .editions, fileEdition := 1000, name := "M".toList, fqn := "M".toList, chain := [{}, {}],
    mapEntry := false, fields := [{ number := 1, label := .optional, own := { presence := some .legacyRequired } }],
    reservedRanges := [], extensionRanges := [], reservedNames := [], oneofs := 0 }

/-- Fixed by /repo a64d8c3c: before, `RequiredNumbers()` was empty for the linker but `[1]` for the runtime. -/
theorem requiredNumbersPrefix_disagree :
    acceptedMsg witnessMsg = true ∧ requiredNumbersLPrefix witnessMsg = [] ∧ requiredNumbersR witnessMsg = [1] ∧
      requiredNumbersL witnessMsg = [1] := by
  decide

/-- `edition = "2023"; enum E { option features.enum_type = ENUM_TYPE_UNKNOWN; A = 0; }` -/
def witnessEnum : EnumFacts :=
  { syn := .editions, fileEdition := 1000, name := "E".toList, fqn := "E".toList,
    chain := [{ enumType := some .unknown }, {}], values := [("A".toList, 0)], reservedRanges := [], reservedNames := [] }

/-- Fixed by /repo d89668e5: before, with `ENUM_TYPE_UNKNOWN` (accepted by the compiler) `IsClosed()` was false
for the linker, true for the runtime. -/
theorem isClosedPrefix_disagree :
    acceptedEnum witnessEnum = true ∧ isClosedLPrefix witnessEnum = false ∧ isClosedR witnessEnum = true ∧
      isClosedL witnessEnum = true := by
  decide

/-! ### the hypotheses are satisfiable (non-vacuity), one witness per syntax -/

/-- proto2: `optional group Grp = 2 { … }` inside message `p.M` -/
def exProto2 : FieldFacts :=
  { syn := .proto2, fileEdition := 998, name := "grp".toList, parent := "p.M".toList, number := 2, label := .optional,
    type := .group, oneof := none, ext := false, extendee := [], proto3Optional := false, packedOpt := none,
    jsonName := some "grp".toList, hasDefault := false, chain := [{}, {}, {}], parentMapEntry := false,
    targetMsg := some "p.M.Grp".toList, targetMapEntry := false, targetSameFile := true, targetEnum := none,
    teChain := [], teEdition := 0, teFirst := none, mapValEnumFirst := none, extendeeMsgSet := false,
    defaultStr := none, enumVals := [] }

/-- proto3: `optional int32 x = 1;` -/
def exProto3 : FieldFacts :=
  { syn := .proto3, fileEdition := 999, name := "x".toList, parent := "M".toList, number := 1, label := .optional,
    type := .int32, oneof := some "_x".toList, ext := false, extendee := [], proto3Optional := true, packedOpt := none,
    jsonName := some "x".toList, hasDefault := false, chain := [{}, {}, {}], parentMapEntry := false,
    targetMsg := none, targetMapEntry := false, targetSameFile := false, targetEnum := none,
    teChain := [], teEdition := 0, teFirst := none, mapValEnumFirst := none, extendeeMsgSet := false,
    defaultStr := none, enumVals := [] }

/-- editions: `M child = 3 [features.message_encoding = DELIMITED];` in a file with `field_presence = IMPLICIT` -/
def exEditions : FieldFacts :=
  { syn := .editions, fileEdition := 1000, name := "child".toList, parent := "M".toList, number := 3, label := .optional,
    type := .message, oneof := none, ext := false, extendee := [], proto3Optional := false, packedOpt := none,
    jsonName := some "child".toList, hasDefault := false,
    chain := [{ msgEnc := some .delimited }, {}, { presence := some .implicit }], parentMapEntry := false,
    targetMsg := some "M".toList, targetMapEntry := false, targetSameFile := true, targetEnum := none,
    teChain := [], teEdition := 0, teFirst := none, mapValEnumFirst := none, extendeeMsgSet := false,
    defaultStr := none, enumVals := [] }

example : acceptedField exProto2 = true ∧ (fieldVecL exProto2).textName = "Grp".toList ∧
    (fieldVecL exProto2).kind = .group := by decide
example : acceptedField exProto3 = true ∧ (fieldVecL exProto3).hasOptionalKeyword = true ∧
    (fieldVecL exProto3).hasPresence = true := by decide
example : acceptedField exEditions = true ∧ (fieldVecL exEditions).kind = .group ∧
    (fieldVecR exEditions).kind = .group ∧ (fieldVecL exEditions).hasPresence = true := by decide
example : EnumSafe exEditions := ⟨by decide, by decide, by decide⟩
example : acceptedMsg { witnessMsg with fields := [{ number := 1, label := .optional, own := {} }] } = true := by decide
example : acceptedEnum { witnessEnum with chain := [{ enumType := some .closedE }, {}] } = true := by decide
example : acceptedOneof { syn := .proto3, name := "_x".toList, fqn := "M._x".toList, fields := [("x".toList, true)] } = true := by
  decide

end PCV.Props.C04

#print axioms PCV.Props.C04.resolveFeature_nearest
#print axioms PCV.Props.C04.resolveAllL_eq_nearest
#print axioms PCV.Props.C04.field_agree
#print axioms PCV.Props.C04.runtime_accepts_field
#print axioms PCV.Props.C04.implclosed_impossible
#print axioms PCV.Props.C04.default_agree
#print axioms PCV.Props.C04.requiredNumbersR_char
#print axioms PCV.Props.C04.requiredNumbers_agree
#print axioms PCV.Props.C04.msg_agree
#print axioms PCV.Props.C04.isClosed_agree
#print axioms PCV.Props.C04.enum_agree
#print axioms PCV.Props.C04.oneof_agree
#print axioms PCV.Props.C04.runtime_rejects_accepted
#print axioms PCV.Props.C04.runtime_rejects_accepted_map
#print axioms PCV.Props.C04.C04_full_refuted
#print axioms PCV.Props.C04.C04_partial
#print axioms PCV.Props.C04.requiredNumbersPrefix_agree_partial
#print axioms PCV.Props.C04.requiredNumbersPrefix_disagree
#print axioms PCV.Props.C04.isClosedPrefix_disagree
