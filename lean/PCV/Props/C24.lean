/-
C24 — Cloned parse results are independent deep copies (index half).

`clone_index_complete`: if the decidable obligation `covers spec` holds for the lists
regenerated from parser/result.go (registered kinds), the linked descriptorpb (schema edges)
and parser/clone.go (traversal program), then for EVERY descriptor tree that conforms to the
schema and EVERY original node index that only has entries for registered (type, key) pairs,
the index built by the traversal for the clone agrees with the original index at every
position and key — i.e. every AST node lookup on the clone returns the same node as on the
original.  The proof is an induction over the path of the position, with the set of active
loop contexts of the traversal as the invariant; nothing is bounded.

Not proved here (heap facts, observed by the `clone` engine only): `proto.Clone` yields an
equal message that shares no pointers with the original.
-/
import PCV.Model.CloneIndex
namespace PCV.Props.C24
open PCV.CloneIndex

theorem mem_of_contains_entry {es : List Entry} {e : Entry} (h : es.contains e = true) : e ∈ es := by
  simpa using h

/-- Along a schema path that ends in a relevant type, every type is relevant. -/
theorem start_relevant (spec : Spec) (R : List String) (hcl : closedRel spec R = true) :
    ∀ (rest : List String) (C D : String), typeOfPath spec.edges C rest = some D →
      R.contains D = true → R.contains C = true := by
  intro rest
  induction rest with
  | nil => intro C D h hD; simp [typeOfPath] at h; subst h; exact hD
  | cons f fs ih =>
    intro C D h hD
    simp only [typeOfPath] at h
    split at h
    · next e he =>
      have hmem := List.mem_of_find?_eq_some he
      have hp := List.find?_some he
      simp only [Bool.and_eq_true, beq_iff_eq] at hp
      have hchild := ih e.child D h hD
      simp only [closedRel, Bool.and_eq_true, List.all_eq_true] at hcl
      have := hcl.2 e hmem
      simp only [hchild, Bool.not_true, Bool.false_or] at this
      rw [← hp.1]; exact this
    · simp at h

theorem reg_relevant (spec : Spec) (R : List String) (hcl : closedRel spec R = true)
    {D : String} {k : Key} (h : (D, k) ∈ spec.reg) : R.contains D = true := by
  simp only [closedRel, Bool.and_eq_true, List.all_eq_true] at hcl
  apply hcl.1
  simp only [regTypes, List.mem_map]
  exact ⟨(D, k), h, rfl⟩

theorem inlineOK_succ {spec : Spec} {R : List String} {fn : Fn} {fuel : Nat} {pre : List String} {C : String}
    (h : inlineOK spec R fn fuel pre C = true) :
    ∃ n, fuel = n + 1 ∧
      (∀ r ∈ spec.reg, r.1 = C → ⟨pre, .upd r.2⟩ ∈ fn.entries) ∧
      (∀ e ∈ spec.edges, e.parent = C → R.contains e.child = true →
        edgeOK spec R fn n (pre ++ [e.field]) e.child = true) := by
  cases fuel with
  | zero => simp [inlineOK] at h
  | succ n =>
    refine ⟨n, rfl, ?_, ?_⟩
    · intro r hr hC
      simp only [inlineOK, Bool.and_eq_true, List.all_eq_true] at h
      have := h.1 r hr
      simp only [hC, beq_self_eq_true, Bool.not_true, Bool.false_or] at this
      exact mem_of_contains_entry this
    · intro e he hp hc
      simp only [inlineOK, Bool.and_eq_true, List.all_eq_true] at h
      have := h.2 e he
      simp only [hp, beq_self_eq_true, hc, Bool.and_self, Bool.not_true, Bool.false_or] at this
      exact this

theorem edgeOK_cases {spec : Spec} {R : List String} {fn : Fn} {fuel : Nat} {pre : List String} {C : String}
    (h : edgeOK spec R fn fuel pre C = true) :
    (⟨pre, .call C⟩ ∈ fn.entries ∧ ∃ g, findFn spec C = some g) ∨
    ∃ n, inlineOK spec R fn n pre C = true := by
  cases fuel with
  | zero => simp [edgeOK] at h
  | succ n =>
    simp only [edgeOK, Bool.or_eq_true, Bool.and_eq_true] at h
    rcases h with ⟨h1, h2⟩ | h
    · left
      refine ⟨mem_of_contains_entry h1, ?_⟩
      cases hf : findFn spec C with
      | none => simp [hf] at h2
      | some g => exact ⟨g, rfl⟩
    · right; exact ⟨n, h⟩

theorem findFn_spec {spec : Spec} {C : String} {g : Fn} (h : findFn spec C = some g) :
    g ∈ spec.fns ∧ g.ty = C := by
  unfold findFn at h
  refine ⟨List.mem_of_find?_eq_some h, ?_⟩
  have := List.find?_some h
  simpa using this

/-- Invariant of the traversal automaton: if some active context handles the current element
    (type `C`) inline, every registered element below it is copied. -/
theorem accepts_of_inlineOK (spec : Spec) (R : List String) (hcl : closedRel spec R = true)
    (hall : ∀ fn ∈ spec.fns, ∃ fuel, inlineOK spec R fn fuel [] fn.ty = true) :
    ∀ (rest : List String) (sts : List State) (C D : String) (k : Key),
      (∃ st ∈ sts, ∃ fuel, inlineOK spec R st.1 fuel st.2 C = true) →
      typeOfPath spec.edges C rest = some D → (D, k) ∈ spec.reg →
      accepts (run spec rest sts) k = true := by
  intro rest
  induction rest with
  | nil =>
    intro sts C D k ⟨st, hst, fuel, hok⟩ hty hreg
    simp only [typeOfPath, Option.some.injEq] at hty
    subst hty
    obtain ⟨n, _, hupd, _⟩ := inlineOK_succ hok
    have hent := hupd (C, k) hreg rfl
    simp only [run, accepts, List.any_eq_true]
    refine ⟨st, hst, ⟨st.2, .upd k⟩, hent, ?_⟩
    simp
  | cons f fs ih =>
    intro sts C D k ⟨st, hst, fuel, hok⟩ hty hreg
    simp only [typeOfPath] at hty
    split at hty
    · next e he =>
      have hmem := List.mem_of_find?_eq_some he
      have hp := List.find?_some he
      simp only [Bool.and_eq_true, beq_iff_eq] at hp
      have hDR := reg_relevant spec R hcl hreg
      have hchildR := start_relevant spec R hcl fs e.child D hty hDR
      obtain ⟨n, _, _, hedges⟩ := inlineOK_succ hok
      have hedge := hedges e hmem hp.1 hchildR
      rw [hp.2] at hedge
      simp only [run]
      apply ih (sts.flatMap (stepState spec f)) e.child D k _ hty hreg
      rcases edgeOK_cases hedge with ⟨hcall, g, hg⟩ | ⟨m, hin⟩
      · obtain ⟨hgmem, hgty⟩ := findFn_spec hg
        obtain ⟨fuel', hg'⟩ := hall g hgmem
        refine ⟨(g, []), ?_, fuel', ?_⟩
        · simp only [List.mem_flatMap]
          refine ⟨st, hst, ?_⟩
          simp only [stepState, List.mem_cons, List.mem_filterMap]
          right
          refine ⟨⟨st.2 ++ [f], .call e.child⟩, hcall, ?_⟩
          simp [hg]
        · simpa [hgty] using hg'
      · refine ⟨(st.1, st.2 ++ [f]), ?_, m, hin⟩
        simp only [List.mem_flatMap]
        exact ⟨st, hst, by simp [stepState]⟩
    · simp at hty

/-- What `covers` gives. -/
theorem covers_spec {spec : Spec} (h : covers spec = true) :
    closedRel spec (relevant spec) = true ∧ (∃ g, findFn spec spec.root = some g) ∧
    ∀ fn ∈ spec.fns, ∃ fuel, inlineOK spec (relevant spec) fn fuel [] fn.ty = true := by
  simp only [covers, Bool.and_eq_true, List.all_eq_true] at h
  refine ⟨h.1.1, ?_, fun fn hfn => ⟨_, h.2 fn hfn⟩⟩
  cases hf : findFn spec spec.root with
  | none => simp [hf] at h
  | some g => exact ⟨g, rfl⟩

/-- Every registered element at a schema-conforming position is visited. -/
theorem visits_of_covers {spec : Spec} (h : covers spec = true) (path : List String) (T : String) (k : Key)
    (hty : typeOfPath spec.edges spec.root path = some T) (hreg : (T, k) ∈ spec.reg) :
    visits spec path k = true := by
  obtain ⟨hcl, ⟨g, hg⟩, hall⟩ := covers_spec h
  obtain ⟨hgmem, hgty⟩ := findFn_spec hg
  obtain ⟨fuel, hok⟩ := hall g hgmem
  simp only [visits, hg]
  apply accepts_of_inlineOK spec (relevant spec) hcl hall path [(g, [])] spec.root T k _ hty hreg
  exact ⟨(g, []), by simp, fuel, by simpa [hgty] using hok⟩

/-- An original index is well-formed for a spec when it only has entries at
    schema-conforming positions whose (type, key) is registered by result.go. -/
def WfIndex (spec : Spec) (orig : Index) : Prop :=
  ∀ p k n, orig p k = some n →
    ∃ T, typeOfPath spec.edges spec.root (p.map (·.1)) = some T ∧ (T, k) ∈ spec.reg

/-- **C24 (index half).** If the regenerated obligation holds, the clone's node index agrees
    with the original's at every position and key, for every tree and every well-formed index. -/
theorem clone_index_complete (spec : Spec) (orig : Index) (hc : covers spec = true)
    (hwf : WfIndex spec orig) : ∀ p k, cloneIndex spec orig p k = orig p k := by
  intro p k
  unfold cloneIndex
  cases ho : orig p k with
  | none => simp
  | some n =>
    obtain ⟨T, hty, hreg⟩ := hwf p k n ho
    simp [visits_of_covers hc _ T k hty hreg]

/-- The clone's index never contains anything that the original's does not. -/
theorem clone_index_sound (spec : Spec) (orig : Index) (p : Pos) (k : Key) (n : Nat)
    (h : cloneIndex spec orig p k = some n) : orig p k = some n := by
  unfold cloneIndex at h
  split at h
  · exact h
  · simp at h

/-- Conversely, a registered element that the traversal does not visit loses its node: the
    obligation is not stronger than needed on such a position. -/
theorem unvisited_loses_node (spec : Spec) (orig : Index) (p : Pos) (k : Key) (n : Nat)
    (ho : orig p k = some n) (hv : visits spec (p.map (·.1)) k = false) :
    cloneIndex spec orig p k ≠ orig p k := by
  simp [cloneIndex, hv, ho]

/-! Non-vacuity: a miniature schema (file → messages → fields/nested messages, options with
    name parts) whose traversal is complete, and the same traversal with one loop removed. -/

def toySpec (withNested : Bool) : Spec :=
  { reg := [("File", .self), ("Msg", .self), ("Fld", .self), ("Rng", .self), ("Rng", .exts), ("Opt", .self)],
    edges := [⟨"File", "Msgs", "Msg"⟩, ⟨"Msg", "Flds", "Fld"⟩, ⟨"Msg", "Nested", "Msg"⟩,
              ⟨"Msg", "Rngs", "Rng"⟩, ⟨"Fld", "Options", "FldOpts"⟩, ⟨"FldOpts", "Uninterpreted", "Opt"⟩,
              ⟨"FldOpts", "Features", "FeatureSet"⟩],
    fns := [⟨"File", [⟨[], .upd .self⟩, ⟨["Msgs"], .call "Msg"⟩]⟩,
            ⟨"Msg", [⟨[], .upd .self⟩, ⟨["Flds"], .upd .self⟩, ⟨["Flds", "Options", "Uninterpreted"], .upd .self⟩,
                     ⟨["Rngs"], .upd .self⟩, ⟨["Rngs"], .upd .exts⟩] ++
                    (if withNested then [⟨["Nested"], .call "Msg"⟩] else [])⟩],
    root := "File" }

example : covers (toySpec true) = true := by decide
example : covers (toySpec false) = false := by decide
example : visits (toySpec true) ["Msgs", "Nested", "Nested", "Flds", "Options", "Uninterpreted"] .self = true := by decide
example : visits (toySpec false) ["Msgs", "Nested", "Flds"] .self = false := by decide

end PCV.Props.C24

#print axioms PCV.Props.C24.clone_index_complete
#print axioms PCV.Props.C24.visits_of_covers
#print axioms PCV.Props.C24.clone_index_sound
#print axioms PCV.Props.C24.unvisited_loses_node
