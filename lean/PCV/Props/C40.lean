/-
C40 — Interval maps match a naive model  (internal/interval: Intersect, Nesting).

Model: PCV.Model.Interval (Go slices over a heap; the `Insert` loop as written).
`asIs` is the code as first examined; `current` is the code in /repo now (commit 406dde02 applied
the clip patch, fixing the shared-backing-array defect); `patched` adds the gap patch as well.

The full property was FALSE of the code as first examined in four independent ways (all
kernel-checked below, all reproduced on the real code by the correspondence run); the second
is FIXED by 406dde02, the other three are recorded known findings and still hold of `current`:
  * `Intersect.Insert` over two ADJACENT entries overwrites the left one with an empty interval;
  * `Intersect.Insert` appends in place to a backing array shared with a sibling entry;
  * `Nesting.Insert` overwrites an interval that has the same end;
  * `Nesting.Insert` puts partially overlapping intervals into one set.
Proved, for every history (induction, no bounds):
  * the CURRENT code satisfies the Intersect half on every history in which no insert spans two
    adjacent entries (`intersect_current_partial`; the aliasing clause is no longer needed);
  * the PATCHED `Intersect` and the PATCHED `Nesting` satisfy the full statement;
  * the code AS IT IS satisfies the Intersect half on every history whose steps avoid the two
    triggers (`StepSafe`: no insert spans two adjacent entries; no in-place append lands inside
    another entry's slice) — the triggers are decidable and sharp;
  * `Nesting` as it is keeps every interval when all ends are distinct, and is fully correct
    (flat sets) when intervals are inserted shortest first, as `report/renderer.go` does for
    messages.
-/
import PCV.Lemmas.IntervalSim
import PCV.Lemmas.IntervalNesting
namespace PCV.Props.C40
open PCV.Interval

/-! ## Intersect: statement -/

/-- what `Get(p)` yields as values (`nil` for the zero entry) -/
def getVals (m : IMap) (p : Int) : List Int := ((m.get p).map (·.val)).getD []

/-- entries are non-empty intervals, sorted, pairwise disjoint -/
def SortedDisjoint (es : List E) : Prop :=
  es.Pairwise (fun x y => x.stop < y.start) ∧ ∀ x ∈ es, x.start ≤ x.stop

/-- The Intersect half of C40 for one history `h` (every interval with `start ≤ end`):
    after inserting `h` into the zero value, entries are sorted and pairwise disjoint, every
    point lookup returns exactly the values of the inserted intervals containing the point in
    insertion order, and the next insertion reports disjointness correctly. -/
def IntersectOK (cfg : Cfg) (h : Hist) : Prop :=
  SortedDisjoint (IMap.run cfg {} h).entries ∧
  (∀ p, getVals (IMap.run cfg {} h) p = naive h p) ∧
  (∀ a b v, a ≤ b → ((IMap.run cfg {} h).insert cfg a b v).2 = some (naiveDisjoint h a b))

def IntersectCorrect (cfg : Cfg) : Prop := ∀ h : Hist, ValidHist h → IntersectOK cfg h

/-! ## Intersect: the concrete invariant -/

/-- abstraction of the heap-based tree -/
def absT (m : IMap) : List E := m.tree.map (fun x => ⟨x.start, x.stop, readS m.heap x.val⟩)

theorem absT_eq_entries (m : IMap) : absT m = m.entries := rfl

/-- every value slice is valid in the heap, and the abstraction represents history `h` -/
def Conc (m : IMap) (h : Hist) : Prop :=
  (∀ x ∈ m.tree, ValidS m.heap x.val) ∧ Good h (absT m)

/-- `append(x.Value, v)` cannot damage `y.Value`: the clip patch is in, or `x` is not touched by
    `[a, b]`, or `x.Value` is full (append allocates), or `y.Value` lives on another backing
    array, or it is strictly shorter than `x.Value` (the write lands beyond its end). -/
def AppendSafe (clipFix : Bool) (a b : Int) (x y : Entry Slice) : Prop :=
  clipFix = true ∨
  (a ≤ x.stop → x.start ≤ b → x.val.len < x.val.cap → y.val.arr = x.val.arr → y.val.len < x.val.len)

/-- no entry that `[a, b]` meets appends in place over another entry's values -/
def NoClobber (clipFix : Bool) (a b : Int) (t : List (Entry Slice)) : Prop :=
  t.Pairwise (fun x y => AppendSafe clipFix a b x y ∧ AppendSafe clipFix a b y x)

/-- The two triggers, as a condition on one step.  `GapOK`: the new interval does not span two
    adjacent entries (or the gap patch is in).  `NoClobber`: see above (or the clip patch is in). -/
def StepSafe (cfg : Cfg) (m : IMap) (a b : Int) : Prop :=
  GapOK cfg.fixGap a b m.tree ∧ NoClobber cfg.clipFix a b m.tree

/-- every step of the history is `StepSafe` in the state the model (as configured) is then in -/
def SafeRun (cfg : Cfg) (m : IMap) : Hist → Prop
  | [] => True
  | (a, b, v) :: rest => StepSafe cfg m a b ∧ SafeRun cfg (m.insert cfg a b v).1 rest

theorem pairwise_of_all {α : Type} (R : α → α → Prop) (h : ∀ x y, R x y) : ∀ (l : List α), l.Pairwise R
  | [] => List.Pairwise.nil
  | x :: xs => List.pairwise_cons.mpr ⟨fun y _ => h x y, pairwise_of_all R h xs⟩

theorem stepSafe_patched (m : IMap) (a b : Int) : StepSafe patched m a b :=
  ⟨Or.inl rfl, pairwise_of_all _ (fun _ _ => ⟨Or.inl rfl, Or.inl rfl⟩) _⟩

theorem safeRun_patched : ∀ (h : Hist) (m : IMap), SafeRun patched m h
  | [], _ => trivial
  | (a, b, _) :: rest, m => ⟨stepSafe_patched m a b, safeRun_patched rest _⟩

theorem keySorted_tree (m : IMap) (h : Hist) (hc : Conc m h) : KeySorted m.tree :=
  keySorted_of_map_stop m.tree (absT m) (by simp [absT]) hc.2.1.keySorted

theorem insertSafe_of_noClobber (cf : Bool) (a b : Int) (t : List (Entry Slice))
    (h : NoClobber cf a b t) : t.Pairwise (InsertSafe (goSim cf) a b) := by
  apply h.imp
  intro x y ⟨hxy, hyx⟩
  have wr : ∀ (x y : Entry Slice), AppendSafe cf a b x y → a ≤ x.stop → x.start ≤ b →
      WrS cf x.val y.val := by
    intro x y hs h1 h2
    rcases hs with hs | hs
    · exact Or.inl hs
    · by_cases hf : x.val.len < x.val.cap
      · by_cases ha : y.val.arr = x.val.arr
        · exact Or.inr (Or.inr (Or.inr (Nat.le_of_lt (hs h1 h2 hf ha))))
        · exact Or.inr (Or.inr (Or.inl ha))
      · exact Or.inr (Or.inl hf)
  refine ⟨fun h1 h2 => wr x y hxy h1 h2, fun h1 h2 => ⟨wr y x hyx h1 h2, ?_⟩⟩
  rcases hyx with hs | hs
  · exact Or.inl hs
  · by_cases hf : y.val.len < y.val.cap
    · exact Or.inr (Or.inr (fun ha => hs h1 h2 hf ha.symm))
    · exact Or.inr (Or.inl hf)

/-- **One step.** -/
theorem conc_step (cfg : Cfg) (m : IMap) (h : Hist) (a b v : Int) (hab : a ≤ b)
    (hc : Conc m h) (hv : ValidHist h) (hs : StepSafe cfg m a b) :
    Conc (m.insert cfg a b v).1 (h ++ [(a, b, v)]) := by
  have hks := keySorted_tree m h hc
  obtain ⟨s2, s3, _⟩ := insert_sim (goSim cfg.clipFix) cfg.fixGap m.tree m.heap a b v hks hc.1
    (insertSafe_of_noClobber cfg.clipFix a b m.tree hs.2)
  have hgap : GapOK cfg.fixGap a b (absT m) := by
    rcases hs.1 with hf | hp
    · exact Or.inl hf
    · exact Or.inr (List.pairwise_map.mpr hp)
  have hA := (stepA cfg.fixGap h (absT m) a b v hab hc.2 hv hgap).1
  simp only [IMap.insert, if_neg (by omega : ¬ a > b)]
  exact ⟨s2, by simpa [absT, SimOps.ab, goSim] using (s3 ▸ hA)⟩

/-- the `disjoint` result is right in every state that represents its history -/
theorem conc_flag (cfg : Cfg) (m : IMap) (h : Hist) (a b v : Int) (hab : a ≤ b)
    (hc : Conc m h) (hv : ValidHist h) :
    (m.insert cfg a b v).2 = some (naiveDisjoint h a b) := by
  have hinvA := hc.2.1
  have hinv : Inv m.tree :=
    ⟨(List.pairwise_map (f := fun (x : Entry Slice) => (⟨x.start, x.stop, readS m.heap x.val⟩ : E))).mp hinvA.1,
     fun x hx => hinvA.2 _ (List.mem_map_of_mem (f := fun (x : Entry Slice) => (⟨x.start, x.stop, readS m.heap x.val⟩ : E)) hx)⟩
  have h1 := flag_iff (goOps cfg.clipFix) cfg.fixGap m.tree m.heap a b v hinv
  have h2 := disjoint_iff h (absT m) hc.2 hv a b hab
  have h3 : (∀ x ∈ absT m, x.stop < a ∨ b < x.start) ↔ (∀ x ∈ m.tree, x.stop < a ∨ b < x.start) := by
    simp [absT]
  have key : (insertG (goOps cfg.clipFix) cfg.fixGap m.tree m.heap a b v).2.2 = true ↔
      naiveDisjoint h a b = true := by rw [h1, ← h3, h2]
  simp only [IMap.insert, if_neg (by omega : ¬ a > b), Option.some.injEq]
  cases hf : (insertG (goOps cfg.clipFix) cfg.fixGap m.tree m.heap a b v).2.2 <;>
    cases hd : naiveDisjoint h a b <;> simp_all

theorem validHist_append (h1 h2 : Hist) : ValidHist (h1 ++ h2) ↔ ValidHist h1 ∧ ValidHist h2 := by
  simp only [ValidHist, List.mem_append]
  constructor
  · intro h; exact ⟨fun i hi => h i (Or.inl hi), fun i hi => h i (Or.inr hi)⟩
  · rintro ⟨a, b⟩ i (hi | hi); exact a i hi; exact b i hi

/-- **All histories.** -/
theorem conc_run (cfg : Cfg) : ∀ (hist : Hist) (m : IMap) (h0 : Hist), Conc m h0 →
    ValidHist (h0 ++ hist) → SafeRun cfg m hist → Conc (IMap.run cfg m hist) (h0 ++ hist)
  | [], m, h0, hc, _, _ => by simpa [IMap.run] using hc
  | (a, b, v) :: rest, m, h0, hc, hv, hs => by
    have hv' := (validHist_append h0 _).mp hv
    have hab : a ≤ b := hv'.2 (a, b, v) List.mem_cons_self
    have hstep := conc_step cfg m h0 a b v hab hc hv'.1 hs.1
    have := conc_run cfg rest (m.insert cfg a b v).1 (h0 ++ [(a, b, v)]) hstep
      (by simpa using hv) hs.2
    simpa [IMap.run] using this

theorem conc_init : Conc {} [] := by
  refine ⟨by simp, ⟨List.Pairwise.nil, by simp [absT]⟩, by simp [absT], fun p => ?_⟩
  simp [absT, sem, naive]

theorem getG_map {S S' : Type} (f : Entry S → Entry S')
    (h1 : ∀ e, (f e).stop = e.stop) (h2 : ∀ e, (f e).start = e.start)
    (t : List (Entry S)) (p : Int) : getG (t.map f) p = (getG t p).map f := by
  simp only [getG, List.find?_map]
  have : ((fun x : Entry S' => decide (p ≤ x.stop)) ∘ f) = (fun x => decide (p ≤ x.stop)) := by
    funext e; simp [h1]
  rw [this]
  cases t.find? (fun x => decide (p ≤ x.stop)) with
  | none => rfl
  | some x => simp only [Option.map_some, h2]; split <;> rfl

theorem getVals_eq_sem : ∀ (t : List E), Inv t → ∀ p, ((getG t p).map (·.val)).getD [] = sem t p
  | [], _, p => rfl
  | x :: xs, h, p => by
    have ih := getVals_eq_sem xs h.tail p
    have hlt : ∀ y ∈ xs, x.stop < y.start := (List.pairwise_cons.mp h.1).1
    by_cases h1 : p ≤ x.stop
    · have e : getG (x :: xs) p = if p < x.start then none else some x := by
        simp [getG, h1]
      rw [e]; simp only [sem]
      by_cases h2 : p < x.start
      · rw [if_pos h2, if_neg (by omega),
          sem_nil_of_not_cont xs p (fun y hy hc => by have := hlt y hy; omega)]
        rfl
      · rw [if_neg h2, if_pos ⟨by omega, h1⟩]; rfl
    · have e : getG (x :: xs) p = getG xs p := by simp [getG, h1]
      rw [e]; simp only [sem]; rw [if_neg (by omega)]; exact ih

/-- what `Conc` means for the observations -/
theorem intersectOK_of_conc (cfg : Cfg) (h : Hist) (hv : ValidHist h)
    (hc : Conc (IMap.run cfg {} h) h) : IntersectOK cfg h := by
  refine ⟨hc.2.1, ?_, fun a b v hab => conc_flag cfg _ h a b v hab hc hv⟩
  intro p
  have : getVals (IMap.run cfg {} h) p = ((getG (absT (IMap.run cfg {} h)) p).map (·.val)).getD [] := by
    simp only [getVals, IMap.get, absT]
    rw [getG_map (fun x => (⟨x.start, x.stop, readS _ x.val⟩ : E)) (fun _ => rfl) (fun _ => rfl)]
  rw [this, getVals_eq_sem _ hc.2.1, hc.2.2.2]

/-! ## Intersect: headline theorems -/

/-- **C40 (Intersect), for the code with both one-line patches: every history.** -/
theorem intersect_patched_correct : IntersectCorrect patched := by
  intro h hv
  exact intersectOK_of_conc patched h hv
    (by simpa using conc_run patched h {} [] conc_init (by simpa using hv) (safeRun_patched h {}))

/-- **C40 (Intersect), partial, for the code AS IT IS**: every history none of whose steps
    spans two adjacent entries or appends in place over another entry's values
    (`StepSafe`; both conditions are decidable and are exactly the two defect triggers). -/
theorem intersect_asIs_partial (h : Hist) (hv : ValidHist h) (hs : SafeRun asIs {} h) :
    IntersectOK asIs h :=
  intersectOK_of_conc asIs h hv
    (by simpa using conc_run asIs h {} [] conc_init (by simpa using hv) hs)


/-! ### the code now in /repo (`current`: clip patch applied by 406dde02, gap patch not) -/

/-- no step of the history spans two adjacent entries of the map it is applied to -/
def GapSafeRun (cfg : Cfg) (m : IMap) : Hist → Prop
  | [] => True
  | (a, b, v) :: rest => GapOK cfg.fixGap a b m.tree ∧ GapSafeRun cfg (m.insert cfg a b v).1 rest

theorem safeRun_of_gapSafeRun (cfg : Cfg) (hc : cfg.clipFix = true) :
    ∀ (h : Hist) (m : IMap), GapSafeRun cfg m h → SafeRun cfg m h
  | [], _, _ => trivial
  | (_, _, _) :: rest, _, hg =>
    ⟨⟨hg.1, pairwise_of_all _ (fun _ _ => ⟨Or.inl hc, Or.inl hc⟩) _⟩,
     safeRun_of_gapSafeRun cfg hc rest _ hg.2⟩

/-- **C40 (Intersect), partial, for the code now in /repo**: entries sorted and disjoint,
    `Get` = the naive values in insertion order, `disjoint` flag right, on every history in
    which no insert spans two adjacent entries.  Slice aliasing no longer matters. -/
theorem intersect_current_partial (h : Hist) (hv : ValidHist h) (hs : GapSafeRun current {} h) :
    IntersectOK current h := by
  have hsafe : SafeRun current {} h := safeRun_of_gapSafeRun current rfl h {} hs
  exact intersectOK_of_conc current h hv
    (by simpa using conc_run current h {} [] conc_init (by simpa using hv) hsafe)

/-! ## Intersect: the full statement is false of the code as it is -/

instance (h : Hist) : Decidable (ValidHist h) := by
  unfold ValidHist; exact inferInstance

instance (cf : Bool) (a b : Int) (x y : Entry Slice) : Decidable (AppendSafe cf a b x y) := by
  unfold AppendSafe; exact inferInstance

instance (cfg : Cfg) (m : IMap) (a b : Int) : Decidable (StepSafe cfg m a b) := by
  unfold StepSafe GapOK NoClobber; exact inferInstance

def decSafeRun (cfg : Cfg) : (m : IMap) → (h : Hist) → Decidable (SafeRun cfg m h)
  | _, [] => isTrue trivial
  | m, (a, b, v) :: rest =>
    @instDecidableAnd _ _ _ (decSafeRun cfg (m.insert cfg a b v).1 rest)

instance (cfg : Cfg) (m : IMap) (h : Hist) : Decidable (SafeRun cfg m h) := decSafeRun cfg m h

def decGapSafeRun (cfg : Cfg) : (m : IMap) → (h : Hist) → Decidable (GapSafeRun cfg m h)
  | _, [] => isTrue trivial
  | m, (a, b, v) :: rest =>
    @instDecidableAnd _ _ (by unfold GapOK; exact inferInstance)
      (decGapSafeRun cfg (m.insert cfg a b v).1 rest)

instance (cfg : Cfg) (m : IMap) (h : Hist) : Decidable (GapSafeRun cfg m h) := decGapSafeRun cfg m h

/-- Defect 1 (adjacent entries).  `[0,0]`, `[0,1]`, `[0,1]`: the third insert meets the adjacent
    entries `[0,0]` and `[1,1]`; the "gap" `[1,0]` it stores under key 0 REPLACES `[0,0]`.
    `Get(0)` then returns nothing instead of `[1,2,3]`.  Also with the clip patch alone. -/
def witnessAdjacent : Hist := [(0, 0, 1), (0, 1, 2), (0, 1, 3)]

theorem witnessAdjacent_get :
    getVals (IMap.run asIs {} witnessAdjacent) 0 = [] ∧ naive witnessAdjacent 0 = [1, 2, 3] ∧
    (IMap.run asIs {} witnessAdjacent).entries = [⟨1, 0, [3]⟩, ⟨1, 1, [2, 3]⟩] := by decide

theorem intersect_asIs_refuted_adjacent : ¬ IntersectCorrect asIs := by
  intro h
  have := (h witnessAdjacent (by decide)).2.1 0
  revert this; decide

/-- … and it is still there in the code now in /repo (known finding). -/
theorem intersect_current_refuted : ¬ IntersectCorrect current := by
  intro h
  have := (h witnessAdjacent (by decide)).2.1 0
  revert this; decide

theorem intersect_clipOnly_refuted : ¬ IntersectCorrect ⟨false, true⟩ := by
  intro h
  have := (h witnessAdjacent (by decide)).2.1 0
  revert this; decide

/-- Defect 2 (shared backing array).  Three times `[0,9]` leaves one entry whose value slice has
    len 3, cap 4; `[5,9]` splits it — the left part keeps the slice, the right part appends IN
    PLACE (len 4, same array); `[0,4]` then appends in place to the left part and overwrites the
    right part's fourth value.  `Get(7)` returns `[1,2,3,5]` instead of `[1,2,3,4]`.
    No step spans adjacent entries: the gap patch alone does not help. -/
def witnessAlias : Hist := [(0, 9, 1), (0, 9, 2), (0, 9, 3), (5, 9, 4), (0, 4, 5)]

theorem witnessAlias_get :
    getVals (IMap.run asIs {} witnessAlias) 7 = [1, 2, 3, 5] ∧ naive witnessAlias 7 = [1, 2, 3, 4] := by
  decide

theorem intersect_asIs_refuted_alias : ¬ IntersectCorrect asIs := by
  intro h
  have := (h witnessAlias (by decide)).2.1 7
  revert this; decide

theorem intersect_gapOnly_refuted : ¬ IntersectCorrect ⟨true, false⟩ := by
  intro h
  have := (h witnessAlias (by decide)).2.1 7
  revert this; decide

/-- fixed by 406dde02: on the aliasing witness the code now in /repo is right (an instance of
    `intersect_current_partial`, whose hypothesis holds here: non-vacuity) -/
theorem witnessAlias_current : GapSafeRun current {} witnessAlias ∧ IntersectOK current witnessAlias := by
  have h : GapSafeRun current {} witnessAlias := by decide
  exact ⟨h, intersect_current_partial witnessAlias (by decide) h⟩

-- a longer history satisfying the hypothesis: splits at both ends, gaps, a depth-7 stack, inserts
-- over both parts of a split stack (the shape that used to corrupt values)
example : GapSafeRun current {} [(0, 9, 1), (3, 5, 2), (20, 30, 3), (4, 4, 4), (-5, 0, 5), (12, 40, 6),
      (50, 59, 7), (50, 59, 8), (50, 59, 9), (50, 59, 10), (50, 59, 11), (53, 55, 12), (54, 54, 13),
      (50, 51, 14), (58, 59, 15)] := by
  decide

-- sharp: the hypothesis fails exactly at the third insert of `witnessAdjacent`
example : GapSafeRun current {} [(0, 0, 1), (0, 1, 2)] ∧ ¬ GapSafeRun current {} witnessAdjacent := by
  decide

/-- the `disjoint` result is wrong too once an entry has been lost: after `witnessAdjacent`,
    inserting `[0,0]` reports "disjoint" although three inserted intervals contain 0 -/
theorem intersect_asIs_flag_wrong :
    ((IMap.run asIs {} witnessAdjacent).insert asIs 0 0 4).2 = some true ∧
    naiveDisjoint witnessAdjacent 0 0 = false := by decide

-- the partial theorem is not vacuous: a history with splits at both ends, gaps, a stack of
-- depth 7 (in-place appends on an unshared array) and an in-place append on the LONGEST slice
-- of a shared array
example : ValidHist [(0, 9, 1), (3, 5, 2), (20, 30, 3), (4, 4, 4), (-5, 0, 5), (12, 40, 6),
      (50, 59, 7), (50, 59, 8), (50, 59, 9), (50, 59, 10), (50, 59, 11), (53, 55, 12), (54, 54, 13)] ∧
    SafeRun asIs {} [(0, 9, 1), (3, 5, 2), (20, 30, 3), (4, 4, 4), (-5, 0, 5), (12, 40, 6),
      (50, 59, 7), (50, 59, 8), (50, 59, 9), (50, 59, 10), (50, 59, 11), (53, 55, 12), (54, 54, 13)] := by
  decide

-- … and it is sharp there: one more insert, over the SHORTER slice of the shared array, is not
-- `StepSafe` — and is exactly the step that corrupts `Get(54)`
example :
    let h : Hist := [(50, 59, 7), (50, 59, 8), (50, 59, 9), (50, 59, 10), (50, 59, 11), (53, 55, 12)]
    ¬ StepSafe asIs (IMap.run asIs {} h) 50 51 ∧
    getVals (IMap.run asIs {} (h ++ [(50, 51, 13)])) 54 ≠ naive (h ++ [(50, 51, 13)]) 54 := by
  decide

/-! ## Nesting: statement -/

def toE (i : Int × Int × Int) : NEntry := ⟨i.1, i.2.1, i.2.2⟩

/-- `x` is a proper sub-interval of `y` -/
def ProperSub (x y : NEntry) : Prop :=
  y.start ≤ x.start ∧ x.stop ≤ y.stop ∧ (y.start < x.start ∨ x.stop < y.stop)

/-- disjoint or strictly nested (the weakest reading: proper containment) -/
def LaminarPair (x y : NEntry) : Prop :=
  x.stop < y.start ∨ y.stop < x.start ∨ ProperSub x y ∨ ProperSub y x

instance (x y : NEntry) : Decidable (LaminarPair x y) := by
  unfold LaminarPair ProperSub; exact inferInstance

def Laminar (s : NSet) : Prop := s.Pairwise LaminarPair

instance (s : NSet) : Decidable (Laminar s) := by
  unfold Laminar; exact inferInstance

/-- The Nesting half of C40 for one history: what `Sets()` yields splits the inserted
    intervals (each exactly once) into laminar sets. -/
def NestingOK (h : Hist) : Prop :=
  (∀ s ∈ (Nest.run {} h).observe, Laminar s) ∧
  ((Nest.run {} h).observe.flatten).Perm (h.map toE)

def NestingCorrect : Prop := ∀ h : Hist, ValidHist h → NestingOK h

/-! ## Nesting: what does hold -/

theorem nestInsertAux_present (a b v : Int) : ∀ (sets : List NSet),
    ∃ s ∈ nestInsertAux a b v sets, (⟨a, b, v⟩ : NEntry) ∈ s
  | [] => ⟨_, List.mem_cons_self, List.mem_cons_self⟩
  | s :: rest => by
    simp only [nestInsertAux]
    split
    · exact ⟨_, List.mem_cons_self, mem_treeSet_self s _⟩
    · obtain ⟨s', h1, h2⟩ := nestInsertAux_present a b v rest
      exact ⟨s', List.mem_cons_of_mem _ h1, h2⟩

/-- Right after `Insert(a, b, v)` the interval is in one of the sets (it can be lost LATER). -/
theorem nesting_insert_present (n : Nest) (a b v : Int) :
    ∃ s ∈ (n.insert a b v).sets, (⟨a, b, v⟩ : NEntry) ∈ s :=
  nestInsertAux_present a b v n.sets

theorem nestInsertAux_nonempty (a b v : Int) : ∀ (sets : List NSet), (∀ s ∈ sets, s ≠ []) →
    ∀ s ∈ nestInsertAux a b v sets, s ≠ []
  | [], _ => by simp [nestInsertAux]
  | s :: rest, h => by
    simp only [nestInsertAux]
    split
    · intro s' hs'
      rcases List.mem_cons.mp hs' with rfl | hs'
      · exact List.ne_nil_of_mem (mem_treeSet_self s _)
      · exact h s' (List.mem_cons_of_mem _ hs')
    · intro s' hs'
      rcases List.mem_cons.mp hs' with rfl | hs'
      · exact h _ List.mem_cons_self
      · exact nestInsertAux_nonempty a b v rest (fun x hx => h x (List.mem_cons_of_mem _ hx)) s' hs'

theorem takeWhile_all {α : Type} (p : α → Bool) : ∀ (l : List α), (∀ x ∈ l, p x = true) →
    l.takeWhile p = l
  | [], _ => rfl
  | x :: xs, h => by
    rw [List.takeWhile_cons, if_pos (h x List.mem_cons_self),
      takeWhile_all p xs (fun y hy => h y (List.mem_cons_of_mem _ hy))]

theorem observe_eq_sets (n : Nest) (h : ∀ s ∈ n.sets, s ≠ []) : n.observe = n.sets := by
  unfold Nest.observe
  apply takeWhile_all
  intro s hs
  have := h s hs
  cases s <;> simp_all

/-- the chosen set has no interval with the same end ⇒ nothing is overwritten -/
theorem nestInsertAux_perm (a b v : Int) : ∀ (sets : List NSet),
    (∀ s ∈ sets, nestFits s a b = true → ∀ x ∈ s, x.stop ≠ b) →
    (nestInsertAux a b v sets).flatten.Perm (⟨a, b, v⟩ :: sets.flatten)
  | [], _ => by simp [nestInsertAux]
  | s :: rest, h => by
    simp only [nestInsertAux]
    split
    · next hf =>
      simp only [List.flatten_cons]
      exact (treeSet_perm s ⟨a, b, v⟩ (h s List.mem_cons_self hf)).append_right _
    · simp only [List.flatten_cons]
      have ih := nestInsertAux_perm a b v rest (fun x hx => h x (List.mem_cons_of_mem _ hx))
      exact (ih.append_left s).trans List.perm_middle

/-- what we maintain along a run: no empty set, nothing lost, and optionally flat sets -/
structure NInv (flat : Bool) (n : Nest) (h : Hist) : Prop where
  nonempty : ∀ s ∈ n.sets, s ≠ []
  perm : n.sets.flatten.Perm (h.map toE)
  flat : flat = true → ∀ s ∈ n.sets, Inv s

theorem ninv_init (flat : Bool) : NInv flat {} [] :=
  ⟨by simp, by simp, by simp⟩

/-- step, when no set that accepts `[a, b]` contains an interval ending at `b` -/
theorem ninv_step_perm (n : Nest) (h : Hist) (a b v : Int) (hi : NInv false n h)
    (hk : ∀ i ∈ h, i.2.1 ≠ b) : NInv false (n.insert a b v) (h ++ [(a, b, v)]) := by
  refine ⟨nestInsertAux_nonempty a b v n.sets hi.nonempty, ?_, by simp⟩
  have hmem : ∀ s ∈ n.sets, ∀ x ∈ s, x.stop ≠ b := by
    intro s hs x hx
    have : x ∈ n.sets.flatten := List.mem_flatten.mpr ⟨s, hs, hx⟩
    obtain ⟨i, hi', rfl⟩ := List.mem_map.mp (hi.perm.mem_iff.mp this)
    exact hk i hi'
  have := nestInsertAux_perm a b v n.sets (fun s hs _ => hmem s hs)
  simp only [Nest.insert, List.map_append, List.map_cons, List.map_nil]
  exact (this.trans (hi.perm.cons _)).trans (List.perm_append_singleton _ _).symm

def DistinctEnds (h : Hist) : Prop := h.Pairwise (fun i j => i.2.1 ≠ j.2.1)

theorem nesting_run_distinct : ∀ (hist : Hist) (n : Nest) (h0 : Hist), NInv false n h0 →
    DistinctEnds (h0 ++ hist) → NInv false (Nest.run n hist) (h0 ++ hist)
  | [], n, h0, hi, _ => by simpa [Nest.run] using hi
  | (a, b, v) :: rest, n, h0, hi, hd => by
    have hk : ∀ i ∈ h0, i.2.1 ≠ b := by
      intro i hi'
      exact (List.pairwise_append.mp hd).2.2 i hi' (a, b, v) List.mem_cons_self
    have := nesting_run_distinct rest (n.insert a b v) (h0 ++ [(a, b, v)])
      (ninv_step_perm n h0 a b v hi hk) (by simpa using hd)
    simpa [Nest.run] using this

/-- **Nesting keeps every interval, each in exactly one set, when all ends are distinct.** -/
theorem nesting_keeps_all_of_distinct_ends (h : Hist) (hd : DistinctEnds h) :
    ((Nest.run {} h).observe.flatten).Perm (h.map toE) := by
  have := nesting_run_distinct h {} [] (ninv_init false) (by simpa using hd)
  simp only [List.nil_append] at this
  rw [observe_eq_sets _ this.nonempty]
  exact this.perm

/-! shortest first -/

def ShortestFirst (h : Hist) : Prop := h.Pairwise (fun i j => i.2.1 - i.1 ≤ j.2.1 - j.1)

theorem nestInsertAux_flat (a b v : Int) (hab : a ≤ b) : ∀ (sets : List NSet),
    (∀ s ∈ sets, Inv s) → (∀ s ∈ sets, ∀ x ∈ s, x.stop - x.start ≤ b - a) →
    ∀ s ∈ nestInsertAux a b v sets, Inv s
  | [], _, _ => by
    intro s hs
    simp only [nestInsertAux, List.mem_singleton] at hs
    subst hs
    exact ⟨List.pairwise_singleton _ _, by simpa using hab⟩
  | s :: rest, hinv, hlen => by
    simp only [nestInsertAux]
    split
    · next hf =>
      intro s' hs'
      rcases List.mem_cons.mp hs' with rfl | hs'
      · exact (treeSet_inv s ⟨a, b, v⟩ (hinv s List.mem_cons_self) hab
          (fits_disjoint s a b (hinv s List.mem_cons_self) (hlen s List.mem_cons_self) hf)).1
      · exact hinv s' (List.mem_cons_of_mem _ hs')
    · intro s' hs'
      rcases List.mem_cons.mp hs' with rfl | hs'
      · exact hinv _ List.mem_cons_self
      · exact nestInsertAux_flat a b v hab rest (fun x hx => hinv x (List.mem_cons_of_mem _ hx))
          (fun x hx => hlen x (List.mem_cons_of_mem _ hx)) s' hs'

theorem ninv_step_flat (n : Nest) (h : Hist) (a b v : Int) (hab : a ≤ b) (hi : NInv true n h)
    (hk : ∀ i ∈ h, i.2.1 - i.1 ≤ b - a) : NInv true (n.insert a b v) (h ++ [(a, b, v)]) := by
  have hlen : ∀ s ∈ n.sets, ∀ x ∈ s, x.stop - x.start ≤ b - a := by
    intro s hs x hx
    have : x ∈ n.sets.flatten := List.mem_flatten.mpr ⟨s, hs, hx⟩
    obtain ⟨i, hi', rfl⟩ := List.mem_map.mp (hi.perm.mem_iff.mp this)
    exact hk i hi'
  have hflat := hi.flat rfl
  refine ⟨nestInsertAux_nonempty a b v n.sets hi.nonempty, ?_,
    fun _ => nestInsertAux_flat a b v hab n.sets hflat hlen⟩
  have := nestInsertAux_perm a b v n.sets (fun s hs hf x hx => by
    have hd := fits_disjoint s a b (hflat s hs) (hlen s hs) hf x hx
    have hw := (hflat s hs).2 x hx
    omega)
  simp only [Nest.insert, List.map_append, List.map_cons, List.map_nil]
  exact (this.trans (hi.perm.cons _)).trans (List.perm_append_singleton _ _).symm

theorem nesting_run_shortest : ∀ (hist : Hist) (n : Nest) (h0 : Hist), NInv true n h0 →
    ValidHist (h0 ++ hist) → ShortestFirst (h0 ++ hist) → NInv true (Nest.run n hist) (h0 ++ hist)
  | [], n, h0, hi, _, _ => by simpa [Nest.run] using hi
  | (a, b, v) :: rest, n, h0, hi, hv, hd => by
    have hk : ∀ i ∈ h0, i.2.1 - i.1 ≤ b - a := by
      intro i hi'
      exact (List.pairwise_append.mp hd).2.2 i hi' (a, b, v) List.mem_cons_self
    have hab : a ≤ b := hv (a, b, v) (by simp)
    have := nesting_run_shortest rest (n.insert a b v) (h0 ++ [(a, b, v)])
      (ninv_step_flat n h0 a b v hab hi hk) (by simpa using hv) (by simpa using hd)
    simpa [Nest.run] using this

theorem laminar_of_inv (s : NSet) (h : Inv s) : Laminar s :=
  h.1.imp (fun hxy => Or.inl hxy)

/-- **C40 (Nesting), partial: shortest first** (the order `report/renderer.go` uses for the
    message layer, "to prevent nesting"): the sets are flat — pairwise disjoint, hence laminar —
    and every interval is kept, in exactly one set. -/
theorem nesting_shortest_first_partial (h : Hist) (hv : ValidHist h) (hs : ShortestFirst h) :
    NestingOK h ∧ ∀ s ∈ (Nest.run {} h).observe, Inv s := by
  have := nesting_run_shortest h {} [] (ninv_init true) (by simpa using hv) (by simpa using hs)
  simp only [List.nil_append] at this
  unfold NestingOK
  rw [observe_eq_sets _ this.nonempty]
  exact ⟨⟨fun s hs' => laminar_of_inv s (this.flat rfl s hs'), this.perm⟩, this.flat rfl⟩


/-! ## Nesting: the full statement is false of the code as it is -/

/-- Defect 3 (equal ends).  `[1,2]` then `[2,2]`: `Seek(2)` finds `[1,2]`, which "contains" the
    new interval, so the set is chosen and `Set(2, …)` REPLACES `[1,2]`. -/
theorem nesting_refuted_lost : ¬ NestingCorrect := by
  intro h
  have := (h [(1, 2, 1), (2, 2, 2)] (by decide)).2.length_eq
  revert this; decide

/-- Defect 4 (only the nearest interval to the right is examined).  `[5,20]`, `[10,11]`, `[3,7]`:
    `Seek(7)` finds `[10,11]`, entirely to the right, and there is no predecessor, so `[3,7]` joins
    the set although it partially overlaps `[5,20]`.  The insertion order is longest first, the
    order `report/renderer.go` uses for underlines. -/
theorem nesting_refuted_overlap : ¬ NestingCorrect := by
  intro h
  have := (h [(5, 20, 1), (10, 11, 2), (3, 7, 3)] (by decide)).1
  revert this; decide

/-! ## Nesting with the proposed patch: the full statement, every history -/

def NestingOKP (h : Hist) : Prop :=
  (∀ s ∈ (Nest.runP {} h).observe, Laminar s) ∧
  ((Nest.runP {} h).observe.flatten).Perm (h.map toE)

theorem laminarPair_symm {x y : NEntry} (h : LaminarPair x y) : LaminarPair y x := by
  unfold LaminarPair at *
  rcases h with h | h | h | h
  · exact Or.inr (Or.inl h)
  · exact Or.inl h
  · exact Or.inr (Or.inr (Or.inr h))
  · exact Or.inr (Or.inr (Or.inl h))

/-- per-set invariant of the patched code -/
def NSetInv (s : NSet) : Prop := KeySorted s ∧ (∀ x ∈ s, x.start ≤ x.stop) ∧ Laminar s

theorem fitsP_laminar (s : NSet) (a b v : Int) (hks : KeySorted s) (hfit : nestFitsP s a b = true) :
    ∀ x ∈ s, LaminarPair ⟨a, b, v⟩ x ∧ x.stop ≠ b := by
  have hsplit : s.takeWhile (fun x => decide (x.stop < b)) ++ s.dropWhile (fun x => decide (x.stop < b)) = s :=
    List.takeWhile_append_dropWhile
  have hge := dropWhile_stop_ge b s hks
  have hpre_lt : ∀ x ∈ s.takeWhile (fun x => decide (x.stop < b)), x.stop < b := by
    intro x hx; simpa using mem_takeWhile_prop _ s x hx
  unfold nestFitsP at hfit
  generalize s.takeWhile (fun x => decide (x.stop < b)) = pre at hsplit hfit hpre_lt
  generalize s.dropWhile (fun x => decide (x.stop < b)) = suf at hsplit hfit hge
  subst hsplit
  simp only [Bool.and_eq_true, List.all_eq_true] at hfit
  obtain ⟨hsuf, hprev⟩ := hfit
  have hpre_ks : KeySorted pre := (List.pairwise_append.mp hks).1
  intro x hx
  rcases List.mem_append.mp hx with hx | hx
  · have h1 := hpre_lt x hx
    refine ⟨?_, by omega⟩
    cases hl : pre.getLast? with
    | none =>
      have : pre = [] := List.getLast?_eq_none_iff.mp hl
      subst this; cases hx
    | some q =>
      rw [hl] at hprev
      have hq : q.stop < a := by simpa using hprev
      have := getLast_max pre q hpre_ks hl x hx
      exact Or.inr (Or.inl (by show x.stop < a; omega))
  · have h1 := hge x hx
    have h2 := hsuf x hx
    simp only [Bool.not_eq_true', Bool.or_eq_false_iff, beq_eq_false_iff_ne, ne_eq,
      Bool.and_eq_false_imp, decide_eq_true_eq, decide_eq_false_iff_not] at h2
    refine ⟨?_, h2.1⟩
    by_cases hc : a ≤ x.start
    · have := h2.2 hc
      exact Or.inl (by show b < x.start; omega)
    · refine Or.inr (Or.inr (Or.inl ⟨?_, ?_, ?_⟩))
      · show x.start ≤ a; omega
      · show b ≤ x.stop; omega
      · left; show x.start < a; omega

theorem nestInsertAuxP_inv (a b v : Int) (hab : a ≤ b) : ∀ (sets : List NSet),
    (∀ s ∈ sets, NSetInv s) →
    (∀ s ∈ nestInsertAuxP a b v sets, NSetInv s) ∧
    (nestInsertAuxP a b v sets).flatten.Perm (⟨a, b, v⟩ :: sets.flatten) ∧
    ((∀ s ∈ sets, s ≠ []) → ∀ s ∈ nestInsertAuxP a b v sets, s ≠ [])
  | [], _ => by
    simp only [nestInsertAuxP, List.mem_singleton, forall_eq, List.flatten_cons, List.flatten_nil,
      List.append_nil]
    refine ⟨⟨List.pairwise_singleton _ _, by simpa using hab, List.pairwise_singleton _ _⟩,
      List.Perm.refl _, fun _ => by simp⟩
  | s :: rest, hinv => by
    have hs := hinv s List.mem_cons_self
    have hrest : ∀ x ∈ rest, NSetInv x := fun x hx => hinv x (List.mem_cons_of_mem _ hx)
    simp only [nestInsertAuxP]
    split
    · next hf =>
      have hl := fitsP_laminar s a b v hs.1 hf
      have hperm := treeSet_perm s ⟨a, b, v⟩ (fun x hx => (hl x hx).2)
      have hks := treeSet_keySorted s ⟨a, b, v⟩ hs.1
      refine ⟨?_, ?_, ?_⟩
      · intro s' hs'
        rcases List.mem_cons.mp hs' with rfl | hs'
        · refine ⟨hks.1, ?_, ?_⟩
          · intro y hy
            rcases hks.2 y hy with rfl | hy
            · exact hab
            · exact hs.2.1 y hy
          · apply hperm.symm.pairwise _ (fun h => laminarPair_symm h)
            exact List.pairwise_cons.mpr ⟨fun x hx => (hl x hx).1, hs.2.2⟩
        · exact hrest s' hs'
      · simp only [List.flatten_cons]
        exact hperm.append_right _
      · intro hne s' hs'
        rcases List.mem_cons.mp hs' with rfl | hs'
        · exact List.ne_nil_of_mem (mem_treeSet_self s _)
        · exact hne s' (List.mem_cons_of_mem _ hs')
    · obtain ⟨i1, i2, i3⟩ := nestInsertAuxP_inv a b v hab rest hrest
      refine ⟨?_, ?_, ?_⟩
      · intro s' hs'
        rcases List.mem_cons.mp hs' with rfl | hs'
        · exact hs
        · exact i1 s' hs'
      · simp only [List.flatten_cons]
        exact (i2.append_left s).trans List.perm_middle
      · intro hne s' hs'
        rcases List.mem_cons.mp hs' with rfl | hs'
        · exact hne _ List.mem_cons_self
        · exact i3 (fun x hx => hne x (List.mem_cons_of_mem _ hx)) s' hs'

theorem nesting_runP : ∀ (hist : Hist) (n : Nest) (h0 : Hist),
    (∀ s ∈ n.sets, NSetInv s) → (∀ s ∈ n.sets, s ≠ []) → n.sets.flatten.Perm (h0.map toE) →
    ValidHist hist →
    (∀ s ∈ (Nest.runP n hist).sets, NSetInv s) ∧ (∀ s ∈ (Nest.runP n hist).sets, s ≠ []) ∧
    (Nest.runP n hist).sets.flatten.Perm ((h0 ++ hist).map toE)
  | [], n, h0, h1, h2, h3, _ => by simpa [Nest.runP] using ⟨h1, h2, h3⟩
  | (a, b, v) :: rest, n, h0, h1, h2, h3, hv => by
    have hab : a ≤ b := hv (a, b, v) List.mem_cons_self
    obtain ⟨i1, i2, i3⟩ := nestInsertAuxP_inv a b v hab n.sets h1
    have hp : (n.insertP a b v).sets.flatten.Perm ((h0 ++ [(a, b, v)]).map toE) := by
      simp only [Nest.insertP, List.map_append, List.map_cons, List.map_nil]
      exact (i2.trans (h3.cons _)).trans (List.perm_append_singleton _ _).symm
    have := nesting_runP rest (n.insertP a b v) (h0 ++ [(a, b, v)]) i1 (i3 h2) hp
      (fun i hi => hv i (List.mem_cons_of_mem _ hi))
    simpa [Nest.runP] using this

/-- **C40 (Nesting), for the code with the proposed patch: every history.** -/
theorem nesting_patched_correct (h : Hist) (hv : ValidHist h) : NestingOKP h := by
  obtain ⟨h1, h2, h3⟩ := nesting_runP h {} [] (by simp) (by simp) (by simp) hv
  unfold NestingOKP
  rw [observe_eq_sets _ h2]
  exact ⟨fun s hs => (h1 s hs).2.2, by simpa using h3⟩

/-! ## C40 -/

/-- The property as stated, of the code now in /repo. -/
def C40_full : Prop := IntersectCorrect current ∧ NestingCorrect

theorem C40_full_refuted : ¬ C40_full := fun h => intersect_current_refuted h.1

/-- What is proved instead (see the individual theorems). -/
theorem C40_partial :
    IntersectCorrect patched ∧ (∀ h, ValidHist h → NestingOKP h) ∧
    (∀ h, ValidHist h → GapSafeRun current {} h → IntersectOK current h) ∧
    (∀ h, ValidHist h → SafeRun asIs {} h → IntersectOK asIs h) ∧
    (∀ h, ValidHist h → ShortestFirst h → NestingOK h) ∧
    (∀ h, DistinctEnds h → ((Nest.run {} h).observe.flatten).Perm (h.map toE)) :=
  ⟨intersect_patched_correct, nesting_patched_correct, intersect_current_partial,
   intersect_asIs_partial,
   fun h hv hs => (nesting_shortest_first_partial h hv hs).1,
   nesting_keeps_all_of_distinct_ends⟩

-- non-vacuity of the Nesting hypotheses
example : ShortestFirst [(4, 4, 1), (0, 1, 2), (1, 3, 3), (0, 9, 4)] ∧
    DistinctEnds [(4, 4, 1), (0, 1, 2), (1, 3, 3), (0, 9, 4)] := by
  unfold ShortestFirst DistinctEnds; decide

end PCV.Props.C40

#print axioms PCV.Props.C40.intersect_patched_correct
#print axioms PCV.Props.C40.intersect_current_partial
#print axioms PCV.Props.C40.intersect_asIs_partial
#print axioms PCV.Props.C40.intersect_current_refuted
#print axioms PCV.Props.C40.witnessAlias_current
#print axioms PCV.Props.C40.intersect_asIs_refuted_adjacent
#print axioms PCV.Props.C40.intersect_asIs_refuted_alias
#print axioms PCV.Props.C40.intersect_gapOnly_refuted
#print axioms PCV.Props.C40.intersect_clipOnly_refuted
#print axioms PCV.Props.C40.intersect_asIs_flag_wrong
#print axioms PCV.Props.C40.nesting_insert_present
#print axioms PCV.Props.C40.nesting_keeps_all_of_distinct_ends
#print axioms PCV.Props.C40.nesting_shortest_first_partial
#print axioms PCV.Props.C40.nesting_patched_correct
#print axioms PCV.Props.C40.nesting_refuted_lost
#print axioms PCV.Props.C40.nesting_refuted_overlap
#print axioms PCV.Props.C40.C40_full_refuted
#print axioms PCV.Props.C40.C40_partial
